(* C12 - crash at a storage-operation boundary.  Definitions only (proofs: Crash/StmtProgProofs.v).

   Store      : key -> option value (abstract cells: one cell per storage function's target row set).
   Statement  : a total update of the store.  SSet = upsert / delete whose key and value are fixed by the call's INPUT;
                SBump = read-modify-write (ratchet advance, "epoch := epoch + 1"); SCopy = copy of one cell into another
                (snapshot / restore); SSetIfAbsent = "only apply if g is absent" (e.g. only if no pending commit).
   Unit       : what SQLite makes atomic - one autocommitted statement, or a bracketed transaction / savepoint (ONE unit).
   crash k p  : the first k units of p applied (process death between units).
   Small-step : the bracket executed statement by statement on a working copy that COMMIT installs and an abort discards
                (crash_small); bracket_atomic relates the two.
   Call       : a program with an optional guard evaluated on the store when the call starts (the call does nothing if the
                guard fails: "message cannot be decrypted any more", "no pending commit", "welcome already processed").
   ASSUMED, not modelled: SQLite's journaling / fsync, i.e. that an autocommitted statement and a committed transaction
   are atomic and durable and that an abandoned connection's open transaction is rolled back. *)
From Coq Require Import List String NArith Bool.
Import ListNotations.
Local Open Scope N_scope.

Definition key := N.
Definition value := N.
Definition store := key -> option value.
Definition empty : store := fun _ => None.
Definition upd (s : store) (k : key) (v : option value) : store := fun k' => if N.eqb k' k then v else s k'.

Inductive stmt :=
| SSet (k : key) (v : option value)
| SBump (k : key)
| SCopy (src dst : key)
| SSetIfAbsent (g k : key) (v : option value).

Definition exec_stmt (st : stmt) (s : store) : store :=
  match st with
  | SSet k v => upd s k v
  | SBump k => upd s k (match s k with Some n => Some (n + 1) | None => Some 1 end)
  | SCopy src dst => upd s dst (s src)
  | SSetIfAbsent g k v => match s g with None => upd s k v | Some _ => s end
  end.

Definition exec_stmts (sts : list stmt) (s : store) : store := fold_left (fun s st => exec_stmt st s) sts s.

Inductive aunit := Auto (st : stmt) | Tx (sts : list stmt).
Definition prog := list aunit.

Definition apply_unit (u : aunit) (s : store) : store :=
  match u with Auto st => exec_stmt st s | Tx sts => exec_stmts sts s end.
Fixpoint run (p : prog) (s : store) : store := match p with [] => s | u :: p' => run p' (apply_unit u s) end.
Definition crash (k : nat) (p : prog) (s : store) : store := run (firstn k p) s.

(* ---- explicit small-step execution of brackets *)
Inductive instr := IStmt (st : stmt) | IBegin | ICommit.
Definition flat_unit (u : aunit) : list instr :=
  match u with Auto st => [IStmt st] | Tx sts => IBegin :: map IStmt sts ++ [ICommit] end.
Definition flatten (p : prog) : list instr := flat_map flat_unit p.

Record mstate := { db : store; work : option store }.
Definition step (i : instr) (m : mstate) : mstate :=
  match i, work m with
  | IStmt st, None => {| db := exec_stmt st (db m); work := None |}
  | IStmt st, Some w => {| db := db m; work := Some (exec_stmt st w) |}
  | IBegin, _ => {| db := db m; work := Some (db m) |}
  | ICommit, Some w => {| db := w; work := None |}
  | ICommit, None => m
  end.
Definition exec_instrs (is : list instr) (m : mstate) : mstate := fold_left (fun m i => step i m) is m.
(* process death after k instructions: the connection is abandoned, the open transaction (working copy) is discarded *)
Definition crash_small (k : nat) (is : list instr) (s : store) : store :=
  db (exec_instrs (firstn k is) {| db := s; work := None |}).

(* ---- input-determined programs *)
Definition determined_stmt (st : stmt) : bool := match st with SSet _ _ => true | _ => false end.
Definition determined_unit (u : aunit) : bool :=
  match u with Auto st => determined_stmt st | Tx sts => forallb determined_stmt sts end.
Definition determined (p : prog) : bool := forallb determined_unit p.

Definition assigns := list (key * option value).
Definition assigns_of_stmt (st : stmt) : assigns := match st with SSet k v => [(k, v)] | _ => [] end.
Definition assigns_of_unit (u : aunit) : assigns :=
  match u with Auto st => assigns_of_stmt st | Tx sts => flat_map assigns_of_stmt sts end.
Definition assigns_of (p : prog) : assigns := flat_map assigns_of_unit p.
Fixpoint set_many (l : assigns) (s : store) : store :=
  match l with [] => s | (k, v) :: l' => set_many l' (upd s k v) end.
Fixpoint lookup_last (l : assigns) (x : key) : option (option value) :=
  match l with
  | [] => None
  | (k, v) :: l' => match lookup_last l' x with Some r => Some r | None => if N.eqb x k then Some v else None end
  end.
Definition touches (p : prog) (x : key) : bool := match lookup_last (assigns_of p) x with Some _ => true | None => false end.

(* ---- calls: guard + body *)
Record call := { guard : option (key * option value); body : prog }.
Definition guard_ok (c : call) (s : store) : bool :=
  match guard c with
  | None => true
  | Some (g, v) => match s g, v with
                   | Some a, Some b => N.eqb a b
                   | None, None => true
                   | _, _ => false
                   end
  end.
Definition run_call (c : call) (s : store) : store := if guard_ok c s then run (body c) s else s.
Definition crash_call (k : nat) (c : call) (s : store) : store := if guard_ok c s then crash k (body c) s else s.
(* recovery: make the call again on the store the crash left *)
Definition recover (k : nat) (c : call) (s : store) : store := run_call c (crash_call k c s).
Definition guard_untouched (c : call) : bool :=
  match guard c with None => true | Some (g, _) => negb (touches (body c) g) end.

(* =====================================================================================================
   The concrete programs: the write units of each API-call kind, in execution order, as recorded by the
   `verif-hooks` tick trace (crash_diff emits `CR <kind> <units>`; the OCaml handler answers with prog_of_kind).
   `tx:<fn>` is the bracket of <fn> (all its statements are one unit).
   ===================================================================================================== *)
Local Open Scope string_scope.

Definition merge_writes : list string :=
  ["write_group_state"; "write_tree"; "write_confirmation_tag"; "write_context"; "write_interim_transcript_hash";
   "write_group_epoch_secrets"; "write_message_secrets"; "write_encryption_epoch_key_pairs";
   "delete_encryption_epoch_key_pairs"; "clear_proposal_queue"; "write_resumption_psk_store"; "delete_own_leaf_nodes"].
Definition new_group_writes : list string :=
  ["write_tree"; "write_confirmation_tag"; "write_context"; "write_interim_transcript_hash"; "write_group_epoch_secrets";
   "write_own_leaf_index"; "write_message_secrets"; "write_resumption_psk_store"; "write_mls_join_config"; "write_group_state"].

Definition prog_process_application : list string :=
  ["save_group_exporter_secret"; "write_message_secrets"; "save_message"; "save_processed_message"; "save_group"].
Definition prog_process_commit : list string :=
  ["write_message_secrets"; "tx:snapshot_group_state"] ++ merge_writes ++
  ["save_group_exporter_secret"; "tx:replace_group_relays"; "save_group"; "save_processed_message"].
Definition prog_process_commit_rollback : list string :=
  ["tx:restore_group_from_snapshot"; "invalidate_messages_after_epoch"; "invalidate_processed_messages_after_epoch"] ++
  prog_process_commit.
Definition prog_process_proposal_admin : list string :=
  ["save_group_exporter_secret"; "write_message_secrets"; "queue_proposal"; "write_group_state"; "write_message_secrets";
   "save_processed_message"].
Definition prog_process_proposal_member : list string :=
  ["save_group_exporter_secret"; "write_message_secrets"; "queue_proposal"; "save_processed_message"].
Definition prog_own_commit_echo : list string :=
  ["tx:snapshot_group_state"] ++ merge_writes ++
  ["save_group_exporter_secret"; "tx:replace_group_relays"; "save_group"; "save_group"; "save_processed_message"].
Definition prog_merge_pending_commit : list string :=
  merge_writes ++ ["tx:replace_group_relays"; "save_group"; "save_group"].
Definition prog_self_update : list string :=
  ["write_signature_key_pair"; "write_group_state"; "write_message_secrets"; "save_group_exporter_secret"; "save_processed_message"].
Definition prog_update_group_data : list string :=
  ["write_group_state"; "write_message_secrets"; "save_group_exporter_secret"; "save_processed_message"].
Definition prog_create_message : list string :=
  ["write_message_secrets"; "save_group_exporter_secret"; "save_message"; "save_processed_message"; "save_group"].
Definition prog_create_group : list string :=
  ["write_signature_key_pair"] ++ new_group_writes ++
  ["write_encryption_epoch_key_pairs"; "write_group_state"; "write_message_secrets"] ++ merge_writes ++
  ["save_group"; "tx:replace_group_relays"].
Definition prog_process_welcome : list string :=
  ["save_group"; "tx:replace_group_relays"; "save_welcome"; "save_processed_welcome"].   (* since the fix: the welcome first *)
Definition prog_accept_welcome : list string :=
  ["write_encryption_epoch_key_pairs"] ++ new_group_writes ++ ["save_welcome"; "save_group"; "tx:replace_group_relays";
     (* since fix 9439c27: sync_group_metadata_from_mls *) "tx:replace_group_relays"; "save_group"].
Definition prog_create_group_snapshot : list string := ["tx:snapshot_group_state"].
Definition prog_rollback_group_to_snapshot : list string := ["tx:restore_group_from_snapshot"].
Definition prog_replace_group_relays : list string := ["tx:replace_group_relays"].

Definition programs : list (string * list string) :=
  [("process_application", prog_process_application); ("process_commit", prog_process_commit);
   ("process_commit_rollback", prog_process_commit_rollback); ("process_proposal_admin", prog_process_proposal_admin);
   ("process_proposal_member", prog_process_proposal_member); ("own_commit_echo", prog_own_commit_echo);
   ("merge_pending_commit", prog_merge_pending_commit); ("self_update", prog_self_update);
   ("update_group_data", prog_update_group_data); ("create_message", prog_create_message);
   ("create_group", prog_create_group); ("process_welcome", prog_process_welcome); ("accept_welcome", prog_accept_welcome);
   ("create_group_snapshot", prog_create_group_snapshot); ("rollback_group_to_snapshot", prog_rollback_group_to_snapshot);
   ("replace_group_relays", prog_replace_group_relays)].
Definition prog_of_kind (kind : string) : list string :=
  match find (fun e => String.eqb (fst e) kind) programs with Some e => snd e | None => [] end.

(* ---- semantics of the labels.  Cell numbers: one cell per storage function's target. *)
Definition cells : list (string * N) :=
  [("write_message_secrets", 1%N); ("write_group_state", 2%N); ("write_tree", 3%N); ("write_confirmation_tag", 4%N); ("write_context", 5%N);
   ("write_interim_transcript_hash", 6%N); ("write_group_epoch_secrets", 7%N); ("write_encryption_epoch_key_pairs", 8%N);
   ("delete_encryption_epoch_key_pairs", 9%N); ("clear_proposal_queue", 10%N); ("write_resumption_psk_store", 11%N);
   ("delete_own_leaf_nodes", 12%N); ("save_group_exporter_secret", 13%N); ("save_group", 14%N); ("save_processed_message", 15%N);
   ("save_message", 16%N); ("queue_proposal", 10%N); ("write_signature_key_pair", 17%N); ("write_own_leaf_index", 18%N);
   ("write_mls_join_config", 19%N); ("save_processed_welcome", 20%N); ("save_welcome", 21%N);
   ("invalidate_messages_after_epoch", 16%N); ("invalidate_processed_messages_after_epoch", 15%N)].
Definition cell_of (l : string) : N := match find (fun e => String.eqb (fst e) l) cells with Some e => snd e | None => 99%N end.
Definition cell_relays : N := 30%N.
Definition cell_snapshot : N := 31%N.      (* the stored snapshot the call creates / consumes *)
Definition live_cells : list N := [1; 2; 3; 4; 5; 6; 7; 8; 13; 14; 30]%N.
Definition snap_base : N := 100%N.         (* snapshot copy of live cell c lives at snap_base + c *)

(* new value written by the call for a cell: fixed by the call's input (event / rumor / pending commit), abstracted as
   `ver`; deletes write None *)
Definition is_delete (l : string) : bool :=
  String.eqb l "delete_encryption_epoch_key_pairs" || String.eqb l "clear_proposal_queue" || String.eqb l "delete_own_leaf_nodes".

(* `off` shifts the cells of calls that draw a fresh identifier (create_group: a fresh group id per attempt) *)
Definition unit_of_label (off : N) (ver : value) (l : string) : aunit :=
  if String.eqb l "tx:replace_group_relays" then Tx [SSet (off + cell_relays)%N None; SSet (off + cell_relays)%N (Some ver)]
  else if String.eqb l "tx:snapshot_group_state" then
    Tx (SSet cell_snapshot None :: map (fun c => SCopy c (snap_base + c)%N) live_cells ++ [SSet cell_snapshot (Some ver)])
  else if String.eqb l "tx:restore_group_from_snapshot" then
    Tx (map (fun c => SCopy (snap_base + c)%N c) live_cells ++ [SSet cell_snapshot None])
  else Auto (SSet (off + cell_of l)%N (if is_delete l then None else Some ver)).
Definition sem (off : N) (ver : value) (p : list string) : prog := map (unit_of_label off ver) p.

(* The guard of each call kind: what the call checks on the store before it does anything.
   receiving side  : the message's decryption secret is still in the ratchet (cell 1 holds the pre-call value 0);
                     OpenMLS persists the advanced ratchet (write_message_secrets) as soon as the message is decrypted
   merge / own echo: a pending commit is stored (cell 2, group state, holds 0 = PendingCommit)
   process_welcome : no processed-welcome record for the event (cell 20 absent)
   accept_welcome  : no guard (the welcome event is processed again - process_welcome returns the stored welcome whatever its
                     state - and accepted again; an earlier version of this model assumed applications only re-accept welcomes
                     still listed as pending: that was the harness's assumption, not the code's, and the finding built on it was a false alarm)
   rollback        : the snapshot is stored (cell 31 holds 0)
   local creating calls (create_message, self_update, update_group_data, create_group, snapshot, relays): no guard. *)
Definition guard_of_kind (kind : string) : option (key * option value) :=
  if String.eqb kind "process_application" || String.eqb kind "process_commit" || String.eqb kind "process_proposal_admin"
     || String.eqb kind "process_proposal_member" then Some (1%N, Some 0%N)
  else if String.eqb kind "own_commit_echo" || String.eqb kind "merge_pending_commit" then Some (2%N, Some 0%N)
  else if String.eqb kind "process_welcome" then Some (20%N, None)

  else if String.eqb kind "rollback_group_to_snapshot" || String.eqb kind "process_commit_rollback" then Some (cell_snapshot, Some 0%N)
  else None.
Definition call_of_kind (kind : string) : call := {| guard := guard_of_kind kind; body := sem 0 1 (prog_of_kind kind) |}.

(* unit-by-unit classification: a unit is input-determined, or state-dependent because it copies cells (snapshot / restore
   brackets) or because it rewrites the cell the call's guard reads (after it, the same call is refused) *)
Definition unit_copies (l : string) : bool := negb (determined_unit (unit_of_label 0 1 l)).
Definition unit_rewrites_guard (kind : string) (l : string) : bool :=
  match guard_of_kind kind with Some (g, _) => touches [unit_of_label 0 1 l] g | None => false end.
Definition unit_state_dependent (kind : string) (l : string) : bool := unit_copies l || unit_rewrites_guard kind l.
Definition first_index (f : string -> bool) (p : list string) : option nat :=
  (fix go (p : list string) (i : nat) := match p with [] => None | l :: p' => if f l then Some i else go p' (S i) end) p O.
Definition first_guard_rewrite (kind : string) : option nat := first_index (unit_rewrites_guard kind) (prog_of_kind kind).
(* the store in which every guard holds: ratchet / group state / welcome / snapshot cells at their pre-call value 0 *)
Definition pre_store : store := fun k => if N.eqb k 1 || N.eqb k 2 || N.eqb k 21 || N.eqb k cell_snapshot then Some 0%N else None.
(* smallest crash index k (in units) after which making the call again does not reach the uninterrupted result,
   observed on the cells 0..140 *)
Definition observed : list N := map N.of_nat (seq 0 141).
Definition same_on (l : list N) (a b : store) : bool :=
  forallb (fun k => match a k, b k with Some x, Some y => N.eqb x y | None, None => true | _, _ => false end) l.
Definition recovers (kind : string) (k : nat) : bool :=
  let c := call_of_kind kind in same_on observed (recover k c pre_store) (run_call c pre_store).
Definition smallest_failing_k (kind : string) : option nat :=
  find (fun k => negb (recovers kind k)) (seq 0 (S (List.length (prog_of_kind kind)))).

(* create_group draws a fresh group id on every attempt: the retry writes the cells shifted by a different offset;
   only group rows and relays are visible through the API (orphaned MLS rows are not) *)
Definition api_cells : list N := [14; 30; 54; 70]%N.   (* group row and relays of the first and of the second attempt's id *)
Definition create_group_retry_same (k : nat) : bool :=
  same_on api_cells (run (sem 40 1 prog_create_group) (crash k (sem 0 1 prog_create_group) pre_store))
                   (run (sem 40 1 prog_create_group) pre_store).

(* rendering used by the correspondence handler *)
Definition show_prog (kind : string) : string := String.concat "," (prog_of_kind kind).
