(* C12 - proofs about Crash/StmtProg.v. *)
From Coq Require Import List String NArith Bool Lia Arith PeanoNat.
From MDK Require Import Crash.StmtProg Gen.SqlTables Store.SqlTie Gen.TxBrackets.
Import ListNotations.
Local Open Scope N_scope.

(* ------------------------------------------------------------------ small-step brackets *)
Lemma exec_instrs_app : forall a b m, exec_instrs (a ++ b) m = exec_instrs b (exec_instrs a m).
Proof. intros a b m. unfold exec_instrs. apply fold_left_app. Qed.

Lemma exec_instrs_in_tx : forall sts d w,
  exec_instrs (map IStmt sts) {| db := d; work := Some w |} = {| db := d; work := Some (exec_stmts sts w) |}.
Proof.
  induction sts as [|st sts IH]; intros d w; [reflexivity|].
  cbn [map]. unfold exec_instrs in *. cbn [fold_left]. unfold step at 2. cbn [work db].
  rewrite IH. reflexivity.
Qed.

Lemma exec_flat_unit : forall u s,
  exec_instrs (flat_unit u) {| db := s; work := None |} = {| db := apply_unit u s; work := None |}.
Proof.
  intros [st|sts] s; [reflexivity|].
  cbn [flat_unit apply_unit].
  change (IBegin :: map IStmt sts ++ [ICommit]) with ([IBegin] ++ map IStmt sts ++ [ICommit]).
  rewrite !exec_instrs_app.
  change (exec_instrs [IBegin] {| db := s; work := None |}) with {| db := s; work := Some s |}.
  rewrite exec_instrs_in_tx. reflexivity.
Qed.

Lemma exec_flatten : forall p s,
  exec_instrs (flatten p) {| db := s; work := None |} = {| db := run p s; work := None |}.
Proof.
  induction p as [|u p IH]; intros s; [reflexivity|].
  unfold flatten in *. cbn [flat_map]. rewrite exec_instrs_app, exec_flat_unit, IH. reflexivity.
Qed.

Lemma flatten_app : forall a b, flatten (a ++ b) = flatten a ++ flatten b.
Proof. intros a b. unfold flatten. apply flat_map_app. Qed.

Lemma firstn_map_le : forall (sts : list stmt) k rest, (k <= List.length sts)%nat ->
  firstn k (map IStmt sts ++ rest) = map IStmt (firstn k sts).
Proof.
  intros sts k rest Hk. rewrite firstn_app, map_length.
  replace (k - List.length sts)%nat with O by lia. cbn [firstn]. rewrite app_nil_r. apply firstn_map.
Qed.

(* A crash at any instruction strictly inside a bracket (after its BEGIN, before its COMMIT has executed) leaves exactly
   the store of a crash before the bracket; once COMMIT has executed the whole unit is applied. *)
Lemma bracket_atomic : forall pre sts post k s, (k <= List.length sts)%nat ->
  crash_small (List.length (flatten pre) + S k) (flatten (pre ++ Tx sts :: post)) s
  = crash (List.length pre) (pre ++ Tx sts :: post) s.
Proof.
  intros pre sts post k s Hk.
  unfold crash_small, crash.
  rewrite flatten_app, firstn_app_2.
  replace (firstn (List.length pre) (pre ++ Tx sts :: post)) with pre
    by (rewrite <- (Nat.add_0_r (List.length pre)), firstn_app_2; cbn [firstn]; now rewrite app_nil_r).
  rewrite exec_instrs_app, exec_flatten.
  assert (E : firstn (S k) (flatten (Tx sts :: post)) = [IBegin] ++ map IStmt (firstn k sts)).
  { unfold flatten. cbn [flat_map flat_unit app firstn]. f_equal. rewrite <- app_assoc. apply firstn_map_le, Hk. }
  rewrite E, exec_instrs_app.
  change (exec_instrs [IBegin] {| db := run pre s; work := None |}) with {| db := run pre s; work := Some (run pre s) |}.
  rewrite exec_instrs_in_tx. reflexivity.
Qed.

Lemma bracket_committed : forall pre sts post s,
  crash_small (List.length (flatten pre) + S (S (List.length sts))) (flatten (pre ++ Tx sts :: post)) s
  = crash (S (List.length pre)) (pre ++ Tx sts :: post) s.
Proof.
  intros pre sts post s.
  unfold crash_small, crash.
  rewrite flatten_app, firstn_app_2.
  replace (firstn (S (List.length pre)) (pre ++ Tx sts :: post)) with (pre ++ [Tx sts]).
  2:{ replace (S (List.length pre)) with (List.length pre + 1)%nat by lia. rewrite firstn_app_2. reflexivity. }
  rewrite exec_instrs_app, exec_flatten.
  unfold flatten at 1. cbn [flat_map].
  replace (S (S (List.length sts))) with (List.length (flat_unit (Tx sts)) + 0)%nat
    by (cbn [flat_unit List.length]; rewrite app_length, map_length; cbn; lia).
  rewrite firstn_app_2. cbn [firstn]. rewrite app_nil_r, exec_flat_unit.
  cbn [db]. clear. induction pre as [|u pre IH] in s |- *; [reflexivity|]. cbn [app run]. apply IH.
Qed.

Corollary single_bracket_atomic : forall sts k s, (k <= List.length sts)%nat -> crash_small (S k) (flatten [Tx sts]) s = s.
Proof. intros sts k s Hk. exact (bracket_atomic [] sts [] k s Hk). Qed.

(* ------------------------------------------------------------------ input-determined programs *)
Lemma set_many_app : forall a b s, set_many (a ++ b) s = set_many b (set_many a s).
Proof. induction a as [|[k v] a IH]; intros b s; [reflexivity|]. cbn [app set_many]. apply IH. Qed.

Lemma set_many_lookup : forall l s x, set_many l s x = match lookup_last l x with Some v => v | None => s x end.
Proof.
  induction l as [|[k v] l IH]; intros s x; [reflexivity|].
  cbn [set_many lookup_last]. rewrite IH.
  destruct (lookup_last l x) as [r|]; [reflexivity|].
  unfold upd. destruct (N.eqb x k); reflexivity.
Qed.

Lemma lookup_last_app : forall a b x,
  lookup_last (a ++ b) x = match lookup_last b x with Some r => Some r | None => lookup_last a x end.
Proof.
  induction a as [|[k v] a IH]; intros b x.
  - cbn [app lookup_last]. destruct (lookup_last b x); reflexivity.
  - cbn [app lookup_last]. rewrite IH. destruct (lookup_last b x); reflexivity.
Qed.

Lemma exec_stmts_determined : forall sts s, forallb determined_stmt sts = true ->
  exec_stmts sts s = set_many (flat_map assigns_of_stmt sts) s.
Proof.
  induction sts as [|st sts IH]; intros s H; [reflexivity|].
  cbn [forallb] in H. apply andb_true_iff in H as [H1 H2].
  destruct st; try discriminate H1.
  unfold exec_stmts in *. cbn [fold_left flat_map assigns_of_stmt app set_many exec_stmt]. apply IH, H2.
Qed.

Lemma apply_unit_determined : forall u s, determined_unit u = true -> apply_unit u s = set_many (assigns_of_unit u) s.
Proof.
  intros [st|sts] s H.
  - destruct st; try discriminate H. reflexivity.
  - apply exec_stmts_determined, H.
Qed.

Lemma run_determined : forall p s, determined p = true -> run p s = set_many (assigns_of p) s.
Proof.
  induction p as [|u p IH]; intros s H; [reflexivity|].
  unfold determined in H. cbn [forallb] in H. apply andb_true_iff in H as [H1 H2].
  unfold assigns_of. cbn [run flat_map]. rewrite set_many_app, <- apply_unit_determined by exact H1. apply IH, H2.
Qed.

Lemma determined_firstn : forall k p, determined p = true -> determined (firstn k p) = true.
Proof.
  induction k as [|k IH]; intros [|u p] H; try reflexivity.
  unfold determined in *. cbn [firstn forallb] in *. apply andb_true_iff in H as [H1 H2].
  rewrite H1. cbn. apply IH, H2.
Qed.

Lemma assigns_split : forall k p, assigns_of p = assigns_of (firstn k p) ++ assigns_of (skipn k p).
Proof. intros k p. unfold assigns_of. rewrite <- flat_map_app, firstn_skipn. reflexivity. Qed.

(* Re-executing the whole call after a crash at ANY unit boundary gives the uninterrupted result, provided every unit is
   an upsert / delete fixed by the call's input (any program length, any store, any k). *)
Lemma recover_idempotent : forall p, determined p = true ->
  forall k s x, run p (crash k p s) x = run p s x.
Proof.
  intros p Hd k s x. unfold crash.
  rewrite (run_determined (firstn k p) s) by (apply determined_firstn, Hd).
  rewrite !(run_determined p) by exact Hd.
  rewrite (assigns_split k p), !set_many_lookup, lookup_last_app.
  destruct (lookup_last (assigns_of (skipn k p)) x) as [r|]; [reflexivity|].
  destruct (lookup_last (assigns_of (firstn k p)) x) as [r|]; reflexivity.
Qed.

Lemma crash_untouched : forall p, determined p = true -> forall k s x, touches p x = false -> crash k p s x = s x.
Proof.
  intros p Hd k s x Ht. unfold crash.
  rewrite (run_determined (firstn k p) s) by (apply determined_firstn, Hd).
  rewrite set_many_lookup.
  unfold touches in Ht. rewrite (assigns_split k p), lookup_last_app in Ht.
  destruct (lookup_last (assigns_of (skipn k p)) x); [discriminate Ht|].
  destruct (lookup_last (assigns_of (firstn k p)) x); [discriminate Ht|reflexivity].
Qed.

(* ... also for a call with a guard, provided no unit rewrites the cell the guard reads *)
Lemma recover_idempotent_call : forall c, determined (body c) = true -> guard_untouched c = true ->
  forall k s x, recover k c s x = run_call c s x.
Proof.
  intros c Hd Hg k s x. unfold recover, run_call, crash_call.
  destruct (guard_ok c s) eqn:G.
  - assert (G' : guard_ok c (crash k (body c) s) = true).
    { unfold guard_ok, guard_untouched in *. destruct (guard c) as [[g v]|]; [|reflexivity].
      apply negb_true_iff in Hg. rewrite (crash_untouched (body c) Hd k s g Hg). exact G. }
    rewrite G'. apply recover_idempotent, Hd.
  - rewrite G. reflexivity.
Qed.

(* A read-modify-write unit breaks it: "epoch := epoch + 1" executed, crash, executed again. *)
Lemma recover_not_idempotent_refuted :
  (exists p k s x, run p (crash k p s) x <> run p s x) /\
  (exists c k s x, determined (body c) = true /\ recover k c s x <> run_call c s x).
Proof.
  split.
  - exists [Auto (SBump 0)], 1%nat, empty, 0. vm_compute. discriminate.
  - (* "only apply if no pending commit": the guard cell is rewritten by the call's first unit *)
    exists {| guard := Some (0, None); body := [Auto (SSet 0 (Some 1)); Auto (SSet 1 (Some 1))] |}, 1%nat, empty, 1.
    split; [reflexivity|]. vm_compute. discriminate.
Qed.

(* ------------------------------------------------------------------ the concrete programs *)
Lemma same_on_false : forall l a b, same_on l a b = false -> exists x, a x <> b x.
Proof.
  induction l as [|k l IH]; intros a b H; [discriminate H|].
  unfold same_on in *. cbn [forallb] in H. apply andb_false_iff in H as [H|H].
  - exists k. destruct (a k) as [x|], (b k) as [y|]; try discriminate.
    intros E. injection E as E. subst y. rewrite N.eqb_refl in H. discriminate H.
  - apply IH, H.
Qed.

Definition kinds : list string := map fst programs.
Definition recoverable_kinds : list string :=
  ["self_update"; "update_group_data"; "create_message"; "replace_group_relays"; "accept_welcome"]%string.

(* every unit of these kinds is input-determined and none rewrites a guard cell *)
Lemma recoverable_kinds_determined :
  forallb (fun kd => determined (body (call_of_kind kd)) && guard_untouched (call_of_kind kd)) recoverable_kinds = true.
Proof. vm_compute. reflexivity. Qed.

Lemma crash_recoverable_kind : forall kd, In kd recoverable_kinds ->
  forall k s x, recover k (call_of_kind kd) s x = run_call (call_of_kind kd) s x.
Proof.
  intros kd Hin. pose proof recoverable_kinds_determined as H. rewrite forallb_forall in H.
  specialize (H kd Hin). apply andb_true_iff in H as [H1 H2]. apply recover_idempotent_call; assumption.
Qed.

Lemma crash_recoverable_self_update : forall k s x, recover k (call_of_kind "self_update") s x = run_call (call_of_kind "self_update") s x.
Proof. apply crash_recoverable_kind. vm_compute. tauto. Qed.
Lemma crash_recoverable_update_group_data : forall k s x, recover k (call_of_kind "update_group_data") s x = run_call (call_of_kind "update_group_data") s x.
Proof. apply crash_recoverable_kind. vm_compute. tauto. Qed.
Lemma crash_recoverable_create_message : forall k s x, recover k (call_of_kind "create_message") s x = run_call (call_of_kind "create_message") s x.
Proof. apply crash_recoverable_kind. vm_compute. tauto. Qed.
Lemma crash_recoverable_replace_group_relays : forall k s x, recover k (call_of_kind "replace_group_relays") s x = run_call (call_of_kind "replace_group_relays") s x.
Proof. apply crash_recoverable_kind. vm_compute. tauto. Qed.

(* the two single-bracket calls that copy cells (not input-determined): a crash is either before the bracket (k = 0:
   nothing happened, recovery = the call itself) or after its commit; on the reference store both recover *)
Lemma crash_recoverable_snapshot_kinds :
  (forall kd s x, recover 0 (call_of_kind kd) s x = run_call (call_of_kind kd) s x) /\
  recovers "create_group_snapshot" 1 = true /\ recovers "rollback_group_to_snapshot" 1 = true.
Proof.
  split; [|split; vm_compute; reflexivity].
  intros kd s x. unfold recover, crash_call, crash. cbn [firstn run].
  destruct (guard_ok (call_of_kind kd) s); reflexivity.
Qed.

(* kinds whose recovery fails: the smallest crash index (in units) after which calling again does not reach the
   uninterrupted result, all smaller indices recover *)
Definition refuted_at (kd : string) (n : nat) : Prop :=
  smallest_failing_k kd = Some n /\ recovers kd n = false /\ forallb (recovers kd) (seq 0 n) = true.

Lemma refuted_witness : forall kd n, refuted_at kd n ->
  exists x, recover n (call_of_kind kd) pre_store x <> run_call (call_of_kind kd) pre_store x.
Proof. intros kd n (_ & H & _). unfold recovers in H. apply same_on_false in H. exact H. Qed.

Lemma crash_not_recoverable_process_application : refuted_at "process_application" 2.
Proof. repeat split; vm_compute; reflexivity. Qed.
Lemma crash_not_recoverable_process_commit : refuted_at "process_commit" 1.
Proof. repeat split; vm_compute; reflexivity. Qed.
Lemma crash_not_recoverable_process_commit_rollback : refuted_at "process_commit_rollback" 1.
Proof. repeat split; vm_compute; reflexivity. Qed.
Lemma crash_not_recoverable_process_proposal_admin : refuted_at "process_proposal_admin" 2.
Proof. repeat split; vm_compute; reflexivity. Qed.
Lemma crash_not_recoverable_process_proposal_member : refuted_at "process_proposal_member" 2.
Proof. repeat split; vm_compute; reflexivity. Qed.
Lemma crash_not_recoverable_own_commit_echo : refuted_at "own_commit_echo" 2.
Proof. repeat split; vm_compute; reflexivity. Qed.
Lemma crash_not_recoverable_merge_pending_commit : refuted_at "merge_pending_commit" 1.
Proof. repeat split; vm_compute; reflexivity. Qed.
(* process_welcome: since the fix (welcome stored before the processed-welcome record) a crash at any unit recovers *)
Lemma crash_recoverable_process_welcome_units : smallest_failing_k "process_welcome" = None /\ forallb (recovers "process_welcome") (seq 0 8) = true.
Proof. split; vm_compute; reflexivity. Qed.
(* accept_welcome: every unit is input-determined and the call has no guard of its own (the welcome event is processed
   again and accepted again): recoverable at every cut, on every store *)
Lemma crash_recoverable_accept_welcome : forall k s x, recover k (call_of_kind "accept_welcome") s x = run_call (call_of_kind "accept_welcome") s x.
Proof. apply crash_recoverable_kind. vm_compute. tauto. Qed.
(* create_group: the retry draws a fresh group id; the group row of the interrupted attempt stays behind *)
Lemma crash_not_recoverable_create_group :
  create_group_retry_same 27 = false /\ forallb create_group_retry_same (seq 0 27) = true.
Proof. split; vm_compute; reflexivity. Qed.

(* the unit-by-unit classification explains the failures: recovery first fails right after the first unit that rewrites
   the cell the call's guard reads (unless that unit is the call's last one); kinds without such a unit recover *)
Lemma classification_explains_failures :
  forallb (fun kd =>
    match smallest_failing_k kd, first_guard_rewrite kd with
    | Some n, Some i => Nat.eqb n (S i)
    | None, Some i => Nat.eqb (S i) (List.length (prog_of_kind kd))   (* rewriting the guard in the LAST unit is harmless *)
    | None, None => true
    | Some _, None => false
    end) kinds = true.
Proof. vm_compute. reflexivity. Qed.

(* what the correspondence handler prints is the program the theorems are about (16 kinds, distinct names) *)
Lemma current_programs_match_trace :
  List.length programs = 16%nat /\ NoDup kinds /\
  forall kd, body (call_of_kind kd) = sem 0 1 (prog_of_kind kd).
Proof.
  split; [reflexivity|]. split; [|reflexivity].
  unfold kinds. cbn. repeat (constructor; [cbn; intuition discriminate|]). constructor.
Qed.

(* ------------------------------------------------------------------ all-or-nothing of the three bracketed calls *)
Definition bracket_of (l : string) : list stmt := match unit_of_label 0 1 l with Tx sts => sts | Auto st => [st] end.

Lemma bracketed_call_atomic : forall kd l, prog_of_kind kd = [l] -> unit_of_label 0 1 l = Tx (bracket_of l) ->
  forall k s, (k <= List.length (bracket_of l))%nat -> crash_small (S k) (flatten (body (call_of_kind kd))) s = s.
Proof.
  intros kd l Hp Hu k s Hk. unfold call_of_kind. cbn [body]. rewrite Hp. unfold sem. cbn [map]. rewrite Hu.
  apply single_bracket_atomic, Hk.
Qed.

(* table facts from the source (regenerated on every run): every statement site of the three functions lies inside
   the function's BEGIN..COMMIT / SAVEPOINT..RELEASE bracket *)
Definition sites_all_inside (fn : string) : bool :=
  match find (fun e => String.eqb (fst e) fn) tx_brackets with
  | Some e => negb (Nat.eqb (List.length (snd e)) 0) && forallb (fun x => snd x) (snd e)
  | None => false
  end.

Lemma snapshot_atomic :
  sites_all_inside "snapshot_group_state" = true /\
  forall k s, (k <= List.length (bracket_of "tx:snapshot_group_state"))%nat ->
    crash_small (S k) (flatten (body (call_of_kind "create_group_snapshot"))) s = s.
Proof. split; [vm_compute; reflexivity|]. apply (bracketed_call_atomic "create_group_snapshot" "tx:snapshot_group_state"); reflexivity. Qed.

Lemma restore_atomic :
  sites_all_inside "restore_group_from_snapshot" = true /\ plan_all_in_tx = true /\
  forall k s, (k <= List.length (bracket_of "tx:restore_group_from_snapshot"))%nat ->
    crash_small (S k) (flatten (body (call_of_kind "rollback_group_to_snapshot"))) s = s.
Proof.
  split; [vm_compute; reflexivity|]. split; [vm_compute; reflexivity|].
  apply (bracketed_call_atomic "rollback_group_to_snapshot" "tx:restore_group_from_snapshot"); reflexivity.
Qed.

Lemma replace_relays_atomic :
  sites_all_inside "replace_group_relays" = true /\
  forall k s, (k <= List.length (bracket_of "tx:replace_group_relays"))%nat ->
    crash_small (S k) (flatten (body (call_of_kind "replace_group_relays"))) s = s.
Proof. split; [vm_compute; reflexivity|]. apply (bracketed_call_atomic "replace_group_relays" "tx:replace_group_relays"); reflexivity. Qed.

(* reopen: the model's store is total, every cell reads back (the database "opens" and every row "loads" trivially in the
   abstraction; on the implementation this is oracle (1)/(2) of crash_diff) *)
Lemma reopen_total : forall p k s x, exists v, crash k p s x = v.
Proof. intros. eexists. reflexivity. Qed.

(* non-vacuity: an interrupted process_commit really leaves a different store than the uninterrupted one, and the
   recoverable kinds really change the store *)
Example c12_nonvacuous :
  same_on observed (crash_call 1 (call_of_kind "process_commit") pre_store) (run_call (call_of_kind "process_commit") pre_store) = false /\
  same_on observed (run_call (call_of_kind "self_update") pre_store) pre_store = false /\
  same_on observed (recover 3 (call_of_kind "self_update") pre_store) (run_call (call_of_kind "self_update") pre_store) = true.
Proof. repeat split; vm_compute; reflexivity. Qed.
