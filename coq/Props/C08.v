(* C08 - the stored record mirrors the MLS state.  Statements only. *)
From MDK Require Import Base.Prelude Base.AMap Mdk.Engine Mdk.EngineSpec Mdk.EngineProofs.
From MDK Require Import Mdk.EngineProofs4 Mdk.EngineProofs5.

Theorem C08_inv_init : forall i a r, Inv (init_client i a r).
Proof. exact inv_init. Qed.
(* one lemma per epoch-advancing path, so that a missing synchronisation breaks exactly one *)
Theorem C08_inv_deliver : forall c e, Inv c -> Inv (fst (deliver c e)).
Proof. exact inv_deliver. Qed.
Theorem C08_inv_merge_pending : forall c, Inv c -> Inv (fst (merge_pending c)).
Proof. exact inv_merge_pending. Qed.
Theorem C08_inv_committed : forall c e, Inv c -> Inv (committed c e).
Proof. exact inv_committed. Qed.
Theorem C08_inv_clear : forall c, Inv c -> Inv (clear_pending c).
Proof. exact inv_clear. Qed.
Theorem C08_inv_sent : forall c e, Inv c -> Inv (sent c e).
Proof. exact inv_sent. Qed.
Theorem C08_inv_leave : forall c e, Inv c -> Inv (leave_created c e).
Proof. exact inv_leave. Qed.
Print Assumptions C08_inv_deliver.

(* hence after every API call of every history the record epoch of an active group equals the MLS epoch *)
Theorem C08_record_mirrors_mls : forall i a r ds, let c := deliver_all (init_client i a r) ds in
  k_active (kc c) = true -> k_rec_epoch (kc c) = k_epoch (kc c).
Proof. exact record_mirrors_mls. Qed.
Print Assumptions C08_record_mirrors_mls.

(* ---- a client that joins through a welcome starts with its record mirroring the MLS state, and keeps it along any run *)
Theorem C08_inv_join : forall i a r cur ep d, Inv (join_client i a r cur ep d).
Proof. exact inv_join. Qed.
Print Assumptions C08_inv_join.

Theorem C08_inv_join_run : forall i a r cur ep d ops,
  Inv (erun (join_client i a r cur ep d) ops) /\ queue_wf (erun (join_client i a r cur ep d) ops).
Proof. exact inv_join_erun. Qed.
Print Assumptions C08_inv_join_run.
