(* C08 - the stored record mirrors the MLS state.  Statements only. *)
From MDK Require Import Base.Prelude Base.AMap Mdk.Engine Mdk.EngineSpec Mdk.EngineProofs.
From MDK Require Import Mdk.Welcome Mdk.WelcomeProofs.
From MDK Require Import Mdk.EngineProofs4 Mdk.EngineProofs5.

Theorem C08_inv_init : forall i a r, Inv (init_client i a r).
Proof. exact inv_init. Qed.
(* one lemma per epoch-advancing path, so that a missing synchronisation breaks exactly one *)
Theorem C08_inv_deliver : forall c e, Inv c -> Inv (fst (deliver c e)).
Proof. exact inv_deliver. Qed.
Theorem C08_inv_merge_pending : forall c, Inv c -> Inv (fst (merge_pending c)).
Proof. exact inv_merge_pending. Qed.
Theorem C08_inv_committed : forall c e, Inv c -> Inv (committed c e).
Proof. exact inv_committed. Qed.
Theorem C08_inv_clear : forall c, Inv c -> Inv (clear_pending c).
Proof. exact inv_clear. Qed.
Theorem C08_inv_sent : forall c e, Inv c -> Inv (sent c e).
Proof. exact inv_sent. Qed.
Theorem C08_inv_leave : forall c e, Inv c -> Inv (leave_created c e).
Proof. exact inv_leave. Qed.
Print Assumptions C08_inv_deliver.

(* hence after every API call of every history the record epoch of an active group equals the MLS epoch *)
Theorem C08_record_mirrors_mls : forall i a r ds, let c := deliver_all (init_client i a r) ds in
  k_active (kc c) = true -> k_rec_epoch (kc c) = k_epoch (kc c).
Proof. exact record_mirrors_mls. Qed.
Print Assumptions C08_record_mirrors_mls.

(* ---- a client that joins through a welcome starts with its record mirroring the MLS state, and keeps it along any run *)
Theorem C08_inv_join : forall i a r cur ep d, Inv (join_client i a r cur ep d).
Proof. exact inv_join. Qed.
Print Assumptions C08_inv_join.

Theorem C08_inv_join_run : forall i a r cur ep d ops,
  Inv (erun (join_client i a r cur ep d) ops) /\ queue_wf (erun (join_client i a r cur ep d) ops).
Proof. exact inv_join_erun. Qed.
Print Assumptions C08_inv_join_run.

(* ---- the invitation path (Mdk/Welcome.v): a new decodable invitation to a group the user is not active in rewrites the
   stored record from the invitation, and accepting keeps epoch and group data; a member that processed its own removal is
   not active, so a later re-invitation refreshes its stale record *)
Theorem C08_invitation_refreshes_record : forall s w id,
  i_shape w = true -> aget N.eqb (i_wrapper w) (pwelcomes s) = None -> previewable s w = true ->
  is_active s (i_gid w) = false -> i_collides w = false -> i_id w = Some id ->
  let s1 := fst (process_welcome s w) in
  exists r, aget N.eqb (i_gid w) (groups s1) = Some r /\ g_state r = GS_PENDING /\ g_epoch r = i_epoch w /\ g_data r = i_data w.
Proof. exact invitation_refreshes_record. Qed.
Print Assumptions C08_invitation_refreshes_record.

(* accepting an invitation leaves the record of the joined group with the epoch and group data of the MLS state joined,
   whatever other invitation (older or newer) last wrote the pending record (before fix: the record kept what the LAST
   processed invitation said, so accepting an older invitation gave a record one or more epochs ahead of the MLS state) *)
Theorem C08_accept_record_mirrors_joined_state : forall s id wr r,
  aget N.eqb id (welcomes s) = Some wr -> previewable s (w_inv wr) = true ->
  aget N.eqb (w_gid wr) (groups s) = Some r ->
  exists r', aget N.eqb (w_gid wr) (groups (fst (accept_welcome s id))) = Some r' /\
             g_state r' = GS_ACTIVE /\ g_epoch r' = i_epoch (w_inv wr) /\ g_data r' = i_data (w_inv wr) /\
             aget N.eqb (w_gid wr) (mls (fst (accept_welcome s id))) = Some (i_state (w_inv wr)).
Proof. exact accept_record_mirrors_joined_state. Qed.
Print Assumptions C08_accept_record_mirrors_joined_state.

Theorem C08_removed_member_not_active : forall s g, is_active (evict s g) g = false.
Proof. exact evict_deactivates. Qed.
Print Assumptions C08_removed_member_not_active.
