(* C16 - invitations are idempotent, consent-gated and cannot disturb existing groups.  Statements only.
   Model: Mdk/Welcome.v (tied to the code by welcome_diff on both backends). *)
From MDK Require Import Base.Prelude Base.AMap Mdk.Welcome Mdk.WelcomeProofs.

(* no invitation - whatever it contains, whoever sent it, under whatever wrapper id, valid, replayed, malformed or for an MLS
   group id the recipient already holds - modifies the record or the MLS state of a group the recipient is active in *)
Theorem C16_process_cannot_disturb : forall s w g, active_rec s g ->
  aget N.eqb g (groups (fst (process_welcome s w))) = aget N.eqb g (groups s) /\ mls (fst (process_welcome s w)) = mls s.
Proof. exact process_cannot_disturb. Qed.
Print Assumptions C16_process_cannot_disturb.

Theorem C16_decline_cannot_disturb : forall s id g, active_rec s g ->
  aget N.eqb g (groups (fst (decline_welcome s id))) = aget N.eqb g (groups s) /\ mls (fst (decline_welcome s id)) = mls s.
Proof. exact decline_cannot_disturb. Qed.
Print Assumptions C16_decline_cannot_disturb.

(* a received, failed or declined invitation never yields an active group: only acceptance does *)
Theorem C16_process_no_new_active : forall s w g, active_rec (fst (process_welcome s w)) g -> active_rec s g.
Proof. exact process_no_new_active. Qed.
Theorem C16_decline_no_new_active : forall s id g, active_rec (fst (decline_welcome s id)) g -> active_rec s g.
Proof. exact decline_no_new_active. Qed.
Print Assumptions C16_decline_no_new_active.

(* processing the same invitation again returns the same stored welcome and creates nothing new *)
Theorem C16_same_wrapper_idempotent : forall s w s1 id,
  process_welcome s w = (s1, WOk id) -> process_welcome s1 w = (s1, WOk id).
Proof. exact same_wrapper_idempotent. Qed.
Print Assumptions C16_same_wrapper_idempotent.

Theorem C16_failed_creates_no_welcome : forall s w,
  snd (process_welcome s w) = WErr -> i_id w <> None -> welcomes (fst (process_welcome s w)) = welcomes s.
Proof. exact failed_creates_no_welcome. Qed.
Print Assumptions C16_failed_creates_no_welcome.

(* accepting puts the joiner in the inviter's post-commit state with the key-rotation obligation pending *)
Theorem C16_accept_joins : forall s id wr r,
  aget N.eqb id (welcomes s) = Some wr -> previewable s (w_inv wr) = true ->
  aget N.eqb (w_gid wr) (groups s) = Some r ->
  let s' := fst (accept_welcome s id) in
  snd (accept_welcome s id) = WDone /\
  aget N.eqb (w_gid wr) (mls s') = Some (i_state (w_inv wr)) /\
  exists r', aget N.eqb (w_gid wr) (groups s') = Some r' /\ g_state r' = GS_ACTIVE /\ g_su_required r' = true.
Proof. exact accept_joins. Qed.
Print Assumptions C16_accept_joins.

Example C16_example : welcome_example_statement.
Proof. exact welcome_example. Qed.

(* an invitation whose Nostr group id is already held by another stored group (i_collides: the harness computes it from the
   recipient's stored groups) is refused without recording anything - the routing of the group that holds the id cannot be
   taken over by processing an invitation *)
Theorem C16_colliding_invitation_no_effect : forall s w,
  i_shape w = true -> aget N.eqb (i_wrapper w) (pwelcomes s) = None -> previewable s w = true ->
  is_active s (i_gid w) = false -> i_collides w = true ->
  process_welcome s w = (s, WErr).
Proof. exact colliding_invitation_no_effect. Qed.
Print Assumptions C16_colliding_invitation_no_effect.
