(* C09 - Rollback restores exactly one group's state and destroys nothing else (storage contract level).
   ONLY statements; proofs in Store/ContractProofs.v.  The contract is tied to both backends by storage_diff. *)
From MDK Require Import Base.Prelude Base.AMap Store.Contract Store.ContractSpec Store.ContractProofs Store.SqlTie.

(* any operation sequence between snapshot and rollback, any number of groups and snapshots, any nesting *)
Theorem C09_rollback_exact : forall s g n ts ops,
  forallb (keeps g n ts) ops = true ->
  let s1 := fst (step s (Snapshot g n ts)) in
  let s2 := run_state ops s1 in
  let '(s3, r) := step s2 (Rollback g n) in
  r = ROk /\ view_of s3 g = view_of s g.
Proof. exact rollback_exact. Qed.
Print Assumptions C09_rollback_exact.

(* rollback of g destroys nothing else: messages, processed records, welcomes, global MLS rows are untouched
   (those of g included), every other group's view is untouched, and only snapshot (g, n) is consumed *)
Theorem C09_rollback_frame : forall s g n,
  let s' := fst (step s (Rollback g n)) in
  outside_view s' g = outside_view s g /\
  (forall g', g' <> g -> view_of s' g' = view_of s g') /\
  (forall g' n', (g', n') <> (g, n) -> aget pair_eqb (g', n') (snaps s') = aget pair_eqb (g', n') (snaps s)).
Proof. exact rollback_frame. Qed.
Print Assumptions C09_rollback_frame.

Theorem C09_rollback_consumes : forall s g n v,
  aget pair_eqb (g, n) (snaps s) = Some v -> NoDup (map fst (snaps s)) ->
  aget pair_eqb (g, n) (snaps (fst (step s (Rollback g n)))) = None.
Proof. exact rollback_consumes. Qed.
Print Assumptions C09_rollback_consumes.

Theorem C09_rollback_missing_noop : forall s g n,
  aget pair_eqb (g, n) (snaps s) = None -> step s (Rollback g n) = (s, RErr).
Proof. exact rollback_missing_noop. Qed.
Print Assumptions C09_rollback_missing_noop.

(* taking, releasing, listing or pruning snapshots changes no live state *)
Theorem C09_snapshot_ops_pure : forall s o, is_snapshot_op o = true -> live (fst (step s o)) = live s.
Proof. exact snapshot_ops_pure. Qed.
Print Assumptions C09_snapshot_ops_pure.

(* re-taking a snapshot under an existing name replaces it: the later view wins and there is one entry *)
Theorem C09_resnapshot_replaces : forall s g n ts1 ts2 ops,
  NoDup (map fst (snaps s)) ->
  let s1 := run_state ops (fst (step s (Snapshot g n ts1))) in
  forallb (keeps g n ts1) ops = true ->
  let s2 := fst (step s1 (Snapshot g n ts2)) in
  aget pair_eqb (g, n) (snaps s2) = Some (ts2, view_of s1 g) /\
  length (filter (fun kv => pair_eqb (fst kv) (g, n)) (snaps s2)) = 1%nat.
Proof. exact resnapshot_replaces. Qed.
Print Assumptions C09_resnapshot_replaces.

(* non-vacuity: a concrete history with two groups, messages, nested snapshots *)
Example C09_example : C09_example_statement.
Proof. exact c09_example. Qed.

(* the SQLite backend's SQL text (ORDER BY clauses, FK cascades, restore statement plan) is the one the contract assumes *)
Theorem C09_sql_restore_plan_tied : sql_tie_statement.
Proof. exact sql_tie. Qed.
Print Assumptions C09_sql_restore_plan_tied.
