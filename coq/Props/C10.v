(* C10 - the storage contract both backends are compared against: last value wins per key, exact selection
   of the invalidation / retry / pending queries.  ONLY statements. *)
From MDK Require Import Base.Prelude Base.AMap Store.Contract Store.ContractSpec Store.ContractProofs Store.SqlTie.

Theorem C10_group_find_after_save : forall s g,
  snd (step s (SaveGroup g)) = ROk ->
  let s' := fst (step s (SaveGroup g)) in
  aget N.eqb (g_id g) (groups s') = Some g /\
  forall k, k <> g_id g -> aget N.eqb k (groups s') = aget N.eqb k (groups s).
Proof. exact group_find_after_save. Qed.
Print Assumptions C10_group_find_after_save.

(* a refused save changes nothing *)
Theorem C10_group_save_refused_noop : forall s g, snd (step s (SaveGroup g)) <> ROk -> fst (step s (SaveGroup g)) = s.
Proof. exact group_save_refused_noop. Qed.
Print Assumptions C10_group_save_refused_noop.

(* messages are keyed by (group, id): the same id in another group is a different record *)
Theorem C10_msg_find_after_save : forall s m,
  has_group s (m_group m) = true ->
  let s' := fst (step s (SaveMsg m)) in
  aget pair_eqb (m_group m, m_id m) (msgs s') = Some m /\
  forall k, k <> (m_group m, m_id m) -> aget pair_eqb k (msgs s') = aget pair_eqb k (msgs s).
Proof. exact msg_find_after_save. Qed.
Print Assumptions C10_msg_find_after_save.

Theorem C10_pmsg_find_after_save : forall s p,
  let s' := fst (step s (SavePmsg p)) in
  aget N.eqb (p_wrapper p) (pmsgs s') = Some p /\
  forall k, k <> p_wrapper p -> aget N.eqb k (pmsgs s') = aget N.eqb k (pmsgs s).
Proof. exact pmsg_find_after_save. Qed.
Print Assumptions C10_pmsg_find_after_save.

(* invalidation selects exactly: same group, epoch strictly greater; nothing else changes, and only the state *)
Theorem C10_invalidate_selects_exactly : forall s g e k m,
  NoDup (map fst (msgs s)) ->
  aget pair_eqb k (msgs s) = Some m ->
  let s' := fst (step s (InvalidateMsgs g e)) in
  let hit := (fst k =? g) && (match m_epoch m with Some x => e <? x | None => false end) in
  aget pair_eqb k (msgs s') =
    Some (if hit then mkMsg (m_id m) (m_group m) (m_pubkey m) (m_kind m) (m_created m) (m_processed m)
                            (m_content m) (m_tags m) (m_wrapper m) (m_epoch m) MS_INVALIDATED else m) /\
  (hit = true <-> In (snd k) (match snd (step s (InvalidateMsgs g e)) with RIds l => l | _ => [] end) /\ fst k = g).
Proof. exact invalidate_selects_exactly. Qed.
Print Assumptions C10_invalidate_selects_exactly.

Theorem C10_retry_selects_exactly : forall s g w,
  NoDup (map fst (pmsgs s)) ->
  In w (match snd (step s (FindFailedRetry g)) with RIds l => l | _ => [] end) <->
  exists p, aget N.eqb w (pmsgs s) = Some p /\ p_group p = Some g /\ p_state p = PS_FAILED /\ p_epoch p = None.
Proof. exact retry_selects_exactly. Qed.
Print Assumptions C10_retry_selects_exactly.

Theorem C10_mark_retryable_only_failed : forall s w,
  match aget N.eqb w (pmsgs s) with
  | Some p => if p_state p =? PS_FAILED
              then step s (MarkRetryable w) = (set_pmsgs s (aset N.eqb w (pmsg_set_state PS_RETRYABLE p) (pmsgs s)), ROk)
              else step s (MarkRetryable w) = (s, RNotFound)
  | None => step s (MarkRetryable w) = (s, RNotFound)
  end.
Proof. exact mark_retryable_only_failed. Qed.
Print Assumptions C10_mark_retryable_only_failed.

(* read-only operations change nothing *)
Theorem C10_reads_pure : forall s o, is_read_op o = true -> fst (step s o) = s.
Proof. exact reads_pure. Qed.
Print Assumptions C10_reads_pure.

(* the SQLite backend's SQL text (ORDER BY clauses, FK cascades, restore statement plan) is the one the contract assumes *)
Theorem C10_sql_tables_tied : sql_tie_statement.
Proof. exact sql_tie. Qed.
Print Assumptions C10_sql_tables_tied.
