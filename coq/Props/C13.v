(* C13 - Encrypted databases leak nothing at rest and open only with their key; files and directories are
   owner-only; a keyring key is created once and reused, also under concurrent first opens.
   ONLY property statements: each theorem is closed by `exact <lemma>` and followed by Print Assumptions.
   Models: Conc/Keyring.v (small-step semantics of keyring::get_or_create_db_key for any number of threads;
   constructor x file-state decision function; mode bits), tied to the source by Gen/KeyringProg.v
   (keyring_prog_tied) and to the running code by enc_diff (every matrix row on the real constructors).
   Not proved (observed by enc_diff's canary scan only): that SQLCipher writes nothing but ciphertext. *)
From MDK Require Import Base.Prelude Conc.Keyring Conc.KeyringProofs Gen.KeyringProg Conc.KeyringTie.

(* --- key creation, ANY number of threads n, ANY interleaving (schedule), keyring entry present or not:
       at most one key is ever written; what is in the keyring is the initial entry or that one key; an existing
       entry is never overwritten; every thread that returned, returned the key the keyring holds; any two
       threads returned the same key *)
Theorem C13_one_key_ever : forall n cell0 k0 c,
  reachable good_prog n cell0 k0 c ->
  (length (sets c) <= 1)%nat /\
  opt_list cell0 ++ sets c = opt_list (cell c) /\
  (forall k, cell0 = Some k -> sets c = [] /\ cell c = Some k) /\
  (forall i k, ret (thr c i) = Some k -> cell c = Some k /\ opt_list cell0 ++ sets c = [k]) /\
  (forall i j ki kj, ret (thr c i) = Some ki -> ret (thr c j) = Some kj -> ki = kj).
Proof. exact one_key_ever. Qed.
Print Assumptions C13_one_key_ever.

(* --- progress: while some thread has not returned, some thread can take a step (no deadlock on the lock) ... *)
Theorem C13_no_thread_stuck : forall n cell0 k0 c,
  reachable good_prog n cell0 k0 c ->
  (exists i, (i < n)%nat /\ ret (thr c i) = None) ->
  exists j c', (j < n)%nat /\ step_thread good_prog n j c = Some c'.
Proof. exact no_thread_stuck. Qed.
Print Assumptions C13_no_thread_stuck.

(* --- ... and every step strictly decreases the number of steps left, so every execution ends with all returned *)
Theorem C13_step_decreases : forall n i c c',
  step_thread good_prog n i c = Some c' -> (measure good_prog n c' < measure good_prog n c)%nat.
Proof. exact step_decreases. Qed.
Print Assumptions C13_step_decreases.

(* --- not vacuous: the same program without the re-check under the lock stores two keys and two threads return
       different keys (witness schedule computed by vm_compute) *)
Theorem C13_norecheck_refuted : exists n sched c,
  c = run norecheck_prog n sched (init None 100) /\
  (length (sets c) > 1)%nat /\
  exists i j ki kj, ret (thr c i) = Some ki /\ ret (thr c j) = Some kj /\ ki <> kj.
Proof. exact norecheck_refuted. Qed.
Print Assumptions C13_norecheck_refuted.

(* --- a key is generated only by the keyring constructor on a missing file without an entry; on an existing file
       (0-byte, plaintext or encrypted) no constructor generates a key or touches the keyring entry *)
Theorem C13_generates_iff : forall fresh kr c fs,
  generated (open_db fresh kr c fs) = true <-> c = Keyring None /\ fs = Missing.
Proof. exact generates_iff. Qed.
Print Assumptions C13_generates_iff.

Theorem C13_existing_file_never_generates : forall fresh kr c fs,
  fs <> Missing ->
  generated (open_db fresh kr c fs) = false /\
  kr_after (open_db fresh kr c fs) = match c with Keyring stored => stored | _ => kr end.
Proof. exact existing_file_never_generates. Qed.
Print Assumptions C13_existing_file_never_generates.

Theorem C13_keyring_entry_never_replaced : forall fresh kr c fs k,
  (match c with Keyring stored => stored | _ => kr end) = Some k ->
  kr_after (open_db fresh kr c fs) = Some k.
Proof. exact keyring_entry_never_replaced. Qed.
Print Assumptions C13_keyring_entry_never_replaced.

(* --- constructor matrix on a database encrypted with k: it opens iff the constructor presents exactly k
       (caller key or keyring entry); another key, no keyring entry and the unencrypted constructor are refused *)
Theorem C13_ctor_matrix_encrypted : forall fresh kr c k,
  is_ok (open_db fresh kr c (Encrypted k)) = true <-> c = WithKey k \/ c = Keyring (Some k).
Proof. exact encrypted_opens_iff_right_key. Qed.
Print Assumptions C13_ctor_matrix_encrypted.

Theorem C13_wrong_key_refused : forall fresh kr k1 k2, k1 <> k2 ->
  verdict_of (open_db fresh kr (WithKey k2) (Encrypted k1)) = VErr EWrongKey /\
  verdict_of (open_db fresh kr (Keyring (Some k2)) (Encrypted k1)) = VErr EWrongKey.
Proof. exact wrong_key_refused. Qed.
Print Assumptions C13_wrong_key_refused.

Theorem C13_no_key_refused : forall fresh kr k,
  verdict_of (open_db fresh kr (Keyring None) (Encrypted k)) = VErr EKeyringEntryMissing /\
  verdict_of (open_db fresh kr Unencrypted (Encrypted k)) = VErr ENotADatabase.
Proof. exact no_key_refused. Qed.
Print Assumptions C13_no_key_refused.

Theorem C13_right_key_reopens : forall fresh kr k,
  open_db fresh kr (WithKey k) (Encrypted k) =
    {| verdict_of := VOk (Some k) false; file_after := Encrypted k; kr_after := kr |} /\
  open_db fresh kr (Keyring (Some k)) (Encrypted k) =
    {| verdict_of := VOk (Some k) false; file_after := Encrypted k; kr_after := Some k |}.
Proof. exact right_key_reopens. Qed.
Print Assumptions C13_right_key_reopens.

(* --- a plaintext database is refused by both encrypting constructors *)
Theorem C13_plain_refused_by_encrypting_ctors : forall fresh kr c,
  c <> Unencrypted -> is_ok (open_db fresh kr c Plain) = false.
Proof. exact plain_refused_by_encrypting_ctors. Qed.
Print Assumptions C13_plain_refused_by_encrypting_ctors.

(* --- no constructor changes the state or key of an existing database; a refused open changes nothing *)
Theorem C13_existing_database_unchanged : forall fresh kr c,
  file_after (open_db fresh kr c Plain) = Plain /\
  forall k, file_after (open_db fresh kr c (Encrypted k)) = Encrypted k.
Proof. exact existing_database_unchanged. Qed.
Print Assumptions C13_existing_database_unchanged.

Theorem C13_refused_open_changes_nothing : forall fresh kr c fs,
  is_ok (open_db fresh kr c fs) = false ->
  file_after (open_db fresh kr c fs) = fs /\
  kr_after (open_db fresh kr c fs) = match c with Keyring stored => stored | _ => kr end.
Proof. exact refused_open_changes_nothing. Qed.
Print Assumptions C13_refused_open_changes_nothing.

(* --- whatever an encrypting constructor returns Ok for is encrypted under the caller's key resp. under the key
       the keyring holds afterwards *)
Theorem C13_ok_means_encrypted_with_that_key : forall fresh kr c fs,
  is_ok (open_db fresh kr c fs) = true ->
  match c with
  | WithKey k => file_after (open_db fresh kr c fs) = Encrypted k
  | Keyring _ => exists k, kr_after (open_db fresh kr c fs) = Some k /\ file_after (open_db fresh kr c fs) = Encrypted k
  | Unencrypted => file_after (open_db fresh kr c fs) = Plain
  end.
Proof. exact ok_means_encrypted_with_that_key. Qed.
Print Assumptions C13_ok_means_encrypted_with_that_key.

(* --- modes: the database file is 0600 after every successful open and untouched by a refused one; the
       database's parent directory is created 0700; sidecars present at the end of a constructor are 0600 *)
Theorem C13_modes_file : forall before o,
  (is_ok o = true -> mode_after before o = Some m_file) /\
  (is_ok o = false -> mode_after before o = before) /\
  owner_only m_file = true /\ owner_only m_dir = true.
Proof. exact modes_file. Qed.
Print Assumptions C13_modes_file.

Theorem C13_modes_parent_dir : forall u n, n <> 0%nat -> last (created_dir_modes u n) 0 = m_dir.
Proof. exact modes_parent_dir. Qed.
Print Assumptions C13_modes_parent_dir.

Theorem C13_modes_sidecars : forall existing m, In (Some m) (sidecar_modes existing) -> m = m_file.
Proof. exact modes_sidecars. Qed.
Print Assumptions C13_modes_sidecars.

(* --- all directories the library creates are owner-only, for any number of missing path components and any umask
       (before fix c284fee "every created ancestor is chmod-ed" this was false for two or more missing components) *)
Theorem C13_modes_dirs_owner_only : forall u n, forallb owner_only (created_dir_modes u n) = true.
Proof. exact modes_dirs_owner_only. Qed.
Print Assumptions C13_modes_dirs_owner_only.

(* --- the model's program order, constructor arms and mode constants are those of the current source text *)
Theorem C13_keyring_prog_tied : keyring_tied_statement.
Proof. exact keyring_prog_tied. Qed.
Print Assumptions C13_keyring_prog_tied.

(* --- non-vacuity: concrete rows of the matrix and a concrete two-thread race, by computation *)
Example C13_matrix_example :
  verdict_of (open_db 99 None (Keyring None) Missing) = VOk (Some 99) true /\
  file_after (open_db 99 None (Keyring None) Missing) = Encrypted 99 /\
  verdict_of (open_db 99 None (Keyring None) Empty) = VErr EUnencryptedWithEncryption /\
  verdict_of (open_db 99 (Some 1) (Keyring (Some 1)) Empty) = VOk (Some 1) false /\
  verdict_of (open_db 99 (Some 1) (Keyring (Some 1)) Plain) = VErr EWrongKey /\
  verdict_of (open_db 99 None (WithKey 1) Empty) = VErr EUnencryptedWithEncryption /\
  verdict_of (open_db 99 None (WithKey 1) Plain) = VErr EUnencryptedWithEncryption /\
  verdict_of (open_db 99 None (WithKey 2) (Encrypted 1)) = VErr EWrongKey /\
  verdict_of (open_db 99 None Unencrypted (Encrypted 1)) = VErr ENotADatabase /\
  file_after (open_db 99 None Unencrypted Empty) = Plain /\
  created_dir_modes 493 2 = [448; 448].
Proof. exact matrix_example. Qed.

Example C13_good_prog_race_example :
  let c := run good_prog 2 [0; 1; 0; 0; 0; 0; 0; 1; 1; 1]%nat (init None 100) in
  sets c = [100] /\ returns 2 c = [Some 100; Some 100].
Proof. exact good_prog_same_schedule. Qed.
