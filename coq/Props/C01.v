(* C01 - convergence on the MIP-03-selected state.  Statements only; proofs in Mdk/EngineProofs.v.
   Model: Mdk/Engine.v (tied to the code by proto_diff on both backends).  The unrestricted statement is FALSE of the faithful
   model (and of the code): the refutation theorems below are the known findings; the positive theorem is the regime in
   which the harness treats any divergence as a violation. *)
From MDK Require Import Base.Prelude Base.AMap Mdk.Engine Mdk.EngineSpec Mdk.EngineProofs.

Theorem C01_mip03_irreflexive : forall a, ~ mip03_lt a a.
Proof. exact mip03_lt_irrefl. Qed.
Theorem C01_mip03_transitive : forall a b c, mip03_lt a b -> mip03_lt b c -> mip03_lt a c.
Proof. exact mip03_lt_trans. Qed.
Theorem C01_mip03_total : forall a b, a <> b -> mip03_lt a b \/ mip03_lt b a.
Proof. exact mip03_lt_total. Qed.
Print Assumptions C01_mip03_total.

(* is_better_candidate is exactly the MIP-03 comparison against the commit recorded for that epoch (and never for the
   hydrated sentinel timestamp 0) *)
Theorem C01_is_better_spec : forall c ep ts key,
  is_better c ep ts key = true <->
  exists s, find_snap ep (queue c) = Some s /\ sn_ts s <> 0 /\ mip03_lt (ts, key) (sn_ts s, sn_key s).
Proof. exact is_better_spec. Qed.
Print Assumptions C01_is_better_spec.

(* a bystander offered any set of competing commits on its current state, in ANY order, with ANY repetitions, each at least
   once, ends on the MIP-03 minimum (any fork width, any delivery list, any prior history that left the client fork_ready) *)
Theorem C01_single_fork_converges : forall c K ds d,
  fork_ready c -> fork_set c K ->
  (forall e, In e ds -> In e K) -> (forall e, In e K -> In e ds) ->
  let c' := deliver_all c ds in
  k_cur (kc c') = e_id (mip03_min d K) + 1 /\ k_epoch (kc c') = k_epoch (kc c) + 1 /\
  k_rec_epoch (kc c') = k_epoch (kc c) + 1 /\ k_active (kc c') = true.
Proof. exact single_fork_converges. Qed.
Print Assumptions C01_single_fork_converges.

(* the same for a member that is one of the competing committers and applies its own commit when it returns from the relay *)
Theorem C01_own_echo_converges : forall c own K ds d,
  fork_ready c -> e_kind own = 0 -> e_ts own <> 0 -> e_removes own = [] -> e_refs own = [] ->
  aget N.eqb (e_id own) (dedup c) = None ->
  let own' := mkEvent (e_id own) 0 (e_ts own) (e_key own) (me c) (k_cur (kc c)) (k_epoch (kc c)) true (e_data own) 0 [] [] 0 in
  let c0 := committed c own' in
  fork_set c K -> ~ In (e_id own) (map e_id K) -> ~ In (ev_key own') (map ev_key K) ->
  (forall e, In e ds -> In e (own' :: K)) -> (forall e, In e (own' :: K) -> In e ds) ->
  let c' := deliver_all c0 ds in
  k_cur (kc c') = e_id (mip03_min d (own' :: K)) + 1 /\ k_epoch (kc c') = k_epoch (kc c) + 1.
Proof. exact own_echo_converges. Qed.
Print Assumptions C01_own_echo_converges.

(* ---- refutations: the faithful model violates convergence outside that regime (witnesses by computation) *)
(* a committer that merges its pending commit right after publishing never adopts a better competitor *)
Theorem C01_immediate_merge_refuted : exists c own better,
  fork_ready c /\ mip03_lt (ev_key better) (ev_key own) /\
  let c1 := fst (merge_pending (committed c own)) in
  k_cur (kc (deliver_all c1 [better; better])) = e_id own + 1.
Proof. exact immediate_merge_refuted. Qed.
(* a commit offered before its predecessor is recorded as failed and refused for ever after *)
Theorem C01_ahead_of_predecessor_refuted : exists c e1 e2,
  fork_ready c /\ e_state e2 = e_id e1 + 1 /\
  k_cur (kc (deliver_all c [e2; e1; e2])) = e_id e1 + 1 /\ snd (deliver (deliver_all c [e2; e1]) e2) = RUnproc.
Proof. exact ahead_of_predecessor_refuted. Qed.
Print Assumptions C01_ahead_of_predecessor_refuted.

Example C01_fork_example : C01_fork_example_statement.
Proof. exact c01_fork_example. Qed.
