(* C01 - convergence on the MIP-03-selected state.  Statements only; proofs in Mdk/EngineProofs.v.
   Model: Mdk/Engine.v (tied to the code by proto_diff on both backends).  The unrestricted statement is FALSE of the faithful
   model (and of the code): the refutation theorems below are the known findings; the positive theorem is the regime in
   which the harness treats any divergence as a violation. *)
From MDK Require Import Base.Prelude Base.AMap Mdk.Engine Mdk.EngineSpec Mdk.EngineProofs Mdk.EngineProofs6.

Theorem C01_mip03_irreflexive : forall a, ~ mip03_lt a a.
Proof. exact mip03_lt_irrefl. Qed.
Theorem C01_mip03_transitive : forall a b c, mip03_lt a b -> mip03_lt b c -> mip03_lt a c.
Proof. exact mip03_lt_trans. Qed.
Theorem C01_mip03_total : forall a b, a <> b -> mip03_lt a b \/ mip03_lt b a.
Proof. exact mip03_lt_total. Qed.
Print Assumptions C01_mip03_total.

(* is_better_candidate is exactly the MIP-03 comparison against the commit recorded for that epoch (and never for the
   hydrated sentinel timestamp 0) *)
Theorem C01_is_better_spec : forall c ep ts key,
  is_better c ep ts key = true <->
  exists s, find_snap ep (queue c) = Some s /\ sn_ts s <> 0 /\ mip03_lt (ts, key) (sn_ts s, sn_key s).
Proof. exact is_better_spec. Qed.
Print Assumptions C01_is_better_spec.

(* a bystander offered any set of competing commits on its current state, in ANY order, with ANY repetitions, each at least
   once, ends on the MIP-03 minimum (any fork width, any delivery list, any prior history that left the client fork_ready) *)
Theorem C01_single_fork_converges : forall c K ds d,
  fork_ready c -> fork_set c K ->
  (forall e, In e ds -> In e K) -> (forall e, In e K -> In e ds) ->
  let c' := deliver_all c ds in
  k_cur (kc c') = e_id (mip03_min d K) + 1 /\ k_epoch (kc c') = k_epoch (kc c) + 1 /\
  k_rec_epoch (kc c') = k_epoch (kc c) + 1 /\ k_active (kc c') = true.
Proof. exact single_fork_converges. Qed.
Print Assumptions C01_single_fork_converges.

(* the same for a member that is one of the competing committers and applies its own commit when it returns from the relay *)
Theorem C01_own_echo_converges : forall c own K ds d,
  fork_ready c -> e_kind own = 0 -> e_ts own <> 0 -> e_removes own = [] -> e_refs own = [] ->
  aget N.eqb (e_id own) (dedup c) = None ->
  let own' := mkEvent (e_id own) 0 (e_ts own) (e_key own) (me c) (k_cur (kc c)) (k_epoch (kc c)) true (e_data own) 0 [] [] 0 in
  let c0 := committed c own' in
  fork_set c K -> ~ In (e_id own) (map e_id K) -> ~ In (ev_key own') (map ev_key K) ->
  (forall e, In e ds -> In e (own' :: K)) -> (forall e, In e (own' :: K) -> In e ds) ->
  let c' := deliver_all c0 ds in
  k_cur (kc c') = e_id (mip03_min d (own' :: K)) + 1 /\ k_epoch (kc c') = k_epoch (kc c) + 1.
Proof. exact own_echo_converges. Qed.
Print Assumptions C01_own_echo_converges.

(* ---- refutations: the faithful model violates convergence outside that regime (witnesses by computation) *)
(* a committer that merges its pending commit right after publishing never adopts a better competitor *)
Theorem C01_immediate_merge_refuted : exists c own better,
  fork_ready c /\ mip03_lt (ev_key better) (ev_key own) /\
  let c1 := fst (merge_pending (committed c own)) in
  k_cur (kc (deliver_all c1 [better; better])) = e_id own + 1.
Proof. exact immediate_merge_refuted. Qed.
(* a commit offered before its predecessor is recorded as failed and refused for ever after *)
Theorem C01_ahead_of_predecessor_refuted : exists c e1 e2,
  fork_ready c /\ e_state e2 = e_id e1 + 1 /\
  k_cur (kc (deliver_all c [e2; e1; e2])) = e_id e1 + 1 /\ snd (deliver (deliver_all c [e2; e1]) e2) = RUnproc.
Proof. exact ahead_of_predecessor_refuted. Qed.
Print Assumptions C01_ahead_of_predecessor_refuted.

Example C01_fork_example : C01_fork_example_statement.
Proof. exact c01_fork_example. Qed.

(* ================================================================ chains of forks (epoch-causal delivery); proofs in Mdk/EngineProofs6.v *)
(* STATEMENT CHANGE (theorems 1-2): `fork_ready` alone is NOT preserved by resolving a fork.  Its last clause only constrains
   the stored exporter secret of the CURRENT epoch; a secret filed under the NEXT epoch naming another state survives the fork
   (ensure_secret keeps an existing entry) and makes the client unready at the next epoch - and really unable to open the next
   fork's wrappers.  Witness below (by computation).  Such a state is unreachable (a rollback restores the stored secrets with
   the MLS state), so the theorems are stated with
     fork_ready_inv c := fork_ready c /\ no_future_secrets (kc c)        (EngineSpec.v)
   which holds for init_client / join_client (1 <= retention), implies fork_ready, and IS preserved. *)
Theorem C01_fork_ready_not_preserved : exists c K ds,
  fork_ready c /\ fork_set c K /\ (forall e, In e ds -> In e K) /\ (forall e, In e K -> In e ds) /\
  ~ fork_ready (deliver_all c ds).
Proof. exact fork_ready_not_preserved. Qed.
Print Assumptions C01_fork_ready_not_preserved.

Theorem C01_fork_ready_inv_init : forall i a r, 1 <= r -> fork_ready_inv (init_client i a r).
Proof. exact fork_ready_inv_init. Qed.
Theorem C01_fork_ready_inv_join : forall i a r cur ep data, 1 <= r -> fork_ready_inv (join_client i a r cur ep data).
Proof. exact fork_ready_inv_join. Qed.
Theorem C01_fork_ready_inv_fork_ready : forall c, fork_ready_inv c -> fork_ready c.
Proof. exact fork_ready_inv_fork_ready. Qed.

(* 1. resolving a fork leaves the client ready for the next one *)
Theorem C01_fork_ready_preserved : forall c K ds,
  fork_ready_inv c -> fork_set c K -> (forall e, In e ds -> In e K) -> (forall e, In e K -> In e ds) ->
  fork_ready_inv (deliver_all c ds).
Proof. exact fork_ready_inv_preserved. Qed.
Print Assumptions C01_fork_ready_preserved.

(* 2. any number of successive forks, each of any width, each delivered in any order with any repetitions: the client follows
      the chain of MIP-03 minima *)
Theorem C01_causal_chain_converges : forall rounds c d,
  fork_ready_inv c -> rounds_ok c rounds ->
  let c' := run_rounds c rounds in
  fork_ready_inv c' /\ k_epoch (kc c') = k_epoch (kc c) + lenN rounds /\
  (forall K ds, last rounds ([], []) = (K, ds) -> rounds <> [] -> k_cur (kc c') = e_id (mip03_min d K) + 1).
Proof. exact causal_chain_converges. Qed.
Print Assumptions C01_causal_chain_converges.

(* the same from a fresh client (no side condition left but the retention bound) *)
Theorem C01_causal_chain_from_init : forall i a r rounds d, 1 <= r -> rounds_ok (init_client i a r) rounds ->
  let c' := run_rounds (init_client i a r) rounds in
  fork_ready_inv c' /\ k_epoch (kc c') = 1 + lenN rounds /\
  (forall K ds, last rounds ([], []) = (K, ds) -> rounds <> [] -> k_cur (kc c') = e_id (mip03_min d K) + 1).
Proof. exact causal_chain_from_init. Qed.
Print Assumptions C01_causal_chain_from_init.

(* 3. stale re-deliveries are harmless: after a fork was resolved, offering any of its commits again (winner or loser), any
      number of times, changes nothing observable - as long as that epoch's snapshot is still the one taken for the winner.
      Proved AS STATED (plain fork_ready suffices). *)
Theorem C01_resolved_fork_redelivery_harmless : forall c K ds e,
  fork_ready c -> fork_set c K -> (forall e, In e ds -> In e K) -> (forall e, In e K -> In e ds) -> In e K ->
  proj (fst (deliver (deliver_all c ds) e)) = proj (deliver_all c ds).
Proof. exact resolved_fork_redelivery_harmless. Qed.
Print Assumptions C01_resolved_fork_redelivery_harmless.

(* ... any list of them *)
Theorem C01_resolved_fork_redeliveries_harmless : forall c K ds es,
  fork_ready c -> fork_set c K -> (forall e, In e ds -> In e K) -> (forall e, In e K -> In e ds) ->
  (forall e, In e es -> In e K) ->
  proj (deliver_all (deliver_all c ds) es) = proj (deliver_all c ds).
Proof. exact resolved_fork_redeliveries_harmless. Qed.
Print Assumptions C01_resolved_fork_redeliveries_harmless.
