(* C11 - restarting on persistent storage is invisible.  Statements only.
   Model of a restart: the stored group state survives; the snapshot manager is rebuilt from the stored snapshot names and
   has lost the commit timestamps (Engine.restart). *)
From MDK Require Import Base.Prelude Base.AMap Mdk.Engine Mdk.EngineSpec Mdk.EngineProofs Mdk.EngineProofs2.
From MDK Require Store.Contract Store.ContractProofs.

Theorem C11_restart_observably_invisible : forall c, proj (restart c) = proj c.
Proof. exact restart_proj. Qed.
Theorem C11_restart_idempotent : forall c, restart (restart c) = restart c.
Proof. exact restart_idempotent. Qed.
Print Assumptions C11_restart_idempotent.

(* simulation: as long as an event does not win the MIP-03 comparison against a recorded commit, the restarted client reacts
   exactly like the one that never restarted (same result, same state up to the forgotten timestamps) *)
Theorem C11_restart_simulation : forall c e,
  (forall s, In s (queue c) -> is_better c (sn_epoch s) (e_ts e) (e_key e) = false) ->
  snd (deliver (restart c) e) = snd (deliver c e) /\
  forget_ts (fst (deliver (restart c) e)) = forget_ts (fst (deliver c e)).
Proof. exact restart_simulation. Qed.
Print Assumptions C11_restart_simulation.

(* known finding: a better competing commit arriving after a restart is not adopted (the comparison needs the lost
   timestamp) - witness *)
Theorem C11_race_after_restart_refuted : exists c worse better,
  fork_ready c /\
  k_cur (kc (deliver_all c [worse; better])) = e_id better + 1 /\
  k_cur (kc (fst (deliver (restart (fst (deliver c worse))) better))) = e_id worse + 1.
Proof. exact race_after_restart_refuted. Qed.
Print Assumptions C11_race_after_restart_refuted.

(* storage layer: the specification of closing and reopening the database file is the identity on the abstract store, so a
   run with reopens injected at any subset of positions gives the same results and the same final store as the run without.
   (The content of this statement is the specification; that the SQLite backend meets it is what the correspondence check
   establishes: `ST Reopen` at random positions of every storage operation sequence.) *)
Theorem C11_storage_reopens_invisible : forall ops s,
  Store.ContractProofs.run_with_reopens ops s = Store.ContractProofs.run_plain (map snd ops) s.
Proof. exact Store.ContractProofs.reopens_invisible. Qed.
Print Assumptions C11_storage_reopens_invisible.
