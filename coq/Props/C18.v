(* C18 - message listing is one total order; pages partition it; out-of-range limits are refused.
   ONLY statements (storage contract level; the last-message pointer invariant of the engine is in Props/C18e.v). *)
From MDK Require Import Base.Prelude Base.AMap Store.Contract Store.ContractSpec Store.ContractProofs Store.SqlTie.

(* the sort key order is a strict total order *)
Theorem C18_order_irreflexive : forall a, ~ key_gt a a.
Proof. exact key_gt_irrefl. Qed.
Theorem C18_order_transitive : forall a b c, key_gt a b -> key_gt b c -> key_gt a c.
Proof. exact key_gt_trans. Qed.
Theorem C18_order_total : forall a b, a <> b -> key_gt a b \/ key_gt b a.
Proof. exact key_gt_total. Qed.
Print Assumptions C18_order_total.

(* the listing is a permutation of the group's messages, strictly descending in the requested key: it is
   therefore the same list whatever the arrival order (deterministic) *)
Theorem C18_listing_sorted : forall key l, (forall x y, In x l -> In y l -> key x = key y -> x = y) -> NoDup l ->
  sorted_desc key (sort_desc key l).
Proof. exact sort_desc_sorted. Qed.
Print Assumptions C18_listing_sorted.

Theorem C18_listing_perm : forall key l x, In x (sort_desc key l) <-> In x l.
Proof. exact sort_desc_in. Qed.
Theorem C18_listing_length : forall key l, length (sort_desc key l) = length l.
Proof. exact sort_desc_length. Qed.

Theorem C18_listing_unique : forall key l1 l2,
  sorted_desc key l1 -> sorted_desc key l2 -> (forall x, In x l1 <-> In x l2) -> NoDup l1 -> NoDup l2 -> l1 = l2.
Proof. exact sorted_desc_unique. Qed.
Print Assumptions C18_listing_unique.

(* a page is the exact slice, for every limit and offset (offsets beyond the end give the empty page) *)
Theorem C18_page_exact : forall (l : list msg) limit offset,
  page limit offset l = nat_page (N.to_nat (N.min limit (lenN l))) (N.to_nat (N.min offset (lenN l))) l.
Proof. exact page_exact. Qed.
Print Assumptions C18_page_exact.

(* consecutive pages partition the list: no gaps, no repeats *)
Theorem C18_pages_partition : forall (l : list msg) limit k, 0 < limit -> lenN l <= N.of_nat k * limit ->
  concat (map (fun i => page limit (N.of_nat i * limit) l) (seq 0 k)) = l.
Proof. exact pages_partition. Qed.
Print Assumptions C18_pages_partition.

(* limits 0 and above the maximum are refused, for every group and offset *)
Theorem C18_limit_refused : forall s g limit offset sort,
  limit = 0 \/ MAX_LIMIT < limit -> snd (step s (Messages g limit offset sort)) = RErr.
Proof. exact limit_refused. Qed.
Print Assumptions C18_limit_refused.

(* last_message is the head of the listing in the same sort mode *)
Theorem C18_last_is_head : forall s g sort, has_group s g = true ->
  snd (step s (LastMessage g sort)) =
  RMsg (match snd (step s (Messages g MAX_LIMIT 0 sort)) with RMsgs (m :: _) => Some m | _ => None end).
Proof. exact last_is_head. Qed.
Print Assumptions C18_last_is_head.

(* the SQLite backend's SQL text (ORDER BY clauses, FK cascades, restore statement plan) is the one the contract assumes *)
Theorem C18_sql_order_tied : sql_tie_statement.
Proof. exact sql_tie. Qed.
Print Assumptions C18_sql_order_tied.
