(* C18 - message listing is one total order; pages partition it; out-of-range limits are refused.
   ONLY statements (storage contract level; the engine-level pointer invariant is evaluated on the real clients by ptr_diff). *)
From Coq Require Import Permutation.
From MDK Require Import Base.Prelude Base.AMap Store.Contract Store.ContractSpec Store.ContractProofs Store.PtrProofs Store.SqlTie.

(* the sort key order is a strict total order *)
Theorem C18_order_irreflexive : forall a, ~ key_gt a a.
Proof. exact key_gt_irrefl. Qed.
Theorem C18_order_transitive : forall a b c, key_gt a b -> key_gt b c -> key_gt a c.
Proof. exact key_gt_trans. Qed.
Theorem C18_order_total : forall a b, a <> b -> key_gt a b \/ key_gt b a.
Proof. exact key_gt_total. Qed.
Print Assumptions C18_order_total.

(* the listing is a permutation of the group's messages, strictly descending in the requested key: it is
   therefore the same list whatever the arrival order (deterministic) *)
Theorem C18_listing_sorted : forall key l, (forall x y, In x l -> In y l -> key x = key y -> x = y) -> NoDup l ->
  sorted_desc key (sort_desc key l).
Proof. exact sort_desc_sorted. Qed.
Print Assumptions C18_listing_sorted.

Theorem C18_listing_perm : forall key l x, In x (sort_desc key l) <-> In x l.
Proof. exact sort_desc_in. Qed.
Theorem C18_listing_length : forall key l, length (sort_desc key l) = length l.
Proof. exact sort_desc_length. Qed.

Theorem C18_listing_unique : forall key l1 l2,
  sorted_desc key l1 -> sorted_desc key l2 -> (forall x, In x l1 <-> In x l2) -> NoDup l1 -> NoDup l2 -> l1 = l2.
Proof. exact sorted_desc_unique. Qed.
Print Assumptions C18_listing_unique.

(* a page is the exact slice, for every limit and offset (offsets beyond the end give the empty page) *)
Theorem C18_page_exact : forall (l : list msg) limit offset,
  page limit offset l = nat_page (N.to_nat (N.min limit (lenN l))) (N.to_nat (N.min offset (lenN l))) l.
Proof. exact page_exact. Qed.
Print Assumptions C18_page_exact.

(* consecutive pages partition the list: no gaps, no repeats *)
Theorem C18_pages_partition : forall (l : list msg) limit k, 0 < limit -> lenN l <= N.of_nat k * limit ->
  concat (map (fun i => page limit (N.of_nat i * limit) l) (seq 0 k)) = l.
Proof. exact pages_partition. Qed.
Print Assumptions C18_pages_partition.

(* limits 0 and above the maximum are refused, for every group and offset *)
Theorem C18_limit_refused : forall s g limit offset sort,
  limit = 0 \/ MAX_LIMIT < limit -> snd (step s (Messages g limit offset sort)) = RErr.
Proof. exact limit_refused. Qed.
Print Assumptions C18_limit_refused.

(* last_message is the head of the listing in the same sort mode *)
Theorem C18_last_is_head : forall s g sort, has_group s g = true ->
  snd (step s (LastMessage g sort)) =
  RMsg (match snd (step s (Messages g MAX_LIMIT 0 sort)) with RMsgs (m :: _) => Some m | _ => None end).
Proof. exact last_is_head. Qed.
Print Assumptions C18_last_is_head.

(* the SQLite backend's SQL text (ORDER BY clauses, FK cascades, restore statement plan) is the one the contract assumes *)
Theorem C18_sql_order_tied : sql_tie_statement.
Proof. exact sql_tie. Qed.
Print Assumptions C18_sql_order_tied.

(* ---------------------------------------------------------------- the cached last-message pointer (storage level) *)
(* the pointer maintained message by message (from an empty pointer, in ANY arrival order, duplicates allowed) is the display
   key of the head of the listing: the two can never disagree *)
Theorem C18_pointer_is_head : forall (m0 : msg) (l : list msg),
  fold_left upd_ptr (m0 :: l) (None, None, None) = ptr_of (hd m0 (sort_desc display_key (m0 :: l))).
Proof. exact ptr_is_head. Qed.
Print Assumptions C18_pointer_is_head.

(* one step: the pointer moves exactly when the new message sorts strictly before (is displayed above) the current one *)
Theorem C18_pointer_step : forall m m',
  upd_ptr (ptr_of m) m' = if key3_gtb (display_key m') (display_key m) then ptr_of m' else ptr_of m.
Proof. exact ptr_step. Qed.
Print Assumptions C18_pointer_step.

(* arrival order is irrelevant *)
Theorem C18_pointer_order_irrelevant : forall (l l' : list msg), Permutation l l' ->
  fold_left upd_ptr l (None, None, None) = fold_left upd_ptr l' (None, None, None).
Proof. exact ptr_order_irrelevant. Qed.
Print Assumptions C18_pointer_order_irrelevant.

(* the pointer always names a message of the list *)
Theorem C18_pointer_names_member : forall (m0 : msg) (l : list msg),
  exists m, In m (m0 :: l) /\ fold_left upd_ptr (m0 :: l) (None, None, None) = ptr_of m.
Proof. exact ptr_names_member. Qed.
Print Assumptions C18_pointer_names_member.

(* four messages; ids 7, 9, 4 tie on created_at (50); 7 and 9 also tie on processed_at (60): the id breaks the tie.
   Pointer after forward arrival, pointer after reverse arrival, ids of the listing. *)
Example C18_pointer_example :
  let m id created processed := mkMsg id 1 0 9 created processed 0 0 0 None 0 in
  let l := [m 7 50 60; m 3 40 99; m 9 50 60; m 4 50 55] in
  (fold_left upd_ptr l (None, None, None), fold_left upd_ptr (rev l) (None, None, None),
   map m_id (sort_desc display_key l))
  = ((Some 50, Some 60, Some 9), (Some 50, Some 60, Some 9), [9; 7; 4; 3]).
Proof. vm_compute; reflexivity. Qed.
Print Assumptions C18_pointer_example.
