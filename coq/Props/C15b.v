(* C15 (part b) - key-package events, welcome rumors, base64 / hex content: statements only (to be merged into Props/C15.v).
   Models: Codec/EventCodec.v (tied to the code by event_codec_diff); imeta MIME / file-name validators: Codec/MediaCtx.v (media_diff). *)
From MDK Require Import Base.Prelude Codec.EventCodec Codec.EventCodecProofs.

(* --- base64 as the STANDARD engine: round trip of every byte string; canonicity (what decodes is the encoding of the result, so
       padding is required and canonical and every character is forced); refusal of non-alphabet characters and of bad lengths *)
Theorem C15_b64_decode_encode : forall bs, bytes_ok bs = true -> b64_decode (b64_encode bs) = Some bs.
Proof. exact b64_decode_encode. Qed.
Print Assumptions C15_b64_decode_encode.
Theorem C15_b64_canonical : forall s bs, b64_decode s = Some bs -> b64_encode bs = s.
Proof. exact b64_canonical. Qed.
Print Assumptions C15_b64_canonical.
Theorem C15_b64_non_alphabet_rejected : forall s c, In c s -> b64_val c = None -> c <> pad -> b64_decode s = None.
Proof. exact b64_non_alphabet_rejected. Qed.
Print Assumptions C15_b64_non_alphabet_rejected.
Theorem C15_b64_bad_length_rejected : forall s, (length s mod 4 <> 0)%nat -> b64_decode s = None.
Proof. exact b64_bad_length_rejected. Qed.
Print Assumptions C15_b64_bad_length_rejected.

(* --- hex *)
Theorem C15_hex_decode_encode : forall bs, bytes_ok bs = true -> hex_decode (hex_encode bs) = Some bs.
Proof. exact hex_decode_encode. Qed.
Print Assumptions C15_hex_decode_encode.
Theorem C15_hex_odd_length_rejected : forall s, (length s mod 2 <> 0)%nat -> hex_decode s = None.
Proof. exact hex_odd_length_rejected. Qed.
Print Assumptions C15_hex_odd_length_rejected.
Theorem C15_hex_non_digit_rejected : forall s c, In c s -> hex_val c = None -> hex_decode s = None.
Proof. exact hex_non_digit_rejected. Qed.
Print Assumptions C15_hex_non_digit_rejected.

(* --- key-package events: what every accepted event satisfies (kind, the five required tags with valid values, an encoding tag,
       base64 content that parses exactly, credential identity = author, `i` tag = KeyPackageRef) *)
Theorem C15_kp_accept_sound : forall (kp : Type) kp_tls_parse kp_ref kp_identity relay_ok e (k : kp),
  parse_key_package kp kp_tls_parse kp_ref kp_identity relay_ok e = inl k ->
  ev_kind e = kind_key_package /\
  (exists pv cs ext rl it, find_tag s_pv (ev_tags e) = Some pv /\ validate_pv pv = true /\
      find_tag s_cs (ev_tags e) = Some cs /\ validate_cs cs = true /\
      find_tag s_ext (ev_tags e) = Some ext /\ validate_ext ext = true /\
      find_tag s_relays (ev_tags e) = Some rl /\ validate_relays relay_ok rl = true /\
      find_tag s_i (ev_tags e) = Some it /\ validate_i it = true /\
      exists n v, it = [n; v] /\ hex_decode v = Some (kp_ref k)) /\
  has_encoding (ev_tags e) = true /\
  (exists raw, b64_decode (ev_content e) = Some raw /\ kp_tls_parse raw = Some k) /\
  kp_identity k = Some (ev_author e).
Proof. exact kp_accept_sound. Qed.
Print Assumptions C15_kp_accept_sound.

Theorem C15_wrong_kind_rejected : forall (kp : Type) kp_tls_parse kp_ref kp_identity relay_ok e,
  ev_kind e <> kind_key_package -> parse_key_package kp kp_tls_parse kp_ref kp_identity relay_ok e = inr EKind.
Proof. exact wrong_kind_rejected. Qed.
Print Assumptions C15_wrong_kind_rejected.
Theorem C15_missing_encoding_tag_rejected : forall (kp : Type) kp_tls_parse kp_ref kp_identity relay_ok e,
  (forall t, In t (ev_tags e) -> tag_named s_encoding t = false) ->
  exists err, parse_key_package kp kp_tls_parse kp_ref kp_identity relay_ok e = inr err.
Proof. exact missing_encoding_tag_rejected. Qed.
Print Assumptions C15_missing_encoding_tag_rejected.
Theorem C15_non_base64_encoding_rejected : forall (kp : Type) kp_tls_parse kp_ref kp_identity relay_ok e,
  (forall t, In t (ev_tags e) -> encoding_tag_ok t = false) ->
  exists err, parse_key_package kp kp_tls_parse kp_ref kp_identity relay_ok e = inr err.
Proof. exact non_base64_encoding_rejected. Qed.
Print Assumptions C15_non_base64_encoding_rejected.
Theorem C15_non_base64_content_rejected : forall (kp : Type) kp_tls_parse kp_ref kp_identity relay_ok e,
  b64_decode (ev_content e) = None -> exists err, parse_key_package kp kp_tls_parse kp_ref kp_identity relay_ok e = inr err.
Proof. exact non_base64_content_rejected. Qed.
Print Assumptions C15_non_base64_content_rejected.
(* trailing bytes after the TLS value, truncation, invalid signature ...: kp_tls_parse is the EXACT parse + validate *)
Theorem C15_kp_bad_tls_rejected : forall (kp : Type) kp_tls_parse kp_ref kp_identity relay_ok e raw,
  b64_decode (ev_content e) = Some raw -> kp_tls_parse raw = None ->
  exists err, parse_key_package kp kp_tls_parse kp_ref kp_identity relay_ok e = inr err.
Proof. exact bad_tls_rejected. Qed.
Print Assumptions C15_kp_bad_tls_rejected.
Theorem C15_ref_tag_mismatch_rejected : forall (kp : Type) kp_tls_parse kp_ref kp_identity relay_ok e raw (k : kp) n v,
  b64_decode (ev_content e) = Some raw -> kp_tls_parse raw = Some k ->
  find_tag s_i (ev_tags e) = Some [n; v] -> hex_decode v <> Some (kp_ref k) ->
  exists err, parse_key_package kp kp_tls_parse kp_ref kp_identity relay_ok e = inr err.
Proof. exact ref_tag_mismatch_rejected. Qed.
Print Assumptions C15_ref_tag_mismatch_rejected.
Theorem C15_identity_author_mismatch_rejected : forall (kp : Type) kp_tls_parse kp_ref kp_identity relay_ok e raw (k : kp),
  b64_decode (ev_content e) = Some raw -> kp_tls_parse raw = Some k -> kp_identity k <> Some (ev_author e) ->
  exists err, parse_key_package kp kp_tls_parse kp_ref kp_identity relay_ok e = inr err.
Proof. exact identity_author_mismatch_rejected. Qed.
Print Assumptions C15_identity_author_mismatch_rejected.
Theorem C15_wrong_protocol_rejected : forall (kp : Type) kp_tls_parse kp_ref kp_identity relay_ok e t,
  find_tag s_pv (ev_tags e) = Some t -> validate_pv t = false ->
  exists err, parse_key_package kp kp_tls_parse kp_ref kp_identity relay_ok e = inr err.
Proof. exact wrong_protocol_rejected. Qed.
Print Assumptions C15_wrong_protocol_rejected.
Theorem C15_wrong_ciphersuite_rejected : forall (kp : Type) kp_tls_parse kp_ref kp_identity relay_ok e t,
  find_tag s_cs (ev_tags e) = Some t -> validate_cs t = false ->
  exists err, parse_key_package kp kp_tls_parse kp_ref kp_identity relay_ok e = inr err.
Proof. exact wrong_ciphersuite_rejected. Qed.
Print Assumptions C15_wrong_ciphersuite_rejected.
Theorem C15_missing_extensions_rejected : forall (kp : Type) kp_tls_parse kp_ref kp_identity relay_ok e t,
  find_tag s_ext (ev_tags e) = Some t -> validate_ext t = false ->
  exists err, parse_key_package kp kp_tls_parse kp_ref kp_identity relay_ok e = inr err.
Proof. exact missing_extensions_rejected. Qed.
Print Assumptions C15_missing_extensions_rejected.
Theorem C15_missing_required_tag_rejected : forall (kp : Type) kp_tls_parse kp_ref kp_identity relay_ok e name,
  In name [s_pv; s_cs; s_ext; s_relays; s_i] -> find_tag name (ev_tags e) = None ->
  exists err, parse_key_package kp kp_tls_parse kp_ref kp_identity relay_ok e = inr err.
Proof. exact missing_required_tag_rejected. Qed.
Print Assumptions C15_missing_required_tag_rejected.

(* --- build then parse, under the law of the opaque TLS codec (kp_tls_parse (kp_tls_bytes k) = Some k) *)
Theorem C15_kp_event_roundtrip : forall (kp : Type) kp_tls_parse kp_ref kp_identity relay_ok kp_tls_bytes (k : kp) author relays protected client,
  kp_tls_parse (kp_tls_bytes k) = Some k -> bytes_ok (kp_tls_bytes k) = true ->
  bytes_ok (kp_ref k) = true -> kp_ref k <> [] ->
  kp_identity k = Some author -> relays <> [] -> forallb relay_ok relays = true ->
  parse_key_package kp kp_tls_parse kp_ref kp_identity relay_ok (build_key_package_event kp kp_ref kp_tls_bytes k author relays protected client) = inl k.
Proof. exact kp_event_roundtrip. Qed.
Print Assumptions C15_kp_event_roundtrip.

(* --- welcome rumors (kind 444) *)
Theorem C15_welcome_wrong_kind_rejected : forall relay_ok (welcome : Type) welcome_tls_parse e,
  ev_kind e <> kind_welcome -> parse_welcome relay_ok welcome welcome_tls_parse e = inr WKind.
Proof. exact welcome_wrong_kind_rejected. Qed.
Print Assumptions C15_welcome_wrong_kind_rejected.
Theorem C15_welcome_missing_encoding_rejected : forall relay_ok (welcome : Type) welcome_tls_parse e,
  (forall t, In t (ev_tags e) -> encoding_tag_ok t = false) -> exists err, parse_welcome relay_ok welcome welcome_tls_parse e = inr err.
Proof. exact welcome_missing_encoding_rejected. Qed.
Print Assumptions C15_welcome_missing_encoding_rejected.
Theorem C15_welcome_non_base64_content_rejected : forall relay_ok (welcome : Type) welcome_tls_parse e,
  b64_decode (ev_content e) = None -> exists err, parse_welcome relay_ok welcome welcome_tls_parse e = inr err.
Proof. exact welcome_non_base64_content_rejected. Qed.
Print Assumptions C15_welcome_non_base64_content_rejected.
Theorem C15_welcome_bad_tls_rejected : forall relay_ok (welcome : Type) welcome_tls_parse e raw,
  b64_decode (ev_content e) = Some raw -> welcome_tls_parse raw = None -> exists err, parse_welcome relay_ok welcome welcome_tls_parse e = inr err.
Proof. exact welcome_bad_tls_rejected. Qed.
Print Assumptions C15_welcome_bad_tls_rejected.
Theorem C15_welcome_rumor_roundtrip : forall relay_ok (welcome : Type) welcome_tls_parse welcome_tls_bytes (w : welcome) author relays kpid client,
  welcome_tls_parse (welcome_tls_bytes w) = Some w -> bytes_ok (welcome_tls_bytes w) = true ->
  relays <> [] -> forallb relay_ok relays = true -> kpid <> [] -> client <> [] ->
  parse_welcome relay_ok welcome welcome_tls_parse (build_welcome_rumor welcome welcome_tls_bytes w author relays kpid client) = inl w.
Proof. exact welcome_rumor_roundtrip. Qed.
Print Assumptions C15_welcome_rumor_roundtrip.

(* --- non-vacuity: RFC 4648 test vectors, refused paddings, and a concrete key-package event accepted / refused for the right reason *)
Example C15b_example :
  b64_encode [77; 97; 110] = [84; 87; 70; 117] /\ b64_encode [77; 97] = [84; 87; 69; 61] /\ b64_encode [77] = [84; 81; 61; 61] /\
  b64_decode [84; 81; 61; 61] = Some [77] /\ b64_decode [84; 82; 61; 61] = None /\ b64_decode [84; 81; 61] = None /\ b64_decode [84; 81] = None /\
  hex_decode [65; 98] = Some [171] /\ hex_decode [65] = None /\
  kp_verdict ex_kp_event true [9; 7] (Some [3; 3]) [[119; 115; 115; 58; 47; 47; 114]] = 0 /\
  kp_verdict ex_kp_event true [9; 8] (Some [3; 3]) [[119; 115; 115; 58; 47; 47; 114]] = 12 /\
  kp_verdict ex_kp_event true [9; 7] (Some [3; 4]) [[119; 115; 115; 58; 47; 47; 114]] = 11 /\
  kp_verdict ex_kp_event false [9; 7] (Some [3; 3]) [[119; 115; 115; 58; 47; 47; 114]] = 10.
Proof. exact event_codec_example. Qed.
