(* C07, second part - re-delivery AT ANY LATER POINT (after arbitrary further deliveries, local API calls, rollbacks,
   restarts), for the event kinds where the code keeps the promise; and machine-checked witnesses for the classes of
   history where it does not (known findings).  Statements only. *)
From MDK Require Import Base.Prelude Base.AMap Mdk.Engine Mdk.EngineSpec Mdk.EngineProofs Mdk.EngineProofs4 Mdk.EngineProofs5.
(* later_ok, record_stamped and not_yet_committed are re-stated here (same bodies as in Mdk/EngineProofs4.v, convertible) so that
   this file can be read on its own *)

(* operations of the rest of the run never reuse the id of the event under study for a different event: event ids are
   hashes of the event content, and locally created events have fresh ids *)
Definition later_ok (e0 : event) (o : eop) : Prop :=
  match o with
  | ODeliver e => e_id e = e_id e0 -> e = e0
  | OCommitted e | OSent e | OLeave e => e_id e <> e_id e0
  | OSentAs e _ => e_id e <> e_id e0
  | OMerge | OClear | ORestart => True
  end.

(* extra hypotheses of the two corrected statements below (see the STATEMENT CHANGE comments) *)
(* the dedup record of e, if it names a stored message, carries an epoch stamp (true in every reachable state:
   C07_record_stamped_reachable) *)
Definition record_stamped (c : client) (e : event) : Prop :=
  forall r, aget N.eqb (e_id e) (dedup c) = Some r -> d_msg r <> None -> d_epoch r <> None.
(* no ProcessedCommit record exists yet under the event number of e: this delivery is not the mere acknowledgement of an
   earlier record *)
Definition not_yet_committed (c : client) (e : event) : Prop :=
  forall r, aget N.eqb (e_id e) (dedup c) = Some r -> d_state r <> PS_COMMIT.

(* a stored application message of another member: re-delivered at any later point of any run it changes nothing observable *)
Theorem C07_message_later_point : forall c e ops, Inv c -> queue_wf c ->
  e_kind e = 1 -> e_author e <> me c -> snd (deliver c e) = RApp ->
  Forall (later_ok e) ops ->
  let c' := erun (fst (deliver c e)) ops in
  proj (fst (deliver c' e)) = proj c'.
Proof. exact message_later_point. Qed.
Print Assumptions C07_message_later_point.

(* the echo of the client's own application message, once confirmed *)
(* STATEMENT CHANGE: hypothesis `record_stamped c e` added.  Without it the statement is false of the model for an
   (unreachable) start state c whose record of e is PS_RETRY with a message but WITHOUT epoch stamp: the confirmed record
   (PS_PROCESSED, epoch None) is turned PS_FAILED/None by a re-delivery in a state that cannot open the outer layer, then
   PS_RETRY by the next rollback, and a further re-delivery confirms the (meanwhile invalidated) message a second time -
   machine-checked below as C07_own_message_unstamped_counterexample.  No reachable state has such a record
   (C07_record_stamped_reachable: create_message and the foreign-message path always stamp the epoch, record_failure keeps
   it), so for clients reachable from init_client the original statement holds. *)
Theorem C07_own_message_later_point : forall c e ops, Inv c -> queue_wf c ->
  e_kind e = 1 -> e_author e = me c -> snd (deliver c e) = RApp ->
  record_stamped c e ->
  Forall (later_ok e) ops ->
  let c' := erun (fst (deliver c e)) ops in
  proj (fst (deliver c' e)) = proj c'.
Proof. exact own_message_later_point. Qed.
Print Assumptions C07_own_message_later_point.

Theorem C07_record_stamped_reachable : forall i a r ops e, record_stamped (erun (init_client i a r) ops) e.
Proof. exact record_stamped_reachable. Qed.
Print Assumptions C07_record_stamped_reachable.

(* the original statement (without record_stamped) refuted *)
Theorem C07_own_message_unstamped_counterexample : exists c e ops, Inv c /\ queue_wf c /\
  e_kind e = 1 /\ e_author e = me c /\ snd (deliver c e) = RApp /\ Forall (later_ok e) ops /\
  let c' := erun (fst (deliver c e)) ops in proj (fst (deliver c' e)) <> proj c'.
Proof. exact own_message_unstamped_counterexample. Qed.
Print Assumptions C07_own_message_unstamped_counterexample.

(* a commit of another member that was applied here *)
(* STATEMENT CHANGE: hypothesis `not_yet_committed c e` added.  The epoch equation alone does not express "applied, not
   merely acknowledged": a client already at epoch e_epoch e + 1 that holds a ProcessedCommit record under e's event
   number (left there by an own commit with the same number that was created and cleared) acknowledges e in the late
   arm - RCommit, epoch e_epoch e + 1 - without ever applying it; after a rollback to e_epoch e (a better but unauthorised
   competitor) the record is still PS_COMMIT (its stamp is the old epoch) and the re-delivered e IS applied.
   Machine-checked below as C07_applied_commit_acknowledged_counterexample (start state reachable from init_client, but
   through a history in which an own and a foreign commit share an event number).  With not_yet_committed the RCommit
   can only come from apply_commit; the hypotheses `e_ts e <> 0` and the epoch equation are then redundant (kept). *)
Theorem C07_applied_commit_later_point : forall c e ops, Inv c -> queue_wf c ->
  e_kind e = 0 -> e_author e <> me c -> snd (deliver c e) = RCommit -> e_ts e <> 0 ->
  not_yet_committed c e ->                                 (* it was applied (not merely acknowledged) *)
  k_epoch (kc (fst (deliver c e))) = e_epoch e + 1 ->
  Forall (later_ok e) ops ->
  let c' := erun (fst (deliver c e)) ops in
  proj (fst (deliver c' e)) = proj c'.
Proof. exact applied_commit_later_point. Qed.
Print Assumptions C07_applied_commit_later_point.

(* the original statement (without not_yet_committed) refuted *)
Theorem C07_applied_commit_acknowledged_counterexample : exists c e ops, Inv c /\ queue_wf c /\
  e_kind e = 0 /\ e_author e <> me c /\ snd (deliver c e) = RCommit /\ e_ts e <> 0 /\
  k_epoch (kc (fst (deliver c e))) = e_epoch e + 1 /\ Forall (later_ok e) ops /\
  let c' := erun (fst (deliver c e)) ops in proj (fst (deliver c' e)) <> proj c'.
Proof. exact applied_commit_acknowledged_counterexample. Qed.
Print Assumptions C07_applied_commit_acknowledged_counterexample.

(* an event the client refused: offering it again at any later point ... is NOT claimed (a refused event may legitimately
   become processable later, e.g. after its predecessor arrives). *)

(* ---- witnesses for the known finding classes: reachable histories (from init_client, by deliveries and API calls only)
   on which re-delivering an event that had taken effect changes the observable projection *)
(* (C07_late_proposal_refuted - a queued leave proposal offered again after a later-stamped commit of its epoch rolled the
   client back - was the witness of the known finding `late-proposal-treated-as-mip03-candidate`; since the repair it no
   longer holds and is replaced by the three positive statements below) *)

(* since the repair (only commits are MIP-03 candidates): an event that is not a commit never rolls a client back *)
Theorem C07_only_commits_roll_back : forall c e, is_commit_kind e = false -> rollbacks (fst (deliver c e)) = rollbacks c.
Proof. exact only_commits_roll_back. Qed.
Print Assumptions C07_only_commits_roll_back.

(* a proposal of another epoch (late or early) is refused without any observable effect *)
Theorem C07_late_proposal_no_effect : forall c e, Inv c -> e_kind e = 2 -> e_epoch e <> k_epoch (kc c) ->
  proj (fst (deliver c e)) = proj c /\ queue (fst (deliver c e)) = queue c.
Proof. exact late_proposal_no_effect. Qed.
Print Assumptions C07_late_proposal_no_effect.

(* re-delivering a queued proposal of another member at any later point of a run in which the client has moved to
   another epoch changes nothing (this was the known finding `late-proposal-treated-as-mip03-candidate`) *)
Theorem C07_queued_proposal_later_epoch : forall c e ops, Inv c -> queue_wf c -> e_kind e = 2 ->
  let c' := erun (fst (deliver c e)) ops in
  e_epoch e <> k_epoch (kc c') -> proj (fst (deliver c' e)) = proj c'.
Proof. exact queued_proposal_later_epoch. Qed.
Print Assumptions C07_queued_proposal_later_epoch.

Theorem C07_own_echo_other_pending_refuted : exists i a r ops e,
  let c := erun (init_client i a r) ops in
  e_kind e = 0 /\ e_author e = i /\ In (ODeliver e) ops /\ proj (fst (deliver c e)) <> proj c.
Proof. exact own_echo_other_pending_refuted. Qed.
Print Assumptions C07_own_echo_other_pending_refuted.

Theorem C07_resurrected_pending_refuted : exists i a r ops e,
  let c := erun (init_client i a r) ops in
  e_kind e = 0 /\ e_author e = i /\ In (OCommitted e) ops /\ In (ODeliver e) ops /\
  k_pending (kc c) = Some (commit_of e) /\ proj (fst (deliver c e)) <> proj c.
Proof. exact resurrected_pending_refuted. Qed.
Print Assumptions C07_resurrected_pending_refuted.
