(* C02 - application messages: exactly once, under the sender's identity and content, valid on the winning branch.
   Statements only (engine level). *)
From MDK Require Import Base.Prelude Base.AMap Mdk.Engine Mdk.EngineSpec Mdk.EngineProofs Mdk.EngineProofs7.

(* a processed application message is stored exactly once, as Processed, under the receiver's current epoch *)
Theorem C02_app_stored_once : forall c e,
  snd (deliver c e) = RApp -> e_author e <> me c -> NoDup (map fst (msgs c)) ->
  let c' := fst (deliver c e) in
  exists mr, aget N.eqb (e_msg e) (msgs c') = Some mr /\ m_state mr = MS_PROCESSED /\
  length (filter (fun kv => fst kv =? e_msg e) (msgs c')) = 1%nat.
Proof. exact app_stored_once. Qed.
Print Assumptions C02_app_stored_once.

(* the sender's own copy is confirmed (Created -> Processed) when the message returns from the relay *)
Theorem C02_own_echo_confirms : forall c e m mr,
  e_kind e = 1 -> e_author e = me c -> Inv c -> k_active (kc c) = true ->
  aget N.eqb (e_id e) (dedup c) = Some (mkD PS_CREATED (Some (k_epoch (kc c))) true (Some m)) ->
  aget N.eqb m (msgs c) = Some mr -> e_epoch e = k_epoch (kc c) -> outer_opens (ensure_secret (kc c)) (e_state e) = true ->
  snd (deliver c e) = RApp /\
  exists mr', aget N.eqb m (msgs (fst (deliver c e))) = Some mr' /\ m_state mr' = MS_PROCESSED.
Proof. exact own_echo_confirms. Qed.
Print Assumptions C02_own_echo_confirms.

(* a rollback to epoch ep leaves no message of a later epoch marked valid (losing-branch messages are never left valid) *)
Theorem C02_rollback_invalidates_later : forall c ep s m mr,
  aget N.eqb m (msgs (rollback c ep s)) = Some mr -> ep < m_epoch mr -> m_state mr = MS_INVALID.
Proof. exact rollback_invalidates_later. Qed.
Print Assumptions C02_rollback_invalidates_later.

(* known finding: a winning-branch message processed after the receiver moved on is filed under the receiver's epoch,
   invalidated by a later rollback and then blocked for ever - witness *)
Theorem C02_late_message_refuted : exists c msg worse better,
  fork_ready c /\ e_state msg = k_cur (kc c) /\
  let c' := deliver_all c [worse; msg; better; msg] in
  k_cur (kc c') = e_id better + 1 /\
  exists mr, aget N.eqb (e_msg msg) (msgs c') = Some mr /\ m_state mr = MS_INVALID.
Proof. exact late_message_refuted. Qed.
Print Assumptions C02_late_message_refuted.

(* ---------------------------------------------------------------- second batch *)
(* a rollback to epoch ep leaves every message of epoch <= ep exactly as it was (the complement of
   C02_rollback_invalidates_later: the rollback target epoch itself is on both branches) *)
Theorem C02_rollback_keeps_earlier : forall c ep s m mr,
  aget N.eqb m (msgs c) = Some mr -> m_epoch mr <= ep -> aget N.eqb m (msgs (rollback c ep s)) = Some mr.
Proof. exact rollback_keeps_earlier. Qed.
Print Assumptions C02_rollback_keeps_earlier.

(* delivering commits never creates, removes or re-keys a message; it can only invalidate messages of later epochs.
   STATEMENT CHANGE: hypothesis `not_own_wrapper_of c e m` added
     (e_author e = me c -> forall r, aget N.eqb (e_id e) (dedup c) = Some r -> d_msg r <> Some m):
   the model takes event facts as inputs, so an event numbered like the wrapper of one of the receiver's own Created
   messages, authored by the receiver but of kind 0, takes the own-echo path and confirms that message
   (Created -> Processed) - counterexample C02_commit_statement_counterexample.  The hypothesis holds whenever the commit
   is foreign or its event number is unrecorded (foreign_not_own_wrapper, unrecorded_not_own_wrapper). *)
Theorem C02_commit_touches_no_earlier_message : forall c e m mr,
  e_kind e = 0 -> not_own_wrapper_of c e m ->
  aget N.eqb m (msgs c) = Some mr -> m_epoch mr <= e_epoch e ->
  aget N.eqb m (msgs (fst (deliver c e))) = Some mr.
Proof. exact commit_touches_no_earlier_message. Qed.
Print Assumptions C02_commit_touches_no_earlier_message.

(* the original conclusion for commits of other members *)
Theorem C02_foreign_commit_touches_no_earlier_message : forall c e m mr,
  e_kind e = 0 -> e_author e <> me c ->
  aget N.eqb m (msgs c) = Some mr -> m_epoch mr <= e_epoch e ->
  aget N.eqb m (msgs (fst (deliver c e))) = Some mr.
Proof. exact foreign_commit_touches_no_earlier_message. Qed.
Print Assumptions C02_foreign_commit_touches_no_earlier_message.

(* the counterexample to the statement without the hypothesis (all premises of the original hold, the conclusion fails) *)
Theorem C02_commit_statement_counterexample :
  e_kind cx_commit = 0 /\
  aget N.eqb 9 (msgs cx_client) = Some (mkM MS_CREATED 1 7 9) /\ m_epoch (mkM MS_CREATED 1 7 9) <= e_epoch cx_commit /\
  aget N.eqb 9 (msgs (fst (deliver cx_client cx_commit))) = Some (mkM MS_PROCESSED 1 7 9) /\
  ~ not_own_wrapper_of cx_client cx_commit 9.
Proof. exact commit_statement_counterexample. Qed.
Print Assumptions C02_commit_statement_counterexample.

(* hence a message stored at the epoch it was sent in survives the resolution of a fork on that epoch, whatever the
   delivery order of the competing commits: it is still there, Processed, under the same epoch *)
Theorem C02_fork_preserves_current_messages : forall c K ds m mr,
  fork_ready c -> fork_set c K -> (forall e, In e ds -> In e K) ->
  aget N.eqb m (msgs c) = Some mr -> m_epoch mr <= k_epoch (kc c) ->
  aget N.eqb m (msgs (deliver_all c ds)) = Some mr.
Proof. exact fork_preserves_current_messages. Qed.
Print Assumptions C02_fork_preserves_current_messages.

(* exactly once under any repetition: offering the same foreign application message any number of times leaves exactly
   one stored copy, in the state the first delivery left it *)
Theorem C02_repeated_delivery_one_copy : forall c e n,
  Inv c -> (forall s, In s (queue c) -> sn_epoch s <> k_epoch (kc c)) ->
  snd (deliver c e) = RApp -> e_author e <> me c -> NoDup (map fst (msgs c)) ->
  let c' := deliver_all c (repeat e (S n)) in
  msgs c' = msgs (fst (deliver c e)) /\
  length (filter (fun kv => fst kv =? e_msg e) (msgs c')) = 1%nat.
Proof. exact repeated_delivery_one_copy. Qed.
Print Assumptions C02_repeated_delivery_one_copy.
