(* C02 - application messages: exactly once, under the sender's identity and content, valid on the winning branch.
   Statements only (engine level). *)
From MDK Require Import Base.Prelude Base.AMap Mdk.Engine Mdk.EngineSpec Mdk.EngineProofs.

(* a processed application message is stored exactly once, as Processed, under the receiver's current epoch *)
Theorem C02_app_stored_once : forall c e,
  snd (deliver c e) = RApp -> e_author e <> me c -> NoDup (map fst (msgs c)) ->
  let c' := fst (deliver c e) in
  exists mr, aget N.eqb (e_msg e) (msgs c') = Some mr /\ m_state mr = MS_PROCESSED /\
  length (filter (fun kv => fst kv =? e_msg e) (msgs c')) = 1%nat.
Proof. exact app_stored_once. Qed.
Print Assumptions C02_app_stored_once.

(* the sender's own copy is confirmed (Created -> Processed) when the message returns from the relay *)
Theorem C02_own_echo_confirms : forall c e m mr,
  e_kind e = 1 -> e_author e = me c -> Inv c -> k_active (kc c) = true ->
  aget N.eqb (e_id e) (dedup c) = Some (mkD PS_CREATED (Some (k_epoch (kc c))) true (Some m)) ->
  aget N.eqb m (msgs c) = Some mr -> e_epoch e = k_epoch (kc c) -> outer_opens (ensure_secret (kc c)) (e_state e) = true ->
  snd (deliver c e) = RApp /\
  exists mr', aget N.eqb m (msgs (fst (deliver c e))) = Some mr' /\ m_state mr' = MS_PROCESSED.
Proof. exact own_echo_confirms. Qed.
Print Assumptions C02_own_echo_confirms.

(* a rollback to epoch ep leaves no message of a later epoch marked valid (losing-branch messages are never left valid) *)
Theorem C02_rollback_invalidates_later : forall c ep s m mr,
  aget N.eqb m (msgs (rollback c ep s)) = Some mr -> ep < m_epoch mr -> m_state mr = MS_INVALID.
Proof. exact rollback_invalidates_later. Qed.
Print Assumptions C02_rollback_invalidates_later.

(* known finding: a winning-branch message processed after the receiver moved on is filed under the receiver's epoch,
   invalidated by a later rollback and then blocked for ever - witness *)
Theorem C02_late_message_refuted : exists c msg worse better,
  fork_ready c /\ e_state msg = k_cur (kc c) /\
  let c' := deliver_all c [worse; msg; better; msg] in
  k_cur (kc c') = e_id better + 1 /\
  exists mr, aget N.eqb (e_msg msg) (msgs c') = Some mr /\ m_state mr = MS_INVALID.
Proof. exact late_message_refuted. Qed.
Print Assumptions C02_late_message_refuted.
