(* C15 - Wire formats round-trip and parsers accept nothing ambiguous.
   ONLY property statements: each theorem is closed by `exact <lemma>` and followed by Print Assumptions.
   Models: Codec/Varint.v Codec/TlsVec.v Codec/Utf8.v Codec/GroupDataExt.v (tied to the code by codec_diff). *)
From MDK Require Import Base.Prelude Base.BSet Codec.Varint Codec.TlsVec Codec.Utf8 Codec.GroupDataExt Codec.CodecProofs Gen.ExtLayout Codec.ExtTie.

(* --- variable-length integers: round trip for every value, with arbitrary following bytes *)
Theorem C15_varint_roundtrip : forall n bs rest,
  enc_len n = Some bs -> dec_len (bs ++ rest) = Some (n, rest).
Proof. exact dec_enc_len. Qed.
Print Assumptions C15_varint_roundtrip.

(* --- strictness: whatever decodes was the minimal encoding of its value (non-minimal lengths refused) *)
Theorem C15_varint_canonical : forall bs n rest,
  bytes_ok bs = true -> dec_len bs = Some (n, rest) -> exists pre, enc_len n = Some pre /\ bs = pre ++ rest.
Proof. exact enc_dec_len. Qed.
Print Assumptions C15_varint_canonical.

(* --- byte vectors *)
Theorem C15_bytes_roundtrip : forall v b rest,
  enc_bytes v = Some b -> dec_bytes (b ++ rest) = Some (v, rest).
Proof. exact dec_enc_bytes. Qed.
Print Assumptions C15_bytes_roundtrip.

(* --- the whole extension: every well-formed value (any UTF-8 name/description, any admin and relay sets,
       all 16 presence patterns of the optional image fields, versions 1..65535) parses back to itself *)
Theorem C15_ext_decode_encode : forall relay_norm e b,
  wf relay_norm e = true -> serialize e = Some b -> deserialize relay_norm b = Some e.
Proof. exact ext_decode_encode. Qed.
Print Assumptions C15_ext_decode_encode.

(* --- trailing bytes after a valid encoding are refused *)
Theorem C15_trailing_bytes_rejected : forall relay_norm e b rest,
  wf relay_norm e = true -> serialize e = Some b -> rest <> [] -> deserialize relay_norm (b ++ rest) = None.
Proof. exact trailing_bytes_rejected. Qed.
Print Assumptions C15_trailing_bytes_rejected.

(* --- version 0 is refused whatever else the bytes contain *)
Theorem C15_version0_rejected : forall relay_norm bs r rest,
  dec_raw bs = Some (r, rest) -> r_version r = 0 -> deserialize relay_norm bs = None.
Proof. exact version0_rejected. Qed.
Print Assumptions C15_version0_rejected.

(* --- optional fixed-length fields: any length other than 0 or the fixed one is refused *)
Theorem C15_bad_fixed_length_rejected : forall relay_norm bs r rest,
  dec_raw bs = Some (r, rest) ->
  (length (r_ihash r) <> 0 /\ length (r_ihash r) <> 32 \/
   length (r_ikey r) <> 0 /\ length (r_ikey r) <> 32 \/
   length (r_inonce r) <> 0 /\ length (r_inonce r) <> 12 \/
   length (r_iupload r) <> 0 /\ length (r_iupload r) <> 32)%nat ->
  deserialize relay_norm bs = None.
Proof. exact bad_fixed_length_rejected. Qed.
Print Assumptions C15_bad_fixed_length_rejected.

(* --- names and descriptions that are not UTF-8, and relays that are not UTF-8 or do not parse, are refused *)
Theorem C15_bad_text_rejected : forall relay_norm bs r rest,
  dec_raw bs = Some (r, rest) ->
  (utf8_valid (r_name r) = false \/ utf8_valid (r_descr r) = false \/
   exists u, In u (r_relays r) /\ (utf8_valid u = false \/ relay_norm u = None)) ->
  deserialize relay_norm bs = None.
Proof. exact bad_text_rejected. Qed.
Print Assumptions C15_bad_text_rejected.

(* --- canonicity (decode b = Some v -> encode v = b) is FALSE of the faithful model: the vector decoder
       reads whole elements past the declared length.  Witness = the finding C15/vector-element-overrun. *)
Theorem C15_canonical_refuted : exists relay_norm bs e,
  deserialize relay_norm bs = Some e /\ serialize e <> Some bs.
Proof. exact canonical_refuted. Qed.
Print Assumptions C15_canonical_refuted.

(* --- the model's field layout, constants and trailing-byte check are those of the current source text *)
Theorem C15_layout_tied : layout_tied_statement.
Proof. exact layout_tied. Qed.
Print Assumptions C15_layout_tied.

(* --- non-vacuity: a concrete non-trivial value satisfies wf and round-trips by computation *)
Example C15_wf_example : wf example_norm example_ext = true /\ roundtrip_ok example_norm example_ext = true.
Proof. exact wf_example. Qed.
