(* C17 - Media and group-image encryption.
   ONLY property statements: each theorem is closed by `exact <lemma>` and followed by Print Assumptions.
   Models: Codec/MediaCtx.v (HKDF context / AAD bytes, validators, symbolic AEAD/KDF, group image), Mdk/Media.v (epoch lookup);
   tables regenerated from /repo into Gen/MediaConsts.v; tied to the running code by media_diff. *)
From Coq Require Import String.
From MDK Require Import Base.Prelude Gen.MediaConsts Codec.MediaCtx Codec.MediaCtxProofs Mdk.Media Mdk.MediaProofs.

(* --- the byte strings given to HKDF and to the AEAD determine (label, hash, MIME type, file name): guards on both sides
       are exactly "label and MIME type contain no 0x00, hash is 32 bytes"; the file name needs none *)
Theorem C17_ctx_injective : forall l h m n l' h' m' n' s,
  no_nul l = true -> no_nul l' = true -> hash_ok h = true -> hash_ok h' = true ->
  no_nul m = true -> no_nul m' = true ->
  build_ctx l h m n s = build_ctx l' h' m' n' s -> l = l' /\ h = h' /\ m = m' /\ n = n'.
Proof. exact ctx_injective. Qed.
Print Assumptions C17_ctx_injective.

Theorem C17_aad_injective : forall l h m n l' h' m' n',
  no_nul l = true -> no_nul l' = true -> hash_ok h = true -> hash_ok h' = true ->
  no_nul m = true -> no_nul m' = true ->
  build_aad l h m n = build_aad l' h' m' n' -> l = l' /\ h = h' /\ m = m' /\ n = n'.
Proof. exact aad_injective. Qed.
Print Assumptions C17_aad_injective.

(* --- the same when only ONE side went through the validators (the decrypting side may present arbitrary MIME / name) *)
Theorem C17_ctx_injective_honest : forall l h m n l' h' m' n' s,
  no_nul l = true -> no_nul l' = true -> hash_ok h = true -> hash_ok h' = true ->
  no_nul m = true -> no_nul n = true ->
  build_ctx l h m n s = build_ctx l' h' m' n' s -> l = l' /\ h = h' /\ m = m' /\ n = n'.
Proof. exact ctx_injective_honest. Qed.
Print Assumptions C17_ctx_injective_honest.

Theorem C17_aad_injective_honest : forall l h m n l' h' m' n',
  no_nul l = true -> no_nul l' = true -> hash_ok h = true -> hash_ok h' = true ->
  no_nul m = true -> no_nul n = true ->
  build_aad l h m n = build_aad l' h' m' n' -> l = l' /\ h = h' /\ m = m' /\ n = n'.
Proof. exact aad_injective_honest. Qed.
Print Assumptions C17_aad_injective_honest.

(* --- the guards are what the validators enforce: allow-listed MIME types (table regenerated from the source) and validated
       file names contain no 0x00; every scheme label is 0x00-free and identifies its version *)
Theorem C17_validators_give_guards : forall f,
  file_ok f = true -> hash_ok (f_hash f) = true /\ no_nul (f_mime f) = true /\ no_nul (f_name f) = true.
Proof. exact file_ok_guards. Qed.
Print Assumptions C17_validators_give_guards.

Theorem C17_scheme_label_guard : forall v l, scheme_label v = Some l -> no_nul l = true.
Proof. exact scheme_label_no_nul. Qed.
Print Assumptions C17_scheme_label_guard.

(* --- without the MIME guard the encodings collide (low-level API only: derive_encryption_key does not validate) *)
Theorem C17_ctx_not_injective_without_guard : exists l h m n m' n',
  (m, n) <> (m', n') /\ hash_ok h = true /\ no_nul l = true /\
  build_ctx l h m n key_suffix = build_ctx l h m' n' key_suffix /\ build_aad l h m n = build_aad l h m' n'.
Proof. exact ctx_not_injective_without_guard. Qed.
Print Assumptions C17_ctx_not_injective_without_guard.

(* --- the model's strings are assembled from the pieces, constants and arms of the current source text *)
Theorem C17_layout_tied : layout_tied_statement.
Proof. exact media_layout_tied. Qed.
Print Assumptions C17_layout_tied.

(* --- same bytes for every holder of the encryption epoch's secret *)
Theorem C17_media_roundtrip_same_epoch : forall (H : bytes -> bytes) secret f n pt c,
  media_encrypt secret f n pt = Some c -> f_hash f = H pt -> media_decrypt H secret f n c = inl pt.
Proof. exact media_roundtrip_same_epoch. Qed.
Print Assumptions C17_media_roundtrip_same_epoch.

(* --- tampering: unchanged ciphertext with any changed field (version, hash, MIME, name) or nonce, or any ciphertext not made
       with the group's secret: an error *)
Theorem C17_tamper_fails : forall (H : bytes -> bytes) secret f n pt c f' n' c',
  file_ok f = true -> hash_ok (f_hash f') = true ->
  media_encrypt secret f n pt = Some c ->
  (c', n', f') <> (c, n, f) ->
  (c' = c \/ ct_secret c' <> Some secret) ->
  exists e, media_decrypt H secret f' n' c' = inr e.
Proof. exact tamper_fails. Qed.
Print Assumptions C17_tamper_fails.

(* --- ... and never different bytes, whatever secret, fields and nonce are presented *)
Theorem C17_never_different_bytes : forall (H : bytes -> bytes) secret f n pt c secret' f' n' x,
  media_encrypt secret f n pt = Some c -> media_decrypt H secret' f' n' c = inl x -> x = pt.
Proof. exact never_different_bytes. Qed.
Print Assumptions C17_never_different_bytes.

(* --- different file, name, MIME type, version or group/epoch secret: different key *)
Theorem C17_keys_distinct : forall secret f secret' f' k k',
  file_ok f = true -> hash_ok (f_hash f') = true ->
  media_key secret f = Some k -> media_key secret' f' = Some k' ->
  (secret <> secret' \/ f <> f') -> k <> k'.
Proof. exact keys_distinct. Qed.
Print Assumptions C17_keys_distinct.

(* --- nobody else *)
Theorem C17_non_member_fails : forall (H : bytes -> bytes) secret f n pt c secret' f' n',
  media_encrypt secret f n pt = Some c -> secret' <> secret ->
  exists e, media_decrypt H secret' f' n' c = inr e.
Proof. exact non_member_fails. Qed.
Print Assumptions C17_non_member_fails.

(* --- later epochs: with the right hint and the secret still stored, at any current epoch *)
Theorem C17_decrypt_later_epoch_with_right_hint : forall (H : bytes -> bytes) cl s e f n pt c,
  media_encrypt s f n pt = Some c -> f_hash f = H pt ->
  find_hint (cl_msgs cl) (f_hash f) = Some e -> secret_at (cl_secrets cl) e = Some s ->
  decrypt_from_download H cl f n c = inl pt.
Proof. exact decrypt_later_epoch_with_right_hint. Qed.
Print Assumptions C17_decrypt_later_epoch_with_right_hint.

(* --- exactly when decrypt_from_download returns the plaintext *)
Theorem C17_decrypt_ok_iff : forall (H : bytes -> bytes) cl s f n pt c,
  media_encrypt s f n pt = Some c -> f_hash f = H pt ->
  (decrypt_from_download H cl f n c = inl pt <->
   hinted_secret cl (f_hash f) = Some s \/ secret_at (cl_secrets cl) (cl_epoch cl) = Some s).
Proof. exact decrypt_ok_iff. Qed.
Print Assumptions C17_decrypt_ok_iff.

(* --- the property's later-epoch clause, outside the known class (announcement processed before any intervening commit;
       the sender is the case j = 0): any number k of commits later *)
Theorem C17_decrypt_any_later_epoch : forall (H : bytes -> bytes) (sec : N -> N),
  (forall a b, sec a = sec b -> a = b) ->
  forall e0 j k f n pt c,
  ~ Known_late_announcement j -> (j <= k)%nat ->
  media_encrypt (sec e0) f n pt = Some c -> f_hash f = H pt ->
  decrypt_from_download H (member_client sec e0 j k (f_hash f)) f n c = inl pt.
Proof. exact decrypt_any_later_epoch. Qed.
Print Assumptions C17_decrypt_any_later_epoch.

(* --- the known class is exact: every announcement processed after >= 1 intervening commits fails (finding
       C17/announcement-processed-after-commit-wrong-epoch-hint) *)
Theorem C17_late_announcement_fails : forall (H : bytes -> bytes) (sec : N -> N),
  (forall a b, sec a = sec b -> a = b) ->
  forall e0 j k f n pt c,
  Known_late_announcement j -> (j <= k)%nat ->
  media_encrypt (sec e0) f n pt = Some c -> f_hash f = H pt ->
  exists e, decrypt_from_download H (member_client sec e0 j k (f_hash f)) f n c = inr e.
Proof. exact late_announcement_fails. Qed.
Print Assumptions C17_late_announcement_fails.

Theorem C17_decrypt_later_epoch_wrong_hint_refuted : exists j k, (j <= k)%nat /\ scenario_ok j k = false.
Proof. exact decrypt_later_epoch_wrong_hint_refuted. Qed.
Print Assumptions C17_decrypt_later_epoch_wrong_hint_refuted.

(* --- a second source of wrong hints: the same file announced at two epochs (finding C17/same-file-announced-at-two-epochs-wrong-epoch-hint) *)
Theorem C17_same_file_twice_refuted : same_file_twice = (true, false).
Proof. exact same_file_twice_refuted. Qed.
Print Assumptions C17_same_file_twice_refuted.

(* --- group image: decrypts with the published seed and nonce in both formats; wrong seed / nonce / blob fails; migration keeps the bytes *)
Theorem C17_image_roundtrip_v1_v2 : forall (Hc : ct -> bytes) seed nonce pt,
  image_decrypt Hc (image_encrypt_v2 seed nonce pt) (Some (Hc (image_encrypt_v2 seed nonce pt))) seed nonce = Some pt /\
  image_decrypt Hc (image_encrypt_v2 seed nonce pt) None seed nonce = Some pt /\
  image_decrypt Hc (image_encrypt_v1 seed nonce pt) (Some (Hc (image_encrypt_v1 seed nonce pt))) seed nonce = Some pt /\
  image_decrypt Hc (image_encrypt_v1 seed nonce pt) None seed nonce = Some pt.
Proof. exact image_roundtrip_v1_v2. Qed.
Print Assumptions C17_image_roundtrip_v1_v2.

Theorem C17_image_tamper_fails : forall (Hc : ct -> bytes) seed nonce pt c seed' nonce' c' e,
  (c = image_encrypt_v2 seed nonce pt \/ c = image_encrypt_v1 seed nonce pt) ->
  (c' = c /\ (seed' <> seed \/ nonce' <> nonce)) \/ ct_secret c' <> Some seed' \/ (e = Some (Hc c) /\ Hc c' <> Hc c) ->
  image_decrypt Hc c' e seed' nonce' = None.
Proof. exact image_tamper_fails. Qed.
Print Assumptions C17_image_tamper_fails.

Theorem C17_image_migrate_keeps_bytes : forall (Hc : ct -> bytes) k nonce pt seed2 nonce2 c2,
  image_migrate Hc (image_encrypt_v1 k nonce pt) None k nonce seed2 nonce2 = Some c2 ->
  image_decrypt Hc c2 (Some (Hc c2)) seed2 nonce2 = Some pt.
Proof. exact image_migrate_keeps_bytes. Qed.
Print Assumptions C17_image_migrate_keeps_bytes.

(* --- non-vacuity: a concrete validated file encrypts, decrypts, and is refused under another secret / nonce; the validators
       refuse a path separator, a NUL, a C1 control and a MIME type outside the allow-list; the scenario's good cases succeed *)
Example C17_example :
  file_ok ex_file = true /\
  (exists c, media_encrypt 5 ex_file [9] [1; 2; 3] = Some c /\ media_decrypt ex_H 5 ex_file [9] c = inl [1; 2; 3] /\
             media_decrypt ex_H 6 ex_file [9] c = inr EDecrypt /\ media_decrypt ex_H 5 ex_file [8] c = inr EDecrypt) /\
  filename_valid (bytes_of_string "a/b") = false /\ filename_valid [97; 0; 98] = false /\ filename_valid [194; 133] = false /\
  mime_allowed (bytes_of_string "image/svg+xml") = false.
Proof. exact media_example. Qed.
Example C17_scenario_examples : scenario_ok 0 0 = true /\ scenario_ok 0 6 = true /\ scenario_ok 1 6 = false /\ scenario_ok 6 6 = false.
Proof. exact scenario_examples. Qed.
