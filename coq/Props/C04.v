(* C04 - stored messages are bound to their authenticated sender and to their own content (engine level; the message number
   stands for the NIP-01 hash of the rumor's own fields, an injective idealisation; the id is recomputed by the receiver
   since fix 7727e46).  Statements only. *)
From MDK Require Import Base.Prelude Base.AMap Mdk.Engine Mdk.EngineSpec Mdk.EngineProofs Mdk.EngineProofs3.
From MDK Require Import Mdk.EngineProofs4 Mdk.EngineProofs5.

(* an event from another member can create or replace at most the record keyed by its own (recomputed) message id: every
   other stored message, of any author, is untouched.  (A rollback re-labels later-epoch messages as invalidated, hence the
   exclusion; see the next theorem.) *)
Theorem C04_foreign_event_touches_only_its_message : forall c e m,
  e_author e <> me c -> rollbacks (fst (deliver c e)) = rollbacks c -> m <> e_msg e ->
  aget N.eqb m (msgs (fst (deliver c e))) = aget N.eqb m (msgs c).
Proof. exact foreign_event_touches_only_its_message. Qed.
Print Assumptions C04_foreign_event_touches_only_its_message.

(* even with a rollback, a foreign event never removes, re-attributes or re-keys another stored message: at most its
   validity flag goes to invalidated *)
Theorem C04_foreign_event_rollback_only_invalidates : forall c e m mr,
  e_author e <> me c -> m <> e_msg e -> aget N.eqb m (msgs c) = Some mr ->
  exists mr', aget N.eqb m (msgs (fst (deliver c e))) = Some mr' /\
  m_epoch mr' = m_epoch mr /\ m_wrapper mr' = m_wrapper mr /\ m_created mr' = m_created mr /\
  (m_state mr' = m_state mr \/ m_state mr' = MS_INVALID).
Proof. exact foreign_event_rollback_only_invalidates. Qed.
Print Assumptions C04_foreign_event_rollback_only_invalidates.

(* a processed application message of another member is filed under its own id, with its own wrapper and creation stamp *)
Theorem C04_app_stored_under_own_id : forall c e,
  snd (deliver c e) = RApp -> e_author e <> me c ->
  exists mr, aget N.eqb (e_msg e) (msgs (fst (deliver c e))) = Some mr /\ m_wrapper mr = e_id e /\ m_created mr = e_msg e.
Proof. exact app_stored_under_own_id. Qed.
Print Assumptions C04_app_stored_under_own_id.

(* a sender that pre-sets another message's id on its rumor only re-files its OWN copy under that key *)
Theorem C04_preset_id_only_hits_sender : forall c e key,
  msgs (sent_as c e key) = aset N.eqb key (mkM MS_CREATED (k_epoch (ensure_secret (kc c))) (e_id e) (e_msg e)) (msgs c).
Proof. exact preset_id_only_hits_sender. Qed.
Print Assumptions C04_preset_id_only_hits_sender.

(* replaying an event never produces a second copy of a message *)
Theorem C04_replay_no_second_copy : forall c e, NoDup (map fst (msgs c)) -> NoDup (map fst (msgs (fst (deliver c e)))).
Proof. exact no_second_copy. Qed.
Print Assumptions C04_replay_no_second_copy.

(* ---- an application message whose inner rumor names an author other than its MLS-authenticated sender (e_bad = 7:
   verify_rumor_author fails) is never stored, in any client state, whatever the receiver's epoch and whoever now holds
   the sender's leaf; the set of stored message ids is unchanged by it *)
Theorem C04_forged_author_never_stored : forall c e, e_kind e = 1 -> e_bad e = 7 -> e_author e <> me c ->
  snd (deliver c e) <> RApp /\ map fst (msgs (fst (deliver c e))) = map fst (msgs c).
Proof. exact forged_never_stored. Qed.
Print Assumptions C04_forged_author_never_stored.
