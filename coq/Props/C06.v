(* C06 - a refused event has no effect (engine level).  Statements only.
   The unrestricted frame statement is FALSE of the faithful model (and of the code) in two classes, which are the known
   findings; outside them it is proved for every event in every client state. *)
From MDK Require Import Base.Prelude Base.AMap Mdk.Engine Mdk.EngineSpec Mdk.EngineProofs.

(* known classes: (1) the WrongEpoch arm rolls back before re-processing and the candidate is then refused;
                  (2) an admin holding a pending commit stores a leave proposal before the auto-commit fails *)
Definition Known_rollback_then_refused (c : client) (e : event) : Prop := rollbacks (fst (deliver c e)) <> rollbacks c.
Definition Known_leave_to_pending_admin (c : client) (e : event) : Prop :=
  e_kind e = 2 /\ is_admin c = true /\ k_pending (kc c) <> None.

Theorem C06_refusal_frame : forall c e,
  refused (snd (deliver c e)) = true ->
  ~ Known_rollback_then_refused c e -> ~ Known_leave_to_pending_admin c e ->
  proj (fst (deliver c e)) = proj c.
Proof. exact refusal_frame. Qed.
Print Assumptions C06_refusal_frame.

Theorem C06_rollback_then_refused_witness : exists c e,
  Known_rollback_then_refused c e /\ refused (snd (deliver c e)) = true /\ proj (fst (deliver c e)) <> proj c.
Proof. exact rollback_then_refused_witness. Qed.
Theorem C06_leave_to_pending_admin_witness : exists c e,
  Known_leave_to_pending_admin c e /\ refused (snd (deliver c e)) = true /\ proj (fst (deliver c e)) <> proj c.
Proof. exact leave_to_pending_admin_witness. Qed.
Print Assumptions C06_leave_to_pending_admin_witness.

(* the model is total: every event in every state yields a result (no stuck state) - by construction of `deliver` *)
Theorem C06_total : forall c e, exists c' r, deliver c e = (c', r).
Proof. exact deliver_total. Qed.
