(* C06 - a refused event has no effect (engine level).  Statements only.
   The unrestricted frame statement is FALSE of the faithful model (and of the code) in one class, which is the known
   finding; outside it, it is proved for every event in every client state.  (A second class - an admin holding a pending
   commit stored a leave proposal before the auto-commit failed - was fixed in the code and is gone from the model.) *)
From MDK Require Import Base.Prelude Base.AMap Mdk.Engine Mdk.EngineSpec Mdk.EngineProofs Mdk.EngineProofs5.

(* known class: the WrongEpoch arm rolls back before re-processing and the candidate is then refused *)
Definition Known_rollback_then_refused (c : client) (e : event) : Prop := rollbacks (fst (deliver c e)) <> rollbacks c.
(* (removed: fixed in the code, see known_findings fixed entry) *)

Theorem C06_refusal_frame : forall c e,
  refused (snd (deliver c e)) = true ->
  ~ Known_rollback_then_refused c e ->
  proj (fst (deliver c e)) = proj c.
Proof. exact refusal_frame. Qed.
Print Assumptions C06_refusal_frame.

Theorem C06_rollback_then_refused_witness : exists c e,
  Known_rollback_then_refused c e /\ refused (snd (deliver c e)) = true /\ proj (fst (deliver c e)) <> proj c.
Proof. exact rollback_then_refused_witness. Qed.
Print Assumptions C06_rollback_then_refused_witness.
(* (removed: fixed in the code, see known_findings fixed entry) *)

(* a leave proposal that reaches an admin whose own commit is pending is queued, and says so *)
Theorem C06_leave_to_pending_admin_queued : forall c e r,
  e_kind e = 2 -> e_author e <> me c -> is_admin c = true -> k_pending (kc c) <> None ->
  existsb (N.eqb (100000 + e_id e)) (k_seen (kc c)) = false ->
  snd (leave_here c e r) = RPending /\ k_pending (kc (fst (leave_here c e r))) = k_pending (kc c) /\
  k_props (kc (fst (leave_here c e r))) = k_props (kc c) ++ [e_id e].
Proof. exact leave_to_pending_admin_queued. Qed.
Print Assumptions C06_leave_to_pending_admin_queued.

(* the model is total: every event in every state yields a result (no stuck state) - by construction of `deliver` *)
Theorem C06_total : forall c e, exists c' r, deliver c e = (c', r).
Proof. exact deliver_total. Qed.
