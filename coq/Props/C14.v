(* C14 - Logs and errors never carry group ids or secrets.
   ONLY property statements: each theorem is closed by `exact <lemma>` and followed by Print Assumptions.
   Model: Flow/Taint.v over the table Gen/Sites.v (regenerated from /repo by tools/translate/sites.py on every run;
   its completeness is checked dynamically by harness/src/bin/log_diff.rs).
   GENERAL theorems hold for every site table; FINITE-TABLE theorems are about the current Gen/Sites.v and are
   closed by computation on it. *)
From Coq Require Import List String Bool.
From MDK Require Import Gen.Sites Flow.Taint Flow.TaintProofs.
Import ListNotations.
Local Open Scope string_scope.

(* --- GENERAL: the executable checker decides the relational specification, for every table (by induction) *)
Theorem C14_check_sound_complete : forall g, check g = true <-> leak_free g.
Proof. exact check_sound_complete. Qed.
Print Assumptions C14_check_sound_complete.

(* --- GENERAL: the same with an excuse predicate; taint is still computed on the whole table *)
Theorem C14_check_except_sound_complete : forall k g, check_except k g = true <-> leak_free_except k g.
Proof. exact check_except_correct. Qed.
Print Assumptions C14_check_except_sound_complete.

(* --- GENERAL: the computed taint set is exactly the relational one *)
Theorem C14_taint_list_exact : forall g e, In e (taint_list g) <-> tainted g e.
Proof. exact taint_list_spec. Qed.
Print Assumptions C14_taint_list_exact.

(* --- FINITE TABLE: the current tree without the known sites passes the checker.
       A new sink interpolating a sensitive value (or an error value that can carry one) makes this fail. *)
Theorem C14_sites_leak_free : check (filter (fun s => negb (known_site s)) sites) = true.
Proof. exact sites_check_filtered. Qed.
Print Assumptions C14_sites_leak_free.

(* --- FINITE TABLE, stronger: in the WHOLE current table (known sites included as taint sources) every sink
       that is not a known site is clean in the relational sense *)
Theorem C14_sites_leak_free_strong :
  forall s, In s sites -> known_site s = false -> ~ site_leaks sites s.
Proof. exact sites_leak_free_except_known. Qed.
Print Assumptions C14_sites_leak_free_strong.

(* --- FINITE TABLE: the known finding is real - each known site is in the table and is flagged on its own,
       and the unexcused current table is not leak free *)
Theorem C14_known_site_witness : forall s, In s sites -> known_site s = true -> check [s] = false.
Proof. exact known_site_witness. Qed.
Print Assumptions C14_known_site_witness.

Theorem C14_known_sites_present : List.length (filter known_site sites) = 0%nat.
Proof. exact known_sites_present. Qed.
Print Assumptions C14_known_sites_present.

(* after the repair of the snapshot-name WARN (fix: commit in /repo) the WHOLE current table is leak free *)
Theorem C14_sites_leak_free_full : leak_free sites.
Proof. exact sites_leak_free_full. Qed.
Print Assumptions C14_sites_leak_free_full.

(* --- FINITE TABLE: hand-written Debug impls interpolate nothing sensitive, and the types that hold secrets /
       ids and must print a redaction (Secret, EncryptionConfig, MessageProcessingResult, EpochSnapshot and its managers) have one *)
Theorem C14_redacting_debug :
  (forall s, In s sites -> s_kind s = "debug-impl" -> ~ site_leaks sites s) /\
  (forall ty, In ty redacting_types -> has_debug_impl sites ty = true).
Proof. exact redacting_debug. Qed.
Print Assumptions C14_redacting_debug.
