(* C19 - Storage backends are safe to share between threads.
   ONLY property statements: each theorem is closed by `exact <lemma>` and followed by Print Assumptions.
   Model: Conc/Sections.v (lock level + section level + key/value instance); tie: Gen/LockTable.v regenerated from
   crates/mdk-memory-storage and crates/mdk-sqlite-storage on every run. *)
From MDK Require Import Base.Prelude Conc.Sections Conc.SectionsProofs Gen.LockTable.
From Coq Require Import String.
Local Open Scope string_scope.
Local Open Scope N_scope.

(* --- the current source never takes a lock while holding another (trait methods, helpers, OpenMLS provider impl) *)
Theorem C19_current_table_no_nested_locks : no_nested_locks lock_table = true /\ no_nested_locks mls_lock_table = true.
Proof. exact current_table_no_nested_locks. Qed.
Print Assumptions C19_current_table_no_nested_locks.

(* --- every method has exactly the critical sections (lock, mode, order) the model gives it *)
Theorem C19_current_table_matches_model : map entry_shape lock_table = model_sections.
Proof. exact current_table_matches_model. Qed.
Print Assumptions C19_current_table_matches_model.

Theorem C19_current_mls_table_single_section : forallb one_plain_section mls_lock_table = true.
Proof. exact current_mls_table_single_section. Qed.
Print Assumptions C19_current_mls_table_single_section.

(* --- the key/value instance uses those sections *)
Theorem C19_kv_model_matches_shapes : forall o,
  shape_of "memory" (op_method o) = Some (map sect_shape (mem_sections o)) /\
  shape_of "sqlite" (op_method o) = Some (map sect_shape (sq_sections o)).
Proof. exact kv_model_matches_shapes. Qed.
Print Assumptions C19_kv_model_matches_shapes.

(* --- no nested acquisition => no deadlock: any number of threads, any calls, every reachable configuration *)
Theorem C19_no_nested_deadlock_free : forall threads : list (list (list acq)),
  (forall calls a, In calls threads -> In a calls -> acqs_not_nested a = true) ->
  forall ts, lreach (linit threads) ts -> ldone ts \/ exists ts', lstep ts ts'.
Proof. exact no_nested_deadlock_free. Qed.
Print Assumptions C19_no_nested_deadlock_free.

Theorem C19_current_table_deadlock_free : forall threads : list (list entry),
  (forall calls e, In calls threads -> In e calls -> In e lock_table \/ In e mls_lock_table) ->
  forall ts, lreach (linit (map (map snd) threads)) ts -> ldone ts \/ exists ts', lstep ts ts'.
Proof. exact current_table_deadlock_free. Qed.
Print Assumptions C19_current_table_deadlock_free.

(* non-vacuity of the hypothesis: nested acquisitions in opposite order do get stuck in this semantics *)
Theorem C19_nested_can_deadlock : exists ts, lreach (linit nested_example) ts /\ ~ ldone ts /\ forall ts', ~ lstep ts ts'.
Proof. exact nested_can_deadlock. Qed.
Print Assumptions C19_nested_can_deadlock.

(* --- one-section methods: every interleaving of any number of threads is a sequential order of the calls *)
Theorem C19_single_section_linearizable : forall (State Local : Type) (c : cfg State Local) sched,
  all_single c -> exists order, sequential_outcome order c = outcome (exec sched c).
Proof. exact (@single_section_linearizable). Qed.
Print Assumptions C19_single_section_linearizable.

(* --- [check ; act] methods whose check, once true, stays true: linearizable (at the last executed section) *)
Theorem C19_guarded_linearizable : forall (State Local : Type) (G : (State -> bool) -> Prop) (I : State -> Prop)
  (c : cfg State Local) sched,
  gshapes G c -> sects_ok G I c -> I (st c) ->
  exists order, sequential_outcome order c = outcome (exec sched c).
Proof. exact (@guarded_linearizable). Qed.
Print Assumptions C19_guarded_linearizable.

(* --- SQLite: all modelled operations (incl. the six two-acquisition methods, snapshot create / rollback) *)
Theorem C19_sqlite_linearizable : forall s progs sched,
  snaps_have_group s ->
  exists order, sequential_outcome order (kv_cfg "sqlite" s progs) = outcome (exec sched (kv_cfg "sqlite" s progs)).
Proof. exact sqlite_kv_linearizable. Qed.
Print Assumptions C19_sqlite_linearizable.

(* --- memory: everything except the two-lock snapshot methods (class C19/memory-snapshot-two-locks) *)
Theorem C19_memory_linearizable_excl : forall s progs sched,
  (forall p o, In p progs -> In o p -> two_lock_snapshot_op o = false) ->
  exists order, sequential_outcome order (kv_cfg "memory" s progs) = outcome (exec sched (kv_cfg "memory" s progs)).
Proof. exact memory_kv_linearizable_excl. Qed.
Print Assumptions C19_memory_linearizable_excl.

(* --- memory, refuted: two-thread schedules whose outcome no sequential order has *)
Theorem C19_memory_create_snapshot_not_atomic : exists s progs sched,
  progs = [[CreateSnap 1 7]; [Rollback 1 7]] /\ not_linearizable "memory" s progs sched = true.
Proof. exact memory_create_snapshot_not_atomic. Qed.
Print Assumptions C19_memory_create_snapshot_not_atomic.

Theorem C19_memory_rollback_not_atomic : exists s progs sched,
  progs = [[Rollback 1 7]; [ListSnaps 1; FindGroup 1]] /\ not_linearizable "memory" s progs sched = true.
Proof. exact memory_rollback_not_atomic. Qed.
Print Assumptions C19_memory_rollback_not_atomic.

Theorem C19_memory_save_message_not_atomic : exists s progs sched,
  progs = [[SaveMessage 1 3]; [Rollback 1 7; FindMessage 1 3]] /\ not_linearizable "memory" s progs sched = true.
Proof. exact memory_save_message_not_atomic. Qed.
Print Assumptions C19_memory_save_message_not_atomic.

Example C19_sqlite_same_programs_fine :
  not_linearizable "sqlite" st_g10_snap5 [[CreateSnap 1 7]; [Rollback 1 7]] [0; 1; 1; 0]%nat = false /\
  not_linearizable "sqlite" st_g10_snap5 [[Rollback 1 7]; [ListSnaps 1; FindGroup 1]] [0; 1; 1; 0]%nat = false.
Proof. exact sqlite_same_programs_fine. Qed.

(* --- the view a snapshot stores is the group's state at one instant (both backends) *)
Theorem C19_snapshot_is_instantaneous : snapshot_instant_statement.
Proof. exact snapshot_is_instantaneous. Qed.
Print Assumptions C19_snapshot_is_instantaneous.

(* --- a section of an operation on group g leaves every other group's record, relays, messages, snapshots as they were *)
Theorem C19_different_groups_independent : forall b o x s l g',
  In x (backend_sections b o) -> g' <> op_group o -> group_part g' (fst (fst (s_run x s l))) = group_part g' s.
Proof. exact different_groups_independent. Qed.
Print Assumptions C19_different_groups_independent.
