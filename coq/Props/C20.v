(* C20 - rollback snapshots stay bounded in number and age.  Statements only. *)
From MDK Require Import Base.Prelude Base.AMap Mdk.Engine Mdk.EngineSpec Mdk.EngineProofs Mdk.EngineProofs2 Store.Contract Store.ContractSpec Store.ContractProofs.
From MDK Require Import Mdk.EngineProofs2 Mdk.EngineProofs3 Mdk.EngineProofs4 Mdk.EngineProofs5.

(* never more snapshots than the configured retention, after every operation of every history (retention 0 included) *)
Theorem C20_queue_bounded_step : forall c o, lenN (queue c) <= retention c -> lenN (queue (estep c o)) <= retention (estep c o).
Proof. exact queue_bounded_step. Qed.
Theorem C20_queue_bounded : forall i a r ops, lenN (queue (erun (init_client i a r) ops)) <= r.
Proof. exact queue_bounded. Qed.
Print Assumptions C20_queue_bounded.

(* the snapshots kept are those of the most recent commits on the current path: strictly increasing epochs, all below the
   current epoch, each the state just before that epoch's commit *)
Theorem C20_queue_recent : forall i a r ops, queue_wf (erun (init_client i a r) ops).
Proof. exact queue_recent. Qed.
Print Assumptions C20_queue_recent.

(* a rollback to epoch ep discards the snapshot it consumes and every later one *)
Theorem C20_rollback_discards_superseded : forall c ep s x, queue_wf c -> find_snap ep (queue c) = Some s ->
  In x (queue (rollback c ep s)) -> sn_epoch x < ep.
Proof. exact rollback_discards_superseded. Qed.
Print Assumptions C20_rollback_discards_superseded.

(* start-up TTL pruning at the storage contract: exactly the snapshots older than the cut-off go, nothing else changes *)
Theorem C20_ttl_prune_exact : forall s min_ts k v,
  NoDup (map fst (snaps s)) ->
  (aget pair_eqb k (snaps (fst (step s (Prune min_ts)))) = Some v <-> aget pair_eqb k (snaps s) = Some v /\ min_ts <= fst v) /\
  live (fst (step s (Prune min_ts))) = live s.
Proof. exact ttl_prune_exact. Qed.
Print Assumptions C20_ttl_prune_exact.

(* a session restarted with ANOTHER retention (restart_with): nothing observable changes at the restart, and the next commit
   applied brings the number of stored snapshots within the new limit, whatever was stored before *)
Theorem C20_retention_change_next_commit_bounds : forall c r e cm,
  lenN (queue (fst (apply_commit (restart_with c r) e cm))) <= r.
Proof. exact restart_with_then_commit. Qed.
Print Assumptions C20_retention_change_next_commit_bounds.

Theorem C20_retention_change_keeps_state : forall c r,
  kc (restart_with c r) = kc c /\ Engine.msgs (restart_with c r) = Engine.msgs c /\ Engine.dedup (restart_with c r) = Engine.dedup c /\ retention (restart_with c r) = r.
Proof. exact restart_with_keeps_state. Qed.
Print Assumptions C20_retention_change_keeps_state.
