(* C05 - only admins change roster or group data; proposals never take effect by themselves.  Statements only. *)
From MDK Require Import Base.Prelude Base.AMap Mdk.Engine Mdk.EngineSpec Mdk.Authz Mdk.EngineProofs Mdk.EngineProofs2 Mdk.EngineProofs5.

(* the whitelist: a commit accepted from a non-admin consists of Update proposals of the committer only, with at least one
   update signal - whatever the (unbounded) proposal list contains *)
Theorem C05_non_admin_commit_is_pure : forall hp props,
  authorised false hp props = true ->
  (forall p, In p props -> fst p = PUpdate /\ snd p = true) /\ (hp = true \/ exists p, In p props /\ fst p = PUpdate).
Proof. exact non_admin_commit_is_pure. Qed.
Print Assumptions C05_non_admin_commit_is_pure.
Theorem C05_non_admin_commit_changes_nothing : forall hp props,
  authorised false hp props = true -> changes_group props = false.
Proof. exact non_admin_commit_changes_nothing. Qed.
Theorem C05_empty_commit_refused : authorised false false [] = false.
Proof. exact empty_commit_refused. Qed.

(* a commit of another member that the engine applies is authorised (author admin, or pure self-update) *)
Theorem C05_applied_commit_authorised : forall c e,
  e_kind e = 0 -> e_author e <> me c -> aget N.eqb (e_id e) (dedup c) = None ->
  snd (deliver c e) = RCommit -> e_auth e = true.
Proof. exact applied_commit_authorised. Qed.
Print Assumptions C05_applied_commit_authorised.

(* an unauthorised commit never changes the MLS state, the epoch or the group data, unless the WrongEpoch arm rolled the
   client back first (known finding rolled-back-then-refused) *)
Theorem C05_unauthorised_commit_frame : forall c e,
  e_kind e = 0 -> e_author e <> me c -> e_auth e = false ->
  rollbacks (fst (deliver c e)) = rollbacks c -> gstate (fst (deliver c e)) = gstate c.
Proof. exact unauthorised_commit_frame. Qed.
Print Assumptions C05_unauthorised_commit_frame.

(* a proposal alone never changes the MLS state, the epoch or the group data (same exclusion) *)
Theorem C05_proposal_alone_no_effect : forall c e,
  e_kind e = 2 -> rollbacks (fst (deliver c e)) = rollbacks c -> gstate (fst (deliver c e)) = gstate c.
Proof. exact proposal_alone_no_effect. Qed.
Print Assumptions C05_proposal_alone_no_effect.

(* application messages and hostile events never change it at all *)
Theorem C05_message_no_effect : forall c e,
  e_kind e = 1 \/ e_kind e = 3 -> rollbacks (fst (deliver c e)) = rollbacks c -> gstate (fst (deliver c e)) = gstate c.
Proof. exact message_no_effect. Qed.
Print Assumptions C05_message_no_effect.

(* a commit that would change a member's identity (another Nostr key in the credential of its path or update leaf,
   whether or not the MLS signature key is kept) is refused by every receiver and never moves the group state *)
Theorem C05_identity_change_commit_frame : forall c e,
  e_kind e = 0 -> e_author e <> me c -> e_bad e = 8 ->
  rollbacks (fst (deliver c e)) = rollbacks c -> gstate (fst (deliver c e)) = gstate c.
Proof. exact identity_change_commit_frame. Qed.
Print Assumptions C05_identity_change_commit_frame.

(* "the only automatic case being an admin committing a member's own request to leave": a proposal is auto-committed exactly
   when the receiver is an admin with no commit of its own pending AND the proposal removes nobody but its proposer; the commit
   created removes the proposer only; a Remove proposal naming another member is queued by every receiver and creates nothing *)
Theorem C05_auto_commit_iff : forall c e r,
  existsb (N.eqb (100000 + e_id e)) (k_seen (kc c)) = false ->
  (snd (leave_here c e r) = RAuto <-> is_admin c = true /\ k_pending (kc c) = None /\ self_remove e = true).
Proof. exact auto_commit_iff. Qed.
Print Assumptions C05_auto_commit_iff.
Theorem C05_auto_commit_removes_proposer : forall c e r,
  snd (leave_here c e r) = RAuto -> exists id, k_pending (kc (fst (leave_here c e r))) = Some (id, 0, [e_author e]).
Proof. exact auto_commit_removes_proposer. Qed.
Print Assumptions C05_auto_commit_removes_proposer.
Theorem C05_third_party_remove_never_auto : forall c e r,
  self_remove e = false ->
  snd (leave_here c e r) <> RAuto /\ k_pending (kc (fst (leave_here c e r))) = k_pending (kc c).
Proof. exact third_party_remove_never_auto. Qed.
Print Assumptions C05_third_party_remove_never_auto.
