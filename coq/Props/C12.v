(* C12 - A crash at any storage step leaves a recoverable database.  Statements only; proofs in Crash/StmtProgProofs.v.
   Model: Crash/StmtProg.v (atomic units over an abstract store; explicit small-step brackets; calls with guards).
   Tie: crash_diff records the storage-operation trace of every call kind on the real SQLite backend and compares its
   write-unit projection with `prog_of_kind` (CR lines); Gen/TxBrackets.v + Gen/SqlTables.v give the bracket tables.
   ASSUMED: SQLite's own journaling / fsync (a statement, and a committed transaction, is atomic and durable; an abandoned
   connection's open transaction is rolled back). *)
From Coq Require Import List String NArith Bool.
From MDK Require Import Crash.StmtProg Crash.StmtProgProofs Gen.SqlTables Store.SqlTie Gen.TxBrackets.
Import ListNotations.
Local Open Scope string_scope.
Local Open Scope list_scope.

(* ---- general theorems (any program, any store, any crash index) *)
Theorem C12_bracket_atomic : forall pre sts post k s, (k <= List.length sts)%nat ->
  crash_small (List.length (flatten pre) + S k) (flatten (pre ++ Tx sts :: post)) s
  = crash (List.length pre) (pre ++ Tx sts :: post) s.
Proof. exact bracket_atomic. Qed.
Print Assumptions C12_bracket_atomic.

Theorem C12_bracket_committed : forall pre sts post s,
  crash_small (List.length (flatten pre) + S (S (List.length sts))) (flatten (pre ++ Tx sts :: post)) s
  = crash (S (List.length pre)) (pre ++ Tx sts :: post) s.
Proof. exact bracket_committed. Qed.
Print Assumptions C12_bracket_committed.

Theorem C12_recover_idempotent : forall p, determined p = true -> forall k s x, run p (crash k p s) x = run p s x.
Proof. exact recover_idempotent. Qed.
Print Assumptions C12_recover_idempotent.

Theorem C12_recover_idempotent_call : forall c, determined (body c) = true -> guard_untouched c = true ->
  forall k s x, recover k c s x = run_call c s x.
Proof. exact recover_idempotent_call. Qed.
Print Assumptions C12_recover_idempotent_call.

Theorem C12_recover_not_idempotent_refuted :
  (exists p k s x, run p (crash k p s) x <> run p s x) /\
  (exists c k s x, determined (body c) = true /\ recover k c s x <> run_call c s x).
Proof. exact recover_not_idempotent_refuted. Qed.
Print Assumptions C12_recover_not_idempotent_refuted.

Theorem C12_reopen_total : forall p k s x, exists v, crash k p s x = v.
Proof. exact reopen_total. Qed.
Print Assumptions C12_reopen_total.

(* ---- all-or-nothing of snapshot creation, rollback and relay replacement *)
Theorem C12_snapshot_atomic :
  sites_all_inside "snapshot_group_state" = true /\
  forall k s, (k <= List.length (bracket_of "tx:snapshot_group_state"))%nat ->
    crash_small (S k) (flatten (body (call_of_kind "create_group_snapshot"))) s = s.
Proof. exact snapshot_atomic. Qed.
Print Assumptions C12_snapshot_atomic.

Theorem C12_restore_atomic :
  sites_all_inside "restore_group_from_snapshot" = true /\ plan_all_in_tx = true /\
  forall k s, (k <= List.length (bracket_of "tx:restore_group_from_snapshot"))%nat ->
    crash_small (S k) (flatten (body (call_of_kind "rollback_group_to_snapshot"))) s = s.
Proof. exact restore_atomic. Qed.
Print Assumptions C12_restore_atomic.

Theorem C12_replace_relays_atomic :
  sites_all_inside "replace_group_relays" = true /\
  forall k s, (k <= List.length (bracket_of "tx:replace_group_relays"))%nat ->
    crash_small (S k) (flatten (body (call_of_kind "replace_group_relays"))) s = s.
Proof. exact replace_relays_atomic. Qed.
Print Assumptions C12_replace_relays_atomic.

(* ---- the concrete programs *)
Theorem C12_current_programs_match_trace :
  List.length programs = 16%nat /\ NoDup kinds /\ forall kd, body (call_of_kind kd) = sem 0%N 1%N (prog_of_kind kd).
Proof. exact current_programs_match_trace. Qed.
Print Assumptions C12_current_programs_match_trace.

Theorem C12_classification_explains_failures :
  forallb (fun kd =>
    match smallest_failing_k kd, first_guard_rewrite kd with
    | Some n, Some i => Nat.eqb n (S i)
    | None, Some i => Nat.eqb (S i) (List.length (prog_of_kind kd))   (* rewriting the guard in the LAST unit is harmless *)
    | None, None => true
    | Some _, None => false
    end) kinds = true.
Proof. exact classification_explains_failures. Qed.
Print Assumptions C12_classification_explains_failures.

Theorem C12_crash_recoverable_self_update : forall k s x, recover k (call_of_kind "self_update") s x = run_call (call_of_kind "self_update") s x.
Proof. exact crash_recoverable_self_update. Qed.
Print Assumptions C12_crash_recoverable_self_update.
Theorem C12_crash_recoverable_update_group_data : forall k s x, recover k (call_of_kind "update_group_data") s x = run_call (call_of_kind "update_group_data") s x.
Proof. exact crash_recoverable_update_group_data. Qed.
Print Assumptions C12_crash_recoverable_update_group_data.
Theorem C12_crash_recoverable_create_message : forall k s x, recover k (call_of_kind "create_message") s x = run_call (call_of_kind "create_message") s x.
Proof. exact crash_recoverable_create_message. Qed.
Print Assumptions C12_crash_recoverable_create_message.
Theorem C12_crash_recoverable_replace_group_relays : forall k s x, recover k (call_of_kind "replace_group_relays") s x = run_call (call_of_kind "replace_group_relays") s x.
Proof. exact crash_recoverable_replace_group_relays. Qed.
Print Assumptions C12_crash_recoverable_replace_group_relays.
Theorem C12_crash_recoverable_snapshot_kinds :
  (forall kd s x, recover 0 (call_of_kind kd) s x = run_call (call_of_kind kd) s x) /\
  recovers "create_group_snapshot" 1 = true /\ recovers "rollback_group_to_snapshot" 1 = true.
Proof. exact crash_recoverable_snapshot_kinds. Qed.
Print Assumptions C12_crash_recoverable_snapshot_kinds.

(* known findings: the smallest crash index (in write units) after which calling again no longer reaches the
   uninterrupted result; every smaller index recovers *)
Theorem C12_refuted_witness : forall kd n, refuted_at kd n ->
  exists x, recover n (call_of_kind kd) pre_store x <> run_call (call_of_kind kd) pre_store x.
Proof. exact refuted_witness. Qed.
Print Assumptions C12_refuted_witness.
Theorem C12_crash_not_recoverable_process_application : refuted_at "process_application" 2.
Proof. exact crash_not_recoverable_process_application. Qed.
Print Assumptions C12_crash_not_recoverable_process_application.
Theorem C12_crash_not_recoverable_process_commit : refuted_at "process_commit" 1.
Proof. exact crash_not_recoverable_process_commit. Qed.
Print Assumptions C12_crash_not_recoverable_process_commit.
Theorem C12_crash_not_recoverable_process_commit_rollback : refuted_at "process_commit_rollback" 1.
Proof. exact crash_not_recoverable_process_commit_rollback. Qed.
Print Assumptions C12_crash_not_recoverable_process_commit_rollback.
Theorem C12_crash_not_recoverable_process_proposal_admin : refuted_at "process_proposal_admin" 2.
Proof. exact crash_not_recoverable_process_proposal_admin. Qed.
Print Assumptions C12_crash_not_recoverable_process_proposal_admin.
Theorem C12_crash_not_recoverable_process_proposal_member : refuted_at "process_proposal_member" 2.
Proof. exact crash_not_recoverable_process_proposal_member. Qed.
Print Assumptions C12_crash_not_recoverable_process_proposal_member.
Theorem C12_crash_not_recoverable_own_commit_echo : refuted_at "own_commit_echo" 2.
Proof. exact crash_not_recoverable_own_commit_echo. Qed.
Print Assumptions C12_crash_not_recoverable_own_commit_echo.
Theorem C12_crash_not_recoverable_merge_pending_commit : refuted_at "merge_pending_commit" 1.
Proof. exact crash_not_recoverable_merge_pending_commit. Qed.
Print Assumptions C12_crash_not_recoverable_merge_pending_commit.
(* process_welcome: since the fix (the welcome is stored BEFORE the record that marks its wrapper processed) a death after
   any unit is recovered by processing the wrapper again; before it, index 3 failed ("welcome record missing") *)
Theorem C12_crash_recoverable_process_welcome :
  smallest_failing_k "process_welcome" = None /\ forallb (recovers "process_welcome") (seq 0 8) = true.
Proof. exact crash_recoverable_process_welcome_units. Qed.
Print Assumptions C12_crash_recoverable_process_welcome.
(* accept_welcome is recoverable at every cut: processing the welcome event again returns the stored welcome (whatever its
   state) and accepting it again redoes every step.  (An earlier version listed this call as a finding because the harness
   only re-accepted welcomes still listed as pending - the harness's assumption, not the code's: a false alarm, corrected.) *)
Theorem C12_crash_recoverable_accept_welcome : forall k s x, recover k (call_of_kind "accept_welcome") s x = run_call (call_of_kind "accept_welcome") s x.
Proof. exact crash_recoverable_accept_welcome. Qed.
Print Assumptions C12_crash_recoverable_accept_welcome.
Theorem C12_crash_not_recoverable_create_group :
  create_group_retry_same 27 = false /\ forallb create_group_retry_same (seq 0 27) = true.
Proof. exact crash_not_recoverable_create_group. Qed.
Print Assumptions C12_crash_not_recoverable_create_group.

Example C12_nonvacuous :
  same_on observed (crash_call 1 (call_of_kind "process_commit") pre_store) (run_call (call_of_kind "process_commit") pre_store) = false /\
  same_on observed (run_call (call_of_kind "self_update") pre_store) pre_store = false /\
  same_on observed (recover 3 (call_of_kind "self_update") pre_store) (run_call (call_of_kind "self_update") pre_store) = true.
Proof. exact c12_nonvacuous. Qed.
Print Assumptions C12_nonvacuous.
