(* C07 - re-delivering an already handled event changes nothing observable.  Statements only. *)
From MDK Require Import Base.Prelude Base.AMap Mdk.Engine Mdk.EngineSpec Mdk.EngineProofs.

(* every event, in every client state satisfying the record invariant: handling it a second time leaves the observable
   projection (epoch, MLS state, record, pending commit and proposals, group data, last-message pointer, stored messages,
   number of snapshots) exactly as the first handling left it *)
Theorem C07_redelivery_idempotent : forall c e, Inv c ->
  proj (fst (deliver (fst (deliver c e)) e)) = proj (fst (deliver c e)).
Proof. exact redelivery_idempotent. Qed.
Print Assumptions C07_redelivery_idempotent.

(* any number of repetitions *)
Theorem C07_redelivery_idempotent_n : forall c e n, Inv c ->
  proj (deliver_all (fst (deliver c e)) (repeat e n)) = proj (fst (deliver c e)).
Proof. exact redelivery_idempotent_n. Qed.
Print Assumptions C07_redelivery_idempotent_n.

(* the MIP-03 comparison is irreflexive: an applied commit is never a better candidate than itself *)
Theorem C07_same_commit_not_better : forall c e s,
  find_snap (e_epoch e) (queue c) = Some s -> sn_ts s = e_ts e -> sn_key s = e_key e ->
  is_better c (e_epoch e) (e_ts e) (e_key e) = false.
Proof. exact same_commit_not_better. Qed.
Print Assumptions C07_same_commit_not_better.

(* a stored message is never duplicated: the message table stays keyed by message id *)
Theorem C07_no_second_copy : forall c e, NoDup (map fst (msgs c)) -> NoDup (map fst (msgs (fst (deliver c e)))).
Proof. exact no_second_copy. Qed.
Print Assumptions C07_no_second_copy.
