(* C07 - re-delivering an already handled event changes nothing observable.  Statements only. *)
From MDK Require Import Base.Prelude Base.AMap Mdk.Engine Mdk.EngineSpec Mdk.EngineProofs.

(* every event, in every client state satisfying the record invariant: handling it a second time leaves the observable
   projection (epoch, MLS state, record, pending commit and proposals, group data, last-message pointer, stored messages,
   number of snapshots) exactly as the first handling left it *)
(* STATEMENT CHANGE (found while proving): the hypothesis "no retained snapshot is labelled with the client's current
   epoch" was added.  Without it the statement is false of the model: with queue = [snapshot labelled epoch 1, recorded
   (ts,key) = (9,9)] on a client that is itself at epoch 1, a commit (ts,key) = (5,5) on the current state is applied
   (epoch 2, a second snapshot for epoch 1 is appended), and its re-delivery takes the WrongEpoch arm, finds the OLDER
   epoch-1 snapshot first, is "better" than (9,9) and rolls the client back to that snapshot's state.  Such a queue is not
   reachable from init_client (snapshot labels are strictly increasing and below the current epoch in every reachable
   state: apply_commit appends the current epoch then advances, rollback cuts the queue at the restored epoch), and
   fork_ready (C01) contains the stronger `sn_epoch s < k_epoch (kc c)`. *)
Theorem C07_redelivery_idempotent : forall c e, Inv c ->
  (forall s, In s (queue c) -> sn_epoch s <> k_epoch (kc c)) ->
  proj (fst (deliver (fst (deliver c e)) e)) = proj (fst (deliver c e)).
Proof. exact redelivery_idempotent. Qed.
Print Assumptions C07_redelivery_idempotent.

(* any number of repetitions *)
Theorem C07_redelivery_idempotent_n : forall c e n, Inv c ->
  (forall s, In s (queue c) -> sn_epoch s <> k_epoch (kc c)) ->
  proj (deliver_all (fst (deliver c e)) (repeat e n)) = proj (fst (deliver c e)).
Proof. exact redelivery_idempotent_n. Qed.
Print Assumptions C07_redelivery_idempotent_n.

(* the added side condition is an invariant of every API path (queue_wf, Mdk/EngineSpec.v: snapshot labels strictly
   increasing, below the current epoch, equal to the epoch of the stored core), so for every state reachable from
   init_client the unrestricted statement holds *)
Theorem C07_queue_wf_init : forall i a r, queue_wf (init_client i a r).
Proof. exact queue_wf_init. Qed.
Theorem C07_queue_wf_deliver : forall c e, queue_wf c -> queue_wf (fst (deliver c e)).
Proof. exact queue_wf_deliver. Qed.
Theorem C07_queue_wf_api : forall c e, queue_wf c ->
  queue_wf (fst (merge_pending c)) /\ queue_wf (committed c e) /\ queue_wf (clear_pending c) /\ queue_wf (sent c e) /\ queue_wf (leave_created c e).
Proof. exact queue_wf_api. Qed.
Theorem C07_queue_wf_no_current : forall c, queue_wf c -> forall s, In s (queue c) -> sn_epoch s <> k_epoch (kc c).
Proof. exact queue_wf_no_current. Qed.
Theorem C07_redelivery_idempotent_reachable : forall i a r ds e n, let c := deliver_all (init_client i a r) ds in
  proj (deliver_all (fst (deliver c e)) (repeat e n)) = proj (fst (deliver c e)).
Proof. exact redelivery_idempotent_reachable. Qed.
Print Assumptions C07_redelivery_idempotent_reachable.

(* the MIP-03 comparison is irreflexive: an applied commit is never a better candidate than itself *)
Theorem C07_same_commit_not_better : forall c e s,
  find_snap (e_epoch e) (queue c) = Some s -> sn_ts s = e_ts e -> sn_key s = e_key e ->
  is_better c (e_epoch e) (e_ts e) (e_key e) = false.
Proof. exact same_commit_not_better. Qed.
Print Assumptions C07_same_commit_not_better.

(* a stored message is never duplicated: the message table stays keyed by message id *)
Theorem C07_no_second_copy : forall c e, NoDup (map fst (msgs c)) -> NoDup (map fst (msgs (fst (deliver c e)))).
Proof. exact no_second_copy. Qed.
Print Assumptions C07_no_second_copy.
