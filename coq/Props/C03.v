(* C03 - only members of the sending epoch obtain a message's plaintext.  Statements only.
   Symbolic (Dolev-Yao) idealisation: the outer layer opens iff the receiver holds the exporter secret of the sender's state;
   a client obtains a state's secrets only by being in that state. *)
From MDK Require Import Base.Prelude Base.AMap Mdk.Engine Mdk.EngineSpec Mdk.EngineProofs Mdk.EngineProofs2.
From MDK Require Import Mdk.EngineProofs4 Mdk.EngineProofs5.

(* along ANY run of API calls and deliveries from the join state, every state whose secrets the client holds - live or in
   a retained snapshot - is a state the client has been in *)
Theorem C03_secrets_only_of_visited_states : forall i a r ops st,
  let c := erun (init_client i a r) ops in
  (In st (held_states (kc c)) \/ exists s, In s (queue c) /\ In st (held_states (sn_core s))) ->
  In st (visited (init_client i a r) ops).
Proof. exact secrets_only_of_visited_states. Qed.
Print Assumptions C03_secrets_only_of_visited_states.

(* hence a foreign application message is read only if it was sent in a state the reader has been in *)
Theorem C03_plaintext_only_for_visited : forall i a r ops e,
  reads (erun (init_client i a r) ops) e -> In (e_state e) (visited (init_client i a r) ops).
Proof. exact plaintext_only_for_visited. Qed.
Print Assumptions C03_plaintext_only_for_visited.

(* once evicted, a client reads nothing and its observable state never changes again *)
Theorem C03_evicted_is_inert : forall c e, k_active (kc c) = false ->
  snd (deliver c e) <> RApp /\ proj (fst (deliver c e)) = proj c.
Proof. exact evicted_is_inert. Qed.
Print Assumptions C03_evicted_is_inert.

(* a client that never held the group (no secrets at all) reads nothing *)
Theorem C03_no_secrets_no_plaintext : forall c e,
  k_secrets (kc c) = [] -> k_past (kc c) = [] -> e_state e <> k_cur (kc c) -> ~ reads c e.
Proof. exact no_secrets_no_plaintext. Qed.
Print Assumptions C03_no_secrets_no_plaintext.

(* ---- members that join later (through a welcome): they start holding nothing, and along any run every state whose secrets
   they hold - live or in a retained snapshot - is a state they have been in since joining; so nothing sent before they
   joined is ever readable by them *)
Theorem C03_joiner_holds_nothing : forall i a r cur ep d,
  held_states (kc (join_client i a r cur ep d)) = [] /\ msgs (join_client i a r cur ep d) = [] /\ queue (join_client i a r cur ep d) = [].
Proof. exact join_holds_nothing. Qed.
Print Assumptions C03_joiner_holds_nothing.

Theorem C03_joiner_secrets_only_of_visited_states : forall i a r cur ep d ops st,
  let c := erun (join_client i a r cur ep d) ops in
  (In st (held_states (kc c)) \/ exists s, In s (queue c) /\ In st (held_states (sn_core s))) ->
  In st (visited (join_client i a r cur ep d) ops).
Proof. exact joiner_secrets_only_of_visited_states. Qed.
Print Assumptions C03_joiner_secrets_only_of_visited_states.

Theorem C03_joiner_plaintext_only_for_visited : forall i a r cur ep d ops e,
  reads (erun (join_client i a r cur ep d) ops) e -> In (e_state e) (visited (join_client i a r cur ep d) ops).
Proof. exact joiner_plaintext_only_for_visited. Qed.
Print Assumptions C03_joiner_plaintext_only_for_visited.
