(* C14 - proofs about Flow/Taint.v.
   General part (unbounded, by induction): the checker decides the relational specification for EVERY site table.
   Finite-table part (by vm_compute on Gen/Sites.v, labelled as such): the current table passes. *)
From Coq Require Import List String Bool NArith Arith Lia.
From MDK Require Import Gen.Sites Flow.Taint.
Import ListNotations.
Local Open Scope string_scope.

Lemma mem_In e l : mem e l = true <-> In e l.
Proof.
  unfold mem. rewrite existsb_exists. split.
  - intros [x [Hx He]]. apply String.eqb_eq in He. subst. exact Hx.
  - intros H. exists e. split; [exact H|apply String.eqb_refl].
Qed.

Lemma mem_false e l : mem e l = false <-> ~ In e l.
Proof.
  rewrite <- mem_In. destruct (mem e l).
  - split; [discriminate|]. intros H. exfalso. apply H. reflexivity.
  - split; [intros _ H; discriminate|reflexivity].
Qed.

Lemma dedup_In x l : In x (dedup l) <-> In x l.
Proof.
  induction l as [|y l IH]; cbn [dedup]; [tauto|].
  destruct (mem y l) eqn:M.
  - rewrite IH. apply mem_In in M. split; [intros H; right; exact H|].
    intros [<-|H]; [exact M|exact H].
  - cbn [In]. rewrite IH. tauto.
Qed.

(* ------------------------------------------------------------------ generic reachability *)
Section ReachProofs.
  Variable src : string -> bool.
  Variable succ : string -> list string.

  Lemma reach_b_sound fuel : forall vis e, reach_b src succ fuel vis e = true -> reach src succ e.
  Proof.
    induction fuel as [|f IH]; intros vis e H; cbn [reach_b] in H; [discriminate|].
    destruct (mem e vis); [discriminate|].
    destruct (src e) eqn:Hs; [apply R_src; exact Hs|].
    apply existsb_exists in H. destruct H as [e' [Hin Hr]].
    apply R_step with e'; [exact Hin|]. apply IH with (e :: vis). exact Hr.
  Qed.

  (* a witness path: consecutive nodes are successors, the last one is a source *)
  Inductive chain : list string -> Prop :=
  | chain_one e : src e = true -> chain [e]
  | chain_cons e e' p : In e' (succ e) -> chain (e' :: p) -> chain (e :: e' :: p).

  Lemma chain_tail a b p : chain (a :: b :: p) -> chain (b :: p).
  Proof. intros H. inversion H as [x Hx Heq | x y q Hin Hc Heq]. subst. exact Hc. Qed.

  Lemma chain_suffix l1 : forall e l2, chain (l1 ++ e :: l2) -> chain (e :: l2).
  Proof.
    induction l1 as [|a l1 IH]; intros e l2 H; cbn [app] in H; [exact H|].
    apply IH. destruct l1 as [|b l1]; cbn [app] in *; apply chain_tail with a; exact H.
  Qed.

  Lemma NoDup_suffix (l1 l2 : list string) : NoDup (l1 ++ l2) -> NoDup l2.
  Proof.
    induction l1 as [|a l1 IH]; cbn [app]; intros H; [exact H|].
    inversion H as [|x l Hn Hd]. apply IH. exact Hd.
  Qed.

  Lemma reach_chain e : reach src succ e -> exists p, chain (e :: p) /\ NoDup (e :: p).
  Proof.
    intros H. induction H as [e Hs | e e' Hin Hr IH].
    - exists []. split; [apply chain_one; exact Hs|]. constructor; [intros []|constructor].
    - destruct IH as [p [Hc Hn]].
      destruct (in_dec string_dec e (e' :: p)) as [Hi|Hi].
      + apply in_split in Hi. destruct Hi as [l1 [l2 Heq]].
        exists l2. rewrite Heq in Hc, Hn. split.
        * apply chain_suffix with l1. exact Hc.
        * apply NoDup_suffix with l1. exact Hn.
      + exists (e' :: p). split.
        * apply chain_cons; assumption.
        * constructor; assumption.
  Qed.

  Lemma chain_reach_b : forall p e vis fuel,
    chain (e :: p) -> NoDup (e :: p) -> (forall x, In x (e :: p) -> ~ In x vis) ->
    (List.length (e :: p) <= fuel)%nat -> reach_b src succ fuel vis e = true.
  Proof.
    induction p as [|e' p IH]; intros e vis fuel Hc Hn Hv Hl.
    - destruct fuel as [|f]; [cbn in Hl; lia|]. cbn [reach_b].
      assert (mem e vis = false) as -> by (apply mem_false; apply Hv; left; reflexivity).
      inversion Hc as [x Hs Heq | x y q Hin Hc' Heq]. rewrite Hs. reflexivity.
    - destruct fuel as [|f]; [cbn in Hl; lia|]. cbn [reach_b].
      assert (mem e vis = false) as -> by (apply mem_false; apply Hv; left; reflexivity).
      destruct (src e); [reflexivity|].
      inversion Hc as [x Hs Heq | x y q Hin Hc' Heq]. subst.
      apply existsb_exists. exists e'. split; [exact Hin|].
      inversion Hn as [|x l Hne Hn']. subst.
      apply IH; [exact Hc'|exact Hn'| |cbn [List.length] in *; lia].
      intros x Hx [Hxe|Hxv].
      + subst x. apply Hne. exact Hx.
      + apply (Hv x); [right; exact Hx|exact Hxv].
  Qed.

  Variable univ : list string.
  Hypothesis univ_closed : forall e, src e = true \/ succ e <> [] -> In e univ.

  Lemma chain_incl p : chain p -> incl p univ.
  Proof.
    intros H. induction H as [e Hs | e e' p Hin Hc IH]; intros x Hx.
    - destruct Hx as [<-|[]]. apply univ_closed. left. exact Hs.
    - destruct Hx as [<-|Hx]; [|apply IH; exact Hx].
      apply univ_closed. right. intros Heq. rewrite Heq in Hin. exact Hin.
  Qed.

  Lemma reach_b_complete e : reach src succ e -> reach_b src succ (S (List.length univ)) [] e = true.
  Proof.
    intros H. apply reach_chain in H. destruct H as [p [Hc Hn]].
    apply chain_reach_b with p; [exact Hc|exact Hn|intros x _ []|].
    assert (List.length (e :: p) <= List.length univ)%nat; [|lia].
    apply NoDup_incl_length; [exact Hn|]. apply chain_incl. exact Hc.
  Qed.

  Theorem reach_b_correct e : reach_b src succ (S (List.length univ)) [] e = true <-> reach src succ e.
  Proof. split; [apply reach_b_sound|apply reach_b_complete]. Qed.
End ReachProofs.

Lemma reach_mono (src src' : string -> bool) (succ succ' : string -> list string) :
  (forall e, src e = true -> src' e = true) -> (forall e x, In x (succ e) -> In x (succ' e)) ->
  forall e, reach src succ e -> reach src' succ' e.
Proof.
  intros Hs Hn e H. induction H as [e H | e e' Hin Hr IH].
  - apply R_src. apply Hs. exact H.
  - apply R_step with e'; [apply Hn; exact Hin|exact IH].
Qed.

(* ------------------------------------------------------------------ the graph of a table *)
Lemma src_of_spec g e : src_of g e = true <-> source g e.
Proof.
  unfold src_of, source. rewrite existsb_exists. split.
  - intros [s [Hin H]]. apply andb_true_iff in H. destruct H as [Ho Hs]. apply String.eqb_eq in Ho.
    exists s. auto.
  - intros [s [Hin [Ho Hs]]]. exists s. split; [exact Hin|]. rewrite Ho, String.eqb_refl, Hs. reflexivity.
Qed.

Lemma succ_of_spec g e x : In x (succ_of g e) <-> edge g e x.
Proof.
  unfold succ_of, edge. rewrite in_flat_map. split.
  - intros [s [Hin H]]. destruct (String.eqb (s_owner s) e) eqn:E; [|destruct H].
    apply String.eqb_eq in E. exists s. auto.
  - intros [s [Hin [Ho Hx]]]. exists s. split; [exact Hin|]. rewrite Ho, String.eqb_refl. exact Hx.
Qed.

Lemma tainted_reach g e : tainted g e <-> reach (src_of g) (succ_of g) e.
Proof.
  split; intros H.
  - induction H as [e Hs | e e' He Ht IH].
    + apply R_src. apply src_of_spec. exact Hs.
    + apply R_step with e'; [apply succ_of_spec; exact He|exact IH].
  - induction H as [e Hs | e e' He Hr IH].
    + apply T_source. apply src_of_spec. exact Hs.
    + apply T_step with e'; [apply succ_of_spec; exact He|exact IH].
Qed.

Lemma in_nodes g e : In e (nodes g) <-> exists s, In s g /\ s_owner s = e.
Proof.
  unfold nodes. rewrite dedup_In, in_map_iff. split; intros [s [A B]]; exists s; auto.
Qed.

Lemma lookup_map (f : string -> bool * list string) l e :
  lookup (map (fun k => (k, f k)) l) e = if mem e l then Some (f e) else None.
Proof.
  induction l as [|k l IH]; cbn [map lookup]; [reflexivity|].
  unfold mem. cbn [existsb]. fold (mem e l).
  destruct (String.eqb k e) eqn:E.
  - apply String.eqb_eq in E. subst k. rewrite String.eqb_refl. reflexivity.
  - rewrite String.eqb_sym in E. rewrite E. cbn [orb]. exact IH.
Qed.

Lemma src_t_table g e : src_t (table g) e = src_of g e.
Proof.
  unfold src_t, table, table_on. rewrite (lookup_map (fun e => (src_of g e, dedup (succ_of g e)))).
  destruct (mem e (nodes g)) eqn:M; [reflexivity|].
  apply mem_false in M. destruct (src_of g e) eqn:S; [|reflexivity].
  exfalso. apply M. apply in_nodes. apply src_of_spec in S. destruct S as [s [A [B _]]]. exists s. auto.
Qed.

Lemma succ_t_table g e x : In x (succ_t (table g) e) <-> In x (succ_of g e).
Proof.
  unfold succ_t, table, table_on. rewrite (lookup_map (fun e => (src_of g e, dedup (succ_of g e)))).
  destruct (mem e (nodes g)) eqn:M; [apply dedup_In|].
  apply mem_false in M. split; [intros []|]. intros H. exfalso. apply M. apply in_nodes.
  apply succ_of_spec in H. destruct H as [s [A [B _]]]. exists s. auto.
Qed.

Lemma tainted_owner g e : tainted g e -> In e (nodes g).
Proof.
  intros H. apply in_nodes. destruct H as [e [s [A [B _]]] | e e' [s [A [B _]]] _]; exists s; auto.
Qed.

Theorem taint_list_spec g e : In e (taint_list g) <-> tainted g e.
Proof.
  unfold taint_list. cbv zeta. change (table_on g (nodes g)) with (table g). rewrite filter_In.
  assert (Hclosed : forall e, src_t (table g) e = true \/ succ_t (table g) e <> [] -> In e (nodes g)).
  { intros x [H|H].
    - rewrite src_t_table in H. apply tainted_owner. apply T_source. apply src_of_spec. exact H.
    - destruct (succ_t (table g) x) as [|y l] eqn:E; [exfalso; apply H; reflexivity|].
      assert (In y (succ_of g x)) as Hy by (apply succ_t_table; rewrite E; left; reflexivity).
      apply succ_of_spec in Hy. destruct Hy as [s [A [B _]]]. apply in_nodes. exists s. auto. }
  rewrite (reach_b_correct _ _ (nodes g) Hclosed). rewrite tainted_reach. split.
  - intros [_ H]. revert H. apply reach_mono.
    + intros x. rewrite src_t_table. auto.
    + intros x y. apply succ_t_table.
  - intros H. split.
    + apply tainted_owner. apply tainted_reach. exact H.
    + revert H. apply reach_mono.
      * intros x. rewrite src_t_table. auto.
      * intros x y. apply succ_t_table.
Qed.

Lemma flagged_spec g s : flagged_with (taint_list g) s = true <-> site_leaks g s.
Proof.
  unfold flagged_with, site_leaks. rewrite orb_true_iff, existsb_exists. split.
  - intros [H|[e [Hin Hm]]]; [left; exact H|right]. exists e. split; [exact Hin|].
    apply taint_list_spec. apply mem_In. exact Hm.
  - intros [H|[e [Hin Ht]]]; [left; exact H|right]. exists e. split; [exact Hin|].
    apply mem_In. apply taint_list_spec. exact Ht.
Qed.

(* ------------------------------------------------------------------ the checker decides the specification *)
Theorem check_except_correct k g : check_except k g = true <-> leak_free_except k g.
Proof.
  unfold check_except, leak_free_except. cbv zeta. rewrite forallb_forall. split.
  - intros H s Hin Hk Hl. specialize (H s Hin). rewrite Hk in H. cbn [orb] in H.
    apply flagged_spec in Hl. rewrite Hl in H. discriminate.
  - intros H s Hin. destruct (k s) eqn:Hk; [reflexivity|]. cbn [orb].
    destruct (flagged_with (taint_list g) s) eqn:F; [|reflexivity].
    exfalso. apply (H s Hin Hk). apply flagged_spec. exact F.
Qed.

Theorem check_sound_complete : forall g, check g = true <-> leak_free g.
Proof.
  intros g. unfold check. rewrite check_except_correct. unfold leak_free_except, leak_free. split.
  - intros H s Hin. apply H; [exact Hin|reflexivity].
  - intros H s Hin _. apply H. exact Hin.
Qed.

Lemma flagged_sites_spec g s : In s (flagged_sites g) <-> In s g /\ site_leaks g s.
Proof. unfold flagged_sites. cbv zeta. rewrite filter_In, flagged_spec. tauto. Qed.

(* a direct leak is a leak whatever else is in the table (used for the witnesses) *)
Lemma check_singleton_direct s : has_sens s = true -> check [s] = false.
Proof.
  intros H. destruct (check [s]) eqn:E; [|reflexivity].
  apply check_sound_complete in E. exfalso. apply (E s); [left; reflexivity|]. left. exact H.
Qed.

(* ================================================================== FINITE-TABLE THEOREMS
   Everything below is about the one table Gen/Sites.v regenerated from /repo on every run; each is closed by
   computation (vm_compute) on that finite table. *)

(* the current tree, with the listed known sites excused, has no leaking sink *)
Lemma sites_check_except_known : check_except known_site sites = true.
Proof. vm_compute. reflexivity. Qed.

Theorem sites_leak_free_except_known : leak_free_except known_site sites.
Proof. apply check_except_correct. exact sites_check_except_known. Qed.

(* the same statement in the `filter` form: the table without the known sites passes the plain checker *)
Lemma sites_check_filtered : check (filter (fun s => negb (known_site s)) sites) = true.
Proof. vm_compute. reflexivity. Qed.

(* the known sites exist in the current table and every one of them is flagged on its own *)
Lemma known_sites_present : List.length (filter known_site sites) = 0%nat.
Proof. vm_compute. reflexivity. Qed.

Lemma known_sites_flagged : forallb (fun s => negb (check [s])) (filter known_site sites) = true.
Proof. vm_compute. reflexivity. Qed.

Theorem known_site_witness : forall s, In s sites -> known_site s = true -> check [s] = false.
Proof.
  intros s Hin Hk. pose proof known_sites_flagged as H. rewrite forallb_forall in H.
  specialize (H s). rewrite filter_In in H. specialize (H (conj Hin Hk)).
  destruct (check [s]); [discriminate|reflexivity].
Qed.

(* no site is excused any more: the whole current table is leak free *)
Lemma sites_check_full : check sites = true.
Proof. vm_compute. reflexivity. Qed.
Theorem sites_leak_free_full : leak_free sites.
Proof. apply check_sound_complete. exact sites_check_full. Qed.

(* hand-written Debug impls: none of their sinks leaks, and the types that must redact have one *)
Lemma sites_debug_impls_clean : debug_impls_clean sites = true.
Proof. vm_compute. reflexivity. Qed.

Theorem redacting_debug :
  (forall s, In s sites -> s_kind s = "debug-impl" -> ~ site_leaks sites s) /\
  (forall ty, In ty redacting_types -> has_debug_impl sites ty = true).
Proof.
  split.
  - intros s Hin Hk Hl. pose proof sites_debug_impls_clean as H. unfold debug_impls_clean in H. cbv zeta in H.
    rewrite forallb_forall in H. specialize (H s Hin). rewrite Hk in H. cbn [negb orb] in H.
    rewrite String.eqb_refl in H. cbn [negb orb] in H.
    apply flagged_spec in Hl. rewrite Hl in H. discriminate.
  - assert (forallb (has_debug_impl sites) redacting_types = true) as H by (vm_compute; reflexivity).
    rewrite forallb_forall in H. exact H.
Qed.
