(* C14 - where text leaves the library, and what can flow into it.  MODEL (definitions only).

   The generated table Gen/Sites.v lists every sink of the four library crates (log macro calls, #[error] attributes,
   error constructors / failure reasons built with format!/to_string, hand-written Display/Debug impls) with each
   interpolated argument classified.  This file gives
     - the graph view: nodes are owners of sinks (error enums, "failure_reason", "fn:<name>", types with a manual
       Display/Debug; "" for log records), a sink whose argument is `OpaqueMdk e'` is an edge owner -> e',
       a sink with a `Sensitive` argument makes its owner a source;
     - the relational specification `tainted` / `site_leaks` / `leak_free`;
     - an executable checker (`check`, `check_except`) that works on a small adjacency table. *)
From Coq Require Import List String Bool NArith Arith.
From MDK Require Import Gen.Sites.
Import ListNotations.
Local Open Scope string_scope.

Definition is_sens (c : cls) : bool := match c with Sensitive => true | _ => false end.
Definition ref_of (c : cls) : list string := match c with OpaqueMdk e => [e] | _ => [] end.
Definition has_sens (s : site) : bool := existsb (fun a => is_sens (snd a)) (s_args s).
Definition refs (s : site) : list string := flat_map (fun a => ref_of (snd a)) (s_args s).
Definition mem (e : string) (l : list string) : bool := existsb (String.eqb e) l.

(* ---------- specification (relational, unbounded) ---------- *)
Definition source (g : list site) (e : string) : Prop :=
  exists s, In s g /\ s_owner s = e /\ has_sens s = true.
Definition edge (g : list site) (e e' : string) : Prop :=
  exists s, In s g /\ s_owner s = e /\ In e' (refs s).

(* the text produced for a value of node e may contain a sensitive value *)
Inductive tainted (g : list site) : string -> Prop :=
| T_source e : source g e -> tainted g e
| T_step e e' : edge g e e' -> tainted g e' -> tainted g e.

(* a sink leaks: it interpolates a sensitive value, or a value whose own text may contain one *)
Definition site_leaks (g : list site) (s : site) : Prop :=
  has_sens s = true \/ exists e, In e (refs s) /\ tainted g e.
Definition leak_free (g : list site) : Prop := forall s, In s g -> ~ site_leaks g s.
Definition leak_free_except (k : site -> bool) (g : list site) : Prop :=
  forall s, In s g -> k s = false -> ~ site_leaks g s.

(* ---------- generic reachability with a visited list ---------- *)
Section Reach.
  Variable src : string -> bool.
  Variable succ : string -> list string.

  Inductive reach : string -> Prop :=
  | R_src e : src e = true -> reach e
  | R_step e e' : In e' (succ e) -> reach e' -> reach e.

  Fixpoint reach_b (fuel : nat) (visited : list string) (e : string) : bool :=
    match fuel with
    | O => false
    | S f => if mem e visited then false             (* `if`, not &&: vm_compute is call-by-value *)
             else if src e then true
             else existsb (reach_b f (e :: visited)) (succ e)
    end.
End Reach.

(* ---------- the graph of a site table ---------- *)
Definition src_of (g : list site) (e : string) : bool :=
  existsb (fun s => String.eqb (s_owner s) e && has_sens s) g.
Definition succ_of (g : list site) (e : string) : list string :=
  flat_map (fun s => if String.eqb (s_owner s) e then refs s else []) g.
Fixpoint dedup (l : list string) : list string :=
  match l with
  | [] => []
  | x :: r => if mem x r then dedup r else x :: dedup r
  end.
Definition nodes (g : list site) : list string := dedup (map s_owner g).

(* adjacency table computed once: node -> (is a source, distinct successors) *)
Definition table_on (g : list site) (ns : list string) : list (string * (bool * list string)) :=
  map (fun e => (e, (src_of g e, dedup (succ_of g e)))) ns.
Definition table (g : list site) := table_on g (nodes g).
Fixpoint lookup (t : list (string * (bool * list string))) (e : string) : option (bool * list string) :=
  match t with
  | [] => None
  | (k, v) :: r => if String.eqb k e then Some v else lookup r e
  end.
Definition src_t t e : bool := match lookup t e with Some (b, _) => b | None => false end.
Definition succ_t t e : list string := match lookup t e with Some (_, l) => l | None => [] end.

Definition taint_list (g : list site) : list string :=
  let ns := nodes g in
  let t := table_on g ns in
  filter (reach_b (src_t t) (succ_t t) (S (List.length ns)) []) ns.

Definition flagged_with (tl : list string) (s : site) : bool :=
  has_sens s || existsb (fun e => mem e tl) (refs s).

(* every sink that is not excused by k is clean; taint is computed on the WHOLE table, so a known leaking
   constructor still taints its enum and every sink printing that enum must be excused (or fixed) too *)
Definition check_except (k : site -> bool) (g : list site) : bool :=
  let tl := taint_list g in
  forallb (fun s => k s || negb (flagged_with tl s)) g.
Definition check (g : list site) : bool := check_except (fun _ => false) g.

(* the sinks the checker flags, for reports *)
Definition flagged_sites (g : list site) : list site :=
  let tl := taint_list g in filter (flagged_with tl) g.

(* ---------- known findings (hand-written; mirrored by /verif/known_findings.jsonl, property C14) ----------
   A site is identified by its file and a prefix of its format string, never by its line. *)
Definition known_site (s : site) : bool := false.
(* history: the WARN "Failed to parse snapshot name during hydration: {}" in crates/mdk-core/src/epoch_snapshots.rs
   interpolated the snapshot name (which embeds the MLS group id); repaired in /repo by a fix: commit, so no site is excused. *)

(* ---------- manual Debug impls that must exist (redaction instead of derive(Debug)) ---------- *)
Definition redacting_types : list string :=
  ["mdk_storage_traits::Secret"; "mdk_sqlite_storage::EncryptionConfig"; "mdk_core::MessageProcessingResult";
   "mdk_core::EpochSnapshot"; "mdk_core::EpochSnapshotManager"; "mdk_core::EpochSnapshotManagerInner"].
Definition has_debug_impl (g : list site) (ty : string) : bool :=
  existsb (fun s => String.eqb (s_kind s) "debug-impl" && String.eqb (s_owner s) ty) g.
Definition debug_impls_clean (g : list site) : bool :=
  let tl := taint_list g in
  forallb (fun s => negb (String.eqb (s_kind s) "debug-impl") || negb (flagged_with tl s)) g.
