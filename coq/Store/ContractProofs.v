(* Proofs about the storage contract model (Store/Contract.v), exported to Props/C09.v C10.v C18.v. *)
From MDK Require Import Base.Prelude Base.AMap Store.Contract Store.ContractSpec.

(* ================================================================ generic association-map facts *)
Section AMapFacts.
  Context {K V : Type}.
  Variable keqb : K -> K -> bool.
  Hypothesis keqb_spec : forall a b, keqb a b = true <-> a = b.

  Lemma keqb_refl k : keqb k k = true.
  Proof. apply keqb_spec. reflexivity. Qed.

  Lemma keqb_neq a b : a <> b -> keqb a b = false.
  Proof. intros H. destruct (keqb a b) eqn:E; [|reflexivity]. apply keqb_spec in E. contradiction. Qed.

  Lemma aget_aset_same k (v : V) m : aget keqb k (aset keqb k v m) = Some v.
  Proof.
    induction m as [|[k' v'] r IH]; cbn [aset aget].
    - rewrite keqb_refl. reflexivity.
    - destruct (keqb k k') eqn:E; cbn [aget].
      + rewrite keqb_refl. reflexivity.
      + rewrite E. exact IH.
  Qed.

  Lemma aget_aset_other k k' (v : V) m : k' <> k -> aget keqb k' (aset keqb k v m) = aget keqb k' m.
  Proof.
    intros Hne. induction m as [|[k2 v2] r IH]; cbn [aset aget].
    - rewrite (keqb_neq _ _ Hne). reflexivity.
    - destruct (keqb k k2) eqn:E; cbn [aget].
      + apply keqb_spec in E. subst k2. rewrite (keqb_neq _ _ Hne). reflexivity.
      + destruct (keqb k' k2); [reflexivity|exact IH].
  Qed.

  Lemma aget_adel_same k (m : list (K * V)) : aget keqb k (adel keqb k m) = None.
  Proof.
    induction m as [|[k' v'] r IH]; cbn [adel aget]; [reflexivity|].
    destruct (keqb k k') eqn:E; [exact IH|]. cbn [aget]. rewrite E. exact IH.
  Qed.

  Lemma aget_adel_other k k' (m : list (K * V)) : k' <> k -> aget keqb k' (adel keqb k m) = aget keqb k' m.
  Proof.
    intros Hne. induction m as [|[k2 v2] r IH]; cbn [adel aget]; [reflexivity|].
    destruct (keqb k k2) eqn:E.
    - apply keqb_spec in E. subst k2. rewrite (keqb_neq _ _ Hne). exact IH.
    - cbn [aget]. destruct (keqb k' k2); [reflexivity|exact IH].
  Qed.

  Lemma adel_absent k (m : list (K * V)) : aget keqb k m = None -> adel keqb k m = m.
  Proof.
    induction m as [|[k' v'] r IH]; cbn [adel aget]; [reflexivity|].
    destruct (keqb k k'); [discriminate|]. intros H. rewrite (IH H). reflexivity.
  Qed.

  Lemma aget_In k (v : V) m : aget keqb k m = Some v -> In (k, v) m.
  Proof.
    induction m as [|[k' v'] r IH]; cbn [aget]; [discriminate|].
    destruct (keqb k k') eqn:E.
    - apply keqb_spec in E. subst k'. intros [= ->]. left. reflexivity.
    - intros H. right. exact (IH H).
  Qed.

  Lemma In_aget k (v : V) m : NoDup (map fst m) -> In (k, v) m -> aget keqb k m = Some v.
  Proof.
    induction m as [|[k' v'] r IH]; cbn [aget map fst]; intros Hnd Hin; [destruct Hin|].
    inversion Hnd as [|? ? Hnotin Hnd']; subst.
    destruct Hin as [Heq|Hin].
    - injection Heq as -> ->. rewrite keqb_refl. reflexivity.
    - destruct (keqb k k') eqn:E.
      + apply keqb_spec in E. subst k'. exfalso. apply Hnotin.
        change k with (fst (k, v)). apply in_map. exact Hin.
      + exact (IH Hnd' Hin).
  Qed.

  Lemma aget_In_iff k (v : V) m : NoDup (map fst m) -> (aget keqb k m = Some v <-> In (k, v) m).
  Proof. intros Hnd. split; [apply aget_In|apply In_aget; exact Hnd]. Qed.

  Lemma aset_keys_in k k' (v : V) m : In k' (map fst (aset keqb k v m)) <-> k' = k \/ In k' (map fst m).
  Proof.
    induction m as [|[k2 v2] r IH]; cbn [aset map fst In].
    - split; [intros [H|[]]; left; symmetry; exact H | intros [H|[]]; left; symmetry; exact H].
    - destruct (keqb k k2) eqn:E; cbn [map fst In].
      + apply keqb_spec in E. subst k2. split.
        * intros [H|H]; [left; symmetry; exact H|right; right; exact H].
        * intros [H|[H|H]]; [left; symmetry; exact H|left; exact H|right; exact H].
      + rewrite IH. split.
        * intros [H|[H|H]]; [right; left; exact H|left; exact H|right; right; exact H].
        * intros [H|[H|H]]; [right; left; exact H|left; exact H|right; right; exact H].
  Qed.

  Lemma aset_nodup k (v : V) m : NoDup (map fst m) -> NoDup (map fst (aset keqb k v m)).
  Proof.
    induction m as [|[k2 v2] r IH]; cbn [aset map fst]; intros Hnd.
    - constructor; [intros []|constructor].
    - inversion Hnd as [|? ? Hnotin Hnd']; subst.
      destruct (keqb k k2) eqn:E; cbn [map fst].
      + apply keqb_spec in E. subst k2. constructor; assumption.
      + constructor; [|exact (IH Hnd')].
        rewrite aset_keys_in. intros [H|H]; [|exact (Hnotin H)].
        subst k2. rewrite keqb_refl in E. discriminate.
  Qed.

  Lemma adel_keys_in k k' (m : list (K * V)) : In k' (map fst (adel keqb k m)) -> In k' (map fst m).
  Proof.
    induction m as [|[k2 v2] r IH]; cbn [adel map fst In]; [intros []|].
    destruct (keqb k k2); cbn [map fst In].
    - intros H. right. exact (IH H).
    - intros [H|H]; [left; exact H|right; exact (IH H)].
  Qed.

  Lemma adel_nodup k (m : list (K * V)) : NoDup (map fst m) -> NoDup (map fst (adel keqb k m)).
  Proof.
    induction m as [|[k2 v2] r IH]; cbn [adel map fst]; intros Hnd; [constructor|].
    inversion Hnd as [|? ? Hnotin Hnd']; subst.
    destruct (keqb k k2); cbn [map fst]; [exact (IH Hnd')|].
    constructor; [|exact (IH Hnd')]. intros H. apply Hnotin. exact (adel_keys_in _ _ _ H).
  Qed.

  Lemma filter_keys_in (f : K * V -> bool) k m : In k (map fst (filter f m)) -> In k (map fst m).
  Proof.
    induction m as [|kv r IH]; cbn [filter map In]; [intros []|].
    destruct (f kv); cbn [map In].
    - intros [H|H]; [left; exact H|right; exact (IH H)].
    - intros H. right. exact (IH H).
  Qed.

  Lemma filter_nodup (f : K * V -> bool) m : NoDup (map fst m) -> NoDup (map fst (filter f m)).
  Proof.
    induction m as [|kv r IH]; cbn [filter map]; intros Hnd; [constructor|].
    inversion Hnd as [|? ? Hnotin Hnd']; subst.
    destruct (f kv); cbn [map]; [|exact (IH Hnd')].
    constructor; [|exact (IH Hnd')]. intros H. apply Hnotin. exact (filter_keys_in _ _ _ H).
  Qed.

  Lemma aget_filter_keep (f : K * V -> bool) k v m :
    aget keqb k m = Some v -> f (k, v) = true -> aget keqb k (filter f m) = Some v.
  Proof.
    intros Hget Hf. induction m as [|[k' v'] r IH]; cbn [aget filter] in *; [discriminate|].
    destruct (keqb k k') eqn:E.
    - apply keqb_spec in E. subst k'. injection Hget as ->. rewrite Hf. cbn [aget]. rewrite keqb_refl. reflexivity.
    - destruct (f (k', v')); [cbn [aget]; rewrite E|]; exact (IH Hget).
  Qed.

  Lemma aget_map_keep (h : K * V -> K * V) k v m :
    (forall kv, fst (h kv) = fst kv) ->
    aget keqb k m = Some v -> aget keqb k (map h m) = Some (snd (h (k, v))).
  Proof.
    intros Hh. induction m as [|[k' v'] r IH]; cbn [aget map]; [discriminate|].
    destruct (h (k', v')) as [k2 v2] eqn:Eh.
    assert (k2 = k') as -> by (specialize (Hh (k', v')); rewrite Eh in Hh; exact Hh).
    cbn [aget]. destruct (keqb k k') eqn:E.
    - apply keqb_spec in E. subst k'. intros [= ->]. rewrite Eh. reflexivity.
    - exact IH.
  Qed.

  Lemma filter_key_absent k (m : list (K * V)) :
    ~ In k (map fst m) -> filter (fun kv => keqb (fst kv) k) m = [].
  Proof.
    induction m as [|[k' v'] r IH]; cbn [filter map fst In]; intros Hn; [reflexivity|].
    destruct (keqb k' k) eqn:E.
    - apply keqb_spec in E. exfalso. apply Hn. left. exact E.
    - apply IH. intros H. apply Hn. right. exact H.
  Qed.

  Lemma filter_key_count k (v : V) m :
    NoDup (map fst m) -> aget keqb k m = Some v ->
    length (filter (fun kv => keqb (fst kv) k) m) = 1%nat.
  Proof.
    induction m as [|[k' v'] r IH]; cbn [aget filter map fst]; intros Hnd Hget; [discriminate|].
    inversion Hnd as [|? ? Hnotin Hnd']; subst.
    destruct (keqb k k') eqn:E.
    - apply keqb_spec in E. subst k'. rewrite keqb_refl. rewrite (filter_key_absent _ _ Hnotin). reflexivity.
    - destruct (keqb k' k) eqn:E'.
      + apply keqb_spec in E'. subst k'. rewrite keqb_refl in E. discriminate.
      + exact (IH Hnd' Hget).
  Qed.
End AMapFacts.

(* instances *)
Definition Neqb_spec : forall a b : N, (a =? b) = true <-> a = b := N.eqb_eq.

Lemma pair_neq_eqb (a b : N * N) : a <> b -> pair_eqb a b = false.
Proof. apply keqb_neq. exact pair_eqb_spec. Qed.

(* ================================================================ C09: snapshots and rollback *)

(* what restore_view does to each component *)
Lemma restore_mls s g v :
  mls (restore_view s g v) = match v_mls v with [] => adel N.eqb g (mls s) | _ :: _ => aset N.eqb g (v_mls v) (mls s) end.
Proof. unfold restore_view. destruct (v_mls v); reflexivity. Qed.
Lemma restore_groups s g v :
  groups (restore_view s g v) = match v_group v with Some gr => aset N.eqb g gr (groups s) | None => adel N.eqb g (groups s) end.
Proof. reflexivity. Qed.
Lemma restore_relays s g v :
  relays (restore_view s g v) = match v_relays v with [] => adel N.eqb g (relays s) | _ :: _ => aset N.eqb g (v_relays v) (relays s) end.
Proof. unfold restore_view. destruct (v_relays v); reflexivity. Qed.
Lemma restore_secrets s g v :
  secrets (restore_view s g v) =
  filter (fun kv => negb (fst (fst kv) =? g)) (secrets s) ++ map (fun ev => ((g, fst ev), snd ev)) (v_secrets v).
Proof. reflexivity. Qed.
Lemma restore_snaps s g v : snaps (restore_view s g v) = snaps s.
Proof. reflexivity. Qed.
Lemma restore_outside s g v : outside_view (restore_view s g v) g = outside_view s g.
Proof. reflexivity. Qed.

Lemma filter_neg_then_pos {A} (p : A -> bool) l : filter p (filter (fun x => negb (p x)) l) = [].
Proof.
  induction l as [|x r IH]; cbn [filter]; [reflexivity|].
  destruct (p x) eqn:E; cbn [negb filter]; [exact IH|]. rewrite E. exact IH.
Qed.

Lemma secrets_restored_same g (xs : list ((N * N) * N)) (vs : list (N * N)) :
  map (fun kv => (snd (fst kv), snd kv))
      (filter (fun kv => fst (fst kv) =? g)
              (filter (fun kv => negb (fst (fst kv) =? g)) xs ++ map (fun ev => ((g, fst ev), snd ev)) vs)) = vs.
Proof.
  rewrite filter_app, (filter_neg_then_pos (fun kv : N * N * N => fst (fst kv) =? g)). cbn [app].
  induction vs as [|[e v] r IH]; cbn [map filter fst snd]; [reflexivity|].
  rewrite N.eqb_refl. cbn [map fst snd]. rewrite IH. reflexivity.
Qed.

Lemma secrets_restored_other g g' (xs : list ((N * N) * N)) (vs : list (N * N)) : g' <> g ->
  filter (fun kv => fst (fst kv) =? g')
         (filter (fun kv => negb (fst (fst kv) =? g)) xs ++ map (fun ev => ((g, fst ev), snd ev)) vs)
  = filter (fun kv => fst (fst kv) =? g') xs.
Proof.
  intros Hne. rewrite filter_app.
  assert (filter (fun kv : N * N * N => fst (fst kv) =? g') (map (fun ev : N * N => ((g, fst ev), snd ev)) vs) = []) as ->.
  { induction vs as [|ev r IH]; cbn [map filter fst]; [reflexivity|].
    destruct (g =? g') eqn:E; [apply N.eqb_eq in E; congruence|exact IH]. }
  rewrite app_nil_r.
  induction xs as [|[[a b] c] r IH]; cbn [filter fst]; [reflexivity|].
  destruct (a =? g) eqn:E1; cbn [negb filter fst].
  - apply N.eqb_eq in E1. subst a. destruct (g =? g') eqn:E2; [apply N.eqb_eq in E2; congruence|exact IH].
  - destruct (a =? g'); [rewrite IH; reflexivity|exact IH].
Qed.

Lemma view_of_restore s g v : view_of (restore_view s g v) g = v.
Proof.
  destruct v as [vm vg vr vs]. unfold view_of. f_equal.
  - unfold mls_rows. rewrite restore_mls. cbn [v_mls]. destruct vm as [|x r].
    + rewrite (aget_adel_same N.eqb). reflexivity.
    + rewrite (aget_aset_same N.eqb Neqb_spec). reflexivity.
  - rewrite restore_groups. cbn [v_group]. destruct vg as [gr|].
    + apply (aget_aset_same N.eqb Neqb_spec).
    + apply (aget_adel_same N.eqb).
  - unfold group_relays. rewrite restore_relays. cbn [v_relays]. destruct vr as [|x r].
    + rewrite (aget_adel_same N.eqb). reflexivity.
    + rewrite (aget_aset_same N.eqb Neqb_spec). reflexivity.
  - unfold group_secrets. rewrite restore_secrets. cbn [v_secrets]. apply secrets_restored_same.
Qed.

Lemma view_of_restore_other s g g' v : g' <> g -> view_of (restore_view s g v) g' = view_of s g'.
Proof.
  intros Hne. unfold view_of. f_equal.
  - unfold mls_rows. rewrite restore_mls. destruct (v_mls v).
    + rewrite (aget_adel_other N.eqb Neqb_spec) by exact Hne. reflexivity.
    + rewrite (aget_aset_other N.eqb Neqb_spec) by exact Hne. reflexivity.
  - rewrite restore_groups. destruct (v_group v).
    + apply (aget_aset_other N.eqb Neqb_spec). exact Hne.
    + apply (aget_adel_other N.eqb Neqb_spec). exact Hne.
  - unfold group_relays. rewrite restore_relays. destruct (v_relays v).
    + rewrite (aget_adel_other N.eqb Neqb_spec) by exact Hne. reflexivity.
    + rewrite (aget_aset_other N.eqb Neqb_spec) by exact Hne. reflexivity.
  - unfold group_secrets. rewrite restore_secrets. rewrite secrets_restored_other by exact Hne. reflexivity.
Qed.

(* view_of ignores the snapshot table *)
Lemma view_of_set_snaps s x g : view_of (set_snaps s x) g = view_of s g.
Proof. reflexivity. Qed.

(* the snapshot table after any step *)
Ltac step_cases :=
  repeat match goal with
  | |- context [fst (if ?c then _ else _)] => destruct c
  | |- context [fst (match ?c with Some _ => _ | None => _ end)] => destruct c
  end.

Lemma step_snaps s o :
  snaps (fst (step s o)) =
  match o with
  | Snapshot g n ts => aset pair_eqb (g, n) (ts, view_of s g) (snaps s)
  | Rollback g n => adel pair_eqb (g, n) (snaps s)
  | Release g n => adel pair_eqb (g, n) (snaps s)
  | Prune min_ts => filter (fun kv => min_ts <=? fst (snd kv)) (snaps s)
  | _ => snaps s
  end.
Proof.
  destruct o; cbn [step]; try (step_cases; reflexivity).
  (* Rollback *)
  destruct (pget (g, name) (snaps s)) as [[t v]|] eqn:E; cbn [fst].
  - rewrite restore_snaps. reflexivity.
  - symmetry. apply (adel_absent pair_eqb). exact E.
Qed.

Lemma step_snaps_nodup s o : NoDup (map fst (snaps s)) -> NoDup (map fst (snaps (fst (step s o)))).
Proof.
  intros Hnd. rewrite step_snaps. destruct o; try exact Hnd.
  - apply (aset_nodup pair_eqb pair_eqb_spec). exact Hnd.
  - apply (adel_nodup pair_eqb). exact Hnd.
  - apply (adel_nodup pair_eqb). exact Hnd.
  - apply filter_nodup. exact Hnd.
Qed.

Lemma run_state_snaps_nodup ops s : NoDup (map fst (snaps s)) -> NoDup (map fst (snaps (run_state ops s))).
Proof.
  revert s. induction ops as [|o r IH]; intros s Hnd; [exact Hnd|].
  unfold run_state. cbn [fold_left]. apply IH. apply step_snaps_nodup. exact Hnd.
Qed.

Lemma pair_key_neq (g' n' g n : N) : (g' =? g) && (n' =? n) = false -> (g, n) <> (g', n').
Proof. intros H [= -> ->]. rewrite !N.eqb_refl in H. discriminate. Qed.

Lemma step_keeps_snapshot g n ts w o s :
  keeps g n ts o = true ->
  pget (g, n) (snaps s) = Some (ts, w) -> pget (g, n) (snaps (fst (step s o))) = Some (ts, w).
Proof.
  intros Hk Hget. rewrite step_snaps. destruct o; cbn [keeps] in Hk; try exact Hget.
  - apply negb_true_iff in Hk. rewrite (aget_aset_other pair_eqb pair_eqb_spec); [exact Hget|].
    apply pair_key_neq. exact Hk.
  - apply negb_true_iff in Hk. rewrite (aget_adel_other pair_eqb pair_eqb_spec); [exact Hget|].
    apply pair_key_neq. exact Hk.
  - apply negb_true_iff in Hk. rewrite (aget_adel_other pair_eqb pair_eqb_spec); [exact Hget|].
    apply pair_key_neq. exact Hk.
  - apply (aget_filter_keep pair_eqb pair_eqb_spec); [exact Hget|]. cbn [fst snd]. exact Hk.
Qed.

Lemma run_keeps_snapshot g n ts w ops s :
  forallb (keeps g n ts) ops = true ->
  pget (g, n) (snaps s) = Some (ts, w) -> pget (g, n) (snaps (run_state ops s)) = Some (ts, w).
Proof.
  revert s. induction ops as [|o r IH]; intros s Hall Hget; [exact Hget|].
  cbn [forallb] in Hall. apply andb_true_iff in Hall. destruct Hall as [Ho Hr].
  unfold run_state. cbn [fold_left]. apply IH; [exact Hr|].
  apply step_keeps_snapshot; assumption.
Qed.

Lemma rollback_present s g n ts v :
  pget (g, n) (snaps s) = Some (ts, v) ->
  step s (Rollback g n) = (restore_view (set_snaps s (adel pair_eqb (g, n) (snaps s))) g v, ROk).
Proof. intros H. cbn [step]. rewrite H. reflexivity. Qed.

Lemma rollback_missing_noop : forall s g n,
  aget pair_eqb (g, n) (snaps s) = None -> step s (Rollback g n) = (s, RErr).
Proof. intros s g n H. cbn [step]. rewrite H. reflexivity. Qed.

Lemma rollback_exact : forall s g n ts ops,
  forallb (keeps g n ts) ops = true ->
  let s1 := fst (step s (Snapshot g n ts)) in
  let s2 := run_state ops s1 in
  let '(s3, r) := step s2 (Rollback g n) in
  r = ROk /\ view_of s3 g = view_of s g.
Proof.
  intros s g n ts ops Hall s1 s2.
  assert (pget (g, n) (snaps s2) = Some (ts, view_of s g)) as Hinv.
  { apply run_keeps_snapshot; [exact Hall|]. unfold s1. rewrite step_snaps.
    apply (aget_aset_same pair_eqb pair_eqb_spec). }
  rewrite (rollback_present _ _ _ _ _ Hinv). split; [reflexivity|]. apply view_of_restore.
Qed.

Lemma rollback_frame : forall s g n,
  let s' := fst (step s (Rollback g n)) in
  outside_view s' g = outside_view s g /\
  (forall g', g' <> g -> view_of s' g' = view_of s g') /\
  (forall g' n', (g', n') <> (g, n) -> aget pair_eqb (g', n') (snaps s') = aget pair_eqb (g', n') (snaps s)).
Proof.
  intros s g n s'. split; [|split].
  - unfold s'. destruct (pget (g, n) (snaps s)) as [[ts v]|] eqn:E.
    + rewrite (rollback_present _ _ _ _ _ E). reflexivity.
    + rewrite (rollback_missing_noop _ _ _ E). reflexivity.
  - intros g' Hne. unfold s'. destruct (pget (g, n) (snaps s)) as [[ts v]|] eqn:E.
    + rewrite (rollback_present _ _ _ _ _ E). cbn [fst]. rewrite view_of_restore_other by exact Hne. reflexivity.
    + rewrite (rollback_missing_noop _ _ _ E). reflexivity.
  - intros g' n' Hne. unfold s'. rewrite step_snaps. apply (aget_adel_other pair_eqb pair_eqb_spec). exact Hne.
Qed.

Lemma rollback_consumes : forall s g n v,
  aget pair_eqb (g, n) (snaps s) = Some v -> NoDup (map fst (snaps s)) ->
  aget pair_eqb (g, n) (snaps (fst (step s (Rollback g n)))) = None.
Proof. intros s g n v _ _. rewrite step_snaps. apply (aget_adel_same pair_eqb). Qed.

Lemma snapshot_ops_pure : forall s o, is_snapshot_op o = true -> live (fst (step s o)) = live s.
Proof. intros s o H. destruct o; cbn [is_snapshot_op] in H; try discriminate; reflexivity. Qed.

Lemma resnapshot_replaces : forall s g n ts1 ts2 ops,
  NoDup (map fst (snaps s)) ->
  let s1 := run_state ops (fst (step s (Snapshot g n ts1))) in
  forallb (keeps g n ts1) ops = true ->
  let s2 := fst (step s1 (Snapshot g n ts2)) in
  aget pair_eqb (g, n) (snaps s2) = Some (ts2, view_of s1 g) /\
  length (filter (fun kv => pair_eqb (fst kv) (g, n)) (snaps s2)) = 1%nat.
Proof.
  intros s g n ts1 ts2 ops Hnd s1 Hall s2.
  assert (pget (g, n) (snaps s2) = Some (ts2, view_of s1 g)) as Hget.
  { unfold s2. rewrite step_snaps. apply (aget_aset_same pair_eqb pair_eqb_spec). }
  split; [exact Hget|].
  apply (filter_key_count pair_eqb pair_eqb_spec _ _ _) with (2 := Hget).
  unfold s2. apply step_snaps_nodup. unfold s1. apply run_state_snaps_nodup. apply step_snaps_nodup. exact Hnd.
Qed.

(* ================================================================ C10: last value wins, exact selection *)

Lemma group_find_after_save : forall s g,
  snd (step s (SaveGroup g)) = ROk ->
  let s' := fst (step s (SaveGroup g)) in
  aget N.eqb (g_id g) (groups s') = Some g /\
  forall k, k <> g_id g -> aget N.eqb k (groups s') = aget N.eqb k (groups s).
Proof.
  intros s g Hok s'. unfold s'. cbn [step] in *.
  destruct (nostr_taken_by_other s g); cbn [fst snd] in *; [discriminate|].
  cbn [set_groups groups]. split.
  - apply (aget_aset_same N.eqb Neqb_spec).
  - intros k Hk. apply (aget_aset_other N.eqb Neqb_spec). exact Hk.
Qed.

Lemma group_save_refused_noop : forall s g, snd (step s (SaveGroup g)) <> ROk -> fst (step s (SaveGroup g)) = s.
Proof.
  intros s g H. cbn [step] in *. destruct (nostr_taken_by_other s g); cbn [fst snd] in *; [reflexivity|].
  exfalso. apply H. reflexivity.
Qed.

Lemma msg_find_after_save : forall s m,
  has_group s (m_group m) = true ->
  let s' := fst (step s (SaveMsg m)) in
  aget pair_eqb (m_group m, m_id m) (msgs s') = Some m /\
  forall k, k <> (m_group m, m_id m) -> aget pair_eqb k (msgs s') = aget pair_eqb k (msgs s).
Proof.
  intros s m Hg s'. unfold s'. cbn [step]. rewrite Hg. cbn [fst set_msgs msgs]. split.
  - apply (aget_aset_same pair_eqb pair_eqb_spec).
  - intros k Hk. apply (aget_aset_other pair_eqb pair_eqb_spec). exact Hk.
Qed.

Lemma pmsg_find_after_save : forall s p,
  let s' := fst (step s (SavePmsg p)) in
  aget N.eqb (p_wrapper p) (pmsgs s') = Some p /\
  forall k, k <> p_wrapper p -> aget N.eqb k (pmsgs s') = aget N.eqb k (pmsgs s).
Proof.
  intros s p s'. unfold s'. cbn [step fst set_pmsgs pmsgs]. split.
  - apply (aget_aset_same N.eqb Neqb_spec).
  - intros k Hk. apply (aget_aset_other N.eqb Neqb_spec). exact Hk.
Qed.

Lemma invalidate_msg_key g e kv : fst (invalidate_msg g e kv) = fst kv.
Proof. unfold invalidate_msg. destruct (_ && _); reflexivity. Qed.

Lemma invalidate_selects_exactly : forall s g e k m,
  NoDup (map fst (msgs s)) ->
  aget pair_eqb k (msgs s) = Some m ->
  let s' := fst (step s (InvalidateMsgs g e)) in
  let hit := (fst k =? g) && (match m_epoch m with Some x => e <? x | None => false end) in
  aget pair_eqb k (msgs s') =
    Some (if hit then mkMsg (m_id m) (m_group m) (m_pubkey m) (m_kind m) (m_created m) (m_processed m)
                            (m_content m) (m_tags m) (m_wrapper m) (m_epoch m) MS_INVALIDATED else m) /\
  (hit = true <-> In (snd k) (match snd (step s (InvalidateMsgs g e)) with RIds l => l | _ => [] end) /\ fst k = g).
Proof.
  intros s g e k m Hnd Hget s' hit. unfold s'. cbn [step fst snd set_msgs msgs]. split.
  - rewrite (aget_map_keep pair_eqb pair_eqb_spec (invalidate_msg g e) k m (msgs s) (invalidate_msg_key g e) Hget).
    unfold invalidate_msg. cbn [fst snd]. fold hit. destruct hit; reflexivity.
  - split.
    + intros Hhit. split.
      * apply in_map_iff. exists (k, m). split; [reflexivity|].
        apply filter_In. split; [apply (aget_In pair_eqb pair_eqb_spec); exact Hget|exact Hhit].
      * unfold hit in Hhit. apply andb_true_iff in Hhit. destruct Hhit as [H1 _]. apply N.eqb_eq. exact H1.
    + intros [Hin Hg]. apply in_map_iff in Hin. destruct Hin as [[k' m'] [Hk' Hin]].
      apply filter_In in Hin. destruct Hin as [Hin Hhit']. cbn [fst snd] in Hk'.
      unfold msg_hit in Hhit'. cbn [fst snd] in Hhit'.
      assert (k' = k) as ->.
      { apply andb_true_iff in Hhit'. destruct Hhit' as [H1 _]. apply N.eqb_eq in H1.
        destruct k as [k1 k2], k' as [k1' k2']. cbn [fst snd] in *. congruence. }
      apply (In_aget pair_eqb pair_eqb_spec _ _ _ Hnd) in Hin. rewrite Hget in Hin. injection Hin as <-. exact Hhit'.
Qed.

Lemma opt_eqb_some a g : opt_eqb a (Some g) = true <-> a = Some g.
Proof.
  destruct a as [x|]; cbn [opt_eqb]; [|split; discriminate].
  rewrite N.eqb_eq. split; [intros ->; reflexivity|intros [= ->]; reflexivity].
Qed.

Lemma retry_selects_exactly : forall s g w,
  NoDup (map fst (pmsgs s)) ->
  In w (match snd (step s (FindFailedRetry g)) with RIds l => l | _ => [] end) <->
  exists p, aget N.eqb w (pmsgs s) = Some p /\ p_group p = Some g /\ p_state p = PS_FAILED /\ p_epoch p = None.
Proof.
  intros s g w Hnd. cbn [step snd]. rewrite in_map_iff. split.
  - intros [[w' p] [Hw Hin]]. cbn [fst] in Hw. subst w'. apply filter_In in Hin. destruct Hin as [Hin Hf].
    cbn [snd] in Hf. apply andb_true_iff in Hf. destruct Hf as [Hf H3]. apply andb_true_iff in Hf. destruct Hf as [H1 H2].
    exists p. split; [apply (In_aget N.eqb Neqb_spec _ _ _ Hnd); exact Hin|].
    split; [apply opt_eqb_some; exact H1|]. split; [apply N.eqb_eq; exact H2|].
    destruct (p_epoch p); [discriminate|reflexivity].
  - intros [p [Hget [H1 [H2 H3]]]]. exists (w, p). split; [reflexivity|]. apply filter_In.
    split; [apply (aget_In N.eqb Neqb_spec); exact Hget|]. cbn [snd].
    rewrite H3. apply opt_eqb_some in H1. rewrite H1. apply N.eqb_eq in H2. rewrite H2. reflexivity.
Qed.

Lemma mark_retryable_only_failed : forall s w,
  match aget N.eqb w (pmsgs s) with
  | Some p => if p_state p =? PS_FAILED
              then step s (MarkRetryable w) = (set_pmsgs s (aset N.eqb w (pmsg_set_state PS_RETRYABLE p) (pmsgs s)), ROk)
              else step s (MarkRetryable w) = (s, RNotFound)
  | None => step s (MarkRetryable w) = (s, RNotFound)
  end.
Proof.
  intros s w. cbn [step]. destruct (gget w (pmsgs s)) as [p|]; [|reflexivity].
  destruct (p_state p =? PS_FAILED); reflexivity.
Qed.

Lemma reads_pure : forall s o, is_read_op o = true -> fst (step s o) = s.
Proof. intros s o H. destruct o; cbn [is_read_op] in H; try discriminate; reflexivity. Qed.

(* ================================================================ C18: ordering, listing, paging *)

Lemma key_gt_irrefl : forall a, ~ key_gt a a.
Proof. intros [[a1 a2] a3]. unfold key_gt, key3_gtb. lia. Qed.

Lemma key_gt_trans : forall a b c, key_gt a b -> key_gt b c -> key_gt a c.
Proof. intros [[a1 a2] a3] [[b1 b2] b3] [[c1 c2] c3]. unfold key_gt, key3_gtb. lia. Qed.

Lemma key_gt_total : forall a b, a <> b -> key_gt a b \/ key_gt b a.
Proof.
  intros [[a1 a2] a3] [[b1 b2] b3] Hne. unfold key_gt, key3_gtb.
  destruct (N.eq_dec a1 b1) as [E1|E1]; [|lia].
  destruct (N.eq_dec a2 b2) as [E2|E2]; [|lia].
  destruct (N.eq_dec a3 b3) as [E3|E3]; [|lia].
  exfalso. apply Hne. congruence.
Qed.

Lemma ins_desc_in key x l y : In y (ins_desc key x l) <-> y = x \/ In y l.
Proof.
  induction l as [|z r IH]; cbn [ins_desc In].
  - split; [intros [H|[]]; left; symmetry; exact H|intros [H|[]]; left; symmetry; exact H].
  - destruct (key3_gtb (key x) (key z)); cbn [In].
    + split; [intros [H|H]; [left; symmetry; exact H|right; exact H]|intros [H|H]; [left; symmetry; exact H|right; exact H]].
    + rewrite IH. split.
      * intros [H|[H|H]]; [right; left; exact H|left; exact H|right; right; exact H].
      * intros [H|[H|H]]; [right; left; exact H|left; exact H|right; right; exact H].
Qed.

Lemma ins_desc_length key x l : length (ins_desc key x l) = S (length l).
Proof.
  induction l as [|z r IH]; cbn [ins_desc length]; [reflexivity|].
  destruct (key3_gtb (key x) (key z)); cbn [length]; [reflexivity|]. rewrite IH. reflexivity.
Qed.

Lemma ins_desc_sorted key x l :
  sorted_desc key l -> (forall y, In y l -> key y <> key x) -> sorted_desc key (ins_desc key x l).
Proof.
  induction l as [|z r IH]; cbn [ins_desc]; intros Hs Hne.
  - cbn [sorted_desc]. split; [intros y []|exact I].
  - destruct Hs as [Hz Hr]. destruct (key3_gtb (key x) (key z)) eqn:E.
    + cbn [sorted_desc]. split; [|split; assumption].
      intros y [<-|Hy]; [exact E|]. apply key_gt_trans with (key z); [exact E|exact (Hz y Hy)].
    + cbn [sorted_desc]. split.
      * intros y Hy. apply ins_desc_in in Hy. destruct Hy as [->|Hy]; [|exact (Hz y Hy)].
        destruct (key_gt_total (key z) (key x)) as [H|H]; [apply Hne; left; reflexivity|exact H|].
        unfold key_gt in H. rewrite E in H. discriminate.
      * apply IH; [exact Hr|]. intros y Hy. apply Hne. right. exact Hy.
Qed.

Lemma sort_desc_in : forall key l x, In x (sort_desc key l) <-> In x l.
Proof.
  intros key l x. induction l as [|z r IH]; [reflexivity|].
  unfold sort_desc. cbn [fold_right]. fold (sort_desc key r). rewrite ins_desc_in, IH. cbn [In].
  split; (intros [H|H]; [left; symmetry; exact H|right; exact H]).
Qed.

Lemma sort_desc_length : forall key l, length (sort_desc key l) = length l.
Proof.
  intros key l. induction l as [|z r IH]; [reflexivity|].
  unfold sort_desc. cbn [fold_right length]. fold (sort_desc key r). rewrite ins_desc_length, IH. reflexivity.
Qed.

Lemma sort_desc_sorted : forall key l, (forall x y, In x l -> In y l -> key x = key y -> x = y) -> NoDup l ->
  sorted_desc key (sort_desc key l).
Proof.
  intros key l. induction l as [|z r IH]; intros Hinj Hnd; [exact I|].
  inversion Hnd as [|? ? Hnotin Hnd']; subst.
  unfold sort_desc. cbn [fold_right]. fold (sort_desc key r). apply ins_desc_sorted.
  - apply IH; [|exact Hnd']. intros x y Hx Hy. apply Hinj; right; assumption.
  - intros y Hy Hk. apply sort_desc_in in Hy. apply Hnotin.
    assert (y = z) as <- by (apply Hinj; [right; exact Hy|left; reflexivity|exact Hk]). exact Hy.
Qed.

Lemma sorted_desc_unique : forall key l1 l2,
  sorted_desc key l1 -> sorted_desc key l2 -> (forall x, In x l1 <-> In x l2) -> NoDup l1 -> NoDup l2 -> l1 = l2.
Proof.
  intros key l1. induction l1 as [|x r1 IH]; intros l2 Hs1 Hs2 Hsame Hnd1 Hnd2.
  - destruct l2 as [|y r2]; [reflexivity|]. exfalso. apply (Hsame y). left. reflexivity.
  - destruct l2 as [|y r2]; [exfalso; apply (Hsame x); left; reflexivity|].
    destruct Hs1 as [Hx Hr1]. destruct Hs2 as [Hy Hr2].
    inversion Hnd1 as [|? ? Hn1 Hnd1']; subst. inversion Hnd2 as [|? ? Hn2 Hnd2']; subst.
    assert (x = y) as Hxy.
    { assert (In x (y :: r2)) as Hx2 by (apply Hsame; left; reflexivity).
      assert (In y (x :: r1)) as Hy1 by (apply Hsame; left; reflexivity).
      destruct Hx2 as [H|Hx2]; [symmetry; exact H|]. destruct Hy1 as [H|Hy1]; [exact H|].
      exfalso. apply (key_gt_irrefl (key x)). apply key_gt_trans with (key y); [exact (Hx y Hy1)|exact (Hy x Hx2)]. }
    subst y. f_equal. apply IH; try assumption.
    intros z. split; intros Hz.
    + assert (In z (x :: r2)) as H by (apply Hsame; right; exact Hz).
      destruct H as [<-|H]; [contradiction|exact H].
    + assert (In z (x :: r1)) as H by (apply Hsame; right; exact Hz).
      destruct H as [<-|H]; [contradiction|exact H].
Qed.

Lemma page_exact : forall (l : list msg) limit offset,
  page limit offset l = nat_page (N.to_nat (N.min limit (lenN l))) (N.to_nat (N.min offset (lenN l))) l.
Proof.
  intros l limit offset. unfold page, nat_page. destruct (lenN l <=? offset) eqn:E.
  - assert (N.min offset (lenN l) = lenN l) as -> by lia. unfold lenN at 2. rewrite Nat2N.id.
    rewrite skipn_all. rewrite firstn_nil. reflexivity.
  - assert (N.min offset (lenN l) = offset) as -> by lia. reflexivity.
Qed.

Lemma page_as_slice {A} (l : list A) limit offset :
  page limit offset l = firstn (N.to_nat limit) (skipn (N.to_nat offset) l).
Proof.
  unfold page. destruct (lenN l <=? offset) eqn:E.
  - rewrite skipn_all2 by (unfold lenN in E; lia). rewrite firstn_nil. reflexivity.
  - destruct (N.le_ge_cases limit (lenN l)) as [H|H].
    + rewrite N.min_l by exact H. reflexivity.
    + rewrite N.min_r by exact H.
      assert (length (skipn (N.to_nat offset) l) <= length l)%nat as Hlen by (rewrite skipn_length; lia).
      rewrite !firstn_all2; [reflexivity| |]; unfold lenN in *; lia.
Qed.

Lemma firstn_add {A} a b (l : list A) : firstn (a + b) l = firstn a l ++ firstn b (skipn a l).
Proof.
  revert l. induction a as [|a IH]; intros l; [reflexivity|].
  destruct l as [|x r]; cbn [Nat.add firstn skipn app].
  - rewrite firstn_nil. reflexivity.
  - rewrite IH. reflexivity.
Qed.

Lemma slices_concat {A} (L : nat) (l : list A) k :
  concat (map (fun i => firstn L (skipn (i * L) l)) (seq 0 k)) = firstn (k * L) l.
Proof.
  induction k as [|k IH]; [reflexivity|].
  rewrite seq_S, map_app, concat_app, IH. cbn [Nat.add map concat]. rewrite app_nil_r.
  replace (S k * L)%nat with (k * L + L)%nat by lia. rewrite firstn_add. reflexivity.
Qed.

Lemma pages_partition : forall (l : list msg) limit k, 0 < limit -> lenN l <= N.of_nat k * limit ->
  concat (map (fun i => page limit (N.of_nat i * limit) l) (seq 0 k)) = l.
Proof.
  intros l limit k _ Hlen.
  rewrite (map_ext _ (fun i => firstn (N.to_nat limit) (skipn (i * N.to_nat limit) l))).
  - rewrite slices_concat. apply firstn_all2.
    assert (N.to_nat (lenN l) <= N.to_nat (N.of_nat k * limit))%nat as H by lia.
    rewrite N2Nat.inj_mul, Nat2N.id in H. unfold lenN in H. rewrite Nat2N.id in H. exact H.
  - intros i. rewrite page_as_slice. rewrite N2Nat.inj_mul, Nat2N.id. reflexivity.
Qed.

Lemma limit_refused : forall s g limit offset sort,
  limit = 0 \/ MAX_LIMIT < limit -> snd (step s (Messages g limit offset sort)) = RErr.
Proof.
  intros s g limit offset sort H. cbn [step snd].
  assert (limit_ok limit = false) as -> by (unfold limit_ok, MAX_LIMIT in *; lia).
  reflexivity.
Qed.

Lemma last_is_head : forall s g sort, has_group s g = true ->
  snd (step s (LastMessage g sort)) =
  RMsg (match snd (step s (Messages g MAX_LIMIT 0 sort)) with RMsgs (m :: _) => Some m | _ => None end).
Proof.
  intros s g sort Hg. cbn [step snd]. rewrite Hg.
  assert (limit_ok MAX_LIMIT = true) as -> by reflexivity. cbn [negb].
  destruct (sort_desc (sort_key sort) (group_msgs s g)) as [|m r]; [reflexivity|].
  unfold page. destruct (lenN (m :: r) <=? 0) eqn:E; [rewrite lenN_cons in E; lia|].
  change (N.to_nat 0) with O. cbn [skipn].
  destruct (N.to_nat (N.min MAX_LIMIT (lenN (m :: r)))) as [|c] eqn:E2.
  - exfalso. unfold MAX_LIMIT in E2. rewrite lenN_cons in E2. lia.
  - reflexivity.
Qed.

(* ================================================================ C09: a concrete, non-trivial history *)
Module C09Example.
  Definition g1 : group := mkGroup 1 101 7 8 [70; 71] 0 None None None 0 ST_ACTIVE 0.
  Definition g1' : group := mkGroup 1 101 7 8 [70] 0 (Some 12) (Some 300) None 1 ST_ACTIVE 0.
  Definition g2 : group := mkGroup 2 102 9 9 [72] 0 None None None 0 ST_ACTIVE 0.
  Definition g2' : group := mkGroup 2 102 9 9 [72; 73] 0 (Some 13) (Some 310) None 4 ST_ACTIVE 0.
  Definition m1 : msg := mkMsg 11 1 5 9 100 100 1 0 21 (Some 0) 0.
  Definition m2 : msg := mkMsg 12 1 5 9 300 301 2 0 22 (Some 1) 0.
  Definition m3 : msg := mkMsg 13 2 6 9 310 311 3 0 23 (Some 4) 0.

  (* two groups, a message in group 1, MLS rows, relays and secrets for both *)
  Definition before : list op :=
    [ SaveGroup g1; SaveGroup g2; SaveMsg m1;
      MlsWrite 1 0 1 10; MlsWrite 1 1 1 30; MlsWrite 2 0 1 20;
      ReplaceRelays 1 [1; 2]; ReplaceRelays 2 [3];
      SaveSecret 1 0 50; SaveSecret 2 0 60; GlobalWrite 0 1 99 ].
  (* after the snapshot: writes to both groups, messages in both, a nested second snapshot of group 1 *)
  Definition between : list op :=
    [ MlsWrite 1 0 1 11; MlsWrite 1 2 2 12; MlsDelete 1 1 1; MlsDelete 2 0 1; MlsWrite 2 0 3 23;
      SaveGroup g1'; SaveGroup g2'; ReplaceRelays 1 [9]; ReplaceRelays 2 [3; 4];
      SaveSecret 1 1 51; SaveSecret 1 0 52; SaveSecret 2 4 61;
      SaveMsg m2; SaveMsg m3; SavePmsg (mkPmsg 22 (Some 12) 301 (Some 1) (Some 1) 1 None);
      Snapshot 1 2 2000; MlsWrite 1 0 5 15; SaveSecret 1 2 53; GlobalWrite 0 2 98 ].

  Definition s0 : store := run_state before empty.                       (* snapshot-time state *)
  Definition s2 : store := run_state (Snapshot 1 1 1000 :: between) s0.   (* just before the rollback *)
  Definition s3 : store := fst (step s2 (Rollback 1 1)).                  (* just after *)
End C09Example.

Definition C09_example_statement : Prop :=
  let s0 := C09Example.s0 in let s2 := C09Example.s2 in let s3 := C09Example.s3 in
  (* the rollback succeeds, group 1 is back to its snapshot-time view *)
  snd (step s2 (Rollback 1 1)) = ROk /\
  view_of s3 1 = view_of s0 1 /\
  (* ... which is not the view just before the rollback (the history is not trivial) *)
  view_of s0 1 = mkView [((0, 1), 10); ((1, 1), 30)] (Some C09Example.g1) [1; 2] [(0, 50)] /\
  view_of s2 1 = mkView [((0, 1), 11); ((2, 2), 12); ((0, 5), 15)] (Some C09Example.g1') [9] [(0, 52); (1, 51); (2, 53)] /\
  (* group 2 keeps its post-snapshot view *)
  view_of s3 2 = view_of s2 2 /\
  view_of s2 2 = mkView [((0, 3), 23)] (Some C09Example.g2') [3; 4] [(0, 60); (4, 61)] /\
  (* every message of both groups (those written after the snapshot included), processed records and global rows survive *)
  msgs s3 = msgs s2 /\
  map snd (msgs s3) = [C09Example.m1; C09Example.m2; C09Example.m3] /\
  pmsgs s3 = pmsgs s2 /\ length (pmsgs s3) = 1%nat /\
  mls_global s3 = [((0, 1), 99); ((0, 2), 98)] /\
  (* the nested snapshot survives, the consumed one is gone *)
  pget (1, 2) (snaps s3) = pget (1, 2) (snaps s2) /\
  map fst (snaps s2) = [(1, 1); (1, 2)] /\ map fst (snaps s3) = [(1, 2)].

Lemma c09_example : C09_example_statement.
Proof. vm_compute. repeat split; reflexivity. Qed.

(* ---------------------------------------------------------------- reopen (C11, storage layer) *)
Fixpoint run_with_reopens (ops : list (bool * op)) (s : store) : store * list res :=
  match ops with
  | [] => (s, [])
  | (b, o) :: rest =>
      let s0 := if b then reopen s else s in
      let '(s1, r) := step s0 o in
      let '(s2, rs) := run_with_reopens rest s1 in (s2, r :: rs)
  end.
Fixpoint run_plain (ops : list op) (s : store) : store * list res :=
  match ops with
  | [] => (s, [])
  | o :: rest => let '(s1, r) := step s o in let '(s2, rs) := run_plain rest s1 in (s2, r :: rs)
  end.
Lemma reopens_invisible : forall ops s, run_with_reopens ops s = run_plain (map snd ops) s.
Proof.
  induction ops as [|[b o] rest IH]; intros s; cbn [run_with_reopens run_plain map snd]; [reflexivity|].
  destruct b; unfold reopen; destruct (step s o) as [s1 r]; rewrite IH; reflexivity.
Qed.
