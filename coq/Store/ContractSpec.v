(* Auxiliary definitions used to STATE the storage theorems (Props/C09.v C10.v C18.v). No proofs here. *)
From MDK Require Import Base.Prelude Base.AMap Store.Contract.

(* everything in the store except the snapshot table *)
Definition live (s : store) :=
  (groups s, relays s, secrets s, msgs s, pmsgs s, welcomes s, pwelcomes s, mls s, mls_global s).

(* everything in the store that is NOT part of group g's restorable view: other groups' views, and all
   messages / processed records / welcomes / global MLS rows (those of g included) *)
Definition outside_view (s : store) (g : N) :=
  (msgs s, pmsgs s, welcomes s, pwelcomes s, mls_global s).

(* an operation that neither consumes, replaces, releases nor prunes snapshot (g, n) taken at time ts *)
Definition keeps (g n ts : N) (o : op) : bool :=
  match o with
  | Snapshot g' n' _ => negb ((g' =? g) && (n' =? n))
  | Rollback g' n' => negb ((g' =? g) && (n' =? n))
  | Release g' n' => negb ((g' =? g) && (n' =? n))
  | Prune min_ts => min_ts <=? ts
  | _ => true
  end.

Definition run_state (ops : list op) (s : store) : store := fold_left (fun st o => fst (step st o)) ops s.

Definition is_snapshot_op (o : op) : bool :=
  match o with Snapshot _ _ _ | Release _ _ | ListSnaps _ | Prune _ => true | _ => false end.

(* strict order on sort keys, as a relation *)
Definition key_gt (a b : N * N * N) : Prop := key3_gtb a b = true.

(* descending sortedness of a message list under a key *)
Fixpoint sorted_desc (key : msg -> N * N * N) (l : list msg) : Prop :=
  match l with
  | [] => True
  | x :: r => (forall y, In y r -> key_gt (key x) (key y)) /\ sorted_desc key r
  end.

(* message ids are unique within the listed set (true of any store: the map is keyed by (group, id)) *)
Definition ids_unique (l : list msg) : Prop := NoDup (map m_id l).

(* store well-formedness: each message sits under its own key *)
Definition msgs_wf (s : store) : Prop :=
  NoDup (map fst (msgs s)) /\ forall k m, In (k, m) (msgs s) -> k = (m_group m, m_id m).

Definition nat_page {A} (limit offset : nat) (l : list A) : list A := firstn limit (skipn offset l).

Definition is_read_op (o : op) : bool :=
  match o with
  | FindGroup _ | FindByNostr _ | AllGroups | Admins _ | Relays _ | GetSecret _ _ | FindMsg _ _
  | Messages _ _ _ _ | LastMessage _ _ | FindPmsg _ | FindFailedRetry _ | FindInvalidatedMsgs _
  | FindInvalidatedPmsgs _ | FindWelcome _ | PendingWelcomes _ _ | FindPwelcome _ | MlsRead _ _ _
  | GlobalRead _ _ | ListSnaps _ => true
  | _ => false
  end.
