(* The cached last-message pointer of the group record (Group::update_last_message_if_newer, model: upd_ptr)
   is the display key of the head of the listing (sort_desc display_key).  Proofs only; stated in Props/C18.v. *)
From Coq Require Import Permutation.
From MDK Require Import Base.Prelude Base.AMap Store.Contract Store.ContractSpec Store.ContractProofs.

(* a fully populated pointer, as a function of a display key *)
Definition ptr_key (k : N * N * N) : ptr := let '(a, b, c) := k in (Some a, Some b, Some c).

Lemma ptr_of_key m : ptr_of m = ptr_key (display_key m).
Proof. reflexivity. Qed.

Lemma ptr_key_inj a b : ptr_key a = ptr_key b -> a = b.
Proof. destruct a as [[a1 a2] a3], b as [[b1 b2] b3]. cbn [ptr_key]. intros H. injection H as -> -> ->. reflexivity. Qed.

(* ---------------------------------------------------------------- one step *)
Lemma upd_ptr_empty m : upd_ptr (None, None, None) m = ptr_of m.
Proof. reflexivity. Qed.

Lemma upd_ptr_key k m :
  upd_ptr (ptr_key k) m = if key3_gtb (display_key m) k then ptr_of m else ptr_key k.
Proof. destruct k as [[a b] c]. reflexivity. Qed.

Lemma ptr_step : forall m m',
  upd_ptr (ptr_of m) m' = if key3_gtb (display_key m') (display_key m) then ptr_of m' else ptr_of m.
Proof. intros m m'. rewrite (ptr_of_key m). apply upd_ptr_key. Qed.

(* ---------------------------------------------------------------- greatest keys *)
(* "not below": b is not strictly greater than a *)
Definition key_ge (a b : N * N * N) : Prop := ~ key_gt b a.

Lemma key_ge_refl a : key_ge a a.
Proof. exact (key_gt_irrefl a). Qed.

Lemma key_ge_cases a b : key_ge a b -> a = b \/ key_gt a b.
Proof.
  intros H. destruct a as [[a1 a2] a3], b as [[b1 b2] b3].
  destruct (N.eq_dec a1 b1) as [E1|E1]; [destruct (N.eq_dec a2 b2) as [E2|E2]; [destruct (N.eq_dec a3 b3) as [E3|E3]|]|].
  - left. congruence.
  - right. destruct (key_gt_total (a1, a2, a3) (b1, b2, b3)) as [G|G]; [congruence|exact G|contradiction].
  - right. destruct (key_gt_total (a1, a2, a3) (b1, b2, b3)) as [G|G]; [congruence|exact G|contradiction].
  - right. destruct (key_gt_total (a1, a2, a3) (b1, b2, b3)) as [G|G]; [congruence|exact G|contradiction].
Qed.

Lemma key_ge_trans a b c : key_ge a b -> key_ge b c -> key_ge a c.
Proof.
  intros Hab Hbc Hca. destruct (key_ge_cases a b Hab) as [->|Gab]; [exact (Hbc Hca)|].
  destruct (key_ge_cases b c Hbc) as [<-|Gbc]; [exact (Hab Hca)|].
  apply (key_gt_irrefl a). apply key_gt_trans with b; [exact Gab|]. apply key_gt_trans with c; assumption.
Qed.

Lemma key_ge_antisym a b : key_ge a b -> key_ge b a -> a = b.
Proof. intros Hab Hba. destruct (key_ge_cases a b Hab) as [E|G]; [exact E|contradiction]. Qed.

Lemma key_gtb_false_ge a b : key3_gtb a b = false -> key_ge b a.
Proof. intros E G. unfold key_gt in G. rewrite E in G. discriminate. Qed.

(* k is a greatest display key of l *)
Definition greatest_key (k : N * N * N) (l : list msg) : Prop :=
  In k (map display_key l) /\ forall y, In y l -> key_ge k (display_key y).

Lemma greatest_key_unique k k' l : greatest_key k l -> greatest_key k' l -> k = k'.
Proof.
  intros [Hin Hge] [Hin' Hge']. apply in_map_iff in Hin. apply in_map_iff in Hin'.
  destruct Hin as [x [<- Hx]]. destruct Hin' as [x' [<- Hx']].
  apply key_ge_antisym; [exact (Hge x' Hx')|exact (Hge' x Hx)].
Qed.

Lemma greatest_key_perm k l l' : Permutation l l' -> greatest_key k l -> greatest_key k l'.
Proof.
  intros P [Hin Hge]. split.
  - apply (Permutation_in k (Permutation_map display_key P)). exact Hin.
  - intros y Hy. apply Hge. apply (Permutation_in y (Permutation_sym P)). exact Hy.
Qed.

(* ---------------------------------------------------------------- the fold computes a greatest key *)
Lemma fold_ptr_from_key : forall l k, exists k',
  fold_left upd_ptr l (ptr_key k) = ptr_key k' /\
  (k' = k \/ In k' (map display_key l)) /\ key_ge k' k /\ forall y, In y l -> key_ge k' (display_key y).
Proof.
  induction l as [|x r IH]; intros k.
  - exists k. cbn [fold_left map In]. split; [reflexivity|]. split; [left; reflexivity|].
    split; [apply key_ge_refl|intros y []].
  - cbn [fold_left]. rewrite upd_ptr_key. destruct (key3_gtb (display_key x) k) eqn:E.
    + rewrite ptr_of_key. destruct (IH (display_key x)) as [k' [Hf [Hin [Hge Hall]]]].
      exists k'. split; [exact Hf|]. split; [|split].
      * right. cbn [map In]. destruct Hin as [->|Hin]; [left; reflexivity|right; exact Hin].
      * apply key_ge_trans with (display_key x); [exact Hge|].
        intros G. apply (key_gt_irrefl k). apply key_gt_trans with (display_key x); [exact G|exact E].
      * intros y [<-|Hy]; [exact Hge|exact (Hall y Hy)].
    + destruct (IH k) as [k' [Hf [Hin [Hge Hall]]]].
      exists k'. split; [exact Hf|]. split; [|split].
      * destruct Hin as [->|Hin]; [left; reflexivity|right; right; exact Hin].
      * exact Hge.
      * intros y [<-|Hy]; [|exact (Hall y Hy)].
        apply key_ge_trans with k; [exact Hge|apply key_gtb_false_ge; exact E].
Qed.

Lemma fold_ptr_greatest : forall m0 l, exists k,
  fold_left upd_ptr (m0 :: l) (None, None, None) = ptr_key k /\ greatest_key k (m0 :: l).
Proof.
  intros m0 l. cbn [fold_left]. rewrite upd_ptr_empty, ptr_of_key.
  destruct (fold_ptr_from_key l (display_key m0)) as [k [Hf [Hin [Hge Hall]]]].
  exists k. split; [exact Hf|]. split.
  - cbn [map In]. destruct Hin as [->|Hin]; [left; reflexivity|right; exact Hin].
  - intros y [<-|Hy]; [exact Hge|exact (Hall y Hy)].
Qed.

(* ---------------------------------------------------------------- the head of the listing is a greatest key *)
(* no uniqueness hypothesis: holds with duplicates and with distinct messages sharing a display key *)
Lemma ins_desc_head_ge key x l d :
  (forall y, In y l -> key_ge (key (hd d l)) (key y)) ->
  forall y, In y (ins_desc key x l) -> key_ge (key (hd d (ins_desc key x l))) (key y).
Proof.
  destruct l as [|h r]; cbn [ins_desc hd]; intros Hl y Hy.
  - destruct Hy as [<-|[]]. apply key_ge_refl.
  - cbn [hd] in Hl. destruct (key3_gtb (key x) (key h)) eqn:E; cbn [hd].
    + destruct Hy as [<-|Hy]; [apply key_ge_refl|].
      apply key_ge_trans with (key h); [|exact (Hl y Hy)].
      intros G. apply (key_gt_irrefl (key x)). apply key_gt_trans with (key h); assumption.
    + destruct Hy as [<-|Hy]; [apply key_ge_refl|]. apply ins_desc_in in Hy.
      destruct Hy as [->|Hy]; [apply key_gtb_false_ge; exact E|]. apply Hl. right. exact Hy.
Qed.

Lemma sort_desc_head_ge key l d :
  forall y, In y (sort_desc key l) -> key_ge (key (hd d (sort_desc key l))) (key y).
Proof.
  induction l as [|x r IH]; [intros y []|].
  unfold sort_desc. cbn [fold_right]. fold (sort_desc key r). apply ins_desc_head_ge. exact IH.
Qed.

Lemma sort_desc_head_in key m0 l : In (hd m0 (sort_desc key (m0 :: l))) (m0 :: l).
Proof.
  apply (sort_desc_in key). pose proof (sort_desc_length key (m0 :: l)) as Hlen.
  destruct (sort_desc key (m0 :: l)) as [|h r]; [discriminate Hlen|]. left. reflexivity.
Qed.

Lemma sort_desc_head_greatest m0 l :
  greatest_key (display_key (hd m0 (sort_desc display_key (m0 :: l)))) (m0 :: l).
Proof.
  split.
  - apply in_map. apply sort_desc_head_in.
  - intros y Hy. apply sort_desc_head_ge. apply sort_desc_in. exact Hy.
Qed.

(* ---------------------------------------------------------------- main results *)
Lemma ptr_is_head : forall (m0 : msg) (l : list msg),
  fold_left upd_ptr (m0 :: l) (None, None, None) = ptr_of (hd m0 (sort_desc display_key (m0 :: l))).
Proof.
  intros m0 l. destruct (fold_ptr_greatest m0 l) as [k [Hf Hg]]. rewrite Hf, ptr_of_key. f_equal.
  exact (greatest_key_unique _ _ _ Hg (sort_desc_head_greatest m0 l)).
Qed.

Lemma ptr_order_irrelevant : forall (l l' : list msg), Permutation l l' ->
  fold_left upd_ptr l (None, None, None) = fold_left upd_ptr l' (None, None, None).
Proof.
  intros l l' P. destruct l as [|m0 r].
  - apply Permutation_nil in P. subst l'. reflexivity.
  - destruct l' as [|m0' r']; [apply Permutation_sym, Permutation_nil in P; discriminate P|].
    destruct (fold_ptr_greatest m0 r) as [k [Hf Hg]]. destruct (fold_ptr_greatest m0' r') as [k' [Hf' Hg']].
    rewrite Hf, Hf'. f_equal. exact (greatest_key_unique _ _ _ (greatest_key_perm _ _ _ P Hg) Hg').
Qed.

(* the pointer names a message of the list (it is never stale or invented) *)
Lemma ptr_names_member : forall (m0 : msg) (l : list msg),
  exists m, In m (m0 :: l) /\ fold_left upd_ptr (m0 :: l) (None, None, None) = ptr_of m.
Proof.
  intros m0 l. exists (hd m0 (sort_desc display_key (m0 :: l))). split; [apply sort_desc_head_in|apply ptr_is_head].
Qed.

(* concrete: four messages, created_at tie between ids 7, 9 and 4 (at 50), processed_at tie between 7 and 9 (at 60):
   the id breaks the tie, the pointer is message 9 whatever the arrival order, and it is the head of the listing *)
Definition ex_msg (id created processed : N) : msg := mkMsg id 1 0 9 created processed 0 0 0 None 0.
Definition ex_msgs : list msg := [ex_msg 7 50 60; ex_msg 3 40 99; ex_msg 9 50 60; ex_msg 4 50 55].

Lemma ptr_example :
  (fold_left upd_ptr ex_msgs (None, None, None), fold_left upd_ptr (rev ex_msgs) (None, None, None),
   map m_id (sort_desc display_key ex_msgs))
  = ((Some 50, Some 60, Some 9), (Some 50, Some 60, Some 9), [9; 7; 4; 3]).
Proof. vm_compute; reflexivity. Qed.
