(* Reference model of the storage contract (traits GroupStorage, MessageStorage, WelcomeStorage, the snapshot
   family of MdkStorageProvider and the group-scoped / global OpenMLS rows).  Identifiers and payloads are
   abstract numbers; the harness maps them to real ids in an order-preserving way.  This is the plain
   contract: a lookup returns the last value saved under the key, listings are the documented total orders,
   snapshots copy exactly one group's view. *)
From MDK Require Import Base.Prelude Base.AMap.

Definition MAX_LIMIT : N := 10000.
Definition DEFAULT_LIMIT : N := 1000.

(* group states / message states / processed states are small enums encoded as N by the harness *)
Definition ST_ACTIVE : N := 0.   Definition ST_INACTIVE : N := 1.   Definition ST_PENDING : N := 2.
Definition MS_INVALIDATED : N := 3.          (* MessageState::EpochInvalidated *)
Definition PS_FAILED : N := 3.  Definition PS_INVALIDATED : N := 4.  Definition PS_RETRYABLE : N := 5.
Definition WS_PENDING : N := 0.

Record group := mkGroup {
  g_id : N; g_nostr : N; g_name : N; g_descr : N; g_admins : list N; g_img : N;
  g_last_id : option N; g_last_at : option N; g_last_proc : option N;
  g_epoch : N; g_state : N; g_self_update : N }.

Record msg := mkMsg {
  m_id : N; m_group : N; m_pubkey : N; m_kind : N; m_created : N; m_processed : N;
  m_content : N; m_tags : N; m_wrapper : N; m_epoch : option N; m_state : N }.

Record pmsg := mkPmsg {
  p_wrapper : N; p_msg : option N; p_at : N; p_epoch : option N; p_group : option N; p_state : N; p_reason : option N }.

Record welcome := mkWelcome { w_id : N; w_group : N; w_nostr : N; w_payload : N; w_state : N; w_wrapper : N }.
Record pwelcome := mkPwelcome { pw_wrapper : N; pw_welcome : option N; pw_at : N; pw_state : N; pw_reason : option N }.

(* one group's restorable view: MLS rows (table, key) -> value, record, relays, exporter secrets by epoch *)
Record gview := mkView {
  v_mls : list ((N * N) * N); v_group : option group; v_relays : list N; v_secrets : list (N * N) }.

Record store := mkStore {
  groups : list (N * group);
  relays : list (N * list N);
  secrets : list ((N * N) * N);                (* (group, epoch) -> secret *)
  msgs : list ((N * N) * msg);                 (* (group, id) -> message *)
  pmsgs : list (N * pmsg);
  welcomes : list (N * welcome);
  pwelcomes : list (N * pwelcome);
  mls : list (N * list ((N * N) * N));         (* group -> (table, key) -> value : the 4 group-scoped tables *)
  mls_global : list ((N * N) * N);             (* key packages, psks, signature keys, encryption keys *)
  snaps : list ((N * N) * (N * gview)) }.      (* (group, name) -> (created_at, view) *)

Definition empty : store := mkStore [] [] [] [] [] [] [] [] [] [].

Notation gget := (aget N.eqb).
Notation pget := (aget pair_eqb).

(* ---------------------------------------------------------------- results *)
Inductive res :=
| ROk | RErr | RNotFound
| RGroup (g : option group) | RGroups (l : list group)
| RMsg (m : option msg) | RMsgs (l : list msg)
| RPmsg (p : option pmsg) | RPmsgs (l : list pmsg)
| RIds (l : list N) | RNum (n : option N)
| RWelcome (w : option welcome) | RWelcomes (l : list welcome) | RPwelcome (p : option pwelcome)
| RSnaps (l : list (N * N)) | RCount (n : N) | RVal (v : option N).

(* ---------------------------------------------------------------- ordering *)
Definition key3_gtb (a b : N * N * N) : bool :=
  let '(a1, a2, a3) := a in let '(b1, b2, b3) := b in
  (b1 <? a1) || ((a1 =? b1) && ((b2 <? a2) || ((a2 =? b2) && (b3 <? a3)))).

Definition display_key (m : msg) : N * N * N := (m_created m, m_processed m, m_id m).
Definition processed_key (m : msg) : N * N * N := (m_processed m, m_created m, m_id m).

(* insertion sort, descending by key *)
Fixpoint ins_desc (key : msg -> N * N * N) (x : msg) (l : list msg) : list msg :=
  match l with
  | [] => [x]
  | y :: r => if key3_gtb (key x) (key y) then x :: y :: r else y :: ins_desc key x r
  end.
Definition sort_desc (key : msg -> N * N * N) (l : list msg) : list msg := fold_right (ins_desc key) [] l.

(* groups/types.rs Group::update_last_message_if_newer: the cached last-message pointer of the group record
   (last_message_at, last_message_processed_at, last_message_id), each field optional (backfilled data) *)
Definition ptr := (option N * option N * option N)%type.
Definition ptr_of (m : msg) : ptr := (Some (m_created m), Some (m_processed m), Some (m_id m)).
Definition upd_ptr (p : ptr) (m : msg) : ptr :=
  let '(a, pa, i) := p in
  let dominated := match a, pa, i with
    | None, _, _ => true
    | Some ea, Some ep, Some ei => key3_gtb (display_key m) (ea, ep, ei)
    | Some ea, None, _ => ea <=? m_created m
    | Some ea, Some _, None => ea <? m_created m
    end in
  if dominated then ptr_of m else p.

Definition sort_key (sort : N) : msg -> N * N * N := if sort =? 0 then display_key else processed_key.

Definition group_msgs (s : store) (g : N) : list msg :=
  map snd (filter (fun kv => fst (fst kv) =? g) (msgs s)).

Definition page {A} (limit offset : N) (l : list A) : list A :=
  if lenN l <=? offset then [] else firstn (N.to_nat (N.min limit (lenN l))) (skipn (N.to_nat offset) l).

(* ---------------------------------------------------------------- operations *)
Inductive op :=
| SaveGroup (g : group) | FindGroup (g : N) | FindByNostr (n : N) | AllGroups
| Admins (g : N) | Relays (g : N) | ReplaceRelays (g : N) (l : list N)
| GetSecret (g e : N) | SaveSecret (g e v : N)
| SaveMsg (m : msg) | FindMsg (g i : N) | Messages (g limit offset sort : N) | LastMessage (g sort : N)
| SavePmsg (p : pmsg) | FindPmsg (w : N)
| InvalidateMsgs (g e : N) | InvalidatePmsgs (g e : N)
| FindFailedRetry (g : N) | FindInvalidatedMsgs (g : N) | FindInvalidatedPmsgs (g : N) | MarkRetryable (w : N)
| SaveWelcome (w : welcome) | FindWelcome (i : N) | PendingWelcomes (limit offset : N)
| SavePwelcome (p : pwelcome) | FindPwelcome (w : N)
| MlsWrite (g t k v : N) | MlsRead (g t k : N) | MlsDelete (g t k : N)
| GlobalWrite (t k v : N) | GlobalRead (t k : N) | GlobalDelete (t k : N)
| Snapshot (g name ts : N) | Rollback (g name : N) | Release (g name : N) | ListSnaps (g : N) | Prune (min_ts : N).

Definition set_groups s x := mkStore x (relays s) (secrets s) (msgs s) (pmsgs s) (welcomes s) (pwelcomes s) (mls s) (mls_global s) (snaps s).
Definition set_relays s x := mkStore (groups s) x (secrets s) (msgs s) (pmsgs s) (welcomes s) (pwelcomes s) (mls s) (mls_global s) (snaps s).
Definition set_secrets s x := mkStore (groups s) (relays s) x (msgs s) (pmsgs s) (welcomes s) (pwelcomes s) (mls s) (mls_global s) (snaps s).
Definition set_msgs s x := mkStore (groups s) (relays s) (secrets s) x (pmsgs s) (welcomes s) (pwelcomes s) (mls s) (mls_global s) (snaps s).
Definition set_pmsgs s x := mkStore (groups s) (relays s) (secrets s) (msgs s) x (welcomes s) (pwelcomes s) (mls s) (mls_global s) (snaps s).
Definition set_welcomes s x := mkStore (groups s) (relays s) (secrets s) (msgs s) (pmsgs s) x (pwelcomes s) (mls s) (mls_global s) (snaps s).
Definition set_pwelcomes s x := mkStore (groups s) (relays s) (secrets s) (msgs s) (pmsgs s) (welcomes s) x (mls s) (mls_global s) (snaps s).
Definition set_mls s x := mkStore (groups s) (relays s) (secrets s) (msgs s) (pmsgs s) (welcomes s) (pwelcomes s) x (mls_global s) (snaps s).
Definition set_global s x := mkStore (groups s) (relays s) (secrets s) (msgs s) (pmsgs s) (welcomes s) (pwelcomes s) (mls s) x (snaps s).
Definition set_snaps s x := mkStore (groups s) (relays s) (secrets s) (msgs s) (pmsgs s) (welcomes s) (pwelcomes s) (mls s) (mls_global s) x.

Definition has_group (s : store) (g : N) : bool := amem N.eqb g (groups s).

Definition mls_rows (s : store) (g : N) : list ((N * N) * N) :=
  match gget g (mls s) with Some r => r | None => [] end.

Definition group_secrets (s : store) (g : N) : list (N * N) :=
  map (fun kv => (snd (fst kv), snd kv)) (filter (fun kv => fst (fst kv) =? g) (secrets s)).

Definition group_relays (s : store) (g : N) : list N :=
  match gget g (relays s) with Some r => r | None => [] end.

(* the part of the store a snapshot of group g captures *)
Definition view_of (s : store) (g : N) : gview :=
  mkView (mls_rows s g) (gget g (groups s)) (group_relays s g) (group_secrets s g).

(* restoring a view: the group's rows are replaced wholesale; nothing else is touched *)
Definition restore_view (s : store) (g : N) (v : gview) : store :=
  let s1 := set_mls s (match v_mls v with [] => adel N.eqb g (mls s) | r => aset N.eqb g r (mls s) end) in
  let s2 := set_groups s1 (match v_group v with Some gr => aset N.eqb g gr (groups s1) | None => adel N.eqb g (groups s1) end) in
  let s3 := set_relays s2 (match v_relays v with [] => adel N.eqb g (relays s2) | r => aset N.eqb g r (relays s2) end) in
  set_secrets s3 (filter (fun kv => negb (fst (fst kv) =? g)) (secrets s3)
                  ++ map (fun ev => ((g, fst ev), snd ev)) (v_secrets v)).

Definition nostr_taken_by_other (s : store) (g : group) : bool :=
  existsb (fun kv => (g_nostr (snd kv) =? g_nostr g) && negb (fst kv =? g_id g)) (groups s).

Definition invalidate_msg (g e : N) (kv : (N * N) * msg) : (N * N) * msg :=
  let m := snd kv in
  if (fst (fst kv) =? g) && (match m_epoch m with Some x => e <? x | None => false end)
  then (fst kv, mkMsg (m_id m) (m_group m) (m_pubkey m) (m_kind m) (m_created m) (m_processed m) (m_content m) (m_tags m) (m_wrapper m) (m_epoch m) MS_INVALIDATED)
  else kv.
Definition msg_hit (g e : N) (kv : (N * N) * msg) : bool :=
  (fst (fst kv) =? g) && (match m_epoch (snd kv) with Some x => e <? x | None => false end).

Definition pmsg_hit (g e : N) (kv : N * pmsg) : bool :=
  opt_eqb (p_group (snd kv)) (Some g) && (match p_epoch (snd kv) with Some x => e <? x | None => false end).
Definition pmsg_set_state (st : N) (p : pmsg) : pmsg :=
  mkPmsg (p_wrapper p) (p_msg p) (p_at p) (p_epoch p) (p_group p) st (p_reason p).

Definition welcome_gtb (a b : welcome) : bool := w_id b <? w_id a.
Fixpoint ins_w (x : welcome) (l : list welcome) : list welcome :=
  match l with [] => [x] | y :: r => if welcome_gtb x y then x :: y :: r else y :: ins_w x r end.

Definition limit_ok (limit : N) : bool := (1 <=? limit) && (limit <=? MAX_LIMIT).

Definition step (s : store) (o : op) : store * res :=
  match o with
  | SaveGroup g =>
      if nostr_taken_by_other s g then (s, RErr)
      else (set_groups s (aset N.eqb (g_id g) g (groups s)), ROk)
  | FindGroup g => (s, RGroup (gget g (groups s)))
  | FindByNostr n => (s, RGroup (match filter (fun kv => g_nostr (snd kv) =? n) (groups s) with kv :: _ => Some (snd kv) | [] => None end))
  | AllGroups => (s, RGroups (map snd (groups s)))
  | Admins g => (s, match gget g (groups s) with Some gr => RIds (g_admins gr) | None => RErr end)
  | Relays g => (s, if has_group s g then RIds (group_relays s g) else RErr)
  | ReplaceRelays g l => if has_group s g then (set_relays s (aset N.eqb g l (relays s)), ROk) else (s, RErr)
  | GetSecret g e => (s, if has_group s g then RVal (pget (g, e) (secrets s)) else RErr)
  | SaveSecret g e v => if has_group s g then (set_secrets s (aset pair_eqb (g, e) v (secrets s)), ROk) else (s, RErr)
  | SaveMsg m => if has_group s (m_group m) then (set_msgs s (aset pair_eqb (m_group m, m_id m) m (msgs s)), ROk) else (s, RErr)
  | FindMsg g i => (s, RMsg (pget (g, i) (msgs s)))
  | Messages g limit offset sort =>
      (s, if negb (limit_ok limit) then RErr else if negb (has_group s g) then RErr
          else RMsgs (page limit offset (sort_desc (sort_key sort) (group_msgs s g))))
  | LastMessage g sort =>
      (s, if negb (has_group s g) then RErr
          else RMsg (match sort_desc (sort_key sort) (group_msgs s g) with m :: _ => Some m | [] => None end))
  | SavePmsg p => (set_pmsgs s (aset N.eqb (p_wrapper p) p (pmsgs s)), ROk)
  | FindPmsg w => (s, RPmsg (gget w (pmsgs s)))
  | InvalidateMsgs g e =>
      (set_msgs s (map (invalidate_msg g e) (msgs s)), RIds (map (fun kv => snd (fst kv)) (filter (msg_hit g e) (msgs s))))
  | InvalidatePmsgs g e =>
      (set_pmsgs s (map (fun kv => if pmsg_hit g e kv then (fst kv, pmsg_set_state PS_INVALIDATED (snd kv)) else kv) (pmsgs s)),
       RIds (map fst (filter (pmsg_hit g e) (pmsgs s))))
  | FindFailedRetry g =>
      (s, RIds (map fst (filter (fun kv => opt_eqb (p_group (snd kv)) (Some g) && (p_state (snd kv) =? PS_FAILED)
                                           && match p_epoch (snd kv) with None => true | Some _ => false end) (pmsgs s))))
  | FindInvalidatedMsgs g => (s, RMsgs (filter (fun m => m_state m =? MS_INVALIDATED) (group_msgs s g)))
  | FindInvalidatedPmsgs g =>
      (s, RPmsgs (map snd (filter (fun kv => opt_eqb (p_group (snd kv)) (Some g) && (p_state (snd kv) =? PS_INVALIDATED)) (pmsgs s))))
  | MarkRetryable w =>
      match gget w (pmsgs s) with
      | Some p => if p_state p =? PS_FAILED then (set_pmsgs s (aset N.eqb w (pmsg_set_state PS_RETRYABLE p) (pmsgs s)), ROk) else (s, RNotFound)
      | None => (s, RNotFound)
      end
  | SaveWelcome w => (set_welcomes s (aset N.eqb (w_id w) w (welcomes s)), ROk)
  | FindWelcome i => (s, RWelcome (gget i (welcomes s)))
  | PendingWelcomes limit offset =>
      (s, if negb (limit_ok limit) then RErr
          else RWelcomes (page limit offset (fold_right ins_w [] (filter (fun w => w_state w =? WS_PENDING) (map snd (welcomes s))))))
  | SavePwelcome p => (set_pwelcomes s (aset N.eqb (pw_wrapper p) p (pwelcomes s)), ROk)
  | FindPwelcome w => (s, RPwelcome (gget w (pwelcomes s)))
  | MlsWrite g t k v => (set_mls s (aset N.eqb g (aset pair_eqb (t, k) v (mls_rows s g)) (mls s)), ROk)
  | MlsRead g t k => (s, RVal (pget (t, k) (mls_rows s g)))
  | MlsDelete g t k => (set_mls s (aset N.eqb g (adel pair_eqb (t, k) (mls_rows s g)) (mls s)), ROk)
  | GlobalWrite t k v => (set_global s (aset pair_eqb (t, k) v (mls_global s)), ROk)
  | GlobalRead t k => (s, RVal (pget (t, k) (mls_global s)))
  | GlobalDelete t k => (set_global s (adel pair_eqb (t, k) (mls_global s)), ROk)
  | Snapshot g name ts => (set_snaps s (aset pair_eqb (g, name) (ts, view_of s g) (snaps s)), ROk)
  | Rollback g name =>
      match pget (g, name) (snaps s) with
      | Some (_, v) => (restore_view (set_snaps s (adel pair_eqb (g, name) (snaps s))) g v, ROk)
      | None => (s, RErr)
      end
  | Release g name => (set_snaps s (adel pair_eqb (g, name) (snaps s)), ROk)
  | ListSnaps g => (s, RSnaps (map (fun kv => (snd (fst kv), fst (snd kv))) (filter (fun kv => fst (fst kv) =? g) (snaps s))))
  | Prune min_ts =>
      (set_snaps s (filter (fun kv => min_ts <=? fst (snd kv)) (snaps s)),
       RCount (lenN (filter (fun kv => negb (min_ts <=? fst (snd kv))) (snaps s))))
  end.

(* Closing the store and opening the same database file again (clean shutdown).  The abstract store is the content of the
   file, so the specification of a reopen is the identity; the correspondence check closes and reopens the real SQLite file
   at random positions of every operation sequence and compares everything observable before / after, and every later
   operation with this model. *)
Definition reopen (s : store) : store := s.

Definition run (ops : list op) (s : store) : store * list res :=
  fold_left (fun acc o => let '(st, out) := acc in let '(st', r) := step st o in (st', out ++ [r])) ops (s, []).
