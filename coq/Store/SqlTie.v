(* Tie of the storage contract to the SQLite backend's SQL text (regenerated: Gen/SqlTables.v).
   - the ORDER BY clauses are the documented total orders the contract sorts by (Contract.display_key / processed_key,
     welcome ids descending, snapshots oldest first);
   - the restore statement plan runs entirely inside one transaction, and every table that an UNCONDITIONAL delete of the
     plan reaches through ON DELETE CASCADE is re-inserted by the plan (so rollback destroys nothing: C09);
   - re-taking a snapshot first deletes the rows of the same name; prune counts snapshots. *)
From Coq Require Import List String Bool.
From MDK Require Import Gen.SqlTables.
Import ListNotations.
Local Open Scope string_scope.

Definition model_orders : list (string * list (string * string)) :=
  [("messages#0", [("created_at", "DESC"); ("processed_at", "DESC"); ("id", "DESC")]);
   ("messages#1", [("processed_at", "DESC"); ("created_at", "DESC"); ("id", "DESC")]);
   ("last_message#0", [("created_at", "DESC"); ("processed_at", "DESC"); ("id", "DESC")]);
   ("last_message#1", [("processed_at", "DESC"); ("created_at", "DESC"); ("id", "DESC")]);
   ("pending_welcomes#0", [("id", "DESC")]);
   ("list_group_snapshots#0", [("created_at", "ASC")])].

Definition mem (t : string) (l : list string) : bool := existsb (String.eqb t) l.

Definition children (t : string) : list string :=
  map (fun e => fst (fst e)) (filter (fun e => String.eqb (snd (fst e)) t && snd e) sql_fks).

Fixpoint closure (fuel : nat) (ts : list string) : list string :=
  match fuel with
  | O => ts
  | S f => closure f (ts ++ filter (fun c => negb (mem c ts)) (flat_map children ts))
  end.

Definition plan_uncond_deleted : list string :=
  map (fun e => snd (fst (fst (fst e))))
      (filter (fun e => String.eqb (fst (fst (fst (fst e)))) "DELETE FROM" && negb (snd (fst e))) restore_plan).
Definition plan_inserted : list string :=
  map (fun e => snd (fst (fst (fst e))))
      (filter (fun e => negb (String.eqb (fst (fst (fst (fst e)))) "DELETE FROM")) restore_plan).

Definition cascade_closure_covered : bool :=
  forallb (fun t => mem t plan_inserted) (closure (S (List.length sql_fks)) plan_uncond_deleted).
Definition plan_all_in_tx : bool := forallb (fun e => snd (fst (fst e))) restore_plan.

Definition sql_tie_statement : Prop :=
  sql_orders = model_orders /\
  cascade_closure_covered = true /\
  plan_all_in_tx = true /\
  snapshot_first_stmt = ("DELETE FROM", "group_state_snapshots") /\
  prune_counts_distinct_snapshots = true.

Lemma sql_tie : sql_tie_statement.
Proof. unfold sql_tie_statement. repeat split; vm_compute; reflexivity. Qed.

(* what the check prints when the tie breaks: the tables reached by cascade and not restored *)
Definition uncovered_tables : list string :=
  filter (fun t => negb (mem t plan_inserted)) (closure (S (List.length sql_fks)) plan_uncond_deleted).
