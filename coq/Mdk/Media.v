(* C17 - which exporter secret EncryptedMediaManager::decrypt_from_download uses (encrypted_media/manager.rs):
     1. try_decrypt_with_epoch_hint: storage.find_message_epoch_by_tag_content(group, "x <hash hex>") -> epoch recorded with
        the first stored message whose tags mention the hash (a message's recorded epoch is the epoch its OWNER was in when it
        stored the message: the sender's epoch for create_message, the RECEIVER's current epoch for process_message);
        no such message -> DecryptionFailed; no stored secret for that epoch -> NoExporterSecretForEpoch; else decrypt_and_verify;
     2. on NoExporterSecretForEpoch / DecryptionFailed ONLY: the current epoch's secret; every other error is returned as is.
   Definitions only; proofs in Mdk/MediaProofs.v. *)
From Coq Require Import String.
From MDK Require Import Base.Prelude Gen.MediaConsts Codec.MediaCtx.

Definition store := list (N * N).                 (* group_exporter_secrets rows of the group: (epoch, secret name) *)
Fixpoint secret_at (st : store) (e : N) : option N :=
  match st with
  | [] => None
  | (e', s) :: r => if e' =? e then Some s else secret_at r e
  end.

Definition msgs := list (bytes * option N).        (* messages rows of the group: (hash in the imeta "x" field, recorded epoch) *)
Fixpoint find_hint (ms : msgs) (h : bytes) : option N :=
  match ms with
  | [] => None
  | (x, Some e) :: r => if bytes_eqb x h then Some e else find_hint r h
  | (_, None) :: r => find_hint r h                (* "AND epoch IS NOT NULL" / filter_map on message.epoch *)
  end.

Record client := { cl_epoch : N; cl_secrets : store; cl_msgs : msgs }.

Section Lookup.
  Variable H : bytes -> bytes.

  Definition try_hint (cl : client) (f : fileinfo) (n : bytes) (c : ct) : bytes + derr :=
    match find_hint (cl_msgs cl) (f_hash f) with
    | None => inr EDecrypt
    | Some e =>
      match secret_at (cl_secrets cl) e with
      | None => inr ENoSecret
      | Some s => media_decrypt H s f n c
      end
    end.
  Definition falls_back (e : derr) : bool := match e with ENoSecret | EDecrypt => true | _ => false end.
  Definition decrypt_from_download (cl : client) (f : fileinfo) (n : bytes) (c : ct) : bytes + derr :=
    match try_hint cl f n c with
    | inl d => inl d
    | inr e =>
      if falls_back e then
        match secret_at (cl_secrets cl) (cl_epoch cl) with
        | None => inr EGroup
        | Some s => media_decrypt H s f n c
        end
      else inr e
    end.
End Lookup.

(* ---- the later-epoch scenario ----------------------------------------------------------------------------------------
   sec e = exporter secret of epoch e.  A file is encrypted at epoch e0.  A member that was in the group at e0 applies j commits,
   then processes the announcing message (recorded epoch e0 + j), applies further commits up to epoch e0 + k (j <= k), and
   decrypts.  The sender is the case j = 0 (its own message is stored at creation). *)
Definition epochs_from (e0 : N) (k : nat) : list N := map (fun i => e0 + N.of_nat i) (seq 0 (S k)).
Definition member_client (sec : N -> N) (e0 : N) (j k : nat) (h : bytes) : client :=
  {| cl_epoch := e0 + N.of_nat k;
     cl_secrets := map (fun e => (e, sec e)) (epochs_from e0 k);
     cl_msgs := [(h, Some (e0 + N.of_nat j))] |}.
(* the known class: the announcement was processed after at least one intervening commit *)
Definition Known_late_announcement (j : nat) : Prop := (1 <= j)%nat.

(* entry point for the correspondence run: outcome (true = plaintext returned) of the scenario with concrete numbers *)
Definition scenario_ok (j k : nat) : bool :=
  let sec := fun e => 1000 + e in
  let Hx := fun b : bytes => repeat (lenN b mod 256) 32 in
  let pt := [1; 2; 3] in
  let f := {| f_version := default_scheme_version_b; f_hash := Hx pt; f_mime := [105; 109; 97; 103; 101; 47; 112; 110; 103]; f_name := [97; 46; 112; 110; 103] |} in
  match media_encrypt (sec 5) f [9] pt with
  | None => false
  | Some c => match decrypt_from_download Hx (member_client sec 5 j k (f_hash f)) f [9] c with inl p => bytes_eqb p pt | inr _ => false end
  end.

(* the same file (same hash, name, MIME type) uploaded at epoch 5 and again at epoch 6, both announcements processed at once by the
   receiver, which decrypts at epoch 7: (first upload decrypts, second upload decrypts) *)
Definition same_file_twice : bool * bool :=
  let sec := fun e => 1000 + e in
  let Hx := fun b : bytes => repeat (lenN b mod 256) 32 in
  let pt := [1; 2; 3] in
  let f := {| f_version := default_scheme_version_b; f_hash := Hx pt; f_mime := [105; 109; 97; 103; 101; 47; 112; 110; 103]; f_name := [97; 46; 112; 110; 103] |} in
  let cl := {| cl_epoch := 7; cl_secrets := map (fun e => (e, sec e)) [5; 6; 7]; cl_msgs := [(f_hash f, Some 5); (f_hash f, Some 6)] |} in
  let try e nonce := match media_encrypt (sec e) f nonce pt with
                     | None => false
                     | Some c => match decrypt_from_download Hx cl f nonce c with inl _ => true | inr _ => false end
                     end in
  (try 5 [9], try 6 [10]).
