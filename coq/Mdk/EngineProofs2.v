(* placeholder *)
