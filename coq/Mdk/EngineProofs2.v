(* Second batch of proofs about the engine model, exported to Props/C03.v C05.v C11.v C20.v. *)
From MDK Require Import Base.Prelude Base.AMap Mdk.Engine Mdk.EngineSpec Mdk.Authz Mdk.EngineProofs Store.Contract Store.ContractSpec Store.ContractProofs.
(* Store.Contract reuses some field names of the engine model (msgs, set_msgs, ...): make the engine's visible again *)
Import Mdk.Engine Mdk.EngineSpec Mdk.EngineProofs.

(* ================================================================ C05: the authorisation whitelist (Authz.v) *)
Lemma is_update_spec p : is_update p = true <-> p = PUpdate.
Proof. destruct p; cbn [is_update]; split; intros H; try discriminate H; reflexivity. Qed.

Lemma non_admin_commit_is_pure : forall hp props,
  authorised false hp props = true ->
  (forall p, In p props -> fst p = PUpdate /\ snd p = true) /\ (hp = true \/ exists p, In p props /\ fst p = PUpdate).
Proof.
  intros hp props H. unfold authorised, pure_self_update in H. cbn [orb] in H.
  apply andb_true_iff in H. destruct H as [H H3]. apply andb_true_iff in H. destruct H as [H1 H2].
  rewrite forallb_forall in H2. rewrite forallb_forall in H3. split.
  - intros p Hp. pose proof (H2 p Hp) as Hu. split; [apply is_update_spec; exact Hu|].
    apply H3. apply filter_In. split; [exact Hp|exact Hu].
  - apply orb_true_iff in H1. destruct H1 as [H1|H1]; [left; exact H1|right].
    apply existsb_exists in H1. destruct H1 as (p & Hp & Hu). exists p. split; [exact Hp|apply is_update_spec; exact Hu].
Qed.

Lemma non_admin_commit_changes_nothing : forall hp props,
  authorised false hp props = true -> changes_group props = false.
Proof.
  intros hp props H. destruct (non_admin_commit_is_pure hp props H) as [Hall _].
  destruct (changes_group props) eqn:E; [|reflexivity]. unfold changes_group in E.
  apply existsb_exists in E. destruct E as (p & Hp & Hc). destruct (Hall p Hp) as [Hu _]. rewrite Hu in Hc. discriminate Hc.
Qed.

Lemma empty_commit_refused : authorised false false [] = false.
Proof. reflexivity. Qed.

(* ================================================================ C05: the engine *)
Lemma gstate_ens c : gstate (ens c) = gstate c.
Proof. unfold gstate, ens. cbn [set_core kc]. rewrite es_cur, es_epoch, es_data. reflexivity. Qed.

Lemma gstate_late c e r : gstate (fst (late c e r)) = gstate c.
Proof.
  unfold late. destruct (dget (e_id e) (dedup c)) as [d|]; [|reflexivity].
  destruct (d_state d =? PS_COMMIT); reflexivity.
Qed.

Lemma gstate_upd_last c k a b : gstate (set_core c (upd_last k a b)) = gstate (set_core c k).
Proof.
  unfold gstate. cbn [set_core kc]. destruct (upd_last_fields k a b) as (E1 & E2 & _ & _ & _ & _ & _ & _ & E9 & _).
  rewrite E1, E2, E9. reflexivity.
Qed.

Lemma gstate_own_here c e : e_kind e <> 0 -> gstate (fst (own_here c e)) = gstate c.
Proof.
  intros K0. unfold own_here. destruct (N.eqb_spec (e_kind e) 0) as [E|_]; [contradiction|].
  destruct (dget (e_id e) (dedup c)) as [d|]; [|reflexivity].
  destruct ((d_state d =? PS_CREATED) || (d_state d =? PS_RETRY)).
  - destruct (d_msg d) as [m|]; [|reflexivity]. destruct (dget m (msgs c)); reflexivity.
  - destruct (d_state d =? PS_COMMIT); reflexivity.
Qed.

Lemma gstate_app_here c e r : gstate (fst (app_here c e r)) = gstate c.
Proof.
  unfold app_here. destruct (negb _ || existsb (N.eqb (e_msg e)) (k_seen (kc c)) || (e_bad e =? 7)); [reflexivity|].
  cbn [fst]. rewrite gstate_upd_last. reflexivity.
Qed.

Lemma gstate_leave_here c e r : gstate (fst (leave_here c e r)) = gstate c.
Proof.
  unfold leave_here. destruct (existsb (N.eqb (100000 + e_id e)) (k_seen (kc c))); [reflexivity|].
  destruct (is_admin c && _); reflexivity.
Qed.

Lemma gstate_commit_here_unauth c e r : e_auth e = false \/ e_bad e = 8 -> gstate (fst (commit_here c e r)) = gstate c.
Proof.
  intros Ha. unfold commit_here. destruct (negb (forallb _ (e_refs e))); [reflexivity|].
  destruct Ha as [Ha|Ha]; rewrite Ha; [reflexivity|]. rewrite orb_true_r. reflexivity.
Qed.

(* events that cannot move the group state where they are handled *)
Definition harmless_here (c : client) (e : event) : Prop :=
  (e_kind e = 1 \/ e_kind e = 2) \/ (e_author e <> me c /\ (e_auth e = false \/ e_bad e = 8)).

Lemma gstate_here c e r : harmless_here c e -> gstate (fst (here c e r)) = gstate c.
Proof.
  intros Hh. unfold here.
  destruct (N.eqb_spec (e_author e) (me c)) as [Ea|Ea].
  - destruct Hh as [K|[Hne _]]; [apply gstate_own_here; lia|contradiction].
  - destruct (N.eqb_spec (e_kind e) 1) as [K1|K1]; [apply gstate_app_here|].
    destruct (N.eqb_spec (e_kind e) 2) as [K2|K2]; [apply gstate_leave_here|].
    destruct Hh as [K|[_ Hau]]; [lia|apply gstate_commit_here_unauth; exact Hau].
Qed.

Lemma gstate_process f c e :
  e_kind e = 3 \/ harmless_here c e ->
  rollbacks (fst (process f c e)) = rollbacks c -> gstate (fst (process f c e)) = gstate c.
Proof.
  intros Hh. rewrite process_unfold.
  destruct (blockedb c e); [reflexivity|].
  destruct ((e_kind e =? 3) && (e_bad e <? 2)); [reflexivity|].
  destruct ((e_kind e =? 3) && (e_bad e =? 2)); [reflexivity|].
  destruct (negb (k_active (kc c))); [reflexivity|].
  cbv zeta.
  destruct (N.eqb_spec (e_kind e) 3) as [K3|K3]; [intros _; cbn [orb fst]; exact (gstate_ens c)|].
  cbn [orb].
  destruct (negb (outer_opens (kc (ens c)) (e_state e))); [intros _; exact (gstate_ens c)|].
  assert (harmless_here (ens c) e) as Hh' by (destruct Hh as [K|Hh]; [contradiction|exact Hh]).
  destruct (wrong_epoch (kc (ens c)) e).
  - destruct (is_commit_kind e && is_better (ens c) (e_epoch e) (e_ts e) (e_key e)).
    + destruct (find_snap (e_epoch e) (queue (ens c))) as [s|]; [|intros _; exact (gstate_ens c)].
      destruct f as [|f']; [intros _; exact (gstate_ens c)|].
      intros Hrb. exfalso.
      pose proof (process_rb f' (rollback (ens c) (e_epoch e) s) e) as H.
      assert (rollbacks (rollback (ens c) (e_epoch e) s) = rollbacks c + 1) as E by reflexivity. lia.
    + intros _. rewrite gstate_late. apply gstate_ens.
  - intros _. rewrite (gstate_here _ _ _ Hh'). apply gstate_ens.
Qed.

Lemma unauthorised_commit_frame : forall c e,
  e_kind e = 0 -> e_author e <> me c -> e_auth e = false ->
  rollbacks (fst (deliver c e)) = rollbacks c -> gstate (fst (deliver c e)) = gstate c.
Proof. intros c e _ Hne Hau. apply gstate_process. right. right. split; [exact Hne|left; exact Hau]. Qed.

(* a commit that changes a member's identity (validate_commit_identities refuses it) never moves the group state either *)
Lemma identity_change_commit_frame : forall c e,
  e_kind e = 0 -> e_author e <> me c -> e_bad e = 8 ->
  rollbacks (fst (deliver c e)) = rollbacks c -> gstate (fst (deliver c e)) = gstate c.
Proof. intros c e _ Hne Hb. apply gstate_process. right. right. split; [exact Hne|right; exact Hb]. Qed.

Lemma proposal_alone_no_effect : forall c e,
  e_kind e = 2 -> rollbacks (fst (deliver c e)) = rollbacks c -> gstate (fst (deliver c e)) = gstate c.
Proof. intros c e K. apply gstate_process. right. left. right. exact K. Qed.

Lemma message_no_effect : forall c e,
  e_kind e = 1 \/ e_kind e = 3 -> rollbacks (fst (deliver c e)) = rollbacks c -> gstate (fst (deliver c e)) = gstate c.
Proof. intros c e [K|K]; apply gstate_process; [right; left; left; exact K|left; exact K]. Qed.

Lemma blockedb_none c e : dget (e_id e) (dedup c) = None -> blockedb c e = false.
Proof. unfold blockedb. intros ->. reflexivity. Qed.

Lemma applied_commit_fuel f : forall c e,
  e_kind e = 0 -> e_author e <> me c -> dget (e_id e) (dedup c) = None ->
  snd (process f c e) = RCommit -> e_auth e = true.
Proof.
  induction f as [|f IH]; intros c e K0 Hne Hd; rewrite process_unfold; rewrite (blockedb_none _ _ Hd).
  all: destruct ((e_kind e =? 3) && (e_bad e <? 2)); [discriminate|].
  all: destruct ((e_kind e =? 3) && (e_bad e =? 2)); [discriminate|].
  all: destruct (negb (k_active (kc c))); [discriminate|].
  all: cbv zeta.
  all: destruct ((e_kind e =? 3) || negb (outer_opens (kc (ens c)) (e_state e))); [discriminate|].
  all: assert (Hhere : snd (here (ens c) e (k_rec_epoch (kc c))) = RCommit -> e_auth e = true).
  1,3: unfold here; change (me (ens c)) with (me c);
       (destruct (N.eqb_spec (e_author e) (me c)) as [E|_]; [contradiction|]);
       rewrite K0; change (0 =? 1) with false; change (0 =? 2) with false; cbv iota;
       unfold commit_here; (destruct (negb (forallb _ (e_refs e))); [discriminate|]);
       (destruct (e_auth e); [reflexivity|discriminate]).
  all: destruct (wrong_epoch (kc (ens c)) e); [|exact Hhere].
  all: assert (Hlate : snd (late (ens c) e (k_rec_epoch (kc c))) = RCommit -> e_auth e = true)
         by (unfold late; change (dedup (ens c)) with (dedup c); rewrite Hd; discriminate).
  all: destruct (is_commit_kind e && is_better (ens c) (e_epoch e) (e_ts e) (e_key e)); [|exact Hlate].
  all: destruct (find_snap (e_epoch e) (queue (ens c))) as [s|] eqn:Es; [|discriminate].
  - discriminate.
  - apply IH; [exact K0|exact Hne|]. rewrite dget_rollback. change (dedup (ens c)) with (dedup c). rewrite Hd. reflexivity.
Qed.

Lemma applied_commit_authorised : forall c e,
  e_kind e = 0 -> e_author e <> me c -> aget N.eqb (e_id e) (dedup c) = None ->
  snd (deliver c e) = RCommit -> e_auth e = true.
Proof. intros c e. apply applied_commit_fuel. Qed.

(* ================================================================ C20: the snapshot queue stays bounded *)
Lemma drop_front_length {A} n : forall (l : list A), length (drop_front n l) = (length l - n)%nat.
Proof.
  induction n as [|n IH]; intros l; cbn [drop_front]; [lia|].
  destruct l as [|x r]; cbn [length]; [reflexivity|]. rewrite IH. lia.
Qed.

Lemma prune_len ret q : lenN (prune ret q) <= ret.
Proof.
  unfold prune. destruct (N.leb_spec (lenN q) ret) as [L|L]; [exact L|].
  unfold lenN in *. rewrite drop_front_length. lia.
Qed.

Lemma take_until_len ep q : lenN (take_until ep q) <= lenN q.
Proof.
  induction q as [|s r IH]; cbn [take_until]; [lia|].
  destruct (sn_epoch s =? ep); rewrite ?lenN_cons, ?lenN_nil; lia.
Qed.

(* the queue has at most r entries and the retention setting is r *)
Definition QR (r : N) (c : client) : Prop := retention c = r /\ lenN (queue c) <= r.

Lemma QR_same r c c' : retention c' = retention c -> queue c' = queue c -> QR r c -> QR r c'.
Proof. unfold QR. intros -> ->. auto. Qed.

Lemma QR_apply_commit r c e cm : QR r c -> QR r (fst (apply_commit c e cm)).
Proof.
  intros [Hr _].
  assert (QR r (take_snapshot c e)) as H.
  { split; [exact Hr|]. cbn [take_snapshot set_queue queue]. rewrite Hr. apply prune_len. }
  unfold apply_commit. destruct (evicted_by c (snd cm)); exact H.
Qed.

Lemma QR_rollback r c ep s : QR r c -> QR r (rollback c ep s).
Proof.
  intros [Hr Hq]. split; [exact Hr|].
  change (queue (rollback c ep s)) with (take_until ep (queue c)).
  pose proof (take_until_len ep (queue c)). lia.
Qed.

Lemma QR_late r c e x : QR r c -> QR r (fst (late c e x)).
Proof.
  intros H. unfold late. destruct (dget (e_id e) (dedup c)) as [d|]; [|exact H].
  destruct (d_state d =? PS_COMMIT); exact H.
Qed.

Lemma QR_here r c e x : QR r c -> QR r (fst (here c e x)).
Proof.
  intros H. unfold here.
  destruct (e_author e =? me c).
  - unfold own_here.
    destruct (if e_kind e =? 0 then k_pending (kc c) else None) as [cm|]; [apply QR_apply_commit; exact H|].
    destruct (dget (e_id e) (dedup c)) as [d|]; [|exact H].
    destruct ((d_state d =? PS_CREATED) || (d_state d =? PS_RETRY)).
    + destruct (d_msg d) as [m|]; [|exact H]. destruct (dget m (msgs c)); exact H.
    + destruct (d_state d =? PS_COMMIT); exact H.
  - destruct (e_kind e =? 1).
    + unfold app_here. destruct (negb _ || existsb (N.eqb (e_msg e)) (k_seen (kc c)) || (e_bad e =? 7)); exact H.
    + destruct (e_kind e =? 2).
      * unfold leave_here. destruct (existsb (N.eqb (100000 + e_id e)) (k_seen (kc c))); [exact H|].
        destruct (is_admin c && _); exact H.
      * unfold commit_here. destruct (negb (forallb _ (e_refs e))); [exact H|].
        destruct (negb (e_auth e) || (e_bad e =? 8)); [exact H|apply QR_apply_commit; exact H].
Qed.

Lemma QR_process r fuel : forall c e, QR r c -> QR r (fst (process fuel c e)).
Proof.
  induction fuel as [|f IH]; intros c e H; rewrite process_unfold.
  all: destruct (blockedb c e); [exact H|].
  all: destruct ((e_kind e =? 3) && (e_bad e <? 2)); [exact H|].
  all: destruct ((e_kind e =? 3) && (e_bad e =? 2)); [exact H|].
  all: destruct (negb (k_active (kc c))); [exact H|].
  all: cbv zeta; assert (QR r (ens c)) as H1 by exact H.
  all: destruct ((e_kind e =? 3) || negb (outer_opens (kc (ens c)) (e_state e))); [exact H1|].
  all: destruct (wrong_epoch (kc (ens c)) e); [|apply QR_here; exact H1].
  all: destruct (is_commit_kind e && is_better (ens c) (e_epoch e) (e_ts e) (e_key e)); [|apply QR_late; exact H1].
  all: destruct (find_snap (e_epoch e) (queue (ens c))) as [s|] eqn:Es; [|exact H1].
  - exact H1.
  - apply IH. apply QR_rollback. exact H1.
Qed.

Lemma QR_estep r c o : QR r c -> QR r (estep c o).
Proof.
  intros H. destruct o as [e|e| | |e|e k|e|]; cbn [estep].
  - apply QR_process. exact H.
  - exact H.
  - unfold merge_pending. destruct (k_pending (kc c)); exact H.
  - exact H.
  - exact H.
  - exact H.
  - exact H.
  - destruct H as [Hr Hq]. split; [exact Hr|]. cbn [restart set_queue queue]. unfold lenN in *. rewrite map_length. exact Hq.
Qed.

Lemma queue_bounded_step : forall c o, lenN (queue c) <= retention c -> lenN (queue (estep c o)) <= retention (estep c o).
Proof.
  intros c o H. destruct (QR_estep (retention c) c o (conj eq_refl H)) as [Hr Hq]. rewrite Hr. exact Hq.
Qed.

Lemma QR_erun r ops : forall c, QR r c -> QR r (erun c ops).
Proof.
  induction ops as [|o ops IH]; intros c H; [exact H|].
  unfold erun. cbn [fold_left]. apply IH. apply QR_estep. exact H.
Qed.

Lemma queue_bounded : forall i a r ops, lenN (queue (erun (init_client i a r) ops)) <= r.
Proof.
  intros i a r ops. apply (QR_erun r ops (init_client i a r)).
  split; [reflexivity|]. cbn [init_client queue]. rewrite lenN_nil. lia.
Qed.

(* ---- the queue stays well formed along every run *)
Definition zero_ts (s : snap) : snap := mkSnap (sn_epoch s) (sn_key s) 0 (sn_core s).

Lemma restart_queue c : queue (restart c) = map zero_ts (queue c).
Proof. reflexivity. Qed.

Lemma sorted_map_zero q : snaps_sorted q -> snaps_sorted (map zero_ts q).
Proof.
  induction q as [|s r IH]; cbn [map snaps_sorted]; [auto|].
  intros [Ha Hr]. split; [|exact (IH Hr)].
  rewrite Forall_map. exact Ha.
Qed.

Lemma queue_wf_restart c : queue_wf c -> queue_wf (restart c).
Proof.
  intros [H1 H2]. unfold queue_wf. rewrite restart_queue. change (kc (restart c)) with (kc c). split.
  - rewrite Forall_map. exact H1.
  - apply sorted_map_zero. exact H2.
Qed.

Lemma queue_wf_estep c o : queue_wf c -> queue_wf (estep c o).
Proof.
  intros H. destruct o as [e|e| | |e|e k|e|]; cbn [estep].
  - apply queue_wf_deliver. exact H.
  - apply (queue_wf_api c e H).
  - apply (queue_wf_api c (mkEvent 0 0 0 0 0 0 0 false 0 0 [] [] 0) H).
  - apply (queue_wf_api c (mkEvent 0 0 0 0 0 0 0 false 0 0 [] [] 0) H).
  - apply (queue_wf_api c e H).
  - apply queue_wf_sent_as. exact H.
  - apply (queue_wf_api c e H).
  - apply queue_wf_restart. exact H.
Qed.

Lemma queue_wf_erun ops : forall c, queue_wf c -> queue_wf (erun c ops).
Proof.
  induction ops as [|o ops IH]; intros c H; [exact H|].
  unfold erun. cbn [fold_left]. apply IH. apply queue_wf_estep. exact H.
Qed.

Lemma queue_recent : forall i a r ops, queue_wf (erun (init_client i a r) ops).
Proof. intros i a r ops. apply queue_wf_erun. apply queue_wf_init. Qed.

Lemma rollback_discards_superseded : forall c ep s x, queue_wf c -> find_snap ep (queue c) = Some s ->
  In x (queue (rollback c ep s)) -> sn_epoch x < ep.
Proof.
  intros c ep s x [_ Hs] Hf Hx.
  change (queue (rollback c ep s)) with (take_until ep (queue c)) in Hx.
  pose proof (take_until_below ep (queue c) s Hs Hf) as Hb. rewrite Forall_forall in Hb.
  destruct (find_snap_In _ _ _ Hf) as [_ <-]. exact (Hb x Hx).
Qed.

(* ---- TTL pruning at the storage contract *)
Lemma ttl_prune_exact : forall s min_ts k v,
  NoDup (map fst (snaps s)) ->
  (aget pair_eqb k (snaps (fst (step s (Prune min_ts)))) = Some v <-> aget pair_eqb k (snaps s) = Some v /\ min_ts <= fst v) /\
  live (fst (step s (Prune min_ts))) = live s.
Proof.
  intros s min_ts k v Hnd. split; [|reflexivity].
  rewrite step_snaps. split.
  - intros H. apply (aget_In pair_eqb pair_eqb_spec) in H. apply filter_In in H. destruct H as [Hin Hf].
    cbn [snd fst] in Hf. split; [|lia]. apply (In_aget pair_eqb pair_eqb_spec); assumption.
  - intros [Hg Hle]. apply (aget_filter_keep pair_eqb pair_eqb_spec); [exact Hg|]. cbn [snd fst]. lia.
Qed.

(* ================================================================ C11: restart *)
Lemma restart_proj : forall c, proj (restart c) = proj c.
Proof. intros c. unfold proj. rewrite restart_queue, map_length. reflexivity. Qed.

Lemma zero_ts_idem s : zero_ts (zero_ts s) = zero_ts s.
Proof. reflexivity. Qed.

Lemma map_zero_idem q : map zero_ts (map zero_ts q) = map zero_ts q.
Proof. rewrite map_map. apply map_ext. intros s. reflexivity. Qed.

Lemma restart_idempotent : forall c, restart (restart c) = restart c.
Proof.
  intros c. unfold restart at 1. rewrite restart_queue.
  change (map (fun s => mkSnap (sn_epoch s) (sn_key s) 0 (sn_core s)) (map zero_ts (queue c))) with (map zero_ts (map zero_ts (queue c))).
  rewrite map_zero_idem. reflexivity.
Qed.

(* two clients that differ only in the timestamps of their queued snapshots *)
Lemma restart_eq c c' :
  me c = me c' -> is_admin c = is_admin c' -> retention c = retention c' -> kc c = kc c' -> dedup c = dedup c' ->
  msgs c = msgs c' -> rollbacks c = rollbacks c' -> map zero_ts (queue c) = map zero_ts (queue c') ->
  restart c = restart c'.
Proof.
  destruct c as [a1 a2 a3 a4 a5 a6 a7 a8], c' as [b1 b2 b3 b4 b5 b6 b7 b8].
  cbn [me is_admin retention kc dedup msgs rollbacks queue].
  intros -> -> -> -> -> -> -> H. unfold restart, set_queue. cbn [me is_admin retention kc dedup msgs rollbacks queue].
  f_equal. exact H.
Qed.

Lemma find_snap_zero ep q : find_snap ep (map zero_ts q) = option_map zero_ts (find_snap ep q).
Proof.
  unfold find_snap. induction q as [|s r IH]; cbn [map find option_map]; [reflexivity|].
  change (sn_epoch (zero_ts s)) with (sn_epoch s). destruct (sn_epoch s =? ep); [reflexivity|exact IH].
Qed.

Lemma is_better_restart c ep ts key : is_better (restart c) ep ts key = false.
Proof.
  unfold is_better. rewrite restart_queue, find_snap_zero.
  destruct (find_snap ep (queue c)) as [s|]; reflexivity.
Qed.

Lemma map_drop_front {A B} (f : A -> B) n : forall l, map f (drop_front n l) = drop_front n (map f l).
Proof.
  induction n as [|n IH]; intros l; cbn [drop_front]; [reflexivity|].
  destruct l as [|x r]; cbn [map]; [reflexivity|apply IH].
Qed.

Lemma map_prune f ret q : map f (prune ret q) = prune ret (map f q).
Proof.
  unfold prune. unfold lenN. rewrite map_length. destruct (N.of_nat (length q) <=? ret); [reflexivity|apply map_drop_front].
Qed.

Lemma take_snapshot_restart c e :
  map zero_ts (queue (take_snapshot (restart c) e)) = map zero_ts (queue (take_snapshot c e)).
Proof.
  cbn [take_snapshot set_queue queue]. change (retention (restart c)) with (retention c). change (kc (restart c)) with (kc c).
  rewrite restart_queue. rewrite !map_prune, !map_app, map_zero_idem. reflexivity.
Qed.

Lemma apply_commit_restart c e cm :
  snd (apply_commit (restart c) e cm) = snd (apply_commit c e cm) /\
  restart (fst (apply_commit (restart c) e cm)) = restart (fst (apply_commit c e cm)).
Proof.
  unfold apply_commit. change (evicted_by (restart c) (snd cm)) with (evicted_by c (snd cm)).
  destruct (evicted_by c (snd cm)); (split; [reflexivity|]); cbn [fst];
    (apply restart_eq; try reflexivity; exact (take_snapshot_restart c e)).
Qed.

Lemma late_restart c e r : late (restart c) e r = (restart (fst (late c e r)), snd (late c e r)).
Proof.
  unfold late. change (dedup (restart c)) with (dedup c).
  destruct (dget (e_id e) (dedup c)) as [d|]; [|reflexivity].
  destruct (d_state d =? PS_COMMIT); reflexivity.
Qed.

Lemma sim_same (x y : client * rk) : x = (restart (fst y), snd y) -> snd x = snd y /\ restart (fst x) = restart (fst y).
Proof. intros ->. cbn [fst snd]. split; [reflexivity|apply restart_idempotent]. Qed.

Lemma here_restart c e r :
  snd (here (restart c) e r) = snd (here c e r) /\
  restart (fst (here (restart c) e r)) = restart (fst (here c e r)).
Proof.
  unfold here. change (me (restart c)) with (me c).
  destruct (e_author e =? me c).
  - unfold own_here. change (kc (restart c)) with (kc c). change (dedup (restart c)) with (dedup c). change (msgs (restart c)) with (msgs c).
    destruct (if e_kind e =? 0 then k_pending (kc c) else None) as [cm|]; [apply apply_commit_restart|].
    destruct (dget (e_id e) (dedup c)) as [d|]; [|apply sim_same; reflexivity].
    destruct ((d_state d =? PS_CREATED) || (d_state d =? PS_RETRY)).
    + destruct (d_msg d) as [m|]; [|apply sim_same; reflexivity]. destruct (dget m (msgs c)); apply sim_same; reflexivity.
    + destruct (d_state d =? PS_COMMIT); apply sim_same; reflexivity.
  - destruct (e_kind e =? 1).
    + unfold app_here. change (kc (restart c)) with (kc c).
      destruct (negb _ || existsb (N.eqb (e_msg e)) (k_seen (kc c)) || (e_bad e =? 7)); apply sim_same; reflexivity.
    + destruct (e_kind e =? 2).
      * unfold leave_here. change (kc (restart c)) with (kc c). change (is_admin (restart c)) with (is_admin c).
        destruct (existsb (N.eqb (100000 + e_id e)) (k_seen (kc c))); [apply sim_same; reflexivity|].
        destruct (is_admin c && _); apply sim_same; reflexivity.
      * unfold commit_here. change (kc (restart c)) with (kc c).
        destruct (negb (forallb _ (e_refs e))); [apply sim_same; reflexivity|].
        destruct (negb (e_auth e) || (e_bad e =? 8)); [apply sim_same; reflexivity|apply apply_commit_restart].
Qed.

Lemma restart_simulation_fuel f c e :
  (forall s, In s (queue c) -> is_better c (sn_epoch s) (e_ts e) (e_key e) = false) ->
  snd (process f (restart c) e) = snd (process f c e) /\
  restart (fst (process f (restart c) e)) = restart (fst (process f c e)).
Proof.
  intros Hnb.
  assert (is_better (ens c) (e_epoch e) (e_ts e) (e_key e) = false) as Hb.
  { destruct (find_snap (e_epoch e) (queue c)) as [s|] eqn:Ef.
    - destruct (find_snap_In _ _ _ Ef) as [Hin Hep]. specialize (Hnb s Hin). rewrite Hep in Hnb.
      unfold is_better in *. exact Hnb.
    - unfold is_better. change (queue (ens c)) with (queue c). rewrite Ef. reflexivity. }
  rewrite !process_unfold.
  change (blockedb (restart c) e) with (blockedb c e).
  destruct (blockedb c e); [apply sim_same; reflexivity|].
  destruct ((e_kind e =? 3) && (e_bad e <? 2)); [apply sim_same; reflexivity|].
  destruct ((e_kind e =? 3) && (e_bad e =? 2)); [apply sim_same; reflexivity|].
  change (kc (restart c)) with (kc c).
  destruct (negb (k_active (kc c))); [apply sim_same; reflexivity|].
  cbv zeta. change (ens (restart c)) with (restart (ens c)). change (kc (restart (ens c))) with (kc (ens c)).
  destruct ((e_kind e =? 3) || negb (outer_opens (kc (ens c)) (e_state e))); [apply sim_same; reflexivity|].
  rewrite is_better_restart, Hb, !andb_false_r.
  destruct (wrong_epoch (kc (ens c)) e).
  - apply sim_same. apply late_restart.
  - apply here_restart.
Qed.

Lemma restart_simulation : forall c e,
  (forall s, In s (queue c) -> is_better c (sn_epoch s) (e_ts e) (e_key e) = false) ->
  snd (deliver (restart c) e) = snd (deliver c e) /\
  forget_ts (fst (deliver (restart c) e)) = forget_ts (fst (deliver c e)).
Proof. intros c e. apply restart_simulation_fuel. Qed.

Lemma race_after_restart_refuted : exists c worse better,
  fork_ready c /\
  k_cur (kc (deliver_all c [worse; better])) = e_id better + 1 /\
  k_cur (kc (fst (deliver (restart (fst (deliver c worse))) better))) = e_id worse + 1.
Proof.
  exists w_c0, w_A, w_B. split; [apply fork_ready_init; lia|]. split; vm_compute; reflexivity.
Qed.

(* ================================================================ C03: secrets only of visited states *)
(* the MLS state of a core and every state whose secrets it holds *)
Definition core_states (k : core) : list N := k_cur k :: held_states k.

(* every state known to the client - live or in a queued snapshot - is in L *)
Definition Held (L : list N) (c : client) : Prop :=
  incl (core_states (kc c)) L /\ forall s, In s (queue c) -> incl (core_states (sn_core s)) L.

Lemma Held_mono L L' c : incl L L' -> Held L c -> Held L' c.
Proof.
  intros HL [H1 H2]. split; [exact (incl_tran H1 HL)|]. intros s Hs. exact (incl_tran (H2 s Hs) HL).
Qed.

Lemma Held_weaken L c x : Held L c -> Held (x :: L) c.
Proof. apply Held_mono. apply incl_tl. apply incl_refl. Qed.

Lemma Held_core L c k : incl (core_states k) L -> Held L c -> Held L (set_core c k).
Proof. intros Hk [_ H2]. split; [exact Hk|exact H2]. Qed.

Lemma Held_core_same L c k : core_states k = core_states (kc c) -> Held L c -> Held L (set_core c k).
Proof. intros E H. apply Held_core; [|exact H]. rewrite E. exact (proj1 H). Qed.

Lemma aset_In {V} k (v : V) m x : In x (aset N.eqb k v m) -> x = (k, v) \/ In x m.
Proof.
  induction m as [|[k' v'] r IH]; cbn [aset In].
  - intros [H|[]]. left. symmetry. exact H.
  - destruct (k =? k'); cbn [In].
    + intros [H|H]; [left; symmetry; exact H|right; right; exact H].
    + intros [H|H]; [right; left; exact H|]. destruct (IH H) as [E|E]; [left; exact E|right; right; exact E].
Qed.

Lemma es_states k : incl (core_states (ensure_secret k)) (core_states k).
Proof.
  unfold ensure_secret. destruct (dget (k_epoch k) (k_secrets k)); [apply incl_refl|].
  unfold core_states, held_states. cbn [with_secrets k_cur k_secrets k_past].
  intros x [Hx|Hx]; [left; exact Hx|]. apply in_app_or in Hx. destruct Hx as [Hx|Hx].
  - apply in_map_iff in Hx. destruct Hx as (p & Hp & Hin). apply aset_In in Hin. destruct Hin as [->|Hin].
    + left. exact Hp.
    + right. apply in_or_app. left. apply in_map_iff. exists p. split; assumption.
  - right. apply in_or_app. right. exact Hx.
Qed.

Lemma upd_last_states k a b : core_states (upd_last k a b) = core_states k.
Proof.
  unfold core_states, held_states. destruct (upd_last_fields k a b) as (E1 & _ & _ & _ & _ & _ & E7 & E8 & _).
  rewrite E1, E7, E8. reflexivity.
Qed.

Lemma firstn_In {A} n : forall (l : list A) x, In x (firstn n l) -> In x l.
Proof.
  induction n as [|n IH]; intros l x; cbn [firstn]; [intros []|].
  destruct l as [|y r]; [intros []|]. intros [H|H]; [left; exact H|right; exact (IH r x H)].
Qed.

Lemma advance_states k cm save ev :
  incl (core_states (advance k cm save ev)) (k_cur (advance k cm save ev) :: core_states k).
Proof.
  destruct cm as [[id data] rm]. unfold advance.
  set (k1 := mkCore (id + 1) (k_epoch k + 1) (if ev then k_rec_epoch k else k_epoch k + 1) (if ev then false else k_active k) None
                    (if ev then k_props k else []) (k_secrets k) (push_past k)
                    (if ev then k_data k else if data =? 0 then k_data k else data) (k_last k) (k_seen k)).
  assert (incl (core_states k1) (k_cur k1 :: core_states k)) as H1.
  { unfold core_states, held_states. cbn [k1 k_cur k_secrets k_past].
    intros x [Hx|Hx]; [left; exact Hx|]. right. apply in_app_or in Hx. destruct Hx as [Hx|Hx].
    - right. apply in_or_app. left. exact Hx.
    - apply in_map_iff in Hx. destruct Hx as (p & Hp & Hin). unfold push_past in Hin. apply firstn_In in Hin.
      destruct Hin as [<-|Hin]; [left; exact Hp|].
      right. apply in_or_app. right. apply in_map_iff. exists p. split; assumption. }
  destruct (save && negb ev); [|exact H1].
  rewrite es_cur. exact (incl_tran (es_states k1) H1).
Qed.

Lemma Held_ens L c : Held L c -> Held L (ens c).
Proof. intros H. apply Held_core; [|exact H]. exact (incl_tran (es_states _) (proj1 H)). Qed.

Lemma Held_take_snapshot L c e : Held L c -> Held L (take_snapshot c e).
Proof.
  intros [H1 H2]. split; [exact H1|]. cbn [take_snapshot set_queue queue]. intros s Hs.
  assert (In s (queue c ++ [mkSnap (k_epoch (kc c)) (e_key e) (e_ts e) (kc c)])) as Hs'.
  { unfold prune in Hs. destruct (lenN _ <=? retention c); [exact Hs|exact (drop_front_In _ _ _ Hs)]. }
  apply in_app_or in Hs'. destruct Hs' as [Hq|[<-|[]]]; [exact (H2 s Hq)|exact H1].
Qed.

Lemma take_until_In ep q x : In x (take_until ep q) -> In x q.
Proof.
  induction q as [|s r IH]; cbn [take_until]; [intros []|].
  destruct (sn_epoch s =? ep); [intros []|]. intros [H|H]; [left; exact H|right; exact (IH H)].
Qed.

Lemma Held_rollback L c ep s : Held L c -> In s (queue c) -> Held L (rollback c ep s).
Proof.
  intros [H1 H2] Hs. split.
  - change (kc (rollback c ep s)) with (sn_core s). exact (H2 s Hs).
  - change (queue (rollback c ep s)) with (take_until ep (queue c)). intros x Hx. apply H2. exact (take_until_In _ _ _ Hx).
Qed.

Lemma Held_advance L c c1 cm save ev :
  kc c1 = kc c -> Held L c1 ->
  Held (k_cur (advance (kc c) cm save ev) :: L) (set_core c1 (advance (kc c) cm save ev)).
Proof.
  intros E H. apply Held_core; [|apply Held_weaken; exact H].
  eapply incl_tran; [apply advance_states|]. apply incl_cons; [left; reflexivity|].
  apply incl_tl. rewrite <- E. exact (proj1 H).
Qed.

(* the goal of a step: everything is in L, or is the state just entered *)
Definition Grown (L : list N) (c' : client) : Prop := Held (k_cur (kc c') :: L) c'.

Lemma Held_Grown L c : Held L c -> Grown L c.
Proof. apply Held_weaken. Qed.

Lemma Grown_apply_commit L c e cm : Held L c -> Grown L (fst (apply_commit c e cm)).
Proof.
  intros H. pose proof (Held_take_snapshot L c e H) as H1.
  pose proof (Held_advance L c (take_snapshot c e) cm true (evicted_by c (snd cm)) eq_refl H1) as H2.
  unfold apply_commit. destruct (evicted_by c (snd cm)); exact H2.
Qed.

Lemma Held_late L c e r : Held L c -> Held L (fst (late c e r)).
Proof.
  intros H. unfold late. destruct (dget (e_id e) (dedup c)) as [d|]; [|exact H].
  destruct (d_state d =? PS_COMMIT); exact H.
Qed.

Lemma Grown_here L c e r : Held L c -> Grown L (fst (here c e r)).
Proof.
  intros H. unfold here.
  destruct (e_author e =? me c).
  - unfold own_here.
    destruct (if e_kind e =? 0 then k_pending (kc c) else None) as [cm|]; [apply Grown_apply_commit; exact H|].
    apply Held_Grown.
    destruct (dget (e_id e) (dedup c)) as [d|]; [|exact H].
    destruct ((d_state d =? PS_CREATED) || (d_state d =? PS_RETRY)).
    + destruct (d_msg d) as [m|]; [|exact H]. destruct (dget m (msgs c)); exact H.
    + destruct (d_state d =? PS_COMMIT); exact H.
  - destruct (e_kind e =? 1).
    + apply Held_Grown. unfold app_here. destruct (negb _ || existsb (N.eqb (e_msg e)) (k_seen (kc c)) || (e_bad e =? 7)); [exact H|].
      cbn [fst]. apply Held_core; [|exact H]. rewrite upd_last_states. exact (proj1 H).
    + destruct (e_kind e =? 2).
      * apply Held_Grown. unfold leave_here. destruct (existsb (N.eqb (100000 + e_id e)) (k_seen (kc c))); [exact H|].
        destruct (is_admin c && _); exact H.
      * unfold commit_here. destruct (negb (forallb _ (e_refs e))); [apply Held_Grown; exact H|].
        destruct (negb (e_auth e) || (e_bad e =? 8)); [apply Held_Grown; exact H|apply Grown_apply_commit; exact H].
Qed.

Lemma Grown_process L fuel : forall c e, Held L c -> Grown L (fst (process fuel c e)).
Proof.
  induction fuel as [|f IH]; intros c e H; rewrite process_unfold.
  all: destruct (blockedb c e); [apply Held_Grown; exact H|].
  all: destruct ((e_kind e =? 3) && (e_bad e <? 2)); [apply Held_Grown; exact H|].
  all: destruct ((e_kind e =? 3) && (e_bad e =? 2)); [apply Held_Grown; exact H|].
  all: destruct (negb (k_active (kc c))); [apply Held_Grown; exact H|].
  all: cbv zeta; pose proof (Held_ens L c H) as H1.
  all: destruct ((e_kind e =? 3) || negb (outer_opens (kc (ens c)) (e_state e))); [apply Held_Grown; exact H1|].
  all: destruct (wrong_epoch (kc (ens c)) e); [|apply Grown_here; exact H1].
  all: destruct (is_commit_kind e && is_better (ens c) (e_epoch e) (e_ts e) (e_key e)); [|apply Held_Grown; apply Held_late; exact H1].
  all: destruct (find_snap (e_epoch e) (queue (ens c))) as [s|] eqn:Es; [|apply Held_Grown; exact H1].
  - apply Held_Grown; exact H1.
  - apply IH. apply Held_rollback; [exact H1|]. apply find_snap_In in Es. apply Es.
Qed.

Lemma Held_restart L c : Held L c -> Held L (restart c).
Proof.
  intros [H1 H2]. split; [exact H1|]. rewrite restart_queue. intros s Hs.
  apply in_map_iff in Hs. destruct Hs as (s0 & <- & Hs0). exact (H2 s0 Hs0).
Qed.

Lemma Grown_estep L c o : Held L c -> Grown L (estep c o).
Proof.
  intros H. destruct o as [e|e| | |e|e k|e|]; cbn [estep].
  - apply Grown_process. exact H.
  - apply Held_Grown. unfold committed. apply (Held_ens L c) in H. exact H.
  - unfold merge_pending. destruct (k_pending (kc c)) as [cm|]; [|apply Held_Grown; exact H].
    cbn [fst]. apply Held_advance; [reflexivity|exact H].
  - apply Held_Grown. exact H.
  - apply Held_Grown. unfold sent. apply (Held_ens L c) in H.
    apply Held_core; [|exact H]. rewrite upd_last_states. exact (proj1 H).
  - apply Held_Grown. unfold sent_as. apply (Held_ens L c) in H.
    apply Held_core; [|exact H]. rewrite upd_last_states. exact (proj1 H).
  - apply Held_Grown. unfold leave_created. apply (Held_ens L c) in H. exact H.
  - apply Held_Grown. apply Held_restart. exact H.
Qed.

Lemma visited_head c ops : In (k_cur (kc c)) (visited c ops).
Proof. destruct ops; left; reflexivity. Qed.

Lemma Held_erun ops : forall c L, Held L c -> Held (L ++ visited c ops) (erun c ops).
Proof.
  induction ops as [|o ops IH]; intros c L H.
  - cbn [erun fold_left]. revert H. apply Held_mono. apply incl_appl. apply incl_refl.
  - unfold erun. cbn [fold_left visited]. fold (erun (estep c o) ops).
    pose proof (IH (estep c o) _ (Grown_estep L c o H)) as H'. revert H'. apply Held_mono.
    apply incl_app.
    + apply incl_cons.
      * apply in_or_app. right. right. apply visited_head.
      * apply incl_appl. apply incl_refl.
    + apply incl_appr. apply incl_tl. apply incl_refl.
Qed.

Lemma Held_reachable i a r ops : Held (visited (init_client i a r) ops) (erun (init_client i a r) ops).
Proof.
  assert (Held [k_cur (kc (init_client i a r))] (init_client i a r)) as H0.
  { split; [|intros s []]. intros x Hx. exact Hx. }
  pose proof (Held_erun ops _ _ H0) as H. revert H. apply Held_mono.
  apply incl_app; [|apply incl_refl]. apply incl_cons; [apply visited_head|apply incl_nil_l].
Qed.

Lemma secrets_only_of_visited_states : forall i a r ops st,
  let c := erun (init_client i a r) ops in
  (In st (held_states (kc c)) \/ exists s, In s (queue c) /\ In st (held_states (sn_core s))) ->
  In st (visited (init_client i a r) ops).
Proof.
  intros i a r ops st c H. destruct (Held_reachable i a r ops) as [H1 H2]. fold c in H1, H2.
  destruct H as [H|(s & Hs & H)].
  - apply H1. right. exact H.
  - apply (H2 s Hs). right. exact H.
Qed.

(* ---- reading needs the exporter secret of the sender's state *)
Lemma outer_opens_held k st : outer_opens k st = true -> In st (map snd (k_secrets k)).
Proof.
  unfold outer_opens. intros H. apply orb_true_iff in H. destruct H as [H|H].
  - destruct (dget (k_epoch k) (k_secrets k)) as [s|] eqn:E; [|discriminate H].
    apply dget_In in E. apply in_map_iff. exists (k_epoch k, s). split; [cbn [snd]; lia|exact E].
  - apply existsb_exists in H. destruct H as (p & Hp & Hc). apply in_map_iff. exists p. split; [lia|exact Hp].
Qed.

Lemma app_opens f c e : snd (process f c e) = RApp -> outer_opens (ensure_secret (kc c)) (e_state e) = true.
Proof.
  rewrite process_unfold.
  destruct (blockedb c e); [unfold blocked_rk; destruct (_ && _); discriminate|].
  destruct ((e_kind e =? 3) && (e_bad e <? 2)); [discriminate|].
  destruct ((e_kind e =? 3) && (e_bad e =? 2)); [discriminate|].
  destruct (negb (k_active (kc c))); [discriminate|].
  cbv zeta. change (kc (ens c)) with (ensure_secret (kc c)).
  destruct (outer_opens (ensure_secret (kc c)) (e_state e)); [reflexivity|].
  rewrite orb_true_r. discriminate.
Qed.

Lemma reads_known c e : reads c e -> In (e_state e) (core_states (kc c)).
Proof.
  intros [H _]. apply app_opens in H. apply outer_opens_held in H.
  apply es_states. right. apply in_or_app. left. exact H.
Qed.

Lemma plaintext_only_for_visited : forall i a r ops e,
  reads (erun (init_client i a r) ops) e -> In (e_state e) (visited (init_client i a r) ops).
Proof.
  intros i a r ops e H. apply reads_known in H. exact (proj1 (Held_reachable i a r ops) _ H).
Qed.

Lemma evicted_is_inert : forall c e, k_active (kc c) = false ->
  snd (deliver c e) <> RApp /\ proj (fst (deliver c e)) = proj c.
Proof.
  intros c e Ha. unfold deliver. rewrite process_unfold.
  destruct (blockedb c e); [split; [unfold blocked_rk; destruct (_ && _); discriminate|reflexivity]|].
  destruct ((e_kind e =? 3) && (e_bad e <? 2)); [split; [discriminate|reflexivity]|].
  destruct ((e_kind e =? 3) && (e_bad e =? 2)); [split; [discriminate|reflexivity]|].
  rewrite Ha. cbn [negb]. split; [discriminate|reflexivity].
Qed.

Lemma no_secrets_no_plaintext : forall c e,
  k_secrets (kc c) = [] -> k_past (kc c) = [] -> e_state e <> k_cur (kc c) -> ~ reads c e.
Proof.
  intros c e Hs Hp Hne H. apply reads_known in H. unfold core_states, held_states in H. rewrite Hs, Hp in H.
  destruct H as [H|[]]. apply Hne. symmetry. exact H.
Qed.
