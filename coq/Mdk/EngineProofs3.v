(* Third batch of proofs about the engine model, exported to Props/C04.v. *)
From MDK Require Import Base.Prelude Base.AMap Mdk.Engine Mdk.EngineSpec Mdk.Authz Mdk.EngineProofs Mdk.EngineProofs2 Store.Contract Store.ContractSpec Store.ContractProofs.
(* Store.Contract reuses some field names of the engine model (msgs, set_msgs, ...): make the engine's visible again *)
Import Mdk.Engine Mdk.EngineSpec Mdk.EngineProofs Mdk.EngineProofs2.

(* ================================================================ C04: stored messages are bound to their sender and content *)
(* ---- where a foreign event is handled without a rollback, only the record keyed by its own message id can change *)
Lemma msgs_late c e r : msgs (fst (late c e r)) = msgs c.
Proof.
  unfold late. destruct (dget (e_id e) (dedup c)) as [d|]; [|reflexivity].
  destruct (d_state d =? PS_COMMIT); reflexivity.
Qed.

Lemma msgs_here_foreign c e r m : e_author e <> me c -> m <> e_msg e ->
  dget m (msgs (fst (here c e r))) = dget m (msgs c).
Proof.
  intros Hne Hm. unfold here.
  destruct (N.eqb_spec (e_author e) (me c)) as [E|_]; [contradiction|].
  destruct (e_kind e =? 1).
  - unfold app_here. destruct (negb _ || existsb (N.eqb (e_msg e)) (k_seen (kc c)) || (e_bad e =? 7)); [reflexivity|].
    cbn [fst set_core put_dedup set_dedup set_msgs msgs]. apply dget_aset_other. exact Hm.
  - destruct (e_kind e =? 2).
    + unfold leave_here. destruct (existsb (N.eqb (100000 + e_id e)) (k_seen (kc c))); [reflexivity|].
      destruct (is_admin c && _); reflexivity.
    + unfold commit_here. destruct (negb (forallb _ (e_refs e))); [reflexivity|].
      destruct (negb (e_auth e) || (e_bad e =? 8)); [destruct (negb (e_auth e)); reflexivity|]. rewrite nodup_msgs_apply_commit. reflexivity.
Qed.

Lemma foreign_process_norb f c e m : e_author e <> me c ->
  rollbacks (fst (process f c e)) = rollbacks c -> m <> e_msg e ->
  dget m (msgs (fst (process f c e))) = dget m (msgs c).
Proof.
  intros Hne. rewrite process_unfold.
  destruct (blockedb c e); [reflexivity|].
  destruct ((e_kind e =? 3) && (e_bad e <? 2)); [reflexivity|].
  destruct ((e_kind e =? 3) && (e_bad e =? 2)); [reflexivity|].
  destruct (negb (k_active (kc c))); [reflexivity|].
  cbv zeta.
  destruct ((e_kind e =? 3) || negb (outer_opens (kc (ens c)) (e_state e))); [reflexivity|].
  destruct (wrong_epoch (kc (ens c)) e).
  - destruct (is_commit_kind e && is_better (ens c) (e_epoch e) (e_ts e) (e_key e)).
    + destruct (find_snap (e_epoch e) (queue (ens c))) as [s|]; [|reflexivity].
      destruct f as [|f']; [reflexivity|].
      intros Hrb. exfalso.
      pose proof (process_rb f' (rollback (ens c) (e_epoch e) s) e) as H.
      assert (rollbacks (rollback (ens c) (e_epoch e) s) = rollbacks c + 1) as E by reflexivity. lia.
    + intros _ _. rewrite msgs_late. reflexivity.
  - intros _ Hm. rewrite (msgs_here_foreign (ens c) e _ m Hne Hm). reflexivity.
Qed.

Lemma foreign_event_touches_only_its_message : forall c e m,
  e_author e <> me c -> rollbacks (fst (deliver c e)) = rollbacks c -> m <> e_msg e ->
  aget N.eqb m (msgs (fst (deliver c e))) = aget N.eqb m (msgs c).
Proof. intros c e m. apply foreign_process_norb. Qed.

(* ---- with a rollback: the other records keep their key, epoch, wrapper and creation stamp; only the validity flag may
   go to invalidated *)
Definition same_or_invalidated (mr mr' : mrec) : Prop :=
  m_epoch mr' = m_epoch mr /\ m_wrapper mr' = m_wrapper mr /\ m_created mr' = m_created mr /\
  (m_state mr' = m_state mr \/ m_state mr' = MS_INVALID).

Lemma soi_refl mr : same_or_invalidated mr mr.
Proof. unfold same_or_invalidated. auto. Qed.

Lemma soi_trans a b c : same_or_invalidated a b -> same_or_invalidated b c -> same_or_invalidated a c.
Proof.
  unfold same_or_invalidated. intros (A1 & A2 & A3 & A4) (B1 & B2 & B3 & B4).
  repeat split; try congruence. destruct B4 as [B4|B4]; [|right; exact B4]. destruct A4 as [A4|A4]; [left|right]; congruence.
Qed.

Definition inval_m (ep : N) (kv : N * mrec) : N * mrec :=
  if ep <? m_epoch (snd kv) then (fst kv, mkM MS_INVALID (m_epoch (snd kv)) (m_wrapper (snd kv)) (m_created (snd kv))) else kv.

Lemma msgs_rollback c ep s : msgs (rollback c ep s) = map (inval_m ep) (msgs c).
Proof. reflexivity. Qed.

Lemma inval_m_fst ep kv : fst (inval_m ep kv) = fst kv.
Proof. unfold inval_m. destruct (ep <? m_epoch (snd kv)); reflexivity. Qed.

Lemma inval_m_soi ep m mr : same_or_invalidated mr (snd (inval_m ep (m, mr))).
Proof.
  unfold inval_m. cbn [fst snd]. destruct (ep <? m_epoch mr); [|apply soi_refl].
  unfold same_or_invalidated. cbn [snd m_epoch m_wrapper m_created m_state]. auto.
Qed.

Lemma foreign_process_soi f : forall c e m mr, e_author e <> me c -> m <> e_msg e ->
  dget m (msgs c) = Some mr ->
  exists mr', dget m (msgs (fst (process f c e))) = Some mr' /\ same_or_invalidated mr mr'.
Proof.
  induction f as [|f IH]; intros c e m mr Hne Hm Hg; rewrite process_unfold.
  all: assert (Hsame : exists mr', dget m (msgs c) = Some mr' /\ same_or_invalidated mr mr')
         by (exists mr; split; [exact Hg|apply soi_refl]).
  all: destruct (blockedb c e); [exact Hsame|].
  all: destruct ((e_kind e =? 3) && (e_bad e <? 2)); [exact Hsame|].
  all: destruct ((e_kind e =? 3) && (e_bad e =? 2)); [exact Hsame|].
  all: destruct (negb (k_active (kc c))); [exact Hsame|].
  all: cbv zeta.
  all: destruct ((e_kind e =? 3) || negb (outer_opens (kc (ens c)) (e_state e))); [exact Hsame|].
  all: destruct (wrong_epoch (kc (ens c)) e);
       [|rewrite (msgs_here_foreign (ens c) e _ m Hne Hm); exact Hsame].
  all: destruct (is_commit_kind e && is_better (ens c) (e_epoch e) (e_ts e) (e_key e)); [|rewrite msgs_late; exact Hsame].
  all: destruct (find_snap (e_epoch e) (queue (ens c))) as [s|] eqn:Es; [|exact Hsame].
  - exact Hsame.
  - assert (dget m (msgs (rollback (ens c) (e_epoch e) s)) = Some (snd (inval_m (e_epoch e) (m, mr)))) as Hg'.
    { rewrite msgs_rollback. rewrite (dget_map (inval_m (e_epoch e))) by apply inval_m_fst.
      change (msgs (ens c)) with (msgs c). rewrite Hg. reflexivity. }
    destruct (IH (rollback (ens c) (e_epoch e) s) e m _ Hne Hm Hg') as (mr' & H1 & H2).
    exists mr'. split; [exact H1|]. exact (soi_trans _ _ _ (inval_m_soi _ _ _) H2).
Qed.

Lemma foreign_event_rollback_only_invalidates : forall c e m mr,
  e_author e <> me c -> m <> e_msg e -> aget N.eqb m (msgs c) = Some mr ->
  exists mr', aget N.eqb m (msgs (fst (deliver c e))) = Some mr' /\
  m_epoch mr' = m_epoch mr /\ m_wrapper mr' = m_wrapper mr /\ m_created mr' = m_created mr /\
  (m_state mr' = m_state mr \/ m_state mr' = MS_INVALID).
Proof. intros c e m mr Hne Hm Hg. exact (foreign_process_soi 2 c e m mr Hne Hm Hg). Qed.

(* ---- a processed foreign application message is filed under its own (recomputed) id, wrapper and creation stamp *)
Lemma app_here_own_id c e r : e_author e <> me c -> snd (here c e r) = RApp ->
  exists mr, dget (e_msg e) (msgs (fst (here c e r))) = Some mr /\ m_wrapper mr = e_id e /\ m_created mr = e_msg e.
Proof.
  intros Hne. unfold here.
  destruct (N.eqb_spec (e_author e) (me c)) as [E|_]; [contradiction|].
  destruct (e_kind e =? 1).
  - unfold app_here. destruct (negb _ || existsb (N.eqb (e_msg e)) (k_seen (kc c)) || (e_bad e =? 7)); [discriminate|]. intros _.
    cbn [fst set_core put_dedup set_dedup set_msgs msgs].
    eexists. split; [apply dget_aset_same|split; reflexivity].
  - destruct (e_kind e =? 2).
    + unfold leave_here. destruct (existsb _ _); [discriminate|]. destruct (is_admin c && _); discriminate.
    + unfold commit_here. destruct (negb (forallb _ (e_refs e))); [discriminate|].
      destruct (negb (e_auth e) || (e_bad e =? 8)); [destruct (negb (e_auth e)); discriminate|]. rewrite apply_commit_rk. discriminate.
Qed.

Lemma app_own_id_fuel f : forall c e, snd (process f c e) = RApp -> e_author e <> me c ->
  exists mr, dget (e_msg e) (msgs (fst (process f c e))) = Some mr /\ m_wrapper mr = e_id e /\ m_created mr = e_msg e.
Proof.
  induction f as [|f IH]; intros c e; rewrite process_unfold; intros Hrk Hne; revert Hrk.
  all: destruct (blockedb c e); [unfold blocked_rk; destruct (_ && _); discriminate|].
  all: destruct ((e_kind e =? 3) && (e_bad e <? 2)); [discriminate|].
  all: destruct ((e_kind e =? 3) && (e_bad e =? 2)); [discriminate|].
  all: destruct (negb (k_active (kc c))); [discriminate|].
  all: cbv zeta.
  all: destruct ((e_kind e =? 3) || negb (outer_opens (kc (ens c)) (e_state e))); [discriminate|].
  all: destruct (wrong_epoch (kc (ens c)) e); [|apply app_here_own_id; exact Hne].
  all: destruct (is_commit_kind e && is_better (ens c) (e_epoch e) (e_ts e) (e_key e));
       [|unfold late; destruct (dget (e_id e) (dedup (ens c))) as [d|]; [destruct (d_state d =? PS_COMMIT)|]; discriminate].
  all: destruct (find_snap (e_epoch e) (queue (ens c))) as [s|] eqn:Es; [|discriminate].
  - discriminate.
  - intros Hrk. apply IH; [exact Hrk|exact Hne].
Qed.

Lemma app_stored_under_own_id : forall c e,
  snd (deliver c e) = RApp -> e_author e <> me c ->
  exists mr, aget N.eqb (e_msg e) (msgs (fst (deliver c e))) = Some mr /\ m_wrapper mr = e_id e /\ m_created mr = e_msg e.
Proof. intros c e. apply app_own_id_fuel. Qed.

(* ---- a sender that pre-sets an id on its rumor only (re-)files its own copy, under that key *)
Lemma preset_id_only_hits_sender : forall c e key,
  msgs (sent_as c e key) = aset N.eqb key (mkM MS_CREATED (k_epoch (ensure_secret (kc c))) (e_id e) (e_msg e)) (msgs c).
Proof. intros c e key. reflexivity. Qed.
