(* Proofs about the invitation model (Mdk/Welcome.v). *)
From MDK Require Import Base.Prelude Base.AMap Mdk.Welcome.

Lemma gget_aset_same {V} k (v : V) m : aget N.eqb k (aset N.eqb k v m) = Some v.
Proof. induction m as [|[k' v'] r IH]; cbn [aset aget]; [rewrite N.eqb_refl; reflexivity|].
  destruct (N.eqb_spec k k') as [->|Hne]; cbn [aget]; [rewrite N.eqb_refl; reflexivity|].
  destruct (N.eqb_spec k k'); [contradiction|exact IH]. Qed.

Lemma gget_aset_other {V} k k2 (v : V) m : k2 <> k -> aget N.eqb k2 (aset N.eqb k v m) = aget N.eqb k2 m.
Proof. intros Hne. induction m as [|[k' v'] r IH]; cbn [aset aget].
  - destruct (N.eqb_spec k2 k); [contradiction|reflexivity].
  - destruct (N.eqb_spec k k') as [->|Hk]; cbn [aget].
    + destruct (N.eqb_spec k2 k'); [contradiction|reflexivity].
    + destruct (N.eqb_spec k2 k'); [reflexivity|exact IH]. Qed.

Definition active_rec (s : st) (g : N) : Prop := exists r, aget N.eqb g (groups s) = Some r /\ g_state r = GS_ACTIVE.

Lemma is_active_true s g : is_active s g = true <-> active_rec s g.
Proof. unfold is_active, active_rec. destruct (aget N.eqb g (groups s)) as [r|].
  - split; [intros H; exists r; split; [reflexivity|apply N.eqb_eq; exact H] | intros [r' [[= <-] H]]; apply N.eqb_eq; exact H].
  - split; [discriminate|intros [r [H _]]; discriminate]. Qed.

(* processing ANY invitation leaves the record and the MLS state of every active group untouched *)
Lemma process_cannot_disturb s w g : active_rec s g ->
  aget N.eqb g (groups (fst (process_welcome s w))) = aget N.eqb g (groups s) /\
  mls (fst (process_welcome s w)) = mls s.
Proof.
  intros Ha. unfold process_welcome.
  destruct (i_shape w); cbn [negb]; [|split; reflexivity].
  destruct (aget N.eqb (i_wrapper w) (pwelcomes s)) as [[[id|] [|]]|]; try (split; reflexivity).
  destruct (previewable s w); cbn [negb]; [|split; reflexivity].
  destruct (is_active s (i_gid w)) eqn:Eact.
  - destruct (i_id w); cbn [fst]; split; reflexivity.
  - cbn [negb andb]. destruct (i_collides w); [split; reflexivity|].
    assert (Hne : g <> i_gid w).
    { intros ->. apply is_active_true in Ha. congruence. }
    destruct (i_id w); cbn [fst set_welcomes set_pw set_groups groups mls];
      (split; [apply gget_aset_other; exact Hne|reflexivity]).
Qed.

(* declining ANY stored invitation leaves every active group untouched *)
Lemma decline_cannot_disturb s id g : active_rec s g ->
  aget N.eqb g (groups (fst (decline_welcome s id))) = aget N.eqb g (groups s) /\
  mls (fst (decline_welcome s id)) = mls s.
Proof.
  intros [r [Hr Hact]]. unfold decline_welcome.
  destruct (aget N.eqb id (welcomes s)) as [wr|]; [|split; reflexivity].
  destruct (previewable s (w_inv wr)); cbn [negb]; [|split; reflexivity].
  cbn [set_welcomes groups].
  destruct (aget N.eqb (w_gid wr) (groups s)) as [r'|] eqn:Eg; [|split; reflexivity].
  destruct (g_state r' =? GS_PENDING) eqn:Ep; [|split; reflexivity].
  cbn [fst set_groups groups mls]. split; [|reflexivity].
  apply gget_aset_other. intros ->. rewrite Hr in Eg. injection Eg as <-.
  apply N.eqb_eq in Ep. rewrite Hact in Ep. discriminate.
Qed.

(* neither processing nor declining makes a group active *)
Lemma process_no_new_active s w g : active_rec (fst (process_welcome s w)) g -> active_rec s g.
Proof.
  unfold process_welcome.
  destruct (i_shape w); cbn [negb]; [|auto].
  destruct (aget N.eqb (i_wrapper w) (pwelcomes s)) as [[[id|] [|]]|]; auto.
  destruct (previewable s w); cbn [negb]; [|auto].
  destruct (is_active s (i_gid w)) eqn:Eact.
  - destruct (i_id w); cbn [fst]; auto.
  - cbn [negb andb]. destruct (i_collides w); [auto|]. intros [r [Hr Hact]].
    assert (Hr' : aget N.eqb g (aset N.eqb (i_gid w) (mkG GS_PENDING (i_epoch w) (i_data w) None true) (groups s)) = Some r).
    { destruct (i_id w); exact Hr. }
    destruct (N.eqb_spec g (i_gid w)) as [->|Hne].
    + rewrite gget_aset_same in Hr'. injection Hr' as <-. cbn in Hact. discriminate.
    + rewrite gget_aset_other in Hr' by exact Hne. exists r. auto.
Qed.

Lemma decline_no_new_active s id g : active_rec (fst (decline_welcome s id)) g -> active_rec s g.
Proof.
  unfold decline_welcome.
  destruct (aget N.eqb id (welcomes s)) as [wr|]; [|auto].
  destruct (previewable s (w_inv wr)); cbn [negb]; [|auto].
  cbn [set_welcomes groups].
  destruct (aget N.eqb (w_gid wr) (groups s)) as [r'|] eqn:Eg; [|auto].
  destruct (g_state r' =? GS_PENDING) eqn:Ep; [|auto].
  unfold active_rec. cbn [fst set_groups set_welcomes groups]. intros [r [Hr Hact]].
  destruct (N.eqb_spec g (w_gid wr)) as [->|Hne].
  - rewrite gget_aset_same in Hr. injection Hr as <-. cbn in Hact. discriminate.
  - rewrite gget_aset_other in Hr by exact Hne. exists r. auto.
Qed.

(* processing the same invitation (same wrapper id) again returns the same welcome and changes nothing *)
Lemma same_wrapper_idempotent s w s1 id :
  process_welcome s w = (s1, WOk id) -> process_welcome s1 w = (s1, WOk id).
Proof.
  unfold process_welcome at 1.
  destruct (i_shape w) eqn:Esh; cbn [negb]; [|discriminate].
  destruct (aget N.eqb (i_wrapper w) (pwelcomes s)) as [[[id0|] [|]]|] eqn:Epw; try discriminate.
  - (* already processed under this wrapper *)
    destruct (amem N.eqb id0 (welcomes s)) eqn:Em; [|discriminate].
    intros [= <- <-]. unfold process_welcome. rewrite Esh. cbn [negb]. rewrite Epw, Em. reflexivity.
  - destruct (previewable s w) eqn:Epv; cbn [negb]; [|discriminate].
    destruct (negb (is_active s (i_gid w)) && i_collides w); [discriminate|].
    destruct (i_id w) as [id1|] eqn:Eid; [|discriminate].
    intros [= <- <-]. unfold process_welcome. rewrite Esh. cbn [negb].
    cbn [set_welcomes set_pw pwelcomes welcomes].
    rewrite gget_aset_same. unfold amem. rewrite gget_aset_same. reflexivity.
Qed.

(* accepting a stored, still previewable invitation joins the inviter's state, activates the group and leaves the
   key-rotation obligation pending *)
Lemma accept_joins s id wr r :
  aget N.eqb id (welcomes s) = Some wr -> previewable s (w_inv wr) = true ->
  aget N.eqb (w_gid wr) (groups s) = Some r ->
  let s' := fst (accept_welcome s id) in
  snd (accept_welcome s id) = WDone /\
  aget N.eqb (w_gid wr) (mls s') = Some (i_state (w_inv wr)) /\
  exists r', aget N.eqb (w_gid wr) (groups s') = Some r' /\ g_state r' = GS_ACTIVE /\ g_su_required r' = true.
Proof.
  intros Hw Hp Hg. unfold accept_welcome. rewrite Hw, Hp. cbn [negb].
  assert (Hg' : aget N.eqb (w_gid wr) (groups (set_welcomes (consume_kp (set_mls s (aset N.eqb (w_gid wr) (i_state (w_inv wr)) (mls s))) (i_kp (w_inv wr)))
            (aset N.eqb id (mkW (w_gid wr) WS_ACCEPTED (w_wrapper wr) (w_inv wr)) (welcomes (consume_kp (set_mls s (aset N.eqb (w_gid wr) (i_state (w_inv wr)) (mls s))) (i_kp (w_inv wr))))))) = Some r).
  { unfold consume_kp. destruct (aget N.eqb (i_kp (w_inv wr)) _) as [[|]|]; exact Hg. }
  rewrite Hg'. cbn [fst snd]. split; [reflexivity|]. split.
  - unfold consume_kp. destruct (aget N.eqb (i_kp (w_inv wr)) _) as [[|]|]; cbn; apply gget_aset_same.
  - eexists. split; [cbn [set_groups groups]; apply gget_aset_same|]. cbn. auto.
Qed.

(* a refused or failed invitation creates no welcome record *)
Lemma failed_creates_no_welcome s w :
  snd (process_welcome s w) = WErr -> i_id w <> None -> welcomes (fst (process_welcome s w)) = welcomes s.
Proof.
  unfold process_welcome.
  destruct (i_shape w); cbn [negb]; [|reflexivity].
  destruct (aget N.eqb (i_wrapper w) (pwelcomes s)) as [[[id|] [|]]|]; try reflexivity.
  destruct (previewable s w); cbn [negb]; [|reflexivity].
  destruct (negb (is_active s (i_gid w)) && i_collides w); [reflexivity|].
  destruct (i_id w); [cbn [snd]; discriminate|intros _ H; contradiction].
Qed.

(* non-vacuity: a recipient active in group 1 with a last message; the same invitation replayed under a new wrapper id *)
Definition ex_inv (wrapper : N) : invitation := mkInv wrapper (Some 10) true true 1 1 7 1 0 false.
Definition ex_state : st :=
  let s0 := empty_st [(1, true)] in
  let s1 := fst (process_welcome s0 (ex_inv 1)) in
  let s2 := fst (accept_welcome s1 10) in
  note_message s2 1 42.
Definition welcome_example_statement : Prop :=
  active_rec ex_state 1 /\
  aget N.eqb 1 (groups (fst (process_welcome ex_state (ex_inv 2)))) = aget N.eqb 1 (groups ex_state) /\
  snd (process_welcome ex_state (ex_inv 2)) = WOk 10 /\
  aget N.eqb 1 (groups (fst (decline_welcome (fst (process_welcome ex_state (ex_inv 2))) 10))) = aget N.eqb 1 (groups ex_state).
Lemma welcome_example : welcome_example_statement.
Proof. unfold welcome_example_statement. split; [eexists; split; [vm_compute; reflexivity|reflexivity]|]. repeat split; vm_compute; reflexivity. Qed.

(* ---- C08 on the invitation path: a new, decodable invitation to a group the user is NOT active in (never joined, declined,
   or removed from) rewrites the stored record from the invitation - epoch and group data are those of the state the
   joiner will be in - and accepting keeps them: the record of the joined group mirrors the MLS state joined *)
Lemma invitation_refreshes_record s w id :
  i_shape w = true -> aget N.eqb (i_wrapper w) (pwelcomes s) = None -> previewable s w = true ->
  is_active s (i_gid w) = false -> i_collides w = false -> i_id w = Some id ->
  let s1 := fst (process_welcome s w) in
  exists r, aget N.eqb (i_gid w) (groups s1) = Some r /\ g_state r = GS_PENDING /\ g_epoch r = i_epoch w /\ g_data r = i_data w.
Proof.
  intros Hs Hp Hv Ha Hc Hid. unfold process_welcome. rewrite Hs, Hp, Hv, Ha, Hc, Hid. cbn [negb andb fst].
  exists (mkG GS_PENDING (i_epoch w) (i_data w) None true).
  cbn [groups set_welcomes set_pw set_groups]. rewrite gget_aset_same. repeat split; reflexivity.
Qed.

Lemma accept_record_mirrors_joined_state s id wr r :
  aget N.eqb id (welcomes s) = Some wr -> previewable s (w_inv wr) = true ->
  aget N.eqb (w_gid wr) (groups s) = Some r ->
  exists r', aget N.eqb (w_gid wr) (groups (fst (accept_welcome s id))) = Some r' /\
             g_state r' = GS_ACTIVE /\ g_epoch r' = i_epoch (w_inv wr) /\ g_data r' = i_data (w_inv wr) /\
             aget N.eqb (w_gid wr) (mls (fst (accept_welcome s id))) = Some (i_state (w_inv wr)).
Proof.
  intros Hw Hp Hg. unfold accept_welcome. rewrite Hw, Hp. cbn [negb].
  assert (Hg' : aget N.eqb (w_gid wr) (groups (set_welcomes (consume_kp (set_mls s (aset N.eqb (w_gid wr) (i_state (w_inv wr)) (mls s))) (i_kp (w_inv wr)))
            (aset N.eqb id (mkW (w_gid wr) WS_ACCEPTED (w_wrapper wr) (w_inv wr)) (welcomes (consume_kp (set_mls s (aset N.eqb (w_gid wr) (i_state (w_inv wr)) (mls s))) (i_kp (w_inv wr))))))) = Some r).
  { unfold consume_kp. destruct (aget N.eqb (i_kp (w_inv wr)) _) as [[|]|]; exact Hg. }
  rewrite Hg'. cbn [fst].
  exists (mkG GS_ACTIVE (i_epoch (w_inv wr)) (i_data (w_inv wr)) (g_last r) true).
  cbn [groups set_groups mls set_welcomes]. rewrite gget_aset_same. repeat split; try reflexivity.
  unfold consume_kp. destruct (aget N.eqb (i_kp (w_inv wr)) _) as [[|]|]; cbn; apply gget_aset_same.
Qed.

Lemma evict_deactivates s g : is_active (evict s g) g = false.
Proof.
  unfold evict, is_active. destruct (aget N.eqb g (groups s)) as [r|] eqn:E.
  - destruct (g_state r =? GS_ACTIVE) eqn:Ea.
    + cbn [groups set_groups]. rewrite gget_aset_same. reflexivity.
    + rewrite E. exact Ea.
  - rewrite E. reflexivity.
Qed.

(* an invitation whose Nostr group id is already held by another stored group is refused without recording anything:
   the routing of the group that holds the id cannot be taken over by an invitation *)
Lemma colliding_invitation_no_effect s w :
  i_shape w = true -> aget N.eqb (i_wrapper w) (pwelcomes s) = None -> previewable s w = true ->
  is_active s (i_gid w) = false -> i_collides w = true ->
  process_welcome s w = (s, WErr).
Proof.
  intros Hs Hp Hv Ha Hc. unfold process_welcome. rewrite Hs, Hp, Hv, Ha, Hc. reflexivity.
Qed.
