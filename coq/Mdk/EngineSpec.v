(* Auxiliary definitions used to STATE the engine theorems (Props/C01 C02 C06 C07 C08).  No proofs here. *)
From MDK Require Import Base.Prelude Base.AMap Mdk.Engine.

(* MIP-03 order on (wrapper timestamp, event-id order key) *)
Definition mip03_lt (a b : N * N) : Prop := fst a < fst b \/ (fst a = fst b /\ snd a < snd b).
Definition ev_key (e : event) : N * N := (e_ts e, e_key e).

(* the MIP-03 minimum of a non-empty list of events *)
Fixpoint mip03_min (d : event) (l : list event) : event :=
  match l with
  | [] => d
  | e :: r => let m := mip03_min d r in
              match r with [] => e | _ => if newer (ev_key m) (ev_key e) then e else m end
  end.
(* note: `newer a b` (Engine) is "b precedes a" on pairs; reused here as the decidable comparison *)

Definition deliver_all (c : client) (ds : list event) : client := fold_left (fun c e => fst (deliver c e)) ds c.

(* the observable projection of a client (what the public API shows; the dedup table, stored exporter secrets, retained
   past-epoch secrets and consumed ratchet keys are not observable) *)
Definition proj (c : client) :=
  (k_cur (kc c), k_epoch (kc c), k_rec_epoch (kc c), k_active (kc c), k_pending (kc c), k_props (kc c),
   k_data (kc c), k_last (kc c), msgs c, length (queue c)).

(* the stored record mirrors the MLS state (for active groups), in the live state and in every retained snapshot *)
Definition core_ok (k : core) : Prop := k_active k = true -> k_rec_epoch k = k_epoch k.
Definition Inv (c : client) : Prop := core_ok (kc c) /\ Forall (fun s => core_ok (sn_core s)) (queue c).

Definition refused (r : rk) : bool :=
  match r with RErr | RUnproc | RPrevFailed | RIgnored => true | _ => false end.

(* a client about to see a single fork: active, nothing pending, at least one snapshot retained, no snapshot yet for the
   current epoch, current exporter secret consistent *)
Definition fork_ready (c : client) : Prop :=
  k_active (kc c) = true /\ k_pending (kc c) = None /\ 1 <= retention c /\
  k_rec_epoch (kc c) = k_epoch (kc c) /\
  (forall s, In s (queue c) -> sn_epoch s < k_epoch (kc c)) /\
  (forall x, aget N.eqb (k_epoch (kc c)) (k_secrets (kc c)) = Some x -> x = k_cur (kc c)).

(* competing commits on the client's current state, authored by other members, authorised, never seen before *)
Definition competitor (c : client) (e : event) : Prop :=
  e_kind e = 0 /\ e_state e = k_cur (kc c) /\ e_epoch e = k_epoch (kc c) /\ e_author e <> me c /\
  (e_auth e = true /\ e_bad e <> 8) /\ e_removes e = [] /\ e_refs e = [] /\ e_ts e <> 0 /\
  aget N.eqb (e_id e) (dedup c) = None.

Definition fork_set (c : client) (K : list event) : Prop :=
  K <> [] /\ Forall (competitor c) K /\ NoDup (map e_id K) /\ NoDup (map ev_key K) /\
  (forall e e', In e K -> In e' K -> e_id e = e_id e' -> e = e').

(* ---- appended for C07: well-formed snapshot queue (labels strictly increasing, below the current epoch, and equal to the
   epoch of the stored core).  Holds in every reachable state; implies the side condition of C07_redelivery_idempotent. *)
Fixpoint snaps_sorted (q : list snap) : Prop :=
  match q with [] => True | s :: r => Forall (fun t => sn_epoch s < sn_epoch t) r /\ snaps_sorted r end.
Definition queue_wf (c : client) : Prop :=
  Forall (fun s => k_epoch (sn_core s) = sn_epoch s /\ sn_epoch s < k_epoch (kc c)) (queue c) /\ snaps_sorted (queue c).

(* ---------------------------------------------------------------- second batch: C03 C05 C11 C20 *)
(* local API calls and deliveries, as one operation type *)
Inductive eop :=
| ODeliver (e : event) | OCommitted (e : event) | OMerge | OClear | OSent (e : event) | OSentAs (e : event) (key : N)
| OLeave (e : event) | ORestart.

Definition estep (c : client) (o : eop) : client :=
  match o with
  | ODeliver e => fst (deliver c e)
  | OCommitted e => committed c e
  | OMerge => fst (merge_pending c)
  | OClear => clear_pending c
  | OSent e => sent c e
  | OSentAs e k => sent_as c e k
  | OLeave e => leave_created c e
  | ORestart => restart c
  end.

Definition erun (c : client) (ops : list eop) : client := fold_left estep ops c.

(* the MLS states a client has been in along a run (ghost history) *)
Fixpoint visited (c : client) (ops : list eop) : list N :=
  match ops with
  | [] => [k_cur (kc c)]
  | o :: r => k_cur (kc c) :: visited (estep c o) r
  end.

(* every state whose secrets a core holds (stored exporter secrets and retained past-epoch secrets) *)
Definition held_states (k : core) : list N := map snd (k_secrets k) ++ map snd (k_past k).

(* a foreign application message was read (its plaintext stored) *)
Definition reads (c : client) (e : event) : Prop := snd (deliver c e) = RApp /\ e_author e <> me c.

(* queue entries with their timestamps forgotten *)
Definition forget_ts (c : client) : client := restart c.

(* the group-visible part of the MLS state: what C05 protects *)
Definition gstate (c : client) := (k_cur (kc c), k_epoch (kc c), k_data (kc c)).

(* ---------------------------------------------------------------- appended for C01 (chains of forks, epoch-causal delivery) *)
(* a run of successive forks: round i offers the fork set K_i as the delivery list ds_i (any order, any repetitions) to the
   client left by round i-1 *)
Fixpoint run_rounds (c : client) (rounds : list (list event * list event)) : client :=
  match rounds with [] => c | (_, ds) :: r => run_rounds (deliver_all c ds) r end.
Inductive rounds_ok : client -> list (list event * list event) -> Prop :=
| ro_nil : forall c, rounds_ok c []
| ro_cons : forall c K ds r, fork_set c K -> (forall e, In e ds -> In e K) -> (forall e, In e K -> In e ds) ->
            rounds_ok (deliver_all c ds) r -> rounds_ok c ((K, ds) :: r).

(* no exporter secret is stored for an epoch the client has not reached (a rollback restores the stored secrets together with
   the MLS state, so this holds in every state reached from init_client / join_client by deliveries) *)
Definition no_future_secrets (k : core) : Prop :=
  forall ep x, aget N.eqb ep (k_secrets k) = Some x -> ep <= k_epoch k.
(* fork_ready alone is not preserved by resolving a fork (a stale secret filed under the NEXT epoch breaks its last clause -
   EngineProofs6.fork_ready_not_preserved); this is *)
Definition fork_ready_inv (c : client) : Prop := fork_ready c /\ no_future_secrets (kc c).
