(* The commit authorisation rule of crates/mdk-core/src/messages/validation.rs (validate_commit_authorization with the
   is_pure_self_update_commit whitelist), literally, over an abstract commit content. *)
From MDK Require Import Base.Prelude.

Inductive ptype := PAdd | PRemove | PUpdate | PGce | PPsk | PReinit | PExternalInit | POther.
Definition is_update (p : ptype) : bool := match p with PUpdate => true | _ => false end.

(* a queued proposal of the staged commit: its type and whether its sender is the committer itself *)
Definition qprop := (ptype * bool)%type.

Definition pure_self_update (has_update_path : bool) (props : list qprop) : bool :=
  (has_update_path || existsb (fun p => is_update (fst p)) props) &&
  forallb (fun p => is_update (fst p)) props &&
  forallb (fun p => snd p) (filter (fun p => is_update (fst p)) props).

Definition authorised (sender_is_admin has_update_path : bool) (props : list qprop) : bool :=
  sender_is_admin || pure_self_update has_update_path props.

(* does the content change the roster or the group data? *)
Definition changes_group (props : list qprop) : bool :=
  existsb (fun p => match fst p with PAdd | PRemove | PGce | PReinit | PExternalInit => true | _ => false end) props.
