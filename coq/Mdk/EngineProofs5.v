(* Joiners (clients that enter through a welcome, Engine.join_client) and forged-author application messages (e_bad = 7). *)
From MDK Require Import Base.Prelude Base.AMap Mdk.Engine Mdk.EngineSpec Mdk.EngineProofs Mdk.EngineProofs2 Mdk.EngineProofs3 Mdk.EngineProofs4.

(* ---- a joiner starts in a good state: record mirrors MLS, no snapshots, no secrets, no messages *)
Lemma inv_join : forall i a r cur ep d, Inv (join_client i a r cur ep d).
Proof. intros. split; [intros _; reflexivity|constructor]. Qed.

Lemma queue_wf_join : forall i a r cur ep d, queue_wf (join_client i a r cur ep d).
Proof. intros. split; [constructor|exact I]. Qed.

Lemma join_holds_nothing : forall i a r cur ep d,
  held_states (kc (join_client i a r cur ep d)) = [] /\ msgs (join_client i a r cur ep d) = [] /\ queue (join_client i a r cur ep d) = [].
Proof. intros. repeat split. Qed.

Lemma Held_join_reachable i a r cur ep d ops :
  Held (visited (join_client i a r cur ep d) ops) (erun (join_client i a r cur ep d) ops).
Proof.
  assert (Held [k_cur (kc (join_client i a r cur ep d))] (join_client i a r cur ep d)) as H0.
  { split; [|intros s []]. intros x Hx. exact Hx. }
  pose proof (Held_erun ops _ _ H0) as H. revert H. apply Held_mono.
  apply incl_app; [|apply incl_refl]. apply incl_cons; [apply visited_head|apply incl_nil_l].
Qed.

(* every state whose secrets a joiner ever holds is a state it has been in since joining: nothing older than the join *)
Lemma joiner_secrets_only_of_visited_states : forall i a r cur ep d ops st,
  let c := erun (join_client i a r cur ep d) ops in
  (In st (held_states (kc c)) \/ exists s, In s (queue c) /\ In st (held_states (sn_core s))) ->
  In st (visited (join_client i a r cur ep d) ops).
Proof.
  intros i a r cur ep d ops st c H. destruct (Held_join_reachable i a r cur ep d ops) as [H1 H2]. fold c in H1, H2.
  destruct H as [H|(s & Hs & H)].
  - apply H1. right. exact H.
  - apply (H2 s Hs). right. exact H.
Qed.

Lemma joiner_plaintext_only_for_visited : forall i a r cur ep d ops e,
  reads (erun (join_client i a r cur ep d) ops) e -> In (e_state e) (visited (join_client i a r cur ep d) ops).
Proof.
  intros i a r cur ep d ops e H. apply reads_known in H. exact (proj1 (Held_join_reachable i a r cur ep d ops) _ H).
Qed.

Lemma inv_join_erun : forall i a r cur ep d ops, Inv (erun (join_client i a r cur ep d) ops) /\ queue_wf (erun (join_client i a r cur ep d) ops).
Proof.
  intros. split.
  - apply inv_erun. apply inv_join.
  - apply queue_wf_erun. apply queue_wf_join.
Qed.

(* ---- an application message whose inner rumor names somebody other than its MLS-authenticated sender is never stored *)
Lemma forged_here c e r : e_kind e = 1 -> e_bad e = 7 -> e_author e <> me c ->
  snd (here c e r) <> RApp /\ msgs (fst (here c e r)) = msgs c.
Proof.
  intros Hk Hb Ha. unfold here.
  destruct (e_author e =? me c) eqn:E; [apply N.eqb_eq in E; contradiction|].
  rewrite Hk. cbn [N.eqb Pos.eqb]. unfold app_here. rewrite Hb. cbn [N.eqb Pos.eqb]. rewrite !orb_true_r.
  split; [discriminate|reflexivity].
Qed.

Lemma forged_process f : forall c e, e_kind e = 1 -> e_bad e = 7 -> e_author e <> me c ->
  snd (process f c e) <> RApp /\ map fst (msgs (fst (process f c e))) = map fst (msgs c).
Proof.
  induction f as [|f IH]; intros c e Hk Hb Ha; rewrite process_unfold.
  all: destruct (blockedb c e); [split; [unfold blocked_rk; destruct (_ && _); discriminate|reflexivity]|].
  all: destruct ((e_kind e =? 3) && (e_bad e <? 2)); [split; [discriminate|reflexivity]|].
  all: destruct ((e_kind e =? 3) && (e_bad e =? 2)); [split; [discriminate|reflexivity]|].
  all: destruct (negb (k_active (kc c))); [split; [discriminate|reflexivity]|].
  all: cbv zeta.
  all: destruct ((e_kind e =? 3) || negb (outer_opens (kc (ens c)) (e_state e))); [split; [discriminate|reflexivity]|].
  all: destruct (wrong_epoch (kc (ens c)) e);
    [|destruct (forged_here (ens c) e (k_rec_epoch (kc c)) Hk Hb Ha) as [H1 H2]; split; [exact H1|rewrite H2; reflexivity]].
  all: destruct (is_commit_kind e && is_better (ens c) (e_epoch e) (e_ts e) (e_key e)).
  all: try (split; [|rewrite msgs_late; reflexivity];
            unfold late; destruct (dget (e_id e) (dedup (ens c))) as [d|]; [destruct (d_state d =? PS_COMMIT)|]; discriminate).
  all: destruct (find_snap (e_epoch e) (queue (ens c))) as [s|]; [|split; [discriminate|reflexivity]].
  - split; [discriminate|reflexivity].
  - destruct (IH (rollback (ens c) (e_epoch e) s) e Hk Hb Ha) as [H1 H2]. split; [exact H1|].
    rewrite H2. rewrite msgs_rollback. rewrite map_map. apply map_ext. intros [k v]. unfold inval_m. cbn [fst snd].
    destruct (_ <? _); reflexivity.
Qed.

Lemma forged_never_stored : forall c e, e_kind e = 1 -> e_bad e = 7 -> e_author e <> me c ->
  snd (deliver c e) <> RApp /\ map fst (msgs (fst (deliver c e))) = map fst (msgs c).
Proof. intros c e. unfold deliver. apply forged_process. Qed.

(* ================================================================ C07 after the repair: only commits are MIP-03 candidates *)
Section OnlyCommitsRollBack.

  (* an event that is not a commit never takes the rollback arm *)
  Lemma only_commits_roll_back : forall c e, is_commit_kind e = false -> rollbacks (fst (deliver c e)) = rollbacks c.
  Proof.
    intros c e Ek. unfold deliver. rewrite process_unfold.
    destruct (blockedb c e); [reflexivity|].
    destruct ((e_kind e =? 3) && (e_bad e <? 2)); [reflexivity|].
    destruct ((e_kind e =? 3) && (e_bad e =? 2)); [reflexivity|].
    destruct (negb (k_active (kc c))); [reflexivity|].
    cbv zeta.
    destruct ((e_kind e =? 3) || negb (outer_opens (kc (ens c)) (e_state e))); [reflexivity|].
    destruct (wrong_epoch (kc (ens c)) e); [|rewrite rb_here; reflexivity].
    rewrite Ek. cbn [andb]. rewrite rb_late. reflexivity.
  Qed.

  Lemma proj_sync c : Inv c -> k_active (kc c) = true -> proj (sync c) = proj c.
  Proof. intros H Ha. rewrite sync_fix; [reflexivity|]. exact (proj1 H Ha). Qed.

  (* a proposal of another epoch is refused (or, if a ProcessedCommit record exists under its number, acknowledged) in the
     WrongEpoch arm: no rollback, no change of the observable projection, snapshot queue untouched *)
  Lemma late_proposal_no_effect : forall c e, Inv c -> e_kind e = 2 -> e_epoch e <> k_epoch (kc c) ->
    proj (fst (deliver c e)) = proj c /\ queue (fst (deliver c e)) = queue c.
  Proof.
    intros c e Hinv K2 Hep. unfold deliver. rewrite process_unfold.
    destruct (blockedb c e); [split; reflexivity|].
    destruct ((e_kind e =? 3) && (e_bad e <? 2)); [split; reflexivity|].
    destruct ((e_kind e =? 3) && (e_bad e =? 2)); [split; reflexivity|].
    destruct (k_active (kc c)) eqn:Hact; cbn [negb]; [|split; reflexivity].
    cbv zeta.
    destruct ((e_kind e =? 3) || negb (outer_opens (kc (ens c)) (e_state e))); [split; [exact (proj_ens c)|reflexivity]|].
    assert (wrong_epoch (kc (ens c)) e = true) as ->.
    { unfold wrong_epoch. rewrite K2. change (2 =? 1) with false. cbv iota. cbn [ens set_core kc]. rewrite es_epoch.
      destruct (N.eqb_spec (e_epoch e) (k_epoch (kc c))) as [E|_]; [contradiction|reflexivity]. }
    rewrite (is_commit_kind_2 e K2). cbn [andb].
    unfold late. destruct (dget (e_id e) (dedup (ens c))) as [d|]; [|split; [exact (proj_ens c)|reflexivity]].
    destruct (d_state d =? PS_COMMIT); [|split; [exact (proj_ens c)|reflexivity]].
    cbn [fst]. split; [|reflexivity].
    rewrite proj_sync; [exact (proj_ens c)|exact (Inv_ens c Hinv)|].
    cbn [ens set_core kc]. rewrite es_active. exact Hact.
  Qed.

  (* re-delivering a queued proposal at any later point of a run in which the client has moved to another epoch *)
  Lemma queued_proposal_later_epoch : forall c e ops, Inv c -> queue_wf c -> e_kind e = 2 ->
    let c' := erun (fst (deliver c e)) ops in
    e_epoch e <> k_epoch (kc c') -> proj (fst (deliver c' e)) = proj c'.
  Proof.
    intros c e ops Hinv _ K2 c' Hep.
    apply (late_proposal_no_effect c' e); [|exact K2|exact Hep].
    apply inv_erun. apply inv_deliver. exact Hinv.
  Qed.
End OnlyCommitsRollBack.

(* ---------------------------------------------------------------- C06 after the fix: a leave proposal that reaches an admin
   whose own commit is pending is queued (not auto-committed, not refused), and the result says so *)
Section LeaveToPendingAdmin.
  Lemma leave_to_pending_admin_queued : forall c e r,
    e_kind e = 2 -> e_author e <> me c -> is_admin c = true -> k_pending (kc c) <> None ->
    existsb (N.eqb (100000 + e_id e)) (k_seen (kc c)) = false ->
    snd (leave_here c e r) = RPending /\ k_pending (kc (fst (leave_here c e r))) = k_pending (kc c) /\
    k_props (kc (fst (leave_here c e r))) = k_props (kc c) ++ [e_id e].
  Proof.
    intros c e r _ _ Ha Hp Hseen. unfold leave_here. rewrite Hseen, Ha. cbv zeta.
    destruct (k_pending (kc c)) as [p|] eqn:Ep; [|contradiction].
    cbn [andb snd fst]. split; [reflexivity|]. split; [exact Ep|reflexivity].
  Qed.
End LeaveToPendingAdmin.

(* ---- a session restarted with another snapshot retention: the next snapshot taken brings the stored number within the new
   limit, whatever was stored before *)
Section RetentionChange.
Lemma take_snapshot_within_retention c e : lenN (queue (take_snapshot c e)) <= retention (take_snapshot c e).
Proof. unfold take_snapshot. cbn [queue retention set_queue]. apply prune_len. Qed.

Lemma restart_with_then_commit c r e cm :
  lenN (queue (fst (apply_commit (restart_with c r) e cm))) <= r.
Proof.
  unfold apply_commit.
  destruct (evicted_by (restart_with c r) (snd cm)); cbn [fst put_dedup set_dedup set_core queue];
    change r with (retention (take_snapshot (restart_with c r) e)) at 2; apply take_snapshot_within_retention.
Qed.

Lemma restart_with_keeps_state c r : kc (restart_with c r) = kc c /\ msgs (restart_with c r) = msgs c /\ dedup (restart_with c r) = dedup c /\ retention (restart_with c r) = r.
Proof. repeat split. Qed.
End RetentionChange.

(* ---------------------------------------------------------------- C05: the ONLY automatic commit is an admin committing a
   member's own request to leave.  A Remove proposal that names another member (built directly with the MLS library - the API
   does not create one) is queued by every receiver, admin or not, and creates no commit. *)
Section ThirdPartyRemove.
  Lemma third_party_remove_never_auto : forall c e r,
    self_remove e = false ->
    snd (leave_here c e r) <> RAuto /\ k_pending (kc (fst (leave_here c e r))) = k_pending (kc c).
  Proof.
    intros c e r Hs. unfold leave_here, fail_unprocessable.
    destruct (existsb (N.eqb (100000 + e_id e)) (k_seen (kc c))).
    - cbn [snd fst]. split; [discriminate|reflexivity].
    - cbv zeta. rewrite Hs, andb_false_r, andb_false_r. cbn [snd fst]. split; [discriminate|reflexivity].
  Qed.

  (* exactly when a proposal is auto-committed *)
  Lemma auto_commit_iff : forall c e r,
    existsb (N.eqb (100000 + e_id e)) (k_seen (kc c)) = false ->
    (snd (leave_here c e r) = RAuto <->
     is_admin c = true /\ k_pending (kc c) = None /\ self_remove e = true).
  Proof.
    intros c e r Hseen. unfold leave_here. rewrite Hseen. cbv zeta.
    destruct (is_admin c); destruct (k_pending (kc c)) as [p|]; destruct (self_remove e); cbn [andb snd];
      split; try discriminate; try (intros (A & B & C); discriminate); try (intros _; repeat split; reflexivity); try reflexivity.
  Qed.

  (* and the commit it creates removes the proposer only *)
  Lemma auto_commit_removes_proposer : forall c e r,
    snd (leave_here c e r) = RAuto ->
    exists id, k_pending (kc (fst (leave_here c e r))) = Some (id, 0, [e_author e]).
  Proof.
    intros c e r. unfold leave_here, fail_unprocessable.
    destruct (existsb (N.eqb (100000 + e_id e)) (k_seen (kc c))); [discriminate|].
    cbv zeta. destruct (is_admin c && _); [|discriminate].
    intros _. eexists. reflexivity.
  Qed.

  (* non-vacuity: member 2's Remove proposal naming member 3 is not a request to leave; its own leave is *)
  Example third_party_example :
    let e v := mkEvent 5 2 100 0 2 0 1 true 0 0 v [] 0 in
    (self_remove (e [3]), self_remove (e [2]), self_remove (e [])) = (false, true, true).
  Proof. vm_compute. reflexivity. Qed.
End ThirdPartyRemove.
