(* Executable model of invitation handling (crates/mdk-core/src/welcomes.rs: process_welcome, accept_welcome,
   decline_welcome, preview_welcome) for one recipient.  OpenMLS is an oracle: an invitation is decodable or not, targets
   one of the recipient's key packages or not, and leads to a named MLS state. *)
From MDK Require Import Base.Prelude Base.AMap.

Definition GS_ACTIVE : N := 0.  Definition GS_INACTIVE : N := 1.  Definition GS_PENDING : N := 2.
Definition WS_PENDING : N := 0. Definition WS_ACCEPTED : N := 1.  Definition WS_DECLINED : N := 2.

Record invitation := mkInv {
  i_wrapper : N;            (* wrapper (gift-wrap) event id *)
  i_id : option N;          (* rumor id (None: the rumor carries no id) *)
  i_shape : bool;           (* kind 444 with relays / e / encoding=base64 tags (validate_welcome_event) *)
  i_decodable : bool;       (* encoding tag present, base64 + TLS + group-data extension parse *)
  i_kp : N;                 (* key package it was created for *)
  i_gid : N;                (* MLS group id it invites to *)
  i_state : N;              (* MLS state the joiner ends in *)
  i_epoch : N; i_data : N;
  i_collides : bool }.      (* its Nostr group id is already held by ANOTHER stored group: save_group refuses the record *)

Record grec := mkG { g_state : N; g_epoch : N; g_data : N; g_last : option N; g_su_required : bool }.
Record wrec := mkW { w_gid : N; w_state : N; w_wrapper : N; w_inv : invitation }.

Record st := mkSt {
  groups : list (N * grec);
  mls : list (N * N);                     (* group -> joined MLS state *)
  welcomes : list (N * wrec);
  pwelcomes : list (N * (option N * bool));   (* wrapper -> (welcome id, processed ok?) *)
  kps : list (N * bool) }.                (* own key packages still held: (id, last-resort?) *)

Inductive wres := WOk (id : N) | WDone | WErr | WPrevFailed.

Notation gget := (aget N.eqb).
Definition set_groups s x := mkSt x (mls s) (welcomes s) (pwelcomes s) (kps s).
Definition set_mls s x := mkSt (groups s) x (welcomes s) (pwelcomes s) (kps s).
Definition set_welcomes s x := mkSt (groups s) (mls s) x (pwelcomes s) (kps s).
Definition set_pw s x := mkSt (groups s) (mls s) (welcomes s) x (kps s).
Definition set_kps s x := mkSt (groups s) (mls s) (welcomes s) (pwelcomes s) x.

Definition previewable (s : st) (w : invitation) : bool :=
  i_decodable w && amem N.eqb (i_kp w) (kps s).

Definition is_active (s : st) (g : N) : bool :=
  match gget g (groups s) with Some r => g_state r =? GS_ACTIVE | None => false end.

Definition process_welcome (s : st) (w : invitation) : st * wres :=
  if negb (i_shape w) then (s, WErr) else
  match gget (i_wrapper w) (pwelcomes s) with
  | Some (_, false) => (s, WPrevFailed)
  | Some (Some id, true) => (s, if amem N.eqb id (welcomes s) then WOk id else WErr)
  | Some (None, true) => (s, WErr)
  | None =>
    if negb (previewable s w) then (set_pw s (aset N.eqb (i_wrapper w) (i_id w, false) (pwelcomes s)), WErr) else
    (* the pending record cannot be stored (Nostr group id taken by another group): the call fails before anything is recorded *)
    if negb (is_active s (i_gid w)) && i_collides w then (s, WErr) else
    let s1 := if is_active s (i_gid w) then s
              else set_groups s (aset N.eqb (i_gid w) (mkG GS_PENDING (i_epoch w) (i_data w) None true) (groups s)) in
    match i_id w with
    | None => (s1, WErr)
    | Some id =>
      let s2 := set_pw s1 (aset N.eqb (i_wrapper w) (Some id, true) (pwelcomes s1)) in
      (set_welcomes s2 (aset N.eqb id (mkW (i_gid w) WS_PENDING (i_wrapper w) w) (welcomes s2)), WOk id)
    end
  end.

Definition consume_kp (s : st) (k : N) : st :=
  match gget k (kps s) with Some false => set_kps s (adel N.eqb k (kps s)) | _ => s end.

Definition accept_welcome (s : st) (id : N) : st * wres :=
  match gget id (welcomes s) with
  | None => (s, WErr)
  | Some wr =>
    let w := w_inv wr in
    if negb (previewable s w) then (set_pw s (aset N.eqb (w_wrapper wr) (i_id w, false) (pwelcomes s)), WErr) else
    let s1 := consume_kp (set_mls s (aset N.eqb (w_gid wr) (i_state w) (mls s))) (i_kp w) in
    let s2 := set_welcomes s1 (aset N.eqb id (mkW (w_gid wr) WS_ACCEPTED (w_wrapper wr) w) (welcomes s1)) in
    match gget (w_gid wr) (groups s2) with
    (* since the fix: epoch and group data of the record are taken from the MLS state actually joined (sync_group_metadata_from_mls),
       whichever invitation wrote the pending record *)
    | Some r => (set_groups s2 (aset N.eqb (w_gid wr) (mkG GS_ACTIVE (i_epoch w) (i_data w) (g_last r) true) (groups s2)), WDone)
    | None => (s2, WDone)
    end
  end.

Definition decline_welcome (s : st) (id : N) : st * wres :=
  match gget id (welcomes s) with
  | None => (s, WErr)
  | Some wr =>
    let w := w_inv wr in
    if negb (previewable s w) then (set_pw s (aset N.eqb (w_wrapper wr) (i_id w, false) (pwelcomes s)), WErr) else
    let s1 := set_welcomes s (aset N.eqb id (mkW (w_gid wr) WS_DECLINED (w_wrapper wr) w) (welcomes s)) in
    match gget (w_gid wr) (groups s1) with
    | Some r => if g_state r =? GS_PENDING
                then (set_groups s1 (aset N.eqb (w_gid wr) (mkG GS_INACTIVE (g_epoch r) (g_data r) (g_last r) (g_su_required r)) (groups s1)), WDone)
                else (s1, WDone)
    | None => (s1, WDone)
    end
  end.

(* an application message of an active group is processed: the record's last-message pointer moves *)
Definition note_message (s : st) (g n : N) : st :=
  match gget g (groups s) with
  | Some r => set_groups s (aset N.eqb g (mkG (g_state r) (g_epoch r) (g_data r) (Some n) (g_su_required r)) (groups s))
  | None => s
  end.

(* the member processes the commit that removes it: the record of an active group becomes inactive (the MLS group stays
   in storage, unusable) *)
Definition evict (s : st) (g : N) : st :=
  match gget g (groups s) with
  | Some r => if g_state r =? GS_ACTIVE
              then set_groups s (aset N.eqb g (mkG GS_INACTIVE (g_epoch r) (g_data r) (g_last r) (g_su_required r)) (groups s))
              else s
  | None => s
  end.
(* the member performs the post-join key rotation (self_update + merge): the obligation of an active group is discharged *)
Definition self_updated (s : st) (g : N) : st :=
  match gget g (groups s) with
  | Some r => if g_state r =? GS_ACTIVE
              then set_groups s (aset N.eqb g (mkG (g_state r) (g_epoch r) (g_data r) (g_last r) false) (groups s))
              else s
  | None => s
  end.
Definition empty_st (kps0 : list (N * bool)) : st := mkSt [] [] [] [] kps0.
