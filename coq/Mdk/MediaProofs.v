(* C17 - proofs about the epoch lookup of decrypt_from_download (Mdk/Media.v). *)
From Coq Require Import String.
From MDK Require Import Base.Prelude Codec.MediaCtx Codec.MediaCtxProofs Mdk.Media.

Lemma secret_at_map sec l e : In e l -> secret_at (map (fun x => (x, sec x)) l) e = Some (sec e).
Proof.
  induction l as [|x l IH]; cbn [In map secret_at]; [tauto|]. intros Hin.
  destruct (x =? e) eqn:E; [apply N.eqb_eq in E; subst; reflexivity|].
  destruct Hin as [->|Hin]; [rewrite N.eqb_refl in E; discriminate|auto].
Qed.
Lemma in_epochs_from e0 k i : (i <= k)%nat -> In (e0 + N.of_nat i) (epochs_from e0 k).
Proof. intros Hi. unfold epochs_from. apply in_map_iff. exists i. split; [reflexivity|]. apply in_seq. lia. Qed.

Section LookupThms.
  Variable H : bytes -> bytes.

  Lemma media_decrypt_wrong_secret s f n pt c s' :
    media_encrypt s f n pt = Some c -> s' <> s -> media_decrypt H s' f n c = inr EDecrypt.
  Proof.
    intros E Hs. apply media_encrypt_some in E. destruct E as [l [El ->]]. unfold media_decrypt. rewrite El.
    destruct (dec _ _ _ _) as [p|] eqn:D; [|reflexivity]. apply dec_spec in D. injection D as D _. congruence.
  Qed.

  (* right hint + that epoch's secret still stored: succeeds at ANY current epoch *)
  Theorem decrypt_later_epoch_with_right_hint : forall cl s e f n pt c,
    media_encrypt s f n pt = Some c -> f_hash f = H pt ->
    find_hint (cl_msgs cl) (f_hash f) = Some e -> secret_at (cl_secrets cl) e = Some s ->
    decrypt_from_download H cl f n c = inl pt.
  Proof.
    intros cl s e f n pt c E Hh Hhint Hs. unfold decrypt_from_download, try_hint. rewrite Hhint, Hs.
    rewrite (media_roundtrip_same_epoch H s f n pt c E Hh). reflexivity.
  Qed.

  (* exact characterisation: plaintext is returned iff the hinted epoch's secret or the current epoch's secret is the encryption secret *)
  Definition hinted_secret (cl : client) (h : bytes) : option N :=
    match find_hint (cl_msgs cl) h with Some e => secret_at (cl_secrets cl) e | None => None end.
  Theorem decrypt_ok_iff : forall cl s f n pt c,
    media_encrypt s f n pt = Some c -> f_hash f = H pt ->
    (decrypt_from_download H cl f n c = inl pt <->
     hinted_secret cl (f_hash f) = Some s \/ secret_at (cl_secrets cl) (cl_epoch cl) = Some s).
  Proof.
    intros cl s f n pt c E Hh. unfold decrypt_from_download, try_hint, hinted_secret.
    pose proof (media_roundtrip_same_epoch H s f n pt c E Hh) as R.
    assert (forall s', s' <> s -> media_decrypt H s' f n c = inr EDecrypt) as W by (intros; eapply media_decrypt_wrong_secret; eauto).
    assert (forall st e, secret_at st e = Some s \/ (match secret_at st e with None => inr EGroup | Some s' => media_decrypt H s' f n c end <> inl pt)) as Cur.
    { intros st e. destruct (secret_at st e) as [s'|]; [|right; discriminate].
      destruct (N.eq_dec s' s) as [->|Hn]; [left; reflexivity|right; rewrite (W s' Hn); discriminate]. }
    destruct (find_hint (cl_msgs cl) (f_hash f)) as [e|].
    - destruct (secret_at (cl_secrets cl) e) as [s'|] eqn:Es.
      + destruct (N.eq_dec s' s) as [->|Hn]; [rewrite R; tauto|]. rewrite (W s' Hn). cbn [falls_back].
        destruct (Cur (cl_secrets cl) (cl_epoch cl)) as [C|C]; [rewrite C, R; tauto|].
        split; [intros X; contradiction|]. intros [X|X]; [congruence|]. rewrite X, R in C. contradiction.
      + cbn [falls_back]. destruct (Cur (cl_secrets cl) (cl_epoch cl)) as [C|C]; [rewrite C, R; tauto|].
        split; [intros X; contradiction|]. intros [X|X]; [discriminate|]. rewrite X, R in C. contradiction.
    - cbn [falls_back]. destruct (Cur (cl_secrets cl) (cl_epoch cl)) as [C|C]; [rewrite C, R; tauto|].
      split; [intros X; contradiction|]. intros [X|X]; [discriminate|]. rewrite X, R in C. contradiction.
  Qed.
  (* a wrong hint and a current epoch that is not the encryption epoch: an error (never other bytes) *)
  Corollary decrypt_wrong_hint_fails : forall cl s f n pt c,
    media_encrypt s f n pt = Some c -> f_hash f = H pt ->
    hinted_secret cl (f_hash f) <> Some s -> secret_at (cl_secrets cl) (cl_epoch cl) <> Some s ->
    exists e, decrypt_from_download H cl f n c = inr e.
  Proof.
    intros cl s f n pt c E Hh H1 H2. destruct (decrypt_from_download H cl f n c) as [x|e] eqn:D; [|eauto]. exfalso.
    assert (x = pt) as ->.
    { unfold decrypt_from_download, try_hint in D.
      destruct (find_hint _ _) as [e|]; [destruct (secret_at (cl_secrets cl) e) as [s1|]|];
      repeat match type of D with
      | context [media_decrypt H ?a f n c] => destruct (media_decrypt H a f n c) as [y|err] eqn:?
      | context [secret_at ?a ?b] => destruct (secret_at a b) eqn:?
      | context [falls_back ?e] => destruct (falls_back e)
      | inl _ = inl _ => injection D as ->
      | _ => discriminate
      end; eauto using never_different_bytes. }
    apply (decrypt_ok_iff cl s f n pt c E Hh) in D. tauto.
  Qed.

  (* ---- the scenario: encryption at e0, announcement processed after j commits, decryption after k >= j commits ---- *)
  Variable sec : N -> N.
  Hypothesis sec_inj : forall a b, sec a = sec b -> a = b.

  Theorem decrypt_any_later_epoch : forall e0 j k f n pt c,
    ~ Known_late_announcement j -> (j <= k)%nat ->
    media_encrypt (sec e0) f n pt = Some c -> f_hash f = H pt ->
    decrypt_from_download H (member_client sec e0 j k (f_hash f)) f n c = inl pt.
  Proof.
    intros e0 j k f n pt c Hk Hjk E Hh. unfold Known_late_announcement in Hk. assert (j = 0)%nat as -> by lia.
    assert (e0 + N.of_nat 0 = e0) as Z by lia.
    apply decrypt_later_epoch_with_right_hint with (s := sec e0) (e := e0 + N.of_nat 0); auto.
    - cbn [member_client cl_msgs find_hint]. rewrite bytes_eqb_refl. reflexivity.
    - cbn [member_client cl_secrets]. rewrite secret_at_map by (apply in_epochs_from; lia). rewrite Z. reflexivity.
  Qed.
  (* the class is exact: every late announcement fails, whatever k *)
  Theorem late_announcement_fails : forall e0 j k f n pt c,
    Known_late_announcement j -> (j <= k)%nat ->
    media_encrypt (sec e0) f n pt = Some c -> f_hash f = H pt ->
    exists e, decrypt_from_download H (member_client sec e0 j k (f_hash f)) f n c = inr e.
  Proof.
    intros e0 j k f n pt c Hk Hjk E Hh. unfold Known_late_announcement in Hk.
    eapply decrypt_wrong_hint_fails; eauto.
    - unfold hinted_secret. cbn [member_client cl_msgs cl_secrets find_hint]. rewrite bytes_eqb_refl.
      rewrite secret_at_map by (apply in_epochs_from; lia). intros [= X]. apply sec_inj in X. lia.
    - cbn [member_client cl_epoch cl_secrets]. rewrite secret_at_map by (apply in_epochs_from; lia).
      intros [= X]. apply sec_inj in X. lia.
  Qed.
End LookupThms.

(* refutation of the unrestricted statement, by computation: announcement processed after one commit *)
Theorem decrypt_later_epoch_wrong_hint_refuted : exists j k, (j <= k)%nat /\ scenario_ok j k = false.
Proof. exists 1%nat, 1%nat. split; [lia|vm_compute; reflexivity]. Qed.
(* non-vacuity: the good cases of the same scenario do return the plaintext *)
Lemma scenario_examples : scenario_ok 0 0 = true /\ scenario_ok 0 6 = true /\ scenario_ok 1 6 = false /\ scenario_ok 6 6 = false.
Proof. vm_compute. repeat split; reflexivity. Qed.

(* a second way to get a wrong hint (confirmed on the real code by the harness case MSAME): the same file announced at two epochs.
   find_hint returns the first stored message mentioning the hash, so one of the two uploads is looked up at the other's epoch. *)
Theorem same_file_twice_refuted : same_file_twice = (true, false).
Proof. vm_compute. reflexivity. Qed.
