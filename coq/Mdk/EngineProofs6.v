(* C01, chains of forks: resolving a fork leaves the client ready for the next one (fork_ready_inv), epoch-causal chains of
   forks converge on the chain of MIP-03 minima, and stale re-deliveries of a resolved fork's commits are harmless. *)
From MDK Require Import Base.Prelude Base.AMap Mdk.Engine Mdk.EngineSpec Mdk.EngineProofs.

(* ================================================================ snapshot labels stay at or below the fork epoch *)
Definition QB (ep : N) (c : client) : Prop := Forall (fun s => sn_epoch s <= ep) (queue c).

Lemma QB_apply_commit ep c e cm : k_epoch (kc c) <= ep -> QB ep c -> QB ep (fst (apply_commit c e cm)).
Proof.
  intros Hep H.
  assert (QB ep (take_snapshot c e)) as H1.
  { unfold QB, take_snapshot. cbn [set_queue queue]. apply Forall_prune. apply Forall_app. split; [exact H|].
    constructor; [exact Hep|constructor]. }
  unfold apply_commit. destruct (evicted_by c (snd cm)); exact H1.
Qed.

Lemma QB_late ep c e r : QB ep c -> QB ep (fst (late c e r)).
Proof.
  intros H. unfold late. destruct (dget (e_id e) (dedup c)) as [d|]; [|exact H].
  destruct (d_state d =? PS_COMMIT); exact H.
Qed.

Lemma QB_here ep c e r : k_epoch (kc c) <= ep -> QB ep c -> QB ep (fst (here c e r)).
Proof.
  intros Hep H. unfold here.
  destruct (e_author e =? me c).
  - unfold own_here.
    destruct (if e_kind e =? 0 then k_pending (kc c) else None) as [cm|]; [apply QB_apply_commit; assumption|].
    destruct (dget (e_id e) (dedup c)) as [d|]; [|exact H].
    destruct ((d_state d =? PS_CREATED) || (d_state d =? PS_RETRY)).
    + destruct (d_msg d) as [m|]; [|exact H]. destruct (dget m (msgs c)); exact H.
    + destruct (d_state d =? PS_COMMIT); exact H.
  - destruct (e_kind e =? 1).
    + unfold app_here. destruct (negb _ || existsb (N.eqb (e_msg e)) (k_seen (kc c)) || (e_bad e =? 7)); exact H.
    + destruct (e_kind e =? 2).
      * unfold leave_here. destruct (existsb (N.eqb (100000 + e_id e)) (k_seen (kc c))); [exact H|].
        destruct (is_admin c && _); exact H.
      * unfold commit_here. destruct (negb (forallb _ (e_refs e))); [exact H|].
        destruct (negb (e_auth e) || (e_bad e =? 8)); [exact H|apply QB_apply_commit; assumption].
Qed.

Lemma QB_process ep fuel : forall c e, e_kind e <> 1 -> e_epoch e <= ep -> QB ep c -> QB ep (fst (process fuel c e)).
Proof.
  induction fuel as [|f IH]; intros c e K1 Hep H; rewrite process_unfold.
  all: destruct (blockedb c e); [exact H|].
  all: destruct ((e_kind e =? 3) && (e_bad e <? 2)); [exact H|].
  all: destruct ((e_kind e =? 3) && (e_bad e =? 2)); [exact H|].
  all: destruct (negb (k_active (kc c))); [exact H|].
  all: cbv zeta; assert (QB ep (ens c)) as H1 by exact H.
  all: destruct ((e_kind e =? 3) || negb (outer_opens (kc (ens c)) (e_state e))); [exact H1|].
  all: destruct (wrong_epoch (kc (ens c)) e) eqn:Hw;
    [|apply QB_here; [rewrite <- (wrong_epoch_false_eq _ _ K1 Hw); exact Hep|exact H1]].
  all: destruct (is_commit_kind e && is_better (ens c) (e_epoch e) (e_ts e) (e_key e)); [|apply QB_late; exact H1].
  all: destruct (find_snap (e_epoch e) (queue (ens c))) as [s|] eqn:Es; [|exact H1].
  - exact H1.
  - apply IH; [exact K1|exact Hep|]. unfold QB.
    change (queue (rollback (ens c) (e_epoch e) s)) with (take_until (e_epoch e) (queue c)).
    apply Forall_take_until. exact H.
Qed.

Lemma QB_deliver_all ep ds : forall c, (forall e, In e ds -> e_kind e <> 1 /\ e_epoch e <= ep) -> QB ep c -> QB ep (deliver_all c ds).
Proof.
  induction ds as [|e ds IH]; intros c Hds H; [exact H|].
  unfold deliver_all. cbn [fold_left]. apply IH; [intros x Hx; apply Hds; right; exact Hx|].
  destruct (Hds e (or_introl eq_refl)) as [K1 Hep]. apply QB_process; assumption.
Qed.

(* ================================================================ stored exporter secrets across a fork *)
Lemma es_secrets_sub k ep x :
  dget ep (k_secrets (ensure_secret k)) = Some x -> dget ep (k_secrets k) = Some x \/ (ep = k_epoch k /\ x = k_cur k).
Proof.
  unfold ensure_secret. destruct (dget (k_epoch k) (k_secrets k)) eqn:E; [intros H; left; exact H|].
  cbn [with_secrets k_secrets]. intros H. destruct (N.eq_dec ep (k_epoch k)) as [->|Hne].
  - rewrite dget_aset_same in H. right. split; [reflexivity|congruence].
  - rewrite dget_aset_other in H by exact Hne. left. exact H.
Qed.

Lemma advance_secret_cases k id data rm ep x :
  dget ep (k_secrets (advance k (id, data, rm) true false)) = Some x ->
  dget ep (k_secrets k) = Some x \/ (ep = k_epoch k + 1 /\ x = id + 1).
Proof. unfold advance. cbn [negb andb]. intros H. apply es_secrets_sub in H. exact H. Qed.

Lemma advance_pending_none k cm : k_pending (advance k cm true false) = None.
Proof. destruct cm as [[id data] rm]. unfold advance. cbn [negb andb]. rewrite es_pending. reflexivity. Qed.

(* ================================================================ the state after a fork, with the bookkeeping of every competitor *)
Lemma fork_final c K ds :
  fork_ready c -> fork_set c K -> (forall e, In e ds -> In e K) -> (forall e, In e K -> In e ds) ->
  k_active (ensure_secret (kc c)) = true /\
  dget (k_epoch (ensure_secret (kc c))) (k_secrets (ensure_secret (kc c))) = Some (k_cur (ensure_secret (kc c))) /\
  (forall x, In x K -> applies (ensure_secret (kc c)) (me c) x) /\
  exists m, In m K /\ Forked (ensure_secret (kc c)) (me c) (retention c) m (deliver_all c ds) /\
            Recs (ensure_secret (kc c)) K m (deliver_all c ds) /\ forall y, In y K -> ~ lt_ev y m.
Proof.
  intros Hfr (Hne & Hcomp & _ & Hnd & Hinj) Hsub Hsup.
  pose proof (fork_ready_secret c Hfr) as Hsec.
  destruct Hfr as (Hact & _ & Hret & _ & Hq & _).
  rewrite Forall_forall in Hcomp.
  set (k1 := ensure_secret (kc c)) in *.
  assert (Hk1a : k_active k1 = true) by (unfold k1; rewrite es_active; exact Hact).
  assert (Happ : forall x, In x K -> applies k1 (me c) x) by (intros x Hx; exact (competitor_applies c x (Hcomp x Hx))).
  split; [exact Hk1a|]. split; [exact Hsec|]. split; [exact Happ|].
  destruct ds as [|x0 ds]; [destruct K as [|y K']; [contradiction|destruct (Hsup y (or_introl eq_refl))]|].
  assert (Hx0 : In x0 K) by (apply Hsub; left; reflexivity).
  assert (Hq' : forall s, In s (queue c) -> sn_epoch s <> k_epoch k1).
  { intros s Hs. specialize (Hq s Hs). unfold k1. rewrite es_epoch. lia. }
  assert (Hfresh : forall x, In x K -> fresh k1 (dedup c) x) by (intros x Hx; left; apply (Hcomp x Hx)).
  assert (H0 : FInv k1 (me c) (retention c) K x0 [x0] (fst (deliver c x0))).
  { unfold deliver.
    rewrite (apply_at_base k1 (me c) Hk1a Hsec 2 c x0 eq_refl eq_refl (Happ x0 Hx0) (fresh_not_blocked k1 c x0 (Hfresh x0 Hx0))).
    destruct (apply_commit_forked k1 (me c) (retention c) Hret (ens c) x0) as [HF Hd];
      [reflexivity|reflexivity|reflexivity|exact Hq'|exact (Happ x0 Hx0)|].
    split; [exact Hx0|]. split; [exact HF|]. split.
    - intros y HyK Hyx. left. rewrite Hd. apply fresh_aset; [|exact (Hfresh y HyK)].
      intros E. apply Hyx. apply Hinj; assumption.
    - intros y [<-|[]]. apply mip03_lt_irrefl. }
  destruct (fork_run k1 (me c) (retention c) Hk1a Hsec Hret K Happ Hinj ds x0 [x0] _ H0 (fun y Hy => Hsub y (or_intror Hy)))
    as (m & HmK & HF & HR & HS).
  exists m. unfold deliver_all. cbn [fold_left]. fold (deliver_all (fst (deliver c x0)) ds).
  split; [exact HmK|]. split; [exact HF|]. split; [exact HR|].
  intros y Hy. apply HS. apply in_or_app.
  destruct (Hsup y Hy) as [<-|Hy']; [right; left; reflexivity|left; apply in_rev in Hy'; exact Hy'].
Qed.

(* ================================================================ 1. resolving a fork leaves the client ready for the next one *)
(* fork_ready alone is NOT preserved: a (never reachable) secret filed under the next epoch makes the client unready there *)
Definition cx_c : client := mkClient 1 false 5 (mkCore 0 1 1 true None [] [(2, 999)] [] 0 None []) [] [] [] 0.

Lemma fork_ready_not_preserved : exists c K ds,
  fork_ready c /\ fork_set c K /\ (forall e, In e ds -> In e K) /\ (forall e, In e K -> In e ds) /\
  ~ fork_ready (deliver_all c ds).
Proof.
  exists cx_c, [w_A], [w_A]. split; [|split; [|split; [|split]]].
  - unfold fork_ready. vm_compute. repeat split; try discriminate; try (intros s []).
  - unfold fork_set. split; [discriminate|]. split; [|split; [|split]].
    + repeat constructor; vm_compute; try reflexivity; discriminate.
    + vm_compute. repeat constructor; cbn [In]; intros H; exact H.
    + vm_compute. repeat constructor; cbn [In]; intros H; exact H.
    + intros e e' [<-|[]] [<-|[]] _. reflexivity.
  - auto.
  - auto.
  - intros (_ & _ & _ & _ & _ & H). specialize (H 999). vm_compute in H. discriminate (H eq_refl).
Qed.

Lemma no_future_init i a r : no_future_secrets (kc (init_client i a r)).
Proof. intros ep x H. discriminate H. Qed.

Lemma fork_ready_inv_init i a r : 1 <= r -> fork_ready_inv (init_client i a r).
Proof. intros H. split; [apply fork_ready_init; exact H|apply no_future_init]. Qed.

Lemma fork_ready_inv_join i a r cur ep data : 1 <= r -> fork_ready_inv (join_client i a r cur ep data).
Proof.
  intros H. split; [|intros e x Hx; discriminate Hx].
  unfold fork_ready. cbn [join_client join_core kc queue retention k_active k_pending k_rec_epoch k_epoch k_secrets k_cur].
  repeat split; try assumption; try reflexivity.
  - intros s [].
  - intros x Hx. discriminate Hx.
Qed.

Lemma fork_ready_inv_fork_ready c : fork_ready_inv c -> fork_ready c.
Proof. intros [H _]. exact H. Qed.

Lemma fork_ready_inv_preserved : forall c K ds,
  fork_ready_inv c -> fork_set c K -> (forall e, In e ds -> In e K) -> (forall e, In e K -> In e ds) ->
  fork_ready_inv (deliver_all c ds).
Proof.
  intros c K ds [Hfr Hnf] HK Hsub Hsup.
  destruct (fork_final c K ds Hfr HK Hsub Hsup) as (Hk1a & Hsec & Happ & m & HmK & HF & HR & Hmin).
  destruct (forked_fields _ _ _ Hk1a _ _ HF) as (A1 & A2 & A3 & A4). rewrite es_epoch in A2, A3.
  assert (HQ : QB (k_epoch (kc c)) (deliver_all c ds)).
  { apply QB_deliver_all.
    - intros e He. destruct (Happ e (Hsub e He)) as (K0 & _ & Hep & _). rewrite es_epoch in Hep. split; [rewrite K0; discriminate|lia].
    - unfold QB. apply Forall_forall. intros s Hs. destruct Hfr as (_ & _ & _ & _ & Hq & _). specialize (Hq s Hs). lia. }
  destruct HF as (Hme & Hret & Hkc & _ & _).
  assert (Hsc : forall ep x, dget ep (k_secrets (kc (deliver_all c ds))) = Some x ->
                 ep <= k_epoch (kc c) \/ (ep = k_epoch (kc c) + 1 /\ x = e_id m + 1)).
  { intros ep x H. rewrite Hkc in H. unfold commit_of in H. apply advance_secret_cases in H. rewrite es_epoch in H.
    destruct H as [H|H]; [left|right; exact H].
    apply es_secrets_sub in H. destruct H as [H|[H _]]; [exact (Hnf _ _ H)|lia]. }
  split.
  - unfold fork_ready. split; [exact A4|]. split; [rewrite Hkc; apply advance_pending_none|].
    split; [rewrite Hret; apply Hfr|]. split; [rewrite A2, A3; reflexivity|]. split.
    + intros s Hs. unfold QB in HQ. rewrite Forall_forall in HQ. specialize (HQ s Hs). lia.
    + intros x Hx. rewrite A2 in Hx. destruct (Hsc _ _ Hx) as [L|[_ ->]]; [lia|]. symmetry. exact A1.
  - intros ep x Hx. rewrite A2. destruct (Hsc _ _ Hx) as [L|[-> _]]; lia.
Qed.

(* ================================================================ 2. chains of forks *)
Lemma causal_chain_converges : forall rounds c d,
  fork_ready_inv c -> rounds_ok c rounds ->
  let c' := run_rounds c rounds in
  fork_ready_inv c' /\ k_epoch (kc c') = k_epoch (kc c) + lenN rounds /\
  (forall K ds, last rounds ([], []) = (K, ds) -> rounds <> [] -> k_cur (kc c') = e_id (mip03_min d K) + 1).
Proof.
  induction rounds as [|[K ds] r IH]; intros c d Hfr Hro; cbv zeta.
  - cbn [run_rounds]. split; [exact Hfr|]. split; [rewrite lenN_nil; lia|]. intros K ds _ H. contradiction.
  - inversion Hro as [|c0 K0 ds0 r0 HK Hsub Hsup Hr]; subst.
    cbn [run_rounds].
    pose proof (fork_ready_inv_preserved c K ds Hfr HK Hsub Hsup) as Hfr1.
    destruct (single_fork_converges c K ds d (proj1 Hfr) HK Hsub Hsup) as (B1 & B2 & _ & _).
    destruct (IH (deliver_all c ds) d Hfr1 Hr) as (I1 & I2 & I3).
    split; [exact I1|]. split; [rewrite I2, B2, lenN_cons; lia|].
    intros K1 ds1 Hl _. destruct r as [|p r'].
    + cbn [last] in Hl. injection Hl as <- <-. cbn [run_rounds]. exact B1.
    + apply (I3 K1 ds1); [exact Hl|discriminate].
Qed.

(* the chain started from a fresh client *)
Lemma causal_chain_from_init : forall i a r rounds d, 1 <= r -> rounds_ok (init_client i a r) rounds ->
  let c' := run_rounds (init_client i a r) rounds in
  fork_ready_inv c' /\ k_epoch (kc c') = 1 + lenN rounds /\
  (forall K ds, last rounds ([], []) = (K, ds) -> rounds <> [] -> k_cur (kc c') = e_id (mip03_min d K) + 1).
Proof. intros i a r rounds d Hr Hro. exact (causal_chain_converges rounds _ d (fork_ready_inv_init i a r Hr) Hro). Qed.

(* ================================================================ 3. stale re-deliveries of a resolved fork's commits *)
Lemma resolved_fork_redelivery_harmless : forall c K ds e,
  fork_ready c -> fork_set c K -> (forall e, In e ds -> In e K) -> (forall e, In e K -> In e ds) -> In e K ->
  proj (fst (deliver (deliver_all c ds) e)) = proj (deliver_all c ds).
Proof.
  intros c K ds e Hfr HK Hsub Hsup HeK.
  destruct (fork_final c K ds Hfr HK Hsub Hsup) as (Hk1a & Hsec & Happ & m & HmK & HF & HR & Hmin).
  destruct HK as (_ & _ & _ & _ & Hinj). destruct Hfr as (_ & _ & Hret & _).
  set (c' := deliver_all c ds) in *. set (k1 := ensure_secret (kc c)) in *.
  pose proof (Happ m HmK) as Hma. pose proof (Happ e HeK) as Hea.
  assert (Htm : e_ts m <> 0) by apply Hma.
  destruct (forked_fields _ _ _ Hk1a _ _ HF) as (Acur & Aep & Arec & Aact).
  assert (Hsync : sync c' = c') by (apply sync_fix; rewrite Aep, Arec; reflexivity).
  assert (Hrecm : dget (e_id m) (dedup c') = Some (mkD PS_COMMIT (Some (k_epoch k1 + 1)) true None)) by apply HF.
  assert (Hnlt : ((e_ts e <? e_ts m) || ((e_ts e =? e_ts m) && (e_key e <? e_key m))) = false).
  { destruct (_ || _) eqn:E; [|reflexivity]. apply lt_ev_dec in E. exfalso. exact (Hmin e HeK E). }
  destruct (N.eq_dec (e_id e) (e_id m)) as [Eid|Nid].
  { assert (e = m) as -> by (apply Hinj; assumption).
    unfold deliver. rewrite (forked_process k1 (me c) (retention c) Hk1a Hsec Hret _ c' m m HF Htm Hma).
    2:{ unfold blockedb. rewrite Hrecm. reflexivity. }
    rewrite Hnlt. unfold late. rewrite Hrecm. cbn [d_state]. change (PS_COMMIT =? PS_COMMIT) with true. cbv iota. cbn [fst].
    rewrite Hsync. reflexivity. }
  assert (Hem : e <> m) by (intros ->; apply Nid; reflexivity).
  destruct (HR e HeK Hem) as [Hfre|[Hbl _]].
  2:{ unfold deliver. rewrite process_unfold, (blocking_blocked c' e Hbl). reflexivity. }
  unfold deliver. rewrite (forked_process k1 (me c) (retention c) Hk1a Hsec Hret _ c' m e HF Htm Hea (fresh_not_blocked k1 c' e Hfre)).
  rewrite Hnlt. unfold late.
  destruct Hfre as [Hnone|(r & Hr & St & _)].
  - rewrite Hnone. reflexivity.
  - rewrite Hr, St. change (PS_COMMIT =? PS_COMMIT) with true. cbv iota. cbn [fst]. rewrite Hsync. reflexivity.
Qed.

(* ... and any number of them, in any order *)
Lemma resolved_fork_redeliveries_harmless : forall c K ds es,
  fork_ready c -> fork_set c K -> (forall e, In e ds -> In e K) -> (forall e, In e K -> In e ds) ->
  (forall e, In e es -> In e K) ->
  proj (deliver_all (deliver_all c ds) es) = proj (deliver_all c ds).
Proof.
  intros c K ds es Hfr HK Hsub Hsup. revert ds Hsub Hsup.
  induction es as [|e es IH]; intros ds Hsub Hsup Hes; [reflexivity|].
  assert (HeK : In e K) by (apply Hes; left; reflexivity).
  assert (E : deliver_all (deliver_all c ds) (e :: es) = deliver_all (deliver_all c (ds ++ [e])) es).
  { unfold deliver_all. rewrite fold_left_app. reflexivity. }
  rewrite E. rewrite IH.
  - unfold deliver_all at 1. rewrite fold_left_app. cbn [fold_left]. fold (deliver_all c ds).
    apply (resolved_fork_redelivery_harmless c K ds e); assumption.
  - intros x Hx. apply in_app_or in Hx. destruct Hx as [Hx|[<-|[]]]; [apply Hsub; exact Hx|exact HeK].
  - intros x Hx. apply in_or_app. left. apply Hsup. exact Hx.
  - intros x Hx. apply Hes. right. exact Hx.
Qed.
