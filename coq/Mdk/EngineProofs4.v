(* Proofs for Props/C07b.v: re-delivery of an event AT ANY LATER POINT of a run (after arbitrary further deliveries, local
   API calls, rollbacks and restarts), and witnesses for the histories on which the promise fails. *)
From MDK Require Import Base.Prelude Base.AMap Mdk.Engine Mdk.EngineSpec Mdk.EngineProofs Mdk.EngineProofs2.

(* ================================================================ the rest of the run (same body as Props/C07b.later_ok) *)
Definition later_ok (e0 : event) (o : eop) : Prop :=
  match o with
  | ODeliver e => e_id e = e_id e0 -> e = e0
  | OCommitted e | OSent e | OLeave e => e_id e <> e_id e0
  | OSentAs e _ => e_id e <> e_id e0
  | OMerge | OClear | ORestart => True
  end.

(* extra hypotheses of the corrected statements (same bodies as in Props/C07b.v) *)
Definition record_stamped (c : client) (e : event) : Prop :=
  forall r, aget N.eqb (e_id e) (dedup c) = Some r -> d_msg r <> None -> d_epoch r <> None.
Definition not_yet_committed (c : client) (e : event) : Prop :=
  forall r, aget N.eqb (e_id e) (dedup c) = Some r -> d_state r <> PS_COMMIT.

(* ================================================================ Inv along every operation *)
Lemma inv_restart c : Inv c -> Inv (restart c).
Proof.
  intros [Hk Hq]. split; [exact Hk|]. rewrite restart_queue, Forall_map. exact Hq.
Qed.

Lemma inv_estep c o : Inv c -> Inv (estep c o).
Proof.
  intros H. destruct o as [e|e| | |e|e k|e|]; cbn [estep].
  - apply inv_deliver. exact H.
  - apply inv_committed. exact H.
  - apply inv_merge_pending. exact H.
  - apply inv_clear. exact H.
  - apply inv_sent. exact H.
  - apply inv_sent_as. exact H.
  - apply inv_leave. exact H.
  - apply inv_restart. exact H.
Qed.

Lemma inv_erun ops : forall c, Inv c -> Inv (erun c ops).
Proof.
  induction ops as [|o ops IH]; intros c H; [exact H|].
  unfold erun. cbn [fold_left]. apply IH. apply inv_estep. exact H.
Qed.

(* ================================================================ monotone changes of the live core *)
Definition ext (k k' : core) : Prop :=
  incl (k_seen k) (k_seen k') /\ k_epoch k <= k_epoch k' /\ (k_active k = false -> k_active k' = false).

Lemma ext_refl k : ext k k.
Proof. repeat split; [apply incl_refl|lia|auto]. Qed.

Lemma ext_trans a b c : ext a b -> ext b c -> ext a c.
Proof.
  intros (A1 & A2 & A3) (B1 & B2 & B3). repeat split; [exact (incl_tran A1 B1)|lia|auto].
Qed.

Lemma ext_same k k' : k_seen k' = k_seen k -> k_epoch k' = k_epoch k -> k_active k' = k_active k -> ext k k'.
Proof. intros E1 E2 E3. unfold ext. rewrite E1, E2, E3. repeat split; [apply incl_refl|lia|auto]. Qed.

Lemma ext_es k : ext k (ensure_secret k).
Proof. apply ext_same; [apply es_seen|apply es_epoch|apply es_active]. Qed.

Lemma ext_upd_last k a b : ext k (upd_last k a b).
Proof.
  destruct (upd_last_fields k a b) as (_ & E2 & _ & E4 & _ & _ & _ & _ & _ & E10).
  apply ext_same; assumption.
Qed.

Lemma ext_advance k cm save ev : ext k (advance k cm save ev).
Proof.
  destruct cm as [[id data] rm]. unfold advance.
  match goal with |- ext k (if _ then ensure_secret ?k1 else _) => assert (ext k k1) as H end.
  { repeat split; cbn [k_seen k_epoch k_active]; [apply incl_refl|lia|]. intros Ha. destruct ev; [reflexivity|exact Ha]. }
  destruct (save && negb ev); [exact (ext_trans _ _ _ H (ext_es _))|exact H].
Qed.

Lemma ext_seen_cons k x : ext k (with_seen k (x :: k_seen k)).
Proof. repeat split; cbn [with_seen k_seen k_epoch k_active]; [apply incl_tl; apply incl_refl|lia|auto]. Qed.

(* ================================================================ the dedup table under a rollback, one record *)
Definition blocking (r : drec) : Prop := d_state r = PS_INVALID \/ (d_state r = PS_FAILED /\ d_epoch r <> None).

Lemma rb2_not_failed r : d_state r <> PS_FAILED -> rb2 r = r.
Proof.
  intros H. unfold rb2. destruct (N.eqb_spec (d_state r) PS_FAILED) as [E|_]; [contradiction|].
  rewrite andb_false_r. reflexivity.
Qed.

Lemma rb2_has_epoch r : d_epoch r <> None -> rb2 r = r.
Proof.
  intros H. unfold rb2. destruct (d_epoch r); [|contradiction]. rewrite andb_false_r. reflexivity.
Qed.

Lemma blocking_rb ep r : blocking r -> blocking (rb2 (rb1 ep r)).
Proof.
  intros Hb. unfold rb1.
  destruct (d_group r && match d_epoch r with Some x => ep <? x | None => false end).
  - rewrite rb2_not_failed by (cbn [d_state]; discriminate). left. reflexivity.
  - destruct Hb as [Hi|[Hf He]].
    + rewrite rb2_not_failed by (rewrite Hi; discriminate). left. exact Hi.
    + rewrite rb2_has_epoch by exact He. right. split; assumption.
Qed.

Lemma rb_epoch_msg ep r : d_epoch (rb2 (rb1 ep r)) = d_epoch r /\ d_msg (rb2 (rb1 ep r)) = d_msg r.
Proof.
  unfold rb2, rb1.
  destruct (d_group r && match d_epoch r with Some x => ep <? x | None => false end); cbn [d_group d_state d_epoch d_msg].
  - change (PS_INVALID =? PS_FAILED) with false. rewrite andb_false_r. cbn [andb d_epoch d_msg]. split; reflexivity.
  - destruct (d_group r && (d_state r =? PS_FAILED) && match d_epoch r with None => true | Some _ => false end);
      cbn [d_epoch d_msg]; split; reflexivity.
Qed.

Lemma rb_not_commit ep r : d_state r <> PS_COMMIT -> d_state (rb2 (rb1 ep r)) <> PS_COMMIT.
Proof.
  intros H. unfold rb2, rb1.
  destruct (d_group r && match d_epoch r with Some x => ep <? x | None => false end); cbn [d_group d_state d_epoch d_msg].
  - change (PS_INVALID =? PS_FAILED) with false. rewrite andb_false_r. cbn [andb d_state]. discriminate.
  - destruct (d_group r && (d_state r =? PS_FAILED) && match d_epoch r with None => true | Some _ => false end);
      cbn [d_state]; [discriminate|exact H].
Qed.

Lemma is_better_no_snap c ep ts key : find_snap ep (queue c) = None -> is_better c ep ts key = false.
Proof. intros H. unfold is_better. rewrite H. reflexivity. Qed.

Lemma find_snap_above c ep : queue_wf c -> k_epoch (kc c) <= ep -> find_snap ep (queue c) = None.
Proof.
  intros [H _] Hle. apply find_snap_none. intros x Hx. rewrite Forall_forall in H. destruct (H x Hx) as [_ L]. lia.
Qed.

(* ================================================================ the invariant of the later states *)
Section Later.
  (* the record of the event under study (key `id`), once the event has taken effect: state `st`, group flag set, epoch
     stamp `p`; `S`: ratchet keys that stay consumed in the live core and in every retained snapshot labelled >= p;
     `lo` <= the live epoch; `Q`: a property of the retained snapshots labelled below `lo` *)
  Variables (id i st p lo : N) (S : list N) (Q : snap -> Prop).
  Hypothesis st_ok : st <> PS_FAILED.
  Hypothesis lo_p : lo <= p.
  Hypothesis Q_zero : forall s, Q s -> Q (zero_ts s).

  Definition snap_ok (s : snap) : Prop :=
    (p <= sn_epoch s -> incl S (k_seen (sn_core s))) /\ (sn_epoch s < lo -> Q s).

  Definition Stable (c : client) : Prop := exists r, dget id (dedup c) = Some r /\ blocking r.

  Definition Good (c : client) : Prop :=
    (exists m, dget id (dedup c) = Some (mkD st (Some p) true m)) /\
    incl S (k_seen (kc c)) /\ lo <= k_epoch (kc c) /\ Forall snap_ok (queue c).

  Definition J (c : client) : Prop := me c = i /\ (k_active (kc c) = false \/ Stable c \/ Good c).

  (* changes that keep J: same record under `id`, same queue, live core extended *)
  Definition frame (c c' : client) : Prop :=
    me c' = me c /\ dget id (dedup c') = dget id (dedup c) /\ queue c' = queue c /\ ext (kc c) (kc c').

  Lemma frame_intro c c' :
    me c' = me c -> dget id (dedup c') = dget id (dedup c) -> queue c' = queue c -> ext (kc c) (kc c') -> frame c c'.
  Proof. intros H1 H2 H3 H4. split; [exact H1|split; [exact H2|split; [exact H3|exact H4]]]. Qed.

  Lemma frame_refl c : frame c c.
  Proof. apply frame_intro; try reflexivity. apply ext_refl. Qed.

  Lemma frame_trans a b c : frame a b -> frame b c -> frame a c.
  Proof.
    intros (A1 & A2 & A3 & A4) (B1 & B2 & B3 & B4). apply frame_intro.
    - rewrite B1. exact A1.
    - rewrite B2. exact A2.
    - rewrite B3. exact A3.
    - exact (ext_trans _ _ _ A4 B4).
  Qed.

  Lemma J_frame c c' : frame c c' -> J c -> J c'.
  Proof.
    intros (F1 & F2 & F3 & F4 & F5 & F6) [Hme HJ]. split; [rewrite F1; exact Hme|].
    destruct HJ as [Hin|[(r & Hr & Hb)|((m & Hr) & HS & Hlo & Hq)]].
    - left. auto.
    - right. left. exists r. rewrite F2. split; assumption.
    - right. right. repeat split.
      + exists m. rewrite F2. exact Hr.
      + exact (incl_tran HS F4).
      + lia.
      + rewrite F3. exact Hq.
  Qed.

  Lemma frame_core c k : ext (kc c) k -> frame c (set_core c k).
  Proof. intros H. apply frame_intro; try reflexivity. exact H. Qed.

  Lemma frame_msgs c m : frame c (set_msgs c m).
  Proof. apply frame_intro; try reflexivity. apply ext_refl. Qed.

  Lemma frame_rf c id' g ep : id' <> id -> frame c (record_failure c id' g ep).
  Proof.
    intros Hne. apply frame_intro; try reflexivity; [|apply ext_refl].
    cbn [record_failure set_dedup dedup]. apply dget_aset_other. congruence.
  Qed.

  Lemma frame_put c id' s ep m : id' <> id -> frame c (put_dedup c id' s ep m).
  Proof.
    intros Hne. apply frame_intro; try reflexivity; [|apply ext_refl].
    cbn [put_dedup set_dedup dedup]. apply dget_aset_other. congruence.
  Qed.

  Lemma frame_ens c : frame c (ens c).
  Proof. apply frame_core. apply ext_es. Qed.

  Lemma frame_sync c : frame c (sync c).
  Proof. apply frame_core. apply ext_same; reflexivity. Qed.

  (* ---- the three operations that are not frames *)
  Lemma J_take_snapshot c e : J c -> J (take_snapshot c e).
  Proof.
    intros [Hme HJ]. split; [exact Hme|].
    destruct HJ as [Hin|[Hs|(Hr & HS & Hlo & Hq)]]; [left; exact Hin|right; left; exact Hs|].
    right. right. repeat split; [exact Hr|exact HS|exact Hlo|].
    cbn [take_snapshot set_queue queue]. apply Forall_prune. apply Forall_app. split; [exact Hq|].
    constructor; [|constructor]. split; cbn [sn_epoch sn_core]; [intros _; exact HS|intros L; lia].
  Qed.

  Lemma J_apply_commit c e cm : e_id e <> id -> J c -> J (fst (apply_commit c e cm)).
  Proof.
    intros Hne H. apply (J_take_snapshot c e) in H. unfold apply_commit.
    set (c1 := take_snapshot c e) in *.
    assert (frame c1 (set_core c1 (advance (kc c1) cm true (evicted_by c (snd cm))))) as F
      by (apply frame_core; apply ext_advance).
    destruct (evicted_by c (snd cm)); cbn [fst];
      (eapply J_frame; [|exact H]); (eapply frame_trans; [exact F|]); apply frame_put; exact Hne.
  Qed.

  Lemma J_rollback c ep s :
    J c -> k_active (kc c) = true -> queue_wf c -> find_snap ep (queue c) = Some s -> J (rollback c ep s).
  Proof.
    intros [Hme HJ] Hact [Hwf _] Hf. split; [exact Hme|].
    destruct (find_snap_In _ _ _ Hf) as [Hin Hep].
    destruct HJ as [Hina|[(r & Hr & Hb)|((m & Hr) & HS & Hlo & Hq)]].
    - rewrite Hact in Hina. discriminate.
    - right. left. exists (rb2 (rb1 ep r)). rewrite dget_rollback, Hr. split; [reflexivity|apply blocking_rb; exact Hb].
    - destruct (N.ltb_spec ep p) as [L|L].
      + right. left. exists (mkD PS_INVALID (Some p) true m). rewrite dget_rollback, Hr. split; [|left; reflexivity].
        f_equal. unfold rb1. cbn [d_group d_epoch d_state d_msg].
        assert ((ep <? p) = true) as -> by lia. cbn [andb].
        apply rb2_not_failed. cbn [d_state]. discriminate.
      + right. right. repeat split.
        * exists m. rewrite dget_rollback, Hr. f_equal. unfold rb1. cbn [d_group d_epoch d_state d_msg].
          assert ((ep <? p) = false) as -> by lia. cbn [andb].
          apply rb2_not_failed. cbn [d_state]. exact st_ok.
        * change (kc (rollback c ep s)) with (sn_core s).
          rewrite Forall_forall in Hq. apply (Hq s Hin). lia.
        * change (kc (rollback c ep s)) with (sn_core s).
          rewrite Forall_forall in Hwf. destruct (Hwf s Hin) as [E _]. lia.
        * change (queue (rollback c ep s)) with (take_until ep (queue c)). apply Forall_take_until. exact Hq.
  Qed.

  Lemma J_restart c : J c -> J (restart c).
  Proof.
    intros [Hme HJ]. split; [exact Hme|].
    destruct HJ as [Hin|[Hs|(Hr & HS & Hlo & Hq)]]; [left; exact Hin|right; left; exact Hs|].
    right. right. repeat split; [exact Hr|exact HS|exact Hlo|].
    rewrite restart_queue, Forall_map. eapply Forall_impl; [|exact Hq].
    intros s [A B]. split; [exact A|]. intros L. apply Q_zero. exact (B L).
  Qed.

  (* ---- deliveries of OTHER events *)
  Lemma J_late c e r : e_id e <> id -> J c -> J (fst (late c e r)).
  Proof.
    intros Hne H. unfold late.
    destruct (dget (e_id e) (dedup c)) as [d|]; [|exact (J_frame _ _ (frame_rf c _ _ _ Hne) H)].
    destruct (d_state d =? PS_COMMIT); [exact (J_frame _ _ (frame_sync c) H)|exact (J_frame _ _ (frame_rf c _ _ _ Hne) H)].
  Qed.

  Lemma J_own_here c e : e_id e <> id -> J c -> J (fst (own_here c e)).
  Proof.
    intros Hne H. unfold own_here.
    destruct (if e_kind e =? 0 then k_pending (kc c) else None) as [cm|]; [apply J_apply_commit; assumption|].
    destruct (dget (e_id e) (dedup c)) as [d|]; [|exact H].
    destruct ((d_state d =? PS_CREATED) || (d_state d =? PS_RETRY)).
    - destruct (d_msg d) as [m|]; [|exact H]. destruct (dget m (msgs c)) as [mr|]; [|exact H].
      cbn [fst]. eapply J_frame; [|exact H]. eapply frame_trans; [apply frame_msgs|]. apply frame_put. exact Hne.
    - destruct (d_state d =? PS_COMMIT); [exact (J_frame _ _ (frame_sync c) H)|exact H].
  Qed.

  Lemma J_app_here c e r : e_id e <> id -> J c -> J (fst (app_here c e r)).
  Proof.
    intros Hne H. unfold app_here.
    destruct (negb _ || existsb (N.eqb (e_msg e)) (k_seen (kc c)) || (e_bad e =? 7)); [exact (J_frame _ _ (frame_rf c _ _ _ Hne) H)|].
    cbv zeta. cbn [fst]. eapply J_frame; [|exact H].
    eapply frame_trans; [apply (frame_core c (with_seen (kc c) (e_msg e :: k_seen (kc c)))); apply ext_seen_cons|].
    eapply frame_trans; [apply frame_msgs|].
    eapply frame_trans; [apply frame_put; exact Hne|].
    apply frame_core. apply ext_upd_last.
  Qed.

  Lemma J_leave_here c e r : e_id e <> id -> J c -> J (fst (leave_here c e r)).
  Proof.
    intros Hne H. unfold leave_here.
    destruct (existsb (N.eqb (100000 + e_id e)) (k_seen (kc c))); [exact (J_frame _ _ (frame_rf c _ _ _ Hne) H)|].
    cbv zeta.
    set (k0 := with_seen (with_props (kc c) (k_props (kc c) ++ [e_id e])) ((100000 + e_id e) :: k_seen (kc c))).
    assert (ext (kc c) k0) as E0
      by (repeat split; cbn [k0 with_seen with_props k_seen k_epoch k_active]; [apply incl_tl; apply incl_refl|lia|auto]).
    cbn [fst]. eapply J_frame; [|exact H]. eapply frame_trans; [|apply frame_put; exact Hne].
    apply frame_core. destruct (is_admin c && _); [|exact E0].
    eapply ext_trans; [exact E0|]. apply ext_same; reflexivity.
  Qed.

  Lemma J_commit_here c e r : e_id e <> id -> J c -> J (fst (commit_here c e r)).
  Proof.
    intros Hne H. unfold commit_here.
    destruct (negb (forallb _ (e_refs e))); [exact (J_frame _ _ (frame_rf c _ _ _ Hne) H)|].
    destruct (negb (e_auth e) || (e_bad e =? 8)); [exact (J_frame _ _ (frame_rf c _ _ _ Hne) H)|apply J_apply_commit; assumption].
  Qed.

  Lemma J_here c e r : e_id e <> id -> J c -> J (fst (here c e r)).
  Proof.
    intros Hne H. unfold here.
    destruct (e_author e =? me c); [apply J_own_here; assumption|].
    destruct (e_kind e =? 1); [apply J_app_here; assumption|].
    destruct (e_kind e =? 2); [apply J_leave_here; assumption|apply J_commit_here; assumption].
  Qed.

  Lemma J_process fuel : forall c e, e_id e <> id -> J c -> queue_wf c -> J (fst (process fuel c e)).
  Proof.
    induction fuel as [|f IH]; intros c e Hne H Hwf; rewrite process_unfold.
    all: destruct (blockedb c e); [exact H|].
    all: destruct ((e_kind e =? 3) && (e_bad e <? 2)); [exact (J_frame _ _ (frame_rf c _ _ _ Hne) H)|].
    all: destruct ((e_kind e =? 3) && (e_bad e =? 2)); [exact (J_frame _ _ (frame_rf c _ _ _ Hne) H)|].
    all: destruct (k_active (kc c)) eqn:Hact; cbn [negb]; [|exact (J_frame _ _ (frame_rf c _ _ _ Hne) H)].
    all: cbv zeta; pose proof (J_frame _ _ (frame_ens c) H) as H1; pose proof (qwf_ens c Hwf) as Hwf1.
    all: destruct ((e_kind e =? 3) || negb (outer_opens (kc (ens c)) (e_state e))); [exact (J_frame _ _ (frame_rf (ens c) _ _ _ Hne) H1)|].
    all: destruct (wrong_epoch (kc (ens c)) e); [|apply J_here; assumption].
    all: destruct (is_commit_kind e && is_better (ens c) (e_epoch e) (e_ts e) (e_key e)); [|apply J_late; assumption].
    all: destruct (find_snap (e_epoch e) (queue (ens c))) as [s|] eqn:Es; [|exact (J_frame _ _ (frame_rf (ens c) _ _ _ Hne) H1)].
    - exact (J_frame _ _ (frame_rf (ens c) _ _ _ Hne) H1).
    - apply IH; [exact Hne| |apply qwf_rollback; assumption].
      apply J_rollback; [exact H1| |exact Hwf1|exact Es].
      cbn [ens set_core kc]. rewrite es_active. exact Hact.
  Qed.

  (* ---- local API calls on other events *)
  Lemma J_committed c e : e_id e <> id -> J c -> J (committed c e).
  Proof.
    intros Hne H. unfold committed. eapply J_frame; [|exact H].
    eapply frame_trans; [|apply frame_put; exact Hne]. apply frame_core.
    eapply ext_trans; [apply ext_es|]. apply ext_same; reflexivity.
  Qed.

  Lemma J_merge c : J c -> J (fst (merge_pending c)).
  Proof.
    intros H. unfold merge_pending. destruct (k_pending (kc c)) as [cm|]; [|exact H].
    cbn [fst]. eapply J_frame; [|exact H]. apply frame_core. apply ext_advance.
  Qed.

  Lemma J_clear c : J c -> J (clear_pending c).
  Proof. intros H. unfold clear_pending. eapply J_frame; [|exact H]. apply frame_core. apply ext_same; reflexivity. Qed.

  Lemma J_sent_as c e key : e_id e <> id -> J c -> J (sent_as c e key).
  Proof.
    intros Hne H. unfold sent_as. cbv zeta. eapply J_frame; [|exact H].
    eapply frame_trans; [apply (frame_core c (ensure_secret (kc c))); apply ext_es|].
    eapply frame_trans; [apply frame_msgs|].
    eapply frame_trans; [apply frame_put; exact Hne|].
    apply frame_core. apply ext_upd_last.
  Qed.

  Lemma J_sent c e : e_id e <> id -> J c -> J (sent c e).
  Proof. intros Hne H. exact (J_sent_as c e (e_msg e) Hne H). Qed.

  Lemma J_leave c e : e_id e <> id -> J c -> J (leave_created c e).
  Proof.
    intros Hne H. unfold leave_created. eapply J_frame; [|exact H].
    eapply frame_trans; [|apply frame_put; exact Hne]. apply frame_core.
    eapply ext_trans; [apply ext_es|]. apply ext_same; reflexivity.
  Qed.

  (* ---- the event under study, offered again *)
  Variable e0 : event.
  Hypothesis e0_id : e_id e0 = id.

  (* what handling e0 again may do to a client: nothing, store the exporter secret, record a failure, or (late arm,
     ProcessedCommit record) re-synchronise the stored group record *)
  Definition Shape (c x : client) : Prop :=
    x = c \/ x = ens c \/
    (exists c0 g ep, x = record_failure c0 id g ep /\ (c0 = c \/ c0 = ens c)) \/
    (x = sync (ens c) /\ k_active (kc c) = true).

  Hypothesis good_shape : forall c, Good c -> me c = i -> queue_wf c -> Shape c (fst (deliver c e0)).

  Lemma stable_fixed c : Stable c -> fst (deliver c e0) = c.
  Proof.
    intros (r & Hr & Hb). apply fixed_blocked. unfold blockedb. rewrite e0_id, Hr.
    destruct Hb as [->|[-> _]]; reflexivity.
  Qed.

  Lemma inactive_shape c : k_active (kc c) = false -> Shape c (fst (deliver c e0)).
  Proof.
    intros Hin. unfold deliver. rewrite process_unfold.
    destruct (blockedb c e0); [left; reflexivity|].
    assert (Shape c (record_failure c id false None)) as Sf by (right; right; left; exists c, false, None; auto).
    assert (Shape c (record_failure c id true None)) as St by (right; right; left; exists c, true, None; auto).
    rewrite e0_id.
    destruct ((e_kind e0 =? 3) && (e_bad e0 <? 2)); [exact Sf|].
    destruct ((e_kind e0 =? 3) && (e_bad e0 =? 2)); [exact Sf|].
    rewrite Hin. exact St.
  Qed.

  Lemma proj_rf c id' g ep : proj (record_failure c id' g ep) = proj c.
  Proof. reflexivity. Qed.

  Lemma redeliver_ok c : J c -> queue_wf c -> Inv c -> proj (fst (deliver c e0)) = proj c /\ J (fst (deliver c e0)).
  Proof.
    intros HJ Hwf Hinv. destruct HJ as [Hme HJ].
    assert (Hsh : (k_active (kc c) = false \/ Good c) -> Shape c (fst (deliver c e0))).
    { intros [Hin|Hg]; [apply inactive_shape; exact Hin|apply good_shape; assumption]. }
    destruct HJ as [Hin|[Hs|Hg]].
    2: { rewrite (stable_fixed c Hs). split; [reflexivity|]. split; [exact Hme|right; left; exact Hs]. }
    all: assert (Hc : J c) by (split; [exact Hme|auto]).
    all: assert (Hrf : forall c0 g ep, (c0 = c \/ c0 = ens c) -> J (record_failure c0 id g ep)).
    1: { intros c0 g ep Hc0. split; [destruct Hc0 as [->| ->]; exact Hme|]. left.
         destruct Hc0 as [->| ->]; cbn [record_failure set_dedup kc ens set_core]; rewrite ?es_active; exact Hin. }
    2: { intros c0 g ep Hc0. split; [destruct Hc0 as [->| ->]; exact Hme|]. right. left.
         destruct Hg as ((m & Hr) & _).
         assert (dget id (dedup c0) = Some (mkD st (Some p) true m)) as Hr0 by (destruct Hc0 as [->| ->]; exact Hr).
         unfold Stable, record_failure. cbn [set_dedup dedup]. rewrite Hr0. cbn [d_epoch d_group d_msg].
         eexists. split; [apply dget_aset_same|]. right. cbn [d_state d_epoch]. split; [reflexivity|].
         destruct ep; discriminate. }
    all: destruct (Hsh ltac:(auto)) as [E|[E|[(c0 & g & ep & E & Hc0)|[E Hact]]]]; rewrite E.
    all: try (split; [reflexivity|exact Hc]).
    all: try (split; [apply proj_ens|exact (J_frame _ _ (frame_ens c) Hc)]).
    all: try (split; [rewrite proj_rf; destruct Hc0 as [->| ->]; [reflexivity|apply proj_ens]|apply Hrf; exact Hc0]).
    all: assert (sync (ens c) = ens c) as -> by
          (apply sync_fix; apply (proj1 (Inv_ens c Hinv)); cbn [ens set_core kc]; rewrite es_active; exact Hact).
    all: split; [apply proj_ens|exact (J_frame _ _ (frame_ens c) Hc)].
  Qed.

  Lemma J_estep c o : later_ok e0 o -> J c -> queue_wf c -> Inv c -> J (estep c o).
  Proof.
    intros Hok H Hwf Hinv. destruct o as [e|e| | |e|e k|e|]; cbn [estep]; cbn [later_ok] in Hok.
    - destruct (N.eq_dec (e_id e) (e_id e0)) as [E|E].
      + rewrite (Hok E). exact (proj2 (redeliver_ok c H Hwf Hinv)).
      + apply J_process; [rewrite <- e0_id; exact E|exact H|exact Hwf].
    - apply J_committed; [rewrite <- e0_id; exact Hok|exact H].
    - apply J_merge. exact H.
    - apply J_clear. exact H.
    - apply J_sent; [rewrite <- e0_id; exact Hok|exact H].
    - apply J_sent_as; [rewrite <- e0_id; exact Hok|exact H].
    - apply J_leave; [rewrite <- e0_id; exact Hok|exact H].
    - apply J_restart. exact H.
  Qed.

  Lemma J_erun ops : forall c, Forall (later_ok e0) ops -> J c -> queue_wf c -> Inv c ->
    J (erun c ops) /\ queue_wf (erun c ops) /\ Inv (erun c ops).
  Proof.
    induction ops as [|o ops IH]; intros c Hok H Hwf Hinv; [auto|].
    inversion Hok as [|? ? Ho Hops]; subst. unfold erun. cbn [fold_left]. apply IH.
    - exact Hops.
    - apply J_estep; assumption.
    - apply queue_wf_estep. exact Hwf.
    - apply inv_estep. exact Hinv.
  Qed.

  Lemma later_point c ops : Forall (later_ok e0) ops -> J c -> queue_wf c -> Inv c ->
    proj (fst (deliver (erun c ops) e0)) = proj (erun c ops).
  Proof.
    intros Hok H Hwf Hinv. destruct (J_erun ops c Hok H Hwf Hinv) as (H' & Hwf' & Hinv').
    exact (proj1 (redeliver_ok _ H' Hwf' Hinv')).
  Qed.
End Later.

Arguments J : clear implicits.
Arguments Good : clear implicits.
Arguments Shape : clear implicits.

Definition anyQ (s : snap) : Prop := True.
Lemma anyQ_zero : forall s, anyQ s -> anyQ (zero_ts s).
Proof. intros s _. exact I. Qed.

Lemma snaps_trivially_ok p S c : (forall s, In s (queue c) -> p <= sn_epoch s -> incl S (k_seen (sn_core s))) ->
  Forall (snap_ok p 0 S anyQ) (queue c).
Proof.
  intros H. apply Forall_forall. intros s Hs. split; [exact (H s Hs)|intros _; exact I].
Qed.

(* ================================================================ 1. a stored application message of another member *)
Lemma app_good f : forall c e,
  snd (process f c e) = RApp -> e_author e <> me c -> queue_wf c ->
  exists p, J (e_id e) (me c) PS_PROCESSED p 0 [e_msg e] anyQ (fst (process f c e)).
Proof.
  induction f as [|f IH]; intros c e; rewrite process_unfold; intros Hrk Hme Hwf; revert Hrk.
  all: destruct (blockedb c e); [unfold blocked_rk; destruct (_ && _); discriminate|].
  all: destruct ((e_kind e =? 3) && (e_bad e <? 2)); [discriminate|].
  all: destruct ((e_kind e =? 3) && (e_bad e =? 2)); [discriminate|].
  all: destruct (negb (k_active (kc c))); [discriminate|].
  all: cbv zeta; pose proof (qwf_ens c Hwf) as Hwf1.
  all: destruct ((e_kind e =? 3) || negb (outer_opens (kc (ens c)) (e_state e))); [discriminate|].
  all: assert (Hhere : snd (here (ens c) e (k_rec_epoch (kc c))) = RApp ->
         exists p, J (e_id e) (me c) PS_PROCESSED p 0 [e_msg e] anyQ (fst (here (ens c) e (k_rec_epoch (kc c))))).
  1,3: unfold here; change (me (ens c)) with (me c);
       (destruct (N.eqb_spec (e_author e) (me c)) as [E|_]; [contradiction|]);
       (destruct (e_kind e =? 1);
        [unfold app_here; destruct (negb _ || existsb (N.eqb (e_msg e)) (k_seen (kc (ens c))) || (e_bad e =? 7)); [discriminate|]; intros _;
         exists (k_epoch (kc (ens c))); split; [reflexivity|]; right; right;
         cbv zeta; cbn [fst];
         pose proof (upd_last_fields (with_seen (kc (ens c)) (e_msg e :: k_seen (kc (ens c)))) (e_msg e) (e_msg e)) as F;
         destruct F as (_ & Fep & _ & _ & _ & _ & _ & _ & _ & Fseen);
         split; [exists (Some (e_msg e)); cbn [set_core put_dedup set_dedup set_msgs dedup]; apply dget_aset_same|];
         cbn [set_core put_dedup set_dedup set_msgs kc queue me is_admin retention dedup msgs rollbacks] in *;
         split; [rewrite Fseen; cbn [with_seen k_seen]; intros x [<-|[]]; left; reflexivity|];
         split; [lia|];
         apply snaps_trivially_ok; cbn [queue]; intros s Hs Hle; exfalso;
         destruct Hwf1 as [Hq _]; rewrite Forall_forall in Hq; destruct (Hq s Hs) as [_ L]; lia
        |]);
       (destruct (e_kind e =? 2);
        [unfold leave_here; destruct (existsb _ _); [discriminate|]; destruct (is_admin (ens c) && _); discriminate|]);
       unfold commit_here; (destruct (negb (forallb _ (e_refs e))); [discriminate|]);
       (destruct (negb (e_auth e) || (e_bad e =? 8)); [destruct (negb (e_auth e)); discriminate|]); rewrite apply_commit_rk; discriminate.
  all: destruct (wrong_epoch (kc (ens c)) e); [|exact Hhere].
  all: destruct (is_commit_kind e && is_better (ens c) (e_epoch e) (e_ts e) (e_key e));
       [|unfold late; destruct (dget (e_id e) (dedup (ens c))) as [d|]; [destruct (d_state d =? PS_COMMIT)|]; discriminate].
  all: destruct (find_snap (e_epoch e) (queue (ens c))) as [s|] eqn:Es; [|discriminate].
  - discriminate.
  - intros Hrk. apply (IH (rollback (ens c) (e_epoch e) s) e Hrk Hme). apply qwf_rollback; assumption.
Qed.

Lemma app_shape e p c : e_kind e = 1 -> e_author e <> me c ->
  Good (e_id e) PS_PROCESSED p 0 [e_msg e] anyQ c -> queue_wf c -> Shape (e_id e) c (fst (deliver c e)).
Proof.
  intros K1 Hme ((m & Hr) & HS & _ & _) Hwf. unfold deliver. rewrite process_unfold.
  unfold blockedb. rewrite Hr. cbn [d_state]. change ((PS_PROCESSED =? PS_FAILED) || (PS_PROCESSED =? PS_INVALID)) with false. cbv iota.
  rewrite K1. change (1 =? 3) with false. cbn [andb orb].
  destruct (k_active (kc c)) eqn:Hact; cbn [negb]; [|right; right; left; exists c, true, None; auto].
  cbv zeta.
  destruct (outer_opens (kc (ens c)) (e_state e)); cbn [negb]; [|right; right; left; exists (ens c), true, None; auto].
  destruct (wrong_epoch (kc (ens c)) e) eqn:Hw.
  - rewrite is_better_no_snap.
    + rewrite andb_false_r. unfold late. change (dedup (ens c)) with (dedup c). rewrite Hr. cbn [d_state].
      change (PS_PROCESSED =? PS_COMMIT) with false. cbv iota.
      right; right; left. exists (ens c), true, (Some (k_rec_epoch (kc c))). auto.
    + apply find_snap_above; [apply qwf_ens; exact Hwf|].
      unfold wrong_epoch in Hw. rewrite K1 in Hw. change (1 =? 1) with true in Hw. cbv iota in Hw. lia.
  - unfold here. change (me (ens c)) with (me c).
    destruct (N.eqb_spec (e_author e) (me c)) as [E|_]; [contradiction|].
    rewrite K1. change (1 =? 1) with true. cbv iota.
    unfold app_here. cbn [ens set_core kc]. rewrite es_seen.
    assert (existsb (N.eqb (e_msg e)) (k_seen (kc c)) = true) as ->.
    { apply existsb_exists. exists (e_msg e). split; [apply HS; left; reflexivity|apply N.eqb_refl]. }
    rewrite orb_true_r. right; right; left. exists (ens c), true, (Some (k_rec_epoch (kc c))). auto.
Qed.

Lemma message_later_point : forall c e ops, Inv c -> queue_wf c ->
  e_kind e = 1 -> e_author e <> me c -> snd (deliver c e) = RApp ->
  Forall (later_ok e) ops ->
  let c' := erun (fst (deliver c e)) ops in
  proj (fst (deliver c' e)) = proj c'.
Proof.
  intros c e ops Hinv Hwf K1 Hme Hrk Hok c'.
  destruct (app_good 2 c e Hrk Hme Hwf) as [p HJ].
  apply (later_point (e_id e) (me c) PS_PROCESSED p 0 [e_msg e] anyQ); try assumption.
  - discriminate.
  - lia.
  - exact anyQ_zero.
  - reflexivity.
  - intros c0 Hg Hme0 Hwf0. apply (app_shape e p c0); [exact K1|rewrite Hme0; exact Hme|exact Hg|exact Hwf0].
  - apply queue_wf_deliver. exact Hwf.
  - apply inv_deliver. exact Hinv.
Qed.

(* ================================================================ 2. the echo of the client's own application message *)
Lemma stamped_rollback c e ep s : record_stamped c e -> record_stamped (rollback (ens c) ep s) e.
Proof.
  intros Hst r. rewrite dget_rollback. change (dedup (ens c)) with (dedup c).
  destruct (dget (e_id e) (dedup c)) as [r0|] eqn:Hr; [|discriminate].
  intros [= <-]. destruct (rb_epoch_msg ep r0) as [-> ->]. exact (Hst r0 Hr).
Qed.

Lemma own_good f : forall c e,
  snd (process f c e) = RApp -> e_author e = me c -> e_kind e = 1 -> record_stamped c e ->
  exists p, J (e_id e) (me c) PS_PROCESSED p 0 [] anyQ (fst (process f c e)).
Proof.
  induction f as [|f IH]; intros c e; rewrite process_unfold; intros Hrk Hme K1 Hst; revert Hrk.
  all: destruct (blockedb c e); [unfold blocked_rk; destruct (_ && _); discriminate|].
  all: destruct ((e_kind e =? 3) && (e_bad e <? 2)); [discriminate|].
  all: destruct ((e_kind e =? 3) && (e_bad e =? 2)); [discriminate|].
  all: destruct (negb (k_active (kc c))); [discriminate|].
  all: cbv zeta.
  all: destruct ((e_kind e =? 3) || negb (outer_opens (kc (ens c)) (e_state e))); [discriminate|].
  all: assert (Hhere : snd (here (ens c) e (k_rec_epoch (kc c))) = RApp ->
         exists p, J (e_id e) (me c) PS_PROCESSED p 0 [] anyQ (fst (here (ens c) e (k_rec_epoch (kc c))))).
  1,3: unfold here; change (me (ens c)) with (me c); rewrite Hme, N.eqb_refl;
       unfold own_here; rewrite K1; change (1 =? 0) with false; cbv iota;
       change (dedup (ens c)) with (dedup c);
       (destruct (dget (e_id e) (dedup c)) as [r|] eqn:Hr; [|discriminate]);
       (destruct ((d_state r =? PS_CREATED) || (d_state r =? PS_RETRY));
         [|destruct (d_state r =? PS_COMMIT); discriminate]);
       (destruct (d_msg r) as [m|] eqn:Hm; [|destruct (d_state r =? PS_CREATED); discriminate]);
       (destruct (dget m (msgs (ens c))) as [mr|]; [|destruct (d_state r =? PS_CREATED); discriminate]);
       intros _;
       (destruct (d_epoch r) as [p|] eqn:Hp; [|exfalso; apply (Hst r Hr); [rewrite Hm; discriminate|exact Hp]]);
       exists p; (split; [reflexivity|]); right; right;
       (split; [exists (Some m); cbn [fst put_dedup set_dedup dedup]; apply dget_aset_same|]);
       (split; [apply incl_nil_l|]); (split; [lia|]);
       apply snaps_trivially_ok; intros; apply incl_nil_l.
  all: destruct (wrong_epoch (kc (ens c)) e); [|exact Hhere].
  all: destruct (is_commit_kind e && is_better (ens c) (e_epoch e) (e_ts e) (e_key e));
       [|unfold late; destruct (dget (e_id e) (dedup (ens c))) as [d|]; [destruct (d_state d =? PS_COMMIT)|]; discriminate].
  all: destruct (find_snap (e_epoch e) (queue (ens c))) as [s|] eqn:Es; [|discriminate].
  - discriminate.
  - intros Hrk. apply (IH (rollback (ens c) (e_epoch e) s) e Hrk Hme K1). apply stamped_rollback. exact Hst.
Qed.

Lemma own_shape e p c : e_kind e = 1 -> e_author e = me c ->
  Good (e_id e) PS_PROCESSED p 0 [] anyQ c -> queue_wf c -> Shape (e_id e) c (fst (deliver c e)).
Proof.
  intros K1 Hme ((m & Hr) & _ & _ & _) Hwf. unfold deliver. rewrite process_unfold.
  unfold blockedb. rewrite Hr. cbn [d_state]. change ((PS_PROCESSED =? PS_FAILED) || (PS_PROCESSED =? PS_INVALID)) with false. cbv iota.
  rewrite K1. change (1 =? 3) with false. cbn [andb orb].
  destruct (k_active (kc c)) eqn:Hact; cbn [negb]; [|right; right; left; exists c, true, None; auto].
  cbv zeta.
  destruct (outer_opens (kc (ens c)) (e_state e)); cbn [negb]; [|right; right; left; exists (ens c), true, None; auto].
  destruct (wrong_epoch (kc (ens c)) e) eqn:Hw.
  - rewrite is_better_no_snap.
    + rewrite andb_false_r. unfold late. change (dedup (ens c)) with (dedup c). rewrite Hr. cbn [d_state].
      change (PS_PROCESSED =? PS_COMMIT) with false. cbv iota.
      right; right; left. exists (ens c), true, (Some (k_rec_epoch (kc c))). auto.
    + apply find_snap_above; [apply qwf_ens; exact Hwf|].
      unfold wrong_epoch in Hw. rewrite K1 in Hw. change (1 =? 1) with true in Hw. cbv iota in Hw. lia.
  - unfold here. change (me (ens c)) with (me c). rewrite Hme, N.eqb_refl.
    unfold own_here. rewrite K1. change (1 =? 0) with false. cbv iota.
    change (dedup (ens c)) with (dedup c). rewrite Hr. cbn [d_state].
    change ((PS_PROCESSED =? PS_CREATED) || (PS_PROCESSED =? PS_RETRY)) with false.
    change (PS_PROCESSED =? PS_COMMIT) with false. cbv iota. cbn [fst]. right; left. reflexivity.
Qed.

Lemma own_message_later_point : forall c e ops, Inv c -> queue_wf c ->
  e_kind e = 1 -> e_author e = me c -> snd (deliver c e) = RApp ->
  record_stamped c e ->
  Forall (later_ok e) ops ->
  let c' := erun (fst (deliver c e)) ops in
  proj (fst (deliver c' e)) = proj c'.
Proof.
  intros c e ops Hinv Hwf K1 Hme Hrk Hst Hok c'.
  destruct (own_good 2 c e Hrk Hme K1 Hst) as [p HJ].
  apply (later_point (e_id e) (me c) PS_PROCESSED p 0 [] anyQ); try assumption.
  - discriminate.
  - lia.
  - exact anyQ_zero.
  - reflexivity.
  - intros c0 Hg Hme0 Hwf0. apply (own_shape e p c0); [exact K1|rewrite Hme0; exact Hme|exact Hg|exact Hwf0].
  - apply queue_wf_deliver. exact Hwf.
  - apply inv_deliver. exact Hinv.
Qed.

(* ================================================================ 3. a commit of another member that was applied here *)
Definition Q3 (e : event) (s : snap) : Prop :=
  sn_epoch s = e_epoch e -> sn_ts s = 0 \/ (sn_ts s = e_ts e /\ sn_key s = e_key e).

Lemma Q3_zero e : forall s, Q3 e s -> Q3 e (zero_ts s).
Proof. intros s _ _. left. reflexivity. Qed.

Lemma apply_commit_good c e : e_epoch e = k_epoch (kc c) -> queue_wf c ->
  J (e_id e) (me c) PS_COMMIT (e_epoch e + 1) (e_epoch e + 1) [] (Q3 e) (fst (apply_commit c e (commit_of e))).
Proof.
  intros Hep [Hwf _]. unfold apply_commit, commit_of. cbn [snd].
  destruct (evicted_by c (e_removes e)); cbn [fst]; (split; [reflexivity|]).
  - left. cbn [put_dedup set_dedup set_core kc]. apply advance_evicted_inactive.
  - right. right. split; [|split; [apply incl_nil_l|split]].
    + exists None. cbn [put_dedup set_dedup dedup]. rewrite dget_aset_same, advance_epoch.
      change (kc (take_snapshot c e)) with (kc c). rewrite Hep. reflexivity.
    + cbn [put_dedup set_dedup set_core kc]. rewrite advance_epoch. change (kc (take_snapshot c e)) with (kc c). lia.
    + cbn [put_dedup set_dedup set_core queue take_snapshot set_queue]. apply Forall_prune. apply Forall_app. split.
      * rewrite Forall_forall in *. intros s Hs. destruct (Hwf s Hs) as [_ L].
        split; [intros _; apply incl_nil_l|]. intros _ Heq. lia.
      * constructor; [|constructor]. split; [intros _; apply incl_nil_l|]. intros _ _. right. split; reflexivity.
Qed.

Lemma nyc_rollback c e ep s : not_yet_committed c e -> not_yet_committed (rollback (ens c) ep s) e.
Proof.
  intros Hn r. rewrite dget_rollback. change (dedup (ens c)) with (dedup c).
  destruct (dget (e_id e) (dedup c)) as [r0|] eqn:Hr; [|discriminate].
  intros [= <-]. apply rb_not_commit. exact (Hn r0 Hr).
Qed.

Lemma commit_good f : forall c e,
  snd (process f c e) = RCommit -> e_kind e = 0 -> e_author e <> me c -> not_yet_committed c e -> queue_wf c ->
  J (e_id e) (me c) PS_COMMIT (e_epoch e + 1) (e_epoch e + 1) [] (Q3 e) (fst (process f c e)).
Proof.
  induction f as [|f IH]; intros c e; rewrite process_unfold; intros Hrk K0 Hme Hn Hwf; revert Hrk.
  all: destruct (blockedb c e); [unfold blocked_rk; destruct (_ && _); discriminate|].
  all: destruct ((e_kind e =? 3) && (e_bad e <? 2)); [discriminate|].
  all: destruct ((e_kind e =? 3) && (e_bad e =? 2)); [discriminate|].
  all: destruct (negb (k_active (kc c))); [discriminate|].
  all: cbv zeta; pose proof (qwf_ens c Hwf) as Hwf1.
  all: destruct ((e_kind e =? 3) || negb (outer_opens (kc (ens c)) (e_state e))); [discriminate|].
  all: assert (Hlate : snd (late (ens c) e (k_rec_epoch (kc c))) = RCommit -> False)
         by (unfold late; change (dedup (ens c)) with (dedup c);
             destruct (dget (e_id e) (dedup c)) as [r|] eqn:Hr; [|discriminate];
             destruct (N.eqb_spec (d_state r) PS_COMMIT) as [E|_]; [intros _; exact (Hn r Hr E)|discriminate]).
  all: destruct (wrong_epoch (kc (ens c)) e) eqn:Hw.
  1,3: destruct (is_commit_kind e && is_better (ens c) (e_epoch e) (e_ts e) (e_key e)); [|intros Hrk; destruct (Hlate Hrk)].
  1,2: destruct (find_snap (e_epoch e) (queue (ens c))) as [s|] eqn:Es; [|discriminate].
  1: discriminate.
  1: intros Hrk; apply (IH (rollback (ens c) (e_epoch e) s) e Hrk K0 Hme);
       [apply nyc_rollback; exact Hn|apply qwf_rollback; assumption].
  all: unfold here; change (me (ens c)) with (me c);
       (destruct (N.eqb_spec (e_author e) (me c)) as [E|_]; [contradiction|]);
       rewrite K0; change (0 =? 1) with false; change (0 =? 2) with false; cbv iota;
       unfold commit_here; (destruct (negb (forallb _ (e_refs e))); [discriminate|]);
       (destruct (negb (e_auth e) || (e_bad e =? 8)); [destruct (negb (e_auth e)); discriminate|]); intros _;
       apply (apply_commit_good (ens c) e); [|exact Hwf1];
       apply wrong_epoch_false_eq; [rewrite K0; discriminate|exact Hw].
Qed.

Lemma commit_shape e c : e_kind e = 0 ->
  Good (e_id e) PS_COMMIT (e_epoch e + 1) (e_epoch e + 1) [] (Q3 e) c -> queue_wf c -> Shape (e_id e) c (fst (deliver c e)).
Proof.
  intros K0 ((m & Hr) & _ & Hlo & Hq) Hwf. unfold deliver. rewrite process_unfold.
  unfold blockedb. rewrite Hr. cbn [d_state]. change ((PS_COMMIT =? PS_FAILED) || (PS_COMMIT =? PS_INVALID)) with false. cbv iota.
  rewrite K0. change (0 =? 3) with false. cbn [andb orb].
  destruct (k_active (kc c)) eqn:Hact; cbn [negb]; [|right; right; left; exists c, true, None; auto].
  cbv zeta.
  destruct (outer_opens (kc (ens c)) (e_state e)); cbn [negb]; [|right; right; left; exists (ens c), true, None; auto].
  assert (wrong_epoch (kc (ens c)) e = true) as ->.
  { unfold wrong_epoch. rewrite K0. change (0 =? 1) with false. cbv iota. cbn [ens set_core kc]. rewrite es_epoch.
    destruct (N.eqb_spec (e_epoch e) (k_epoch (kc c))) as [E|_]; [lia|reflexivity]. }
  assert (is_better (ens c) (e_epoch e) (e_ts e) (e_key e) = false) as ->.
  { destruct (is_better (ens c) (e_epoch e) (e_ts e) (e_key e)) eqn:Eb; [|reflexivity].
    apply is_better_spec in Eb. destruct Eb as (s & Hf & Hts & Hlt). change (queue (ens c)) with (queue c) in Hf.
    destruct (find_snap_In _ _ _ Hf) as [Hin Hep]. rewrite Forall_forall in Hq. destruct (Hq s Hin) as [_ HQ].
    assert (sn_epoch s < e_epoch e + 1) as L by lia.
    destruct (HQ L Hep) as [Z|[T K]]; [contradiction|]. rewrite T, K in Hlt. exfalso. exact (mip03_lt_irrefl _ Hlt). }
  rewrite andb_false_r.
  unfold late. change (dedup (ens c)) with (dedup c). rewrite Hr. cbn [d_state].
  change (PS_COMMIT =? PS_COMMIT) with true. cbv iota. cbn [fst]. right; right; right. split; [reflexivity|exact Hact].
Qed.

Lemma applied_commit_later_point : forall c e ops, Inv c -> queue_wf c ->
  e_kind e = 0 -> e_author e <> me c -> snd (deliver c e) = RCommit -> e_ts e <> 0 ->
  not_yet_committed c e ->
  k_epoch (kc (fst (deliver c e))) = e_epoch e + 1 ->
  Forall (later_ok e) ops ->
  let c' := erun (fst (deliver c e)) ops in
  proj (fst (deliver c' e)) = proj c'.
Proof.
  intros c e ops Hinv Hwf K0 Hme Hrk _ Hn _ Hok c'.
  pose proof (commit_good 2 c e Hrk K0 Hme Hn Hwf) as HJ.
  apply (later_point (e_id e) (me c) PS_COMMIT (e_epoch e + 1) (e_epoch e + 1) [] (Q3 e)); try assumption.
  - discriminate.
  - lia.
  - exact (Q3_zero e).
  - reflexivity.
  - intros c0 Hg _ Hwf0. apply (commit_shape e c0); assumption.
  - apply queue_wf_deliver. exact Hwf.
  - apply inv_deliver. exact Hinv.
Qed.

(* ================================================================ the added hypothesis of (2) holds in every reachable state:
   a dedup record that names a stored message always carries an epoch stamp *)
Definition rec_ok (r : drec) : Prop := d_msg r <> None -> d_epoch r <> None.
Definition dedup_stamped (c : client) : Prop := forall id r, dget id (dedup c) = Some r -> rec_ok r.

Lemma DS_same c c' : dedup c' = dedup c -> dedup_stamped c -> dedup_stamped c'.
Proof. intros E H id r. rewrite E. apply H. Qed.

Lemma DS_aset c c' id v : dedup c' = aset N.eqb id v (dedup c) -> rec_ok v -> dedup_stamped c -> dedup_stamped c'.
Proof.
  intros E Hv H id' r. rewrite E. destruct (N.eq_dec id' id) as [->|Hne].
  - rewrite dget_aset_same. intros [= <-]. exact Hv.
  - rewrite dget_aset_other by exact Hne. apply H.
Qed.

Lemma DS_rf c id g ep : dedup_stamped c -> dedup_stamped (record_failure c id g ep).
Proof.
  intros H. eapply DS_aset; [reflexivity| |exact H].
  unfold rec_ok. cbn [d_msg d_epoch]. destruct (dget id (dedup c)) as [r|] eqn:Hr.
  - intros Hm. destruct ep; [discriminate|]. exact (H id r Hr Hm).
  - intros Hm. contradiction.
Qed.

Lemma DS_put c id s x m : dedup_stamped c -> dedup_stamped (put_dedup c id s (Some x) m).
Proof. intros H. eapply DS_aset; [reflexivity| |exact H]. intros _. discriminate. Qed.

Lemma DS_rollback c ep s : dedup_stamped c -> dedup_stamped (rollback c ep s).
Proof.
  intros H id r. rewrite dget_rollback. destruct (dget id (dedup c)) as [r0|] eqn:Hr; [|discriminate].
  intros [= <-]. unfold rec_ok. destruct (rb_epoch_msg ep r0) as [-> ->]. exact (H id r0 Hr).
Qed.

Lemma DS_apply_commit c e cm : dedup_stamped c -> dedup_stamped (fst (apply_commit c e cm)).
Proof.
  intros H. unfold apply_commit. destruct (evicted_by c (snd cm)); cbn [fst]; apply DS_put; exact H.
Qed.

Lemma DS_late c e r : dedup_stamped c -> dedup_stamped (fst (late c e r)).
Proof.
  intros H. unfold late. destruct (dget (e_id e) (dedup c)) as [d|]; [|apply DS_rf; exact H].
  destruct (d_state d =? PS_COMMIT); [exact H|apply DS_rf; exact H].
Qed.

Lemma DS_here c e r : dedup_stamped c -> dedup_stamped (fst (here c e r)).
Proof.
  intros H. unfold here.
  destruct (e_author e =? me c).
  - unfold own_here.
    destruct (if e_kind e =? 0 then k_pending (kc c) else None) as [cm|]; [apply DS_apply_commit; exact H|].
    destruct (dget (e_id e) (dedup c)) as [d|] eqn:Hd; [|exact H].
    destruct ((d_state d =? PS_CREATED) || (d_state d =? PS_RETRY)).
    + destruct (d_msg d) as [m|] eqn:Hm; [|exact H]. destruct (dget m (msgs c)); [|exact H].
      cbn [fst]. destruct (d_epoch d) as [x|] eqn:Hx.
      * apply (DS_put (set_msgs c _)). exact H.
      * exfalso. apply (H _ d Hd); [rewrite Hm; discriminate|exact Hx].
    + destruct (d_state d =? PS_COMMIT); exact H.
  - destruct (e_kind e =? 1).
    + unfold app_here. destruct (negb _ || existsb (N.eqb (e_msg e)) (k_seen (kc c)) || (e_bad e =? 7)); [apply DS_rf; exact H|].
      cbv zeta. cbn [fst]. eapply DS_same; [|apply (DS_put c (e_id e) PS_PROCESSED (k_epoch (kc c)) (Some (e_msg e))); exact H].
      reflexivity.
    + destruct (e_kind e =? 2).
      * unfold leave_here. destruct (existsb (N.eqb (100000 + e_id e)) (k_seen (kc c))); [apply DS_rf; exact H|].
        cbv zeta. cbn [fst]. apply (DS_put (set_core c _)). exact H.
      * unfold commit_here. destruct (negb (forallb _ (e_refs e))); [apply DS_rf; exact H|].
        destruct (negb (e_auth e) || (e_bad e =? 8)); [apply DS_rf; exact H|apply DS_apply_commit; exact H].
Qed.

Lemma DS_process fuel : forall c e, dedup_stamped c -> dedup_stamped (fst (process fuel c e)).
Proof.
  induction fuel as [|f IH]; intros c e H; rewrite process_unfold.
  all: destruct (blockedb c e); [exact H|].
  all: destruct ((e_kind e =? 3) && (e_bad e <? 2)); [apply DS_rf; exact H|].
  all: destruct ((e_kind e =? 3) && (e_bad e =? 2)); [apply DS_rf; exact H|].
  all: destruct (negb (k_active (kc c))); [apply DS_rf; exact H|].
  all: cbv zeta; assert (dedup_stamped (ens c)) as H1 by exact H.
  all: destruct ((e_kind e =? 3) || negb (outer_opens (kc (ens c)) (e_state e))); [apply DS_rf; exact H1|].
  all: destruct (wrong_epoch (kc (ens c)) e); [|apply DS_here; exact H1].
  all: destruct (is_commit_kind e && is_better (ens c) (e_epoch e) (e_ts e) (e_key e)); [|apply DS_late; exact H1].
  all: destruct (find_snap (e_epoch e) (queue (ens c))) as [s|] eqn:Es; [|apply DS_rf; exact H1].
  - apply DS_rf. exact H1.
  - apply IH. apply DS_rollback. exact H1.
Qed.

Lemma DS_estep c o : dedup_stamped c -> dedup_stamped (estep c o).
Proof.
  intros H. destruct o as [e|e| | |e|e k|e|]; cbn [estep].
  - apply DS_process. exact H.
  - unfold committed. apply (DS_put (set_core c _)). exact H.
  - unfold merge_pending. destruct (k_pending (kc c)); exact H.
  - exact H.
  - unfold sent. cbv zeta. eapply DS_same; [|apply (DS_put c (e_id e) PS_CREATED (k_epoch (ensure_secret (kc c))) (Some (e_msg e))); exact H].
    reflexivity.
  - unfold sent_as. cbv zeta. eapply DS_same; [|apply (DS_put c (e_id e) PS_CREATED (k_epoch (ensure_secret (kc c))) (Some k)); exact H].
    reflexivity.
  - unfold leave_created. apply (DS_put (set_core c _)). exact H.
  - exact H.
Qed.

Lemma DS_erun ops : forall c, dedup_stamped c -> dedup_stamped (erun c ops).
Proof.
  induction ops as [|o ops IH]; intros c H; [exact H|].
  unfold erun. cbn [fold_left]. apply IH. apply DS_estep. exact H.
Qed.

Lemma record_stamped_reachable : forall i a r ops e, record_stamped (erun (init_client i a r) ops) e.
Proof.
  intros i a r ops e x Hx. apply (DS_erun ops (init_client i a r)) with (id := e_id e); [|exact Hx].
  intros id y Hy. discriminate.
Qed.

(* ================================================================ the original statements of (2) and (3) are false: counterexamples *)
(* (2) without `record_stamped`: an (unreachable) record PS_RETRY without epoch stamp but with a message *)
Definition x2_K1 : core := mkCore 0 1 1 true None [] [(1,0)] [] 0 None [].
Definition x2_K2 : core := mkCore 55 2 2 true None [] [(2,55)] [] 0 None [].
Definition x2_K3 : core := mkCore 0 3 3 true None [] [(3,0)] [] 0 None [].
Definition x2_c : client :=
  mkClient 1 false 5 x2_K3 [(40, mkD PS_RETRY None true (Some 7))] [(7, mkM MS_CREATED 3 40 7)]
           [mkSnap 1 5 100 x2_K1; mkSnap 2 5 100 x2_K2] 0.
Definition x2_e : event := mkEvent 40 1 100 5 1 0 1 true 0 7 [] [] 0.
Definition x2_ops : list eop := [ODeliver (cmt 50 50 5 2 0 2 false); ODeliver x2_e; ODeliver (cmt 60 50 5 2 55 1 false)].

Lemma own_message_unstamped_counterexample : exists c e ops, Inv c /\ queue_wf c /\
  e_kind e = 1 /\ e_author e = me c /\ snd (deliver c e) = RApp /\ Forall (later_ok e) ops /\
  let c' := erun (fst (deliver c e)) ops in proj (fst (deliver c' e)) <> proj c'.
Proof.
  exists x2_c, x2_e, x2_ops. split; [|split; [|split; [|split; [|split; [|split]]]]].
  - split; [intros _; reflexivity|]. repeat constructor.
  - split; [|cbn; repeat split; repeat constructor]. repeat constructor.
  - reflexivity.
  - reflexivity.
  - vm_compute. reflexivity.
  - repeat constructor; cbn [later_ok]; try (intros _; reflexivity); intros H; vm_compute in H; discriminate H.
  - vm_compute. discriminate.
Qed.

(* (3) without `not_yet_committed`: the delivery that "returned RCommit at epoch e_epoch + 1" was the acknowledgement (late arm)
   of a ProcessedCommit record that an OWN commit with the same event number had left; the commit was never applied, and
   after a rollback to its epoch it is. *)
Definition x3_c : client :=
  erun (init_client 1 false 5) [OCommitted (cmt 10 9 5 1 0 1 true); OClear; ODeliver (cmt 20 100 5 2 0 1 true)].
Definition x3_e : event := cmt 10 200 5 3 0 1 true.
Definition x3_ops : list eop := [ODeliver (cmt 30 50 5 4 0 1 false)].

Lemma applied_commit_acknowledged_counterexample : exists c e ops, Inv c /\ queue_wf c /\
  e_kind e = 0 /\ e_author e <> me c /\ snd (deliver c e) = RCommit /\ e_ts e <> 0 /\
  k_epoch (kc (fst (deliver c e))) = e_epoch e + 1 /\ Forall (later_ok e) ops /\
  let c' := erun (fst (deliver c e)) ops in proj (fst (deliver c' e)) <> proj c'.
Proof.
  exists x3_c, x3_e, x3_ops. split; [|split; [|split; [|split; [|split; [|split; [|split; [|split]]]]]]].
  - apply inv_erun. apply inv_init.
  - apply queue_wf_erun. apply queue_wf_init.
  - reflexivity.
  - vm_compute. discriminate.
  - vm_compute. reflexivity.
  - vm_compute. discriminate.
  - vm_compute. reflexivity.
  - repeat constructor. cbn [later_ok]. intros H. vm_compute in H. discriminate H.
  - vm_compute. discriminate.
Qed.

(* ================================================================ witnesses of the known finding classes *)
(* (the former witness `late_proposal_refuted` - a queued leave proposal offered again after a commit of its epoch with a
   later timestamp rolled the client back - is gone: since the repair only commits are MIP-03 candidates.  The positive
   statements that replace it are at the end of Mdk/EngineProofs5.v.) *)
(* own commit A created and cleared, its echo acknowledged; own commit B created: the echo of A offered again merges B *)
Definition oe_A : event := cmt 10 100 5 1 0 1 true.
Definition oe_B : event := mkEvent 20 0 110 6 1 0 1 true 7 0 [] [] 0.

Lemma own_echo_other_pending_refuted : exists i a r ops e,
  let c := erun (init_client i a r) ops in
  e_kind e = 0 /\ e_author e = i /\ In (ODeliver e) ops /\ proj (fst (deliver c e)) <> proj c.
Proof.
  exists 1, false, 5, [OCommitted oe_A; OClear; ODeliver oe_A; OCommitted oe_B], oe_A. cbv zeta.
  split; [reflexivity|]. split; [reflexivity|]. split; [right; right; left; reflexivity|]. vm_compute. discriminate.
Qed.

(* own commit X pending; foreign commit Y applied (the snapshot captures pending X); echo of X acknowledged; a better but
   unauthorised foreign commit Z rolls the client back and is refused: X is pending again, and its echo now merges it *)
Definition rp_X : event := cmt 10 9 5 1 0 1 true.
Definition rp_Y : event := cmt 20 5 5 2 0 1 true.
Definition rp_Z : event := cmt 30 3 5 3 0 1 false.

Lemma resurrected_pending_refuted : exists i a r ops e,
  let c := erun (init_client i a r) ops in
  e_kind e = 0 /\ e_author e = i /\ In (OCommitted e) ops /\ In (ODeliver e) ops /\
  k_pending (kc c) = Some (commit_of e) /\ proj (fst (deliver c e)) <> proj c.
Proof.
  exists 1, false, 5, [OCommitted rp_X; ODeliver rp_Y; ODeliver rp_X; ODeliver rp_Z], rp_X. cbv zeta.
  split; [reflexivity|]. split; [reflexivity|]. split; [left; reflexivity|].
  split; [right; right; left; reflexivity|]. split; [vm_compute; reflexivity|]. vm_compute. discriminate.
Qed.
