(* Seventh batch of proofs about the engine model, exported to Props/C02.v: what rollbacks and commits leave alone in the
   message table, fork resolution keeps the current-epoch messages, repeated delivery leaves one copy. *)
From MDK Require Import Base.Prelude Base.AMap Mdk.Engine Mdk.EngineSpec Mdk.EngineProofs.

(* ================================================================ 1. a rollback keeps the messages of the target epoch and before *)
(* (local copies of EngineProofs3.inval_m / msgs_rollback / msgs_late: that file drags in the storage contract) *)
Definition rb_inval (ep : N) (kv : N * mrec) : N * mrec :=
  if ep <? m_epoch (snd kv) then (fst kv, mkM MS_INVALID (m_epoch (snd kv)) (m_wrapper (snd kv)) (m_created (snd kv))) else kv.

Lemma rb_msgs c ep s : msgs (rollback c ep s) = map (rb_inval ep) (msgs c).
Proof. reflexivity. Qed.

Lemma rb_inval_fst ep kv : fst (rb_inval ep kv) = fst kv.
Proof. unfold rb_inval. destruct (ep <? m_epoch (snd kv)); reflexivity. Qed.

Lemma rollback_keeps_earlier : forall c ep s m mr,
  aget N.eqb m (msgs c) = Some mr -> m_epoch mr <= ep -> aget N.eqb m (msgs (rollback c ep s)) = Some mr.
Proof.
  intros c ep s m mr Hg Hle.
  rewrite rb_msgs, (dget_map (rb_inval ep)) by apply rb_inval_fst. rewrite Hg.
  unfold rb_inval. cbn [fst snd]. destruct (N.ltb_spec ep (m_epoch mr)) as [L|L]; [lia|reflexivity].
Qed.

(* the converse direction, for completeness: a rollback neither creates nor re-keys a message *)
Lemma rollback_keys c ep s : map fst (msgs (rollback c ep s)) = map fst (msgs c).
Proof. rewrite rb_msgs. apply map_keys_same. apply rb_inval_fst. Qed.

(* ================================================================ 2. commits do not touch messages of their own epoch or earlier *)
(* The one path on which a kind-0 event rewrites a message: the receiver's OWN event number is on record as the wrapper of a
   message it created (Created / Retry record carrying Some m) - process.rs then confirms that message.  This cannot happen
   when event numbers determine the event (a commit is never the wrapper of an application message), but the model takes the
   event facts as inputs, so it has to be said. *)
Definition not_own_wrapper_of (c : client) (e : event) (m : N) : Prop :=
  e_author e = me c -> forall r, aget N.eqb (e_id e) (dedup c) = Some r -> d_msg r <> Some m.

Lemma foreign_not_own_wrapper c e m : e_author e <> me c -> not_own_wrapper_of c e m.
Proof. intros Hne E. contradiction. Qed.

Lemma unrecorded_not_own_wrapper c e m : aget N.eqb (e_id e) (dedup c) = None -> not_own_wrapper_of c e m.
Proof. intros Hn _ r Hr. rewrite Hn in Hr. discriminate. Qed.

Lemma msgs_late7 c e r : msgs (fst (late c e r)) = msgs c.
Proof.
  unfold late. destruct (dget (e_id e) (dedup c)) as [d|]; [|reflexivity].
  destruct (d_state d =? PS_COMMIT); reflexivity.
Qed.

(* a rollback rewrites record states only: the message a record names is unchanged *)
Lemma rollback_dedup_msg c ep s id r :
  dget id (dedup (rollback c ep s)) = Some r -> exists r0, dget id (dedup c) = Some r0 /\ d_msg r = d_msg r0.
Proof.
  intros H. unfold rollback in H. cbv zeta in H.
  cbn [dedup bump_rb set_dedup set_msgs set_core set_queue] in H.
  apply dget_map_inv in H.
  2:{ intros kv. cbv zeta. match goal with |- fst (if ?b then _ else _) = _ => destruct b end; reflexivity. }
  destruct H as (r1 & H & E1).
  apply dget_map_inv in H.
  2:{ intros kv. cbv zeta. match goal with |- fst (if ?b then _ else _) = _ => destruct b end; reflexivity. }
  destruct H as (r0 & H & E0).
  exists r0. split; [exact H|].
  cbv zeta in E0, E1. cbn [fst snd] in E0, E1.
  match type of E1 with (if ?b then _ else _) = _ => destruct b end;
  match type of E0 with (if ?b then _ else _) = _ => destruct b end;
  injection E1 as <-; injection E0 as <-; reflexivity.
Qed.

Lemma not_own_wrapper_rollback c e m ep s : not_own_wrapper_of c e m -> not_own_wrapper_of (rollback c ep s) e m.
Proof.
  intros Hw E r Hr. change (me (rollback c ep s)) with (me c) in E.
  destruct (rollback_dedup_msg _ _ _ _ _ Hr) as (r0 & H0 & Em). rewrite Em. exact (Hw E r0 H0).
Qed.

Lemma here_commit_keeps c e r m mr :
  e_kind e = 0 -> not_own_wrapper_of c e m -> dget m (msgs c) = Some mr ->
  dget m (msgs (fst (here c e r))) = Some mr.
Proof.
  intros K0 Hw Hg. unfold here.
  destruct (N.eqb_spec (e_author e) (me c)) as [E|E].
  - unfold own_here.
    destruct (if e_kind e =? 0 then k_pending (kc c) else None) as [cm|]; [rewrite nodup_msgs_apply_commit; exact Hg|].
    destruct (dget (e_id e) (dedup c)) as [d|] eqn:Hd; [|exact Hg].
    destruct ((d_state d =? PS_CREATED) || (d_state d =? PS_RETRY)).
    + destruct (d_msg d) as [m'|] eqn:Hm; [|exact Hg].
      destruct (dget m' (msgs c)) as [mr'|]; [|exact Hg].
      cbn [fst put_dedup set_dedup set_msgs msgs].
      rewrite dget_aset_other; [exact Hg|].
      intros Em. subst m'. exact (Hw E d Hd Hm).
    + destruct (d_state d =? PS_COMMIT); exact Hg.
  - rewrite K0. change (0 =? 1) with false. change (0 =? 2) with false. cbv iota.
    unfold commit_here. destruct (negb (forallb _ (e_refs e))); [exact Hg|].
    destruct (negb (e_auth e) || (e_bad e =? 8)); [exact Hg|]. rewrite nodup_msgs_apply_commit. exact Hg.
Qed.

Lemma commit_keeps_earlier_fuel f : forall c e m mr,
  e_kind e = 0 -> not_own_wrapper_of c e m -> dget m (msgs c) = Some mr -> m_epoch mr <= e_epoch e ->
  dget m (msgs (fst (process f c e))) = Some mr.
Proof.
  induction f as [|f IH]; intros c e m mr K0 Hw Hg Hle; rewrite process_unfold.
  all: destruct (blockedb c e); [exact Hg|].
  all: destruct ((e_kind e =? 3) && (e_bad e <? 2)); [exact Hg|].
  all: destruct ((e_kind e =? 3) && (e_bad e =? 2)); [exact Hg|].
  all: destruct (negb (k_active (kc c))); [exact Hg|].
  all: cbv zeta.
  all: destruct ((e_kind e =? 3) || negb (outer_opens (kc (ens c)) (e_state e))); [exact Hg|].
  all: destruct (wrong_epoch (kc (ens c)) e); [|apply here_commit_keeps; [exact K0|exact Hw|exact Hg]].
  all: destruct (is_commit_kind e && is_better (ens c) (e_epoch e) (e_ts e) (e_key e)); [|rewrite msgs_late7; exact Hg].
  all: destruct (find_snap (e_epoch e) (queue (ens c))) as [s|] eqn:Es; [|exact Hg].
  - exact Hg.
  - apply IH; [exact K0| |apply rollback_keeps_earlier; [exact Hg|exact Hle]|exact Hle].
    apply not_own_wrapper_rollback. exact Hw.
Qed.

(* STATEMENT CHANGE: hypothesis not_own_wrapper_of added (see the counterexample below) *)
Lemma commit_touches_no_earlier_message : forall c e m mr,
  e_kind e = 0 -> not_own_wrapper_of c e m ->
  aget N.eqb m (msgs c) = Some mr -> m_epoch mr <= e_epoch e ->
  aget N.eqb m (msgs (fst (deliver c e))) = Some mr.
Proof. intros c e m mr. apply commit_keeps_earlier_fuel. Qed.

(* the two usual ways to discharge it: the commit is someone else's, or its event number has never been recorded *)
Lemma foreign_commit_touches_no_earlier_message : forall c e m mr,
  e_kind e = 0 -> e_author e <> me c ->
  aget N.eqb m (msgs c) = Some mr -> m_epoch mr <= e_epoch e ->
  aget N.eqb m (msgs (fst (deliver c e))) = Some mr.
Proof. intros c e m mr K0 Hne. apply commit_touches_no_earlier_message; [exact K0|apply foreign_not_own_wrapper; exact Hne]. Qed.

(* counterexample to the statement without the hypothesis: client 1 sends message 9 in wrapper event 7 (Created); an event
   with the SAME number 7, authored by client 1, but of kind 0, comes back: the own-echo path confirms message 9
   (Created -> Processed), although the event is "a commit" of the message's own epoch *)
Definition cx_sent : event := mkEvent 7 1 10 10 1 0 1 true 0 9 [] [] 0.
Definition cx_commit : event := mkEvent 7 0 10 10 1 0 1 true 0 9 [] [] 0.
Definition cx_client : client := sent (init_client 1 false 5) cx_sent.

(* before / after: Some (Created, epoch 1, wrapper 7) / Some (Processed, epoch 1, wrapper 7) *)
Eval vm_compute in (aget N.eqb 9 (msgs cx_client), aget N.eqb 9 (msgs (fst (deliver cx_client cx_commit)))).

Lemma commit_statement_counterexample :
  e_kind cx_commit = 0 /\
  aget N.eqb 9 (msgs cx_client) = Some (mkM MS_CREATED 1 7 9) /\ m_epoch (mkM MS_CREATED 1 7 9) <= e_epoch cx_commit /\
  aget N.eqb 9 (msgs (fst (deliver cx_client cx_commit))) = Some (mkM MS_PROCESSED 1 7 9) /\
  ~ not_own_wrapper_of cx_client cx_commit 9.
Proof.
  split; [reflexivity|]. split; [vm_compute; reflexivity|]. split; [vm_compute; discriminate|]. split; [vm_compute; reflexivity|].
  intros H. refine (H eq_refl (mkD PS_CREATED (Some 1) true (Some 9)) _ eq_refl). vm_compute. reflexivity.
Qed.

(* ================================================================ 3. fork resolution keeps the messages of the forked epoch *)
Lemma me_apply_commit c e cm : me (fst (apply_commit c e cm)) = me c.
Proof. unfold apply_commit. destruct (evicted_by c (snd cm)); reflexivity. Qed.

Lemma me_late c e r : me (fst (late c e r)) = me c.
Proof.
  unfold late. destruct (dget (e_id e) (dedup c)) as [d|]; [|reflexivity].
  destruct (d_state d =? PS_COMMIT); reflexivity.
Qed.

Lemma me_here c e r : me (fst (here c e r)) = me c.
Proof.
  unfold here.
  destruct (e_author e =? me c).
  - unfold own_here.
    destruct (if e_kind e =? 0 then k_pending (kc c) else None) as [cm|]; [apply me_apply_commit|].
    destruct (dget (e_id e) (dedup c)) as [d|]; [|reflexivity].
    destruct ((d_state d =? PS_CREATED) || (d_state d =? PS_RETRY)).
    + destruct (d_msg d) as [m|]; [|reflexivity]. destruct (dget m (msgs c)); reflexivity.
    + destruct (d_state d =? PS_COMMIT); reflexivity.
  - destruct (e_kind e =? 1).
    + unfold app_here. destruct (negb _ || existsb (N.eqb (e_msg e)) (k_seen (kc c)) || (e_bad e =? 7)); reflexivity.
    + destruct (e_kind e =? 2).
      * unfold leave_here. destruct (existsb (N.eqb (100000 + e_id e)) (k_seen (kc c))); [reflexivity|].
        destruct (is_admin c && _); reflexivity.
      * unfold commit_here. destruct (negb (forallb _ (e_refs e))); [reflexivity|].
        destruct (negb (e_auth e) || (e_bad e =? 8)); [destruct (negb (e_auth e)); reflexivity|apply me_apply_commit].
Qed.

Lemma me_process f : forall c e, me (fst (process f c e)) = me c.
Proof.
  induction f as [|f IH]; intros c e; rewrite process_unfold.
  all: destruct (blockedb c e); [reflexivity|].
  all: destruct ((e_kind e =? 3) && (e_bad e <? 2)); [reflexivity|].
  all: destruct ((e_kind e =? 3) && (e_bad e =? 2)); [reflexivity|].
  all: destruct (negb (k_active (kc c))); [reflexivity|].
  all: cbv zeta.
  all: destruct ((e_kind e =? 3) || negb (outer_opens (kc (ens c)) (e_state e))); [reflexivity|].
  all: destruct (wrong_epoch (kc (ens c)) e); [|rewrite me_here; reflexivity].
  all: destruct (is_commit_kind e && is_better (ens c) (e_epoch e) (e_ts e) (e_key e)); [|rewrite me_late; reflexivity].
  all: destruct (find_snap (e_epoch e) (queue (ens c))) as [s|] eqn:Es; [|reflexivity].
  - reflexivity.
  - rewrite IH. reflexivity.
Qed.

Lemma me_deliver c e : me (fst (deliver c e)) = me c.
Proof. apply me_process. Qed.

(* any sequence of foreign commits of epoch >= ep keeps every message of epoch <= ep *)
Lemma foreign_commits_keep_earlier ds : forall c ep m mr,
  (forall e, In e ds -> e_kind e = 0 /\ e_author e <> me c /\ ep <= e_epoch e) ->
  aget N.eqb m (msgs c) = Some mr -> m_epoch mr <= ep ->
  aget N.eqb m (msgs (deliver_all c ds)) = Some mr.
Proof.
  induction ds as [|e ds IH]; intros c ep m mr Hds Hg Hle; [exact Hg|].
  unfold deliver_all. cbn [fold_left]. fold (deliver_all (fst (deliver c e)) ds).
  destruct (Hds e (or_introl eq_refl)) as (K0 & Hne & Hep).
  apply (IH _ ep).
  - intros e' He'. rewrite me_deliver. apply Hds. right. exact He'.
  - apply foreign_commit_touches_no_earlier_message; [exact K0|exact Hne|exact Hg|lia].
  - exact Hle.
Qed.

Lemma fork_preserves_current_messages : forall c K ds m mr,
  fork_ready c -> fork_set c K -> (forall e, In e ds -> In e K) ->
  aget N.eqb m (msgs c) = Some mr -> m_epoch mr <= k_epoch (kc c) ->
  aget N.eqb m (msgs (deliver_all c ds)) = Some mr.
Proof.
  intros c K ds m mr _ (_ & HK & _) Hsub Hg Hle.
  apply (foreign_commits_keep_earlier ds c (k_epoch (kc c))); [|exact Hg|exact Hle].
  intros e He. rewrite Forall_forall in HK.
  destruct (HK e (Hsub e He)) as (K0 & _ & Hep & Hne & _).
  split; [exact K0|]. split; [exact Hne|]. rewrite Hep. lia.
Qed.

(* ================================================================ 4. repeated delivery: one copy, in the state the first delivery left *)
Lemma proj_msgs c c' : proj c = proj c' -> msgs c = msgs c'.
Proof. unfold proj. intros H. injection H as _ _ _ _ _ _ _ _ H _. exact H. Qed.

Lemma repeated_delivery_one_copy : forall c e n,
  Inv c -> (forall s, In s (queue c) -> sn_epoch s <> k_epoch (kc c)) ->
  snd (deliver c e) = RApp -> e_author e <> me c -> NoDup (map fst (msgs c)) ->
  let c' := deliver_all c (repeat e (S n)) in
  msgs c' = msgs (fst (deliver c e)) /\
  length (filter (fun kv => fst kv =? e_msg e) (msgs c')) = 1%nat.
Proof.
  intros c e n HI Hq Hrk Hne Hnd c'.
  assert (msgs c' = msgs (fst (deliver c e))) as E.
  { unfold c', deliver_all. cbn [repeat fold_left]. fold (deliver_all (fst (deliver c e)) (repeat e n)).
    apply proj_msgs. apply redelivery_idempotent_n; [exact HI|exact Hq]. }
  split; [exact E|]. rewrite E.
  destruct (app_stored_once c e Hrk Hne Hnd) as (mr & _ & _ & H). exact H.
Qed.
