(* Executable model of one MDK client's message-processing engine for one group, mirroring
   crates/mdk-core/src/messages/{process,error_handling,commit,application,proposal,decryption,create}.rs,
   epoch_snapshots.rs and the parts of groups.rs they call (merge/clear pending commit, exporter secrets,
   record synchronisation).  OpenMLS is replaced by a symbolic oracle:
     - an MLS group state is named by the commit that produced it (`sid`: 0 = the state all members joined at);
     - the outer NIP-44 layer opens iff the receiver holds the exporter secret of the event's state (current state, or one
       of the stored secrets of the previous DEFAULT_EPOCH_LOOKBACK epochs);
     - `process_message` reports WrongEpoch for a handshake message whose epoch differs from the current one and for an
       application message from a future epoch; own messages cannot be decrypted; past-epoch application messages need the
       retained message secrets (max_past_epochs).
   Event facts (author, parent state, epochs, timestamps, id order keys, authorisation class) are inputs. *)
From MDK Require Import Base.Prelude Base.AMap.

Definition LOOKBACK : N := 5.        (* DEFAULT_EPOCH_LOOKBACK *)
Definition MAX_PAST : N := 5.        (* MdkConfig::max_past_epochs default *)

(* processed-message states / message states (numbers as in the storage traits) *)
Definition PS_CREATED : N := 0.  Definition PS_PROCESSED : N := 1.  Definition PS_COMMIT : N := 2.
Definition PS_FAILED : N := 3.   Definition PS_INVALID : N := 4.    Definition PS_RETRY : N := 5.
Definition MS_CREATED : N := 0.  Definition MS_PROCESSED : N := 1.  Definition MS_INVALID : N := 3.

(* result kinds *)
Inductive rk := RApp | RCommit | RPending | RAuto | RIgnored | RUnproc | RPrevFailed | RErr | ROk.

Record event := mkEvent {
  e_id : N;          (* event number (dedup key) *)
  e_kind : N;        (* 0 commit, 1 application message, 2 leave proposal, 3 hostile / malformed *)
  e_ts : N;          (* wrapper created_at *)
  e_key : N;         (* order key of the wrapper event id (MIP-03 tie-break) *)
  e_author : N;
  e_state : N;       (* sid of the state it was created in (commit: the parent) *)
  e_epoch : N;       (* MLS epoch of that state *)
  e_auth : bool;     (* commit: author is an admin there, or the commit is a pure self-update *)
  e_data : N;        (* commit: new group-data version (0 = unchanged) *)
  e_msg : N;         (* application message: rumor id number *)
  e_removes : list N;(* commit: members removed *)
  e_refs : list N;   (* commit: pending proposals (event numbers) it commits by reference *)
  e_bad : N }.       (* hostile: 0 wrong kind/timestamp/h-tag (refused before the group is looked up, group extractable),
                                  1 the same but no group extractable, 2 unknown group, 3 undecryptable content *)

Record drec := mkD { d_state : N; d_epoch : option N; d_group : bool; d_msg : option N }.
Record mrec := mkM { m_state : N; m_epoch : N; m_wrapper : N; m_created : N }.

(* what a storage snapshot of the group captures (MLS rows, group record, per-epoch exporter secrets) *)
Record core := mkCore {
  k_cur : N; k_epoch : N;               (* MLS state and its epoch *)
  k_rec_epoch : N;                      (* epoch field of the stored group record *)
  k_active : bool;                      (* record state Active *)
  k_pending : option (N * N * list N);  (* own pending commit in the MLS group state: (event number, data, removes) *)
  k_props : list N;                     (* pending proposals (event numbers) *)
  k_secrets : list (N * N);             (* stored exporter secrets: epoch -> sid *)
  k_past : list (N * N);                (* retained past-epoch message secrets: epoch -> sid, newest first *)
  k_data : N;                           (* group-data version in the MLS state / mirrored into the record *)
  k_last : option (N * N);              (* last-message pointer of the record: (created_at, message number) *)
  k_seen : list N }.                    (* application messages whose ratchet key was consumed (part of the MLS state) *)

Definition with_rec_epoch k x := mkCore (k_cur k) (k_epoch k) x (k_active k) (k_pending k) (k_props k) (k_secrets k) (k_past k) (k_data k) (k_last k) (k_seen k).
Definition with_pending k x := mkCore (k_cur k) (k_epoch k) (k_rec_epoch k) (k_active k) x (k_props k) (k_secrets k) (k_past k) (k_data k) (k_last k) (k_seen k).
Definition with_props k x := mkCore (k_cur k) (k_epoch k) (k_rec_epoch k) (k_active k) (k_pending k) x (k_secrets k) (k_past k) (k_data k) (k_last k) (k_seen k).
Definition with_secrets k x := mkCore (k_cur k) (k_epoch k) (k_rec_epoch k) (k_active k) (k_pending k) (k_props k) x (k_past k) (k_data k) (k_last k) (k_seen k).
Definition with_last k x := mkCore (k_cur k) (k_epoch k) (k_rec_epoch k) (k_active k) (k_pending k) (k_props k) (k_secrets k) (k_past k) (k_data k) x (k_seen k).
Definition with_seen k x := mkCore (k_cur k) (k_epoch k) (k_rec_epoch k) (k_active k) (k_pending k) (k_props k) (k_secrets k) (k_past k) (k_data k) (k_last k) x.

Record snap := mkSnap { sn_epoch : N; sn_key : N; sn_ts : N; sn_core : core }.

Record client := mkClient {
  me : N; is_admin : bool; retention : N;
  kc : core;
  dedup : list (N * drec);
  msgs : list (N * mrec);
  queue : list snap;
  rollbacks : N }.

Definition set_core c k := mkClient (me c) (is_admin c) (retention c) k (dedup c) (msgs c) (queue c) (rollbacks c).
Definition set_dedup c d := mkClient (me c) (is_admin c) (retention c) (kc c) d (msgs c) (queue c) (rollbacks c).
Definition set_msgs c m := mkClient (me c) (is_admin c) (retention c) (kc c) (dedup c) m (queue c) (rollbacks c).
Definition set_queue c q := mkClient (me c) (is_admin c) (retention c) (kc c) (dedup c) (msgs c) q (rollbacks c).
Definition bump_rb c := mkClient (me c) (is_admin c) (retention c) (kc c) (dedup c) (msgs c) (queue c) (rollbacks c + 1).

Definition init_core : core := mkCore 0 1 1 true None [] [] [] 0 None [].
Definition init_client (i : N) (admin : bool) (ret : N) : client := mkClient i admin ret init_core [] [] [] 0.
(* a client that joins later through a welcome: it starts in the state the adding commit produced, holding nothing older *)
Definition join_core (cur ep data : N) : core := mkCore cur ep ep true None [] [] [] data None [].
Definition join_client (i : N) (admin : bool) (ret cur ep data : N) : client := mkClient i admin ret (join_core cur ep data) [] [] [] 0.

Notation dget := (aget N.eqb).

(* ---------------------------------------------------------------- exporter secrets (groups.rs exporter_secret) *)
Definition ensure_secret (k : core) : core :=
  match dget (k_epoch k) (k_secrets k) with
  | Some _ => k
  | None => with_secrets k (aset N.eqb (k_epoch k) (k_cur k) (k_secrets k))
  end.

(* decryption.rs: current secret first, then the stored secrets of the LOOKBACK previous epochs *)
Definition outer_opens (k : core) (st : N) : bool :=
  (match dget (k_epoch k) (k_secrets k) with Some s => s =? st | None => false end) ||
  existsb (fun es => (fst es <? k_epoch k) && (k_epoch k <=? fst es + LOOKBACK) && (snd es =? st)) (k_secrets k).

(* ---------------------------------------------------------------- records *)
Definition record_failure (c : client) (id : N) (grp : bool) (ep : option N) : client :=
  let old := dget id (dedup c) in
  let msg := match old with Some r => d_msg r | None => None end in
  let ep' := match ep with Some e => Some e | None => match old with Some r => d_epoch r | None => None end end in
  let grp' := grp || match old with Some r => d_group r | None => false end in
  set_dedup c (aset N.eqb id (mkD PS_FAILED ep' grp' msg) (dedup c)).

Definition put_dedup (c : client) (id st : N) (ep : option N) (msg : option N) : client :=
  set_dedup c (aset N.eqb id (mkD st ep true msg) (dedup c)).

(* groups/types.rs update_last_message_if_newer, restricted to what the model tracks: (created_at, id) *)
Definition newer (a b : N * N) : bool := (fst b <? fst a) || ((fst a =? fst b) && (snd b <? snd a)).
Definition upd_last (k : core) (created msg : N) : core :=
  let better := match k_last k with None => true | Some l => newer (created, msg) l end in
  if better then with_last k (Some (created, msg)) else k.

(* ---------------------------------------------------------------- epoch snapshots (epoch_snapshots.rs) *)
Fixpoint drop_front {A} (n : nat) (l : list A) : list A := match n with O => l | S n' => match l with [] => [] | _ :: r => drop_front n' r end end.
Definition prune (ret : N) (q : list snap) : list snap :=
  if lenN q <=? ret then q else drop_front (N.to_nat (lenN q - ret)) q.

Definition take_snapshot (c : client) (e : event) : client :=
  set_queue c (prune (retention c) (queue c ++ [mkSnap (k_epoch (kc c)) (e_key e) (e_ts e) (kc c)])).

Definition find_snap (ep : N) (q : list snap) : option snap := find (fun s => sn_epoch s =? ep) q.

Definition is_better (c : client) (ep ts key : N) : bool :=
  match find_snap ep (queue c) with
  | Some s => if sn_ts s =? 0 then false else (ts <? sn_ts s) || ((ts =? sn_ts s) && (key <? sn_key s))
  | None => false
  end.

Fixpoint take_until (ep : N) (q : list snap) : list snap :=
  match q with [] => [] | s :: r => if sn_epoch s =? ep then [] else s :: take_until ep r end.

(* error_handling.rs: rollback, invalidate, mark retryable *)
Definition rollback (c : client) (ep : N) (s : snap) : client :=
  let c1 := set_core (set_queue c (take_until ep (queue c))) (sn_core s) in
  let c2 := set_msgs c1 (map (fun kv => if ep <? m_epoch (snd kv) then (fst kv, mkM MS_INVALID (m_epoch (snd kv)) (m_wrapper (snd kv)) (m_created (snd kv))) else kv) (msgs c1)) in
  let c3 := set_dedup c2 (map (fun kv => let r := snd kv in
              if d_group r && (match d_epoch r with Some x => ep <? x | None => false end) then (fst kv, mkD PS_INVALID (d_epoch r) (d_group r) (d_msg r)) else kv) (dedup c2)) in
  let c4 := set_dedup c3 (map (fun kv => let r := snd kv in
              if d_group r && (d_state r =? PS_FAILED) && (match d_epoch r with None => true | Some _ => false end)
              then (fst kv, mkD PS_RETRY (d_epoch r) (d_group r) (d_msg r)) else kv) (dedup c3)) in
  bump_rb c4.

(* ---------------------------------------------------------------- applying a commit *)
Definition push_past (k : core) : list (N * N) := firstn (N.to_nat MAX_PAST) ((k_epoch k, k_cur k) :: k_past k).

(* MLS merge of a commit (id, data, removes) - staged or pending - and sync of the record; the exporter secret of the new
   epoch is saved if `save` *)
Definition evicted_by (c : client) (removes : list N) : bool := existsb (N.eqb (me c)) removes.

Definition advance (k : core) (cm : N * N * list N) (save : bool) (evicted : bool) : core :=
  let '(id, data, _) := cm in
  let k1 := mkCore (id + 1) (k_epoch k + 1)
                   (if evicted then k_rec_epoch k else k_epoch k + 1)
                   (if evicted then false else k_active k) None (if evicted then k_props k else []) (k_secrets k) (push_past k)
                   (if evicted then k_data k else if data =? 0 then k_data k else data) (k_last k) (k_seen k) in
  if save && negb evicted then ensure_secret k1 else k1.

Definition commit_of (e : event) : N * N * list N := (e_id e, e_data e, e_removes e).

(* commit.rs process_commit (after OpenMLS accepted the commit `cm`) and the OwnCommitPending branch of process.rs:
   the snapshot and the dedup record are those of the DELIVERED event `e`; the commit merged is `cm` (for an own echo:
   whatever commit is pending - which need not be the one the echo carries) *)
(* the MLS content type of the event is Commit (kinds: 0 commit, 1 application message, 2 proposal, 3 hostile wrapper) *)
(* proposal.rs process_proposal, Remove arm: a Remove proposal is the proposer's own request to leave iff the leaf it removes
   is the proposer's (`e_removes` of a proposal event: the members it names; a leave created through MDK names nobody else -
   the harness leaves the list empty for it - and a Remove proposal built directly with the MLS library names its victim) *)
Definition self_remove (e : event) : bool := forallb (N.eqb (e_author e)) (e_removes e).

Definition is_commit_kind (e : event) : bool := negb (e_kind e =? 1) && negb (e_kind e =? 2).

Definition apply_commit (c : client) (e : event) (cm : N * N * list N) : client * rk :=
  let c1 := take_snapshot c e in
  let ev := evicted_by c (snd cm) in
  let k' := advance (kc c1) cm true ev in
  let c2 := set_core c1 k' in
  if ev then (put_dedup c2 (e_id e) PS_PROCESSED (Some (k_rec_epoch (kc c))) None, RCommit)
  else (put_dedup c2 (e_id e) PS_COMMIT (Some (k_epoch k')) None, RCommit).

(* ---------------------------------------------------------------- process_message *)
Definition fail_unprocessable (c : client) (e : event) (rec_epoch : N) : client * rk :=
  (record_failure c (e_id e) true (Some rec_epoch), RUnproc).

(* one pass of process_message; `fuel` bounds the recursion after a rollback (one level is ever needed) *)
Fixpoint process (fuel : nat) (c : client) (e : event) : client * rk :=
  (* step 0: dedup *)
  let blocked := match dget (e_id e) (dedup c) with
                 | Some r => (d_state r =? PS_FAILED) || (d_state r =? PS_INVALID)
                 | None => false end in
  if blocked then (c, if (e_kind e =? 3) && ((e_bad e =? 1) || (e_bad e =? 2)) then RPrevFailed else RUnproc) else
  (* step 1: validate_event / extract_nostr_group_id *)
  if (e_kind e =? 3) && (e_bad e <? 2) then (record_failure c (e_id e) false None, RErr) else
  (* step 2: decrypt_message *)
  if (e_kind e =? 3) && (e_bad e =? 2) then (record_failure c (e_id e) false None, RErr) else
  let rec_epoch := k_rec_epoch (kc c) in
  (* an evicted member's MLS group can no longer export a secret: decrypt_message fails *)
  if negb (k_active (kc c)) then (record_failure c (e_id e) true None, RErr) else
  let c := set_core c (ensure_secret (kc c)) in
  if (e_kind e =? 3) || negb (outer_opens (kc c) (e_state e)) then (record_failure c (e_id e) true None, RErr) else
  let k := kc c in
  (* step 3: OpenMLS process_message *)
  let wrong_epoch := if e_kind e =? 1 then k_epoch k <? e_epoch e else negb (e_epoch e =? k_epoch k) in
  if wrong_epoch then
    (* error_handling.rs: ProcessMessageWrongEpoch; only a COMMIT is a MIP-03 candidate (fix: a late proposal or message
       never displaces the applied commit of its epoch) *)
    if is_commit_kind e && is_better c (e_epoch e) (e_ts e) (e_key e) then
      match find_snap (e_epoch e) (queue c), fuel with
      | Some s, S f => process f (rollback c (e_epoch e) s) e
      | _, _ => fail_unprocessable c e rec_epoch
      end
    else match dget (e_id e) (dedup c) with
         | Some r => if d_state r =? PS_COMMIT
                     then (set_core c (with_rec_epoch k (k_epoch k)), RCommit)
                     else fail_unprocessable c e rec_epoch
         | None => fail_unprocessable c e rec_epoch
         end
  else if e_author e =? me c then
    (* CannotDecryptOwnMessage / OwnCommitPending *)
    match (if e_kind e =? 0 then k_pending k else None) with
    | Some cm => apply_commit c e cm
    | None =>
         match dget (e_id e) (dedup c) with
         | None => (c, RErr)
         | Some r =>
           if (d_state r =? PS_CREATED) || (d_state r =? PS_RETRY) then
             match d_msg r with
             | Some m => match dget m (msgs c) with
                         | Some mr => (put_dedup (set_msgs c (aset N.eqb m (mkM MS_PROCESSED (m_epoch mr) (m_wrapper mr) (m_created mr)) (msgs c)))
                                                 (e_id e) PS_PROCESSED (d_epoch r) (Some m), RApp)
                         | None => (c, if d_state r =? PS_CREATED then RErr else RUnproc)
                         end
             | None => (c, if d_state r =? PS_CREATED then RErr else RUnproc)
             end
           else if d_state r =? PS_COMMIT
           then (set_core c (with_rec_epoch k (k_epoch k)), RCommit)
           else (c, RUnproc)
         end
    end
  else if e_kind e =? 1 then
    (* application message from another member *)
    let readable := (e_epoch e =? k_epoch k) || existsb (fun es => (fst es =? e_epoch e) && (snd es =? e_state e)) (k_past k) in
    (* e_bad = 7: the rumor inside names an author other than the MLS-authenticated sender (verify_rumor_author) *)
    if negb readable || existsb (N.eqb (e_msg e)) (k_seen k) || (e_bad e =? 7) then fail_unprocessable c e rec_epoch else
    let c := set_core c (with_seen k (e_msg e :: k_seen k)) in
    let c1 := set_msgs c (aset N.eqb (e_msg e) (mkM MS_PROCESSED (k_epoch k) (e_id e) (e_msg e)) (msgs c)) in
    let c2 := put_dedup c1 (e_id e) PS_PROCESSED (Some (k_epoch k)) (Some (e_msg e)) in
    (set_core c2 (upd_last (kc c2) (e_msg e) (e_msg e)), RApp)
  else if e_kind e =? 2 then
    (* leave proposal: auto-commit by an admin receiver, else stored pending; a proposal whose ratchet key was already
       consumed (re-delivery in the same MLS state) cannot be decrypted again *)
    if existsb (N.eqb (100000 + e_id e)) (k_seen k) then fail_unprocessable c e rec_epoch else
    let k0 := with_seen (with_props k (k_props k ++ [e_id e])) ((100000 + e_id e) :: k_seen k) in
    (* an admin receiver auto-commits the leave - unless a commit of its own is already pending: then (since the fix) it
       keeps the proposal pending like any other receiver; a Remove proposal naming ANOTHER member is never auto-committed *)
    let auto := is_admin c && ((match k_pending k with Some _ => false | None => true end) && self_remove e) in
    let k1 := if auto then with_pending k0 (Some (1000 + e_id e * 8 + me c, 0, [e_author e])) else k0 in
    (put_dedup (set_core c k1) (e_id e) PS_PROCESSED (Some (k_epoch k)) None, if auto then RAuto else RPending)
  else
    (* commit from another member at the current epoch: OpenMLS needs every proposal committed by reference in the
       receiver's own proposal store *)
    if negb (forallb (fun p => existsb (N.eqb p) (k_props k)) (e_refs e)) then fail_unprocessable c e rec_epoch else
    (* validate_commit_authorization (CommitFromNonAdmin: Err), then validate_commit_identities (e_bad = 8: the commit changes a
       member's identity - IdentityChangeNotAllowed: Unprocessable); the failure record is the same *)
    if negb (e_auth e) || (e_bad e =? 8) then (record_failure c (e_id e) true (Some rec_epoch), if negb (e_auth e) then RErr else RUnproc)
    else apply_commit c e (commit_of e).

(* ---------------------------------------------------------------- local API calls *)
(* a commit was created locally (self_update, update_group_data, ...): pending commit + ProcessedCommit record *)
Definition committed (c : client) (e : event) : client :=
  let k := ensure_secret (kc c) in
  put_dedup (set_core c (with_pending k (Some (commit_of e)))) (e_id e) PS_COMMIT (Some (k_epoch k)) None.

(* MDK::merge_pending_commit: no snapshot, exporter secret not saved, record synchronised *)
Definition merge_pending (c : client) : client * rk :=
  match k_pending (kc c) with
  | Some cm => (set_core c (advance (kc c) cm false (evicted_by c (snd cm))), ROk)
  | None => (c, RErr)
  end.

Definition clear_pending (c : client) : client := set_core c (with_pending (kc c) None).

(* create_message: message + Created record, last pointer, exporter secret of the current epoch saved *)
Definition sent (c : client) (e : event) : client :=
  let k := ensure_secret (kc c) in
  let c1 := set_msgs (set_core c k) (aset N.eqb (e_msg e) (mkM MS_CREATED (k_epoch k) (e_id e) (e_msg e)) (msgs c)) in
  let c2 := put_dedup c1 (e_id e) PS_CREATED (Some (k_epoch k)) (Some (e_msg e)) in
  set_core c2 (upd_last (kc c2) (e_msg e) (e_msg e)).

(* create_message with a rumor whose id field was pre-set by the caller: the sender files its own copy under that id
   (`key`); created_at and the wrapper are those of the new message *)
Definition sent_as (c : client) (e : event) (key : N) : client :=
  let k := ensure_secret (kc c) in
  let c1 := set_msgs (set_core c k) (aset N.eqb key (mkM MS_CREATED (k_epoch k) (e_id e) (e_msg e)) (msgs c)) in
  let c2 := put_dedup c1 (e_id e) PS_CREATED (Some (k_epoch k)) (Some key) in
  set_core c2 (upd_last (kc c2) (e_msg e) key).

Definition leave_created (c : client) (e : event) : client :=
  let k := ensure_secret (kc c) in
  put_dedup (set_core c (with_props k (k_props k ++ [e_id e]))) (e_id e) PS_COMMIT (Some (k_epoch k)) None.

(* closing the library and reopening the same database (persistent backend): the group's stored state survives; the
   in-memory snapshot manager is rebuilt lazily from the stored snapshot names, whose commit timestamps are lost (0) *)
Definition restart (c : client) : client :=
  set_queue c (map (fun s => mkSnap (sn_epoch s) (sn_key s) 0 (sn_core s)) (queue c)).

(* the same with another configured retention: the snapshots stay stored until the manager is used again; the next snapshot
   taken (take_snapshot prunes to the client's retention) brings the number within the new limit *)
Definition restart_with (c : client) (ret : N) : client :=
  mkClient (me c) (is_admin c) ret (kc c) (dedup c) (msgs c) (queue (restart c)) (rollbacks c).

Definition deliver (c : client) (e : event) : client * rk := process 2 c e.
