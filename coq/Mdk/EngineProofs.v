(* Proofs about the engine model (Mdk/Engine.v), exported to Props/C01.v C02.v C06.v C07.v C08.v. *)
From MDK Require Import Base.Prelude Base.AMap Mdk.Engine Mdk.EngineSpec.

(* ================================================================ association-map facts (keys in N) *)
Section DMap.
  Context {V : Type}.
  Implicit Types (m : list (N * V)).

  Lemma dget_aset_same k (v : V) m : dget k (aset N.eqb k v m) = Some v.
  Proof.
    induction m as [|[k' v'] r IH]; cbn [aset aget].
    - rewrite N.eqb_refl. reflexivity.
    - destruct (N.eqb_spec k k') as [E|E]; cbn [aget].
      + rewrite N.eqb_refl. reflexivity.
      + destruct (N.eqb_spec k k') as [E'|_]; [contradiction|]. exact IH.
  Qed.

  Lemma dget_aset_other k k' (v : V) m : k' <> k -> dget k' (aset N.eqb k v m) = dget k' m.
  Proof.
    intros Hne. induction m as [|[k2 v2] r IH]; cbn [aset aget].
    - destruct (N.eqb_spec k' k) as [E|_]; [contradiction|reflexivity].
    - destruct (N.eqb_spec k k2) as [E|E]; cbn [aget].
      + subst k2. destruct (N.eqb_spec k' k) as [E'|_]; [contradiction|reflexivity].
      + destruct (k' =? k2); [reflexivity|exact IH].
  Qed.

  Lemma dget_In k (v : V) m : dget k m = Some v -> In (k, v) m.
  Proof.
    induction m as [|[k' v'] r IH]; cbn [aget]; [discriminate|].
    destruct (N.eqb_spec k k') as [E|E].
    - subst k'. intros [= ->]. left. reflexivity.
    - intros H. right. exact (IH H).
  Qed.

  Lemma aset_keys_in k k' (v : V) m : In k' (map fst (aset N.eqb k v m)) <-> k' = k \/ In k' (map fst m).
  Proof.
    induction m as [|[k2 v2] r IH]; cbn [aset map fst In].
    - split; [intros [H|[]]; left; symmetry; exact H | intros [H|[]]; left; symmetry; exact H].
    - destruct (N.eqb_spec k k2) as [E|E]; cbn [map fst In].
      + subst k2. split.
        * intros [H|H]; [left; symmetry; exact H|right; right; exact H].
        * intros [H|[H|H]]; [left; symmetry; exact H|left; exact H|right; exact H].
      + rewrite IH. split.
        * intros [H|[H|H]]; [right; left; exact H|left; exact H|right; right; exact H].
        * intros [H|[H|H]]; [right; left; exact H|left; exact H|right; right; exact H].
  Qed.

  Lemma aset_nodup k (v : V) m : NoDup (map fst m) -> NoDup (map fst (aset N.eqb k v m)).
  Proof.
    induction m as [|[k2 v2] r IH]; cbn [aset map fst]; intros Hnd.
    - constructor; [intros []|constructor].
    - inversion Hnd as [|? ? Hnotin Hnd']; subst.
      destruct (N.eqb_spec k k2) as [E|E]; cbn [map fst].
      + subst k2. constructor; assumption.
      + constructor; [|exact (IH Hnd')].
        rewrite aset_keys_in. intros [H|H]; [|exact (Hnotin H)]. congruence.
  Qed.

  Lemma filter_key_absent k m : ~ In k (map fst m) -> filter (fun kv => fst kv =? k) m = [].
  Proof.
    induction m as [|[k' v'] r IH]; cbn [filter map fst In]; intros Hn; [reflexivity|].
    destruct (N.eqb_spec k' k) as [E|E].
    - exfalso. apply Hn. left. exact E.
    - apply IH. intros H. apply Hn. right. exact H.
  Qed.

  Lemma aset_filter_one k (v : V) m :
    NoDup (map fst m) -> length (filter (fun kv => fst kv =? k) (aset N.eqb k v m)) = 1%nat.
  Proof.
    induction m as [|[k2 v2] r IH]; cbn [aset map fst]; intros Hnd.
    - cbn [filter fst]. rewrite N.eqb_refl. reflexivity.
    - inversion Hnd as [|? ? Hnotin Hnd']; subst.
      destruct (N.eqb_spec k k2) as [E|E].
      + subst k2. cbn [filter fst]. rewrite N.eqb_refl. cbn [length].
        rewrite (filter_key_absent k r Hnotin). reflexivity.
      + cbn [filter fst]. destruct (N.eqb_spec k2 k) as [E'|_]; [congruence|]. exact (IH Hnd').
  Qed.

  Lemma dget_map_inv (h : N * V -> N * V) k v m :
    (forall kv, fst (h kv) = fst kv) ->
    dget k (map h m) = Some v -> exists v0, dget k m = Some v0 /\ h (k, v0) = (k, v).
  Proof.
    intros Hh. induction m as [|[k' v'] r IH]; cbn [aget map]; [discriminate|].
    destruct (h (k', v')) as [k2 v2] eqn:Eh.
    assert (k2 = k') as -> by (specialize (Hh (k', v')); rewrite Eh in Hh; exact Hh).
    cbn [aget]. destruct (N.eqb_spec k k') as [E|E].
    - subst k'. intros [= ->]. exists v'. split; [reflexivity|exact Eh].
    - exact IH.
  Qed.

  Lemma dget_map (h : N * V -> N * V) k m :
    (forall kv, fst (h kv) = fst kv) ->
    dget k (map h m) = match dget k m with Some v => Some (snd (h (k, v))) | None => None end.
  Proof.
    intros Hh. induction m as [|[k' v'] r IH]; cbn [aget map]; [reflexivity|].
    destruct (h (k', v')) as [k2 v2] eqn:Eh.
    assert (k2 = k') as -> by (specialize (Hh (k', v')); rewrite Eh in Hh; exact Hh).
    cbn [aget]. destruct (N.eqb_spec k k') as [E|E].
    - subst k'. rewrite Eh. reflexivity.
    - exact IH.
  Qed.

  Lemma map_keys_same (h : N * V -> N * V) m : (forall kv, fst (h kv) = fst kv) -> map fst (map h m) = map fst m.
  Proof. intros Hh. rewrite map_map. apply map_ext. exact Hh. Qed.
End DMap.

(* ================================================================ a flat presentation of `process` *)
Definition blockedb (c : client) (e : event) : bool :=
  match dget (e_id e) (dedup c) with
  | Some r => (d_state r =? PS_FAILED) || (d_state r =? PS_INVALID)
  | None => false end.

Definition ens (c : client) : client := set_core c (ensure_secret (kc c)).

Definition wrong_epoch (k : core) (e : event) : bool :=
  if e_kind e =? 1 then k_epoch k <? e_epoch e else negb (e_epoch e =? k_epoch k).

Definition sync (c : client) : client := set_core c (with_rec_epoch (kc c) (k_epoch (kc c))).

Definition late (c : client) (e : event) (rec_epoch : N) : client * rk :=
  match dget (e_id e) (dedup c) with
  | Some r => if d_state r =? PS_COMMIT then (sync c, RCommit) else fail_unprocessable c e rec_epoch
  | None => fail_unprocessable c e rec_epoch
  end.

Definition own_here (c : client) (e : event) : client * rk :=
  let k := kc c in
  match (if e_kind e =? 0 then k_pending k else None) with
  | Some cm => apply_commit c e cm
  | None =>
       match dget (e_id e) (dedup c) with
       | None => (c, RErr)
       | Some r =>
         if (d_state r =? PS_CREATED) || (d_state r =? PS_RETRY) then
           match d_msg r with
           | Some m => match dget m (msgs c) with
                       | Some mr => (put_dedup (set_msgs c (aset N.eqb m (mkM MS_PROCESSED (m_epoch mr) (m_wrapper mr) (m_created mr)) (msgs c)))
                                               (e_id e) PS_PROCESSED (d_epoch r) (Some m), RApp)
                       | None => (c, if d_state r =? PS_CREATED then RErr else RUnproc)
                       end
           | None => (c, if d_state r =? PS_CREATED then RErr else RUnproc)
           end
         else if d_state r =? PS_COMMIT
         then (sync c, RCommit)
         else (c, RUnproc)
       end
  end.

Definition app_here (c : client) (e : event) (rec_epoch : N) : client * rk :=
  let k := kc c in
  let readable := (e_epoch e =? k_epoch k) || existsb (fun es => (fst es =? e_epoch e) && (snd es =? e_state e)) (k_past k) in
  if negb readable || existsb (N.eqb (e_msg e)) (k_seen k) || (e_bad e =? 7) then fail_unprocessable c e rec_epoch else
  let c := set_core c (with_seen k (e_msg e :: k_seen k)) in
  let c1 := set_msgs c (aset N.eqb (e_msg e) (mkM MS_PROCESSED (k_epoch k) (e_id e) (e_msg e)) (msgs c)) in
  let c2 := put_dedup c1 (e_id e) PS_PROCESSED (Some (k_epoch k)) (Some (e_msg e)) in
  (set_core c2 (upd_last (kc c2) (e_msg e) (e_msg e)), RApp).

Definition leave_here (c : client) (e : event) (rec_epoch : N) : client * rk :=
  let k := kc c in
  if existsb (N.eqb (100000 + e_id e)) (k_seen k) then fail_unprocessable c e rec_epoch else
  let k0 := with_seen (with_props k (k_props k ++ [e_id e])) ((100000 + e_id e) :: k_seen k) in
  let auto := is_admin c && ((match k_pending k with Some _ => false | None => true end) && self_remove e) in
  let k1 := if auto then with_pending k0 (Some (1000 + e_id e * 8 + me c, 0, [e_author e])) else k0 in
  (put_dedup (set_core c k1) (e_id e) PS_PROCESSED (Some (k_epoch k)) None, if auto then RAuto else RPending).

Definition commit_here (c : client) (e : event) (rec_epoch : N) : client * rk :=
  let k := kc c in
  if negb (forallb (fun p => existsb (N.eqb p) (k_props k)) (e_refs e)) then fail_unprocessable c e rec_epoch else
  if negb (e_auth e) || (e_bad e =? 8) then (record_failure c (e_id e) true (Some rec_epoch), if negb (e_auth e) then RErr else RUnproc)
  else apply_commit c e (commit_of e).

Definition here (c : client) (e : event) (rec_epoch : N) : client * rk :=
  if e_author e =? me c then own_here c e
  else if e_kind e =? 1 then app_here c e rec_epoch
  else if e_kind e =? 2 then leave_here c e rec_epoch
  else commit_here c e rec_epoch.

Definition blocked_rk (e : event) : rk := if (e_kind e =? 3) && ((e_bad e =? 1) || (e_bad e =? 2)) then RPrevFailed else RUnproc.

Lemma process_unfold f c e : process f c e =
  if blockedb c e then (c, blocked_rk e) else
  if (e_kind e =? 3) && (e_bad e <? 2) then (record_failure c (e_id e) false None, RErr) else
  if (e_kind e =? 3) && (e_bad e =? 2) then (record_failure c (e_id e) false None, RErr) else
  if negb (k_active (kc c)) then (record_failure c (e_id e) true None, RErr) else
  let c1 := ens c in
  if (e_kind e =? 3) || negb (outer_opens (kc c1) (e_state e)) then (record_failure c1 (e_id e) true None, RErr) else
  if wrong_epoch (kc c1) e then
    if is_commit_kind e && is_better c1 (e_epoch e) (e_ts e) (e_key e) then
      match find_snap (e_epoch e) (queue c1), f with
      | Some s, S f' => process f' (rollback c1 (e_epoch e) s) e
      | _, _ => fail_unprocessable c1 e (k_rec_epoch (kc c))
      end
    else late c1 e (k_rec_epoch (kc c))
  else here c1 e (k_rec_epoch (kc c)).
Proof. destruct f; reflexivity. Qed.

(* ================================================================ field lemmas *)
Lemma ensure_secret_fields k :
  k_cur (ensure_secret k) = k_cur k /\ k_epoch (ensure_secret k) = k_epoch k /\ k_rec_epoch (ensure_secret k) = k_rec_epoch k /\
  k_active (ensure_secret k) = k_active k /\ k_pending (ensure_secret k) = k_pending k /\ k_props (ensure_secret k) = k_props k /\
  k_past (ensure_secret k) = k_past k /\ k_data (ensure_secret k) = k_data k /\ k_last (ensure_secret k) = k_last k /\
  k_seen (ensure_secret k) = k_seen k.
Proof. unfold ensure_secret. destruct (dget (k_epoch k) (k_secrets k)); repeat split; reflexivity. Qed.

Lemma es_cur k : k_cur (ensure_secret k) = k_cur k. Proof. apply ensure_secret_fields. Qed.
Lemma es_epoch k : k_epoch (ensure_secret k) = k_epoch k. Proof. apply ensure_secret_fields. Qed.
Lemma es_rec_epoch k : k_rec_epoch (ensure_secret k) = k_rec_epoch k. Proof. apply ensure_secret_fields. Qed.
Lemma es_active k : k_active (ensure_secret k) = k_active k. Proof. apply ensure_secret_fields. Qed.
Lemma es_pending k : k_pending (ensure_secret k) = k_pending k. Proof. apply ensure_secret_fields. Qed.
Lemma es_props k : k_props (ensure_secret k) = k_props k. Proof. apply ensure_secret_fields. Qed.
Lemma es_past k : k_past (ensure_secret k) = k_past k. Proof. apply ensure_secret_fields. Qed.
Lemma es_data k : k_data (ensure_secret k) = k_data k. Proof. apply ensure_secret_fields. Qed.
Lemma es_last k : k_last (ensure_secret k) = k_last k. Proof. apply ensure_secret_fields. Qed.
Lemma es_seen k : k_seen (ensure_secret k) = k_seen k. Proof. apply ensure_secret_fields. Qed.

Lemma es_has k : exists s, dget (k_epoch k) (k_secrets (ensure_secret k)) = Some s.
Proof.
  unfold ensure_secret. destruct (dget (k_epoch k) (k_secrets k)) as [s|] eqn:E.
  - exists s. exact E.
  - exists (k_cur k). cbn [with_secrets k_secrets]. apply dget_aset_same.
Qed.

Lemma es_fix k s : dget (k_epoch k) (k_secrets k) = Some s -> ensure_secret k = k.
Proof. intros H. unfold ensure_secret. rewrite H. reflexivity. Qed.

Lemma es_idem k : ensure_secret (ensure_secret k) = ensure_secret k.
Proof. destruct (es_has k) as [s Hs]. apply (es_fix _ s). rewrite es_epoch. exact Hs. Qed.

Lemma set_core_kc c : set_core c (kc c) = c. Proof. destruct c; reflexivity. Qed.
Lemma with_rec_epoch_same k : with_rec_epoch k (k_rec_epoch k) = k. Proof. destruct k; reflexivity. Qed.

Lemma ens_idem c : ens (ens c) = ens c.
Proof. unfold ens. cbn [set_core kc me is_admin retention dedup msgs queue rollbacks]. rewrite es_idem. reflexivity. Qed.

(* ================================================================ C08: the record mirrors the MLS state *)
Lemma core_ok_ensure k : core_ok k -> core_ok (ensure_secret k).
Proof. unfold core_ok. rewrite es_active, es_rec_epoch, es_epoch. auto. Qed.

Lemma core_ok_sync k : core_ok (with_rec_epoch k (k_epoch k)).
Proof. intros _. reflexivity. Qed.

Lemma core_ok_upd_last k a b : core_ok k -> core_ok (upd_last k a b).
Proof. intros H. unfold upd_last. destruct (match k_last k with None => true | Some l => newer (a, b) l end); [exact H|exact H]. Qed.

Lemma core_ok_advance k cm save ev : core_ok (advance k cm save ev).
Proof.
  destruct cm as [[id data] rm]. unfold advance.
  destruct ev.
  - rewrite andb_false_r. intros H. cbn in H. discriminate.
  - rewrite andb_true_r. destruct save; [apply core_ok_ensure|]; intros _; reflexivity.
Qed.

Lemma Inv_set_core c k : core_ok k -> Inv c -> Inv (set_core c k).
Proof. intros Hk [_ Hq]. split; [exact Hk|exact Hq]. Qed.
Lemma Inv_set_dedup c d : Inv c -> Inv (set_dedup c d). Proof. intros H; exact H. Qed.
Lemma Inv_set_msgs c m : Inv c -> Inv (set_msgs c m). Proof. intros H; exact H. Qed.
Lemma Inv_record_failure c id g ep : Inv c -> Inv (record_failure c id g ep). Proof. intros H; exact H. Qed.
Lemma Inv_put_dedup c id st ep m : Inv c -> Inv (put_dedup c id st ep m). Proof. intros H; exact H. Qed.
Lemma Inv_ens c : Inv c -> Inv (ens c).
Proof. intros H. apply Inv_set_core; [apply core_ok_ensure; apply H|exact H]. Qed.
Lemma Inv_sync c : Inv c -> Inv (sync c).
Proof. intros H. apply Inv_set_core; [apply core_ok_sync|exact H]. Qed.

Lemma Forall_drop_front {A} (P : A -> Prop) n l : Forall P l -> Forall P (drop_front n l).
Proof.
  revert l. induction n as [|n IH]; intros l H; cbn [drop_front]; [exact H|].
  destruct l as [|x r]; [constructor|]. apply IH. inversion H; assumption.
Qed.

Lemma Forall_prune (P : snap -> Prop) r q : Forall P q -> Forall P (prune r q).
Proof. intros H. unfold prune. destruct (lenN q <=? r); [exact H|apply Forall_drop_front; exact H]. Qed.

Lemma Forall_take_until (P : snap -> Prop) ep q : Forall P q -> Forall P (take_until ep q).
Proof.
  induction q as [|s r IH]; intros H; cbn [take_until]; [constructor|].
  inversion H as [|? ? Hs Hr]; subst. destruct (sn_epoch s =? ep); [constructor|]. constructor; [exact Hs|exact (IH Hr)].
Qed.

Lemma find_snap_In ep q s : find_snap ep q = Some s -> In s q /\ sn_epoch s = ep.
Proof. unfold find_snap. intros H. apply find_some in H. destruct H as [H1 H2]. split; [exact H1|lia]. Qed.

Lemma Inv_rollback c ep s : Inv c -> In s (queue c) -> Inv (rollback c ep s).
Proof.
  intros [_ Hq] Hin. split.
  - change (core_ok (sn_core s)). rewrite Forall_forall in Hq. exact (Hq s Hin).
  - change (Forall (fun s0 => core_ok (sn_core s0)) (take_until ep (queue c))). apply Forall_take_until. exact Hq.
Qed.

Lemma Inv_take_snapshot c e : Inv c -> Inv (take_snapshot c e).
Proof.
  intros [Hk Hq]. split; [exact Hk|].
  change (Forall (fun s0 => core_ok (sn_core s0)) (prune (retention c) (queue c ++ [mkSnap (k_epoch (kc c)) (e_key e) (e_ts e) (kc c)]))).
  apply Forall_prune. apply Forall_app. split; [exact Hq|]. constructor; [exact Hk|constructor].
Qed.

Lemma Inv_apply_commit c e cm : Inv c -> Inv (fst (apply_commit c e cm)).
Proof.
  intros H. unfold apply_commit.
  destruct (evicted_by c (snd cm)); cbn [fst]; apply Inv_put_dedup; (apply Inv_set_core; [apply core_ok_advance|apply Inv_take_snapshot; exact H]).
Qed.

Lemma Inv_fail c e r : Inv c -> Inv (fst (fail_unprocessable c e r)).
Proof. intros H; exact H. Qed.

Lemma Inv_late c e r : Inv c -> Inv (fst (late c e r)).
Proof.
  intros H. unfold late. destruct (dget (e_id e) (dedup c)) as [d|]; [|exact H].
  destruct (d_state d =? PS_COMMIT); [apply Inv_sync; exact H|exact H].
Qed.

Lemma Inv_own_here c e : Inv c -> Inv (fst (own_here c e)).
Proof.
  intros H. unfold own_here.
  destruct (if e_kind e =? 0 then k_pending (kc c) else None) as [cm|]; [apply Inv_apply_commit; exact H|].
  destruct (dget (e_id e) (dedup c)) as [r|]; [|exact H].
  destruct ((d_state r =? PS_CREATED) || (d_state r =? PS_RETRY)).
  - destruct (d_msg r) as [m|]; [|exact H]. destruct (dget m (msgs c)); exact H.
  - destruct (d_state r =? PS_COMMIT); [apply Inv_sync; exact H|exact H].
Qed.

Lemma Inv_app_here c e r : Inv c -> Inv (fst (app_here c e r)).
Proof.
  intros H. unfold app_here.
  destruct (negb _ || existsb (N.eqb (e_msg e)) (k_seen (kc c)) || (e_bad e =? 7)); [exact H|].
  cbn [fst]. apply Inv_set_core; [|exact H].
  apply core_ok_upd_last. exact (proj1 H).
Qed.

Lemma Inv_leave_here c e r : Inv c -> Inv (fst (leave_here c e r)).
Proof.
  intros H. unfold leave_here.
  destruct (existsb (N.eqb (100000 + e_id e)) (k_seen (kc c))); [exact H|].
  cbv zeta. cbn [fst]. split; [|exact (proj2 H)]. destruct (is_admin c && _); exact (proj1 H).
Qed.

Lemma Inv_commit_here c e r : Inv c -> Inv (fst (commit_here c e r)).
Proof.
  intros H. unfold commit_here.
  destruct (negb (forallb _ (e_refs e))); [exact H|].
  destruct (negb (e_auth e) || (e_bad e =? 8)); [exact H|]. apply Inv_apply_commit. exact H.
Qed.

Lemma Inv_here c e r : Inv c -> Inv (fst (here c e r)).
Proof.
  intros H. unfold here.
  destruct (e_author e =? me c); [apply Inv_own_here; exact H|].
  destruct (e_kind e =? 1); [apply Inv_app_here; exact H|].
  destruct (e_kind e =? 2); [apply Inv_leave_here; exact H|apply Inv_commit_here; exact H].
Qed.

Lemma process_inv fuel : forall c e, Inv c -> Inv (fst (process fuel c e)).
Proof.
  induction fuel as [|f IH]; intros c e H; rewrite process_unfold.
  all: destruct (blockedb c e); [exact H|].
  all: destruct ((e_kind e =? 3) && (e_bad e <? 2)); [exact H|].
  all: destruct ((e_kind e =? 3) && (e_bad e =? 2)); [exact H|].
  all: destruct (negb (k_active (kc c))); [exact H|].
  all: cbv zeta; pose proof (Inv_ens c H) as H1.
  all: destruct ((e_kind e =? 3) || negb (outer_opens (kc (ens c)) (e_state e))); [exact H1|].
  all: destruct (wrong_epoch (kc (ens c)) e); [|apply Inv_here; exact H1].
  all: destruct (is_commit_kind e && is_better (ens c) (e_epoch e) (e_ts e) (e_key e)); [|apply Inv_late; exact H1].
  all: destruct (find_snap (e_epoch e) (queue (ens c))) as [s|] eqn:Es; [|exact H1].
  - exact H1.
  - apply IH. apply Inv_rollback; [exact H1|]. apply find_snap_In in Es. apply Es.
Qed.

Lemma inv_init : forall i a r, Inv (init_client i a r).
Proof. intros i a r. split; [intros _; reflexivity|constructor]. Qed.

Lemma inv_deliver : forall c e, Inv c -> Inv (fst (deliver c e)).
Proof. intros c e. apply process_inv. Qed.

Lemma inv_merge_pending : forall c, Inv c -> Inv (fst (merge_pending c)).
Proof.
  intros c H. unfold merge_pending. destruct (k_pending (kc c)) as [cm|]; [|exact H].
  cbn [fst]. apply Inv_set_core; [apply core_ok_advance|exact H].
Qed.

Lemma inv_committed : forall c e, Inv c -> Inv (committed c e).
Proof.
  intros c e H. unfold committed. apply Inv_put_dedup. apply Inv_set_core; [|exact H].
  exact (core_ok_ensure _ (proj1 H)).
Qed.

Lemma inv_clear : forall c, Inv c -> Inv (clear_pending c).
Proof. intros c H. unfold clear_pending. apply Inv_set_core; [exact (proj1 H)|exact H]. Qed.

Lemma inv_sent : forall c e, Inv c -> Inv (sent c e).
Proof.
  intros c e H. unfold sent. apply Inv_set_core; [|split; [exact (core_ok_ensure _ (proj1 H))|exact (proj2 H)]].
  apply core_ok_upd_last. exact (core_ok_ensure _ (proj1 H)).
Qed.

Lemma inv_leave : forall c e, Inv c -> Inv (leave_created c e).
Proof.
  intros c e H. unfold leave_created. apply Inv_put_dedup. apply Inv_set_core; [|exact H].
  exact (core_ok_ensure _ (proj1 H)).
Qed.

Lemma inv_deliver_all ds : forall c, Inv c -> Inv (deliver_all c ds).
Proof.
  induction ds as [|e ds IH]; intros c H; [exact H|].
  unfold deliver_all. cbn [fold_left]. apply IH. apply inv_deliver. exact H.
Qed.

Lemma record_mirrors_mls : forall i a r ds, let c := deliver_all (init_client i a r) ds in
  k_active (kc c) = true -> k_rec_epoch (kc c) = k_epoch (kc c).
Proof. intros i a r ds c. exact (proj1 (inv_deliver_all ds _ (inv_init i a r))). Qed.

(* ================================================================ C06: a refused event has no effect *)
Lemma proj_ens c : proj (ens c) = proj c.
Proof.
  unfold proj, ens. cbn [set_core kc msgs queue].
  rewrite es_cur, es_epoch, es_rec_epoch, es_active, es_pending, es_props, es_data, es_last. reflexivity.
Qed.

Lemma apply_commit_rk c e cm : snd (apply_commit c e cm) = RCommit.
Proof. unfold apply_commit. destruct (evicted_by c (snd cm)); reflexivity. Qed.

Lemma rb_apply_commit c e cm : rollbacks (fst (apply_commit c e cm)) = rollbacks c.
Proof. unfold apply_commit. destruct (evicted_by c (snd cm)); reflexivity. Qed.

Lemma rb_late c e r : rollbacks (fst (late c e r)) = rollbacks c.
Proof.
  unfold late. destruct (dget (e_id e) (dedup c)) as [d|]; [|reflexivity].
  destruct (d_state d =? PS_COMMIT); reflexivity.
Qed.

Lemma rb_here c e r : rollbacks (fst (here c e r)) = rollbacks c.
Proof.
  unfold here.
  destruct (e_author e =? me c).
  - unfold own_here.
    destruct (if e_kind e =? 0 then k_pending (kc c) else None) as [cm|]; [apply rb_apply_commit|].
    destruct (dget (e_id e) (dedup c)) as [d|]; [|reflexivity].
    destruct ((d_state d =? PS_CREATED) || (d_state d =? PS_RETRY)).
    + destruct (d_msg d) as [m|]; [|reflexivity]. destruct (dget m (msgs c)); reflexivity.
    + destruct (d_state d =? PS_COMMIT); reflexivity.
  - destruct (e_kind e =? 1).
    + unfold app_here. destruct (negb _ || existsb (N.eqb (e_msg e)) (k_seen (kc c)) || (e_bad e =? 7)); reflexivity.
    + destruct (e_kind e =? 2).
      * unfold leave_here. destruct (existsb (N.eqb (100000 + e_id e)) (k_seen (kc c))); [reflexivity|].
        destruct (is_admin c && _); reflexivity.
      * unfold commit_here. destruct (negb (forallb _ (e_refs e))); [reflexivity|].
        destruct (negb (e_auth e) || (e_bad e =? 8)); [destruct (negb (e_auth e)); reflexivity|apply rb_apply_commit].
Qed.

Lemma process_rb fuel : forall c e, rollbacks c <= rollbacks (fst (process fuel c e)).
Proof.
  induction fuel as [|f IH]; intros c e; rewrite process_unfold.
  all: destruct (blockedb c e); [cbn [fst]; lia|].
  all: destruct ((e_kind e =? 3) && (e_bad e <? 2)); [cbn [fst record_failure set_dedup rollbacks]; lia|].
  all: destruct ((e_kind e =? 3) && (e_bad e =? 2)); [cbn [fst record_failure set_dedup rollbacks]; lia|].
  all: destruct (negb (k_active (kc c))); [cbn [fst record_failure set_dedup rollbacks]; lia|].
  all: cbv zeta.
  all: destruct ((e_kind e =? 3) || negb (outer_opens (kc (ens c)) (e_state e))); [cbn [fst record_failure set_dedup rollbacks ens set_core]; lia|].
  all: destruct (wrong_epoch (kc (ens c)) e); [|rewrite rb_here; cbn [ens set_core rollbacks]; lia].
  all: destruct (is_commit_kind e && is_better (ens c) (e_epoch e) (e_ts e) (e_key e)); [|rewrite rb_late; cbn [ens set_core rollbacks]; lia].
  all: destruct (find_snap (e_epoch e) (queue (ens c))) as [s|] eqn:Es; [|cbn [fst fail_unprocessable record_failure set_dedup rollbacks ens set_core]; lia].
  - cbn [fst fail_unprocessable record_failure set_dedup rollbacks ens set_core]; lia.
  - specialize (IH (rollback (ens c) (e_epoch e) s) e).
    assert (rollbacks (rollback (ens c) (e_epoch e) s) = rollbacks c + 1) as E by reflexivity. lia.
Qed.

Lemma late_refused_frame c e r : refused (snd (late c e r)) = true -> proj (fst (late c e r)) = proj c.
Proof.
  unfold late. destruct (dget (e_id e) (dedup c)) as [d|]; [|reflexivity].
  destruct (d_state d =? PS_COMMIT); [discriminate|reflexivity].
Qed.

Lemma here_refused_frame c e r :
  refused (snd (here c e r)) = true ->
  proj (fst (here c e r)) = proj c.
Proof.
  unfold here. intros Href.
  destruct (e_author e =? me c).
  - revert Href. unfold own_here.
    destruct (if e_kind e =? 0 then k_pending (kc c) else None) as [cm|]; [rewrite apply_commit_rk; discriminate|].
    destruct (dget (e_id e) (dedup c)) as [d|]; [|reflexivity].
    destruct ((d_state d =? PS_CREATED) || (d_state d =? PS_RETRY)).
    + destruct (d_msg d) as [m|]; [|reflexivity]. destruct (dget m (msgs c)); [discriminate|reflexivity].
    + destruct (d_state d =? PS_COMMIT); [discriminate|reflexivity].
  - destruct (N.eqb_spec (e_kind e) 1) as [K1|K1].
    + revert Href. unfold app_here. destruct (negb _ || existsb (N.eqb (e_msg e)) (k_seen (kc c)) || (e_bad e =? 7)); [reflexivity|discriminate].
    + destruct (N.eqb_spec (e_kind e) 2) as [K2|K2].
      * revert Href. unfold leave_here. destruct (existsb (N.eqb (100000 + e_id e)) (k_seen (kc c))); [reflexivity|].
        cbv zeta. destruct (is_admin c && _); discriminate.
      * revert Href. unfold commit_here. destruct (negb (forallb _ (e_refs e))); [reflexivity|].
        destruct (negb (e_auth e) || (e_bad e =? 8)); [destruct (negb (e_auth e)); reflexivity|]. rewrite apply_commit_rk. discriminate.
Qed.

Lemma refusal_frame : forall c e,
  refused (snd (deliver c e)) = true ->
  ~ (rollbacks (fst (deliver c e)) <> rollbacks c) ->
  proj (fst (deliver c e)) = proj c.
Proof.
  intros c e. unfold deliver. rewrite process_unfold. intros Href Hrb. revert Href Hrb.
  destruct (blockedb c e); [reflexivity|].
  destruct ((e_kind e =? 3) && (e_bad e <? 2)); [reflexivity|].
  destruct ((e_kind e =? 3) && (e_bad e =? 2)); [reflexivity|].
  destruct (negb (k_active (kc c))); [reflexivity|].
  cbv zeta.
  destruct ((e_kind e =? 3) || negb (outer_opens (kc (ens c)) (e_state e))); [intros _ _; exact (proj_ens c)|].
  destruct (wrong_epoch (kc (ens c)) e).
  - destruct (is_commit_kind e && is_better (ens c) (e_epoch e) (e_ts e) (e_key e)).
    + destruct (find_snap (e_epoch e) (queue (ens c))) as [s|]; [|intros _ _; exact (proj_ens c)].
      intros _ Hrb. exfalso. apply Hrb.
      pose proof (process_rb 1 (rollback (ens c) (e_epoch e) s) e) as H.
      assert (rollbacks (rollback (ens c) (e_epoch e) s) = rollbacks c + 1) as E by reflexivity. lia.
    + intros Href _. rewrite (late_refused_frame _ _ _ Href). apply proj_ens.
  - intros Href _. rewrite (here_refused_frame _ _ _ Href). apply proj_ens.
Qed.

Lemma deliver_total : forall c e, exists c' r, deliver c e = (c', r).
Proof. intros c e. destruct (deliver c e) as [c' r]. exists c', r. reflexivity. Qed.

(* ---------------------------------------------------------------- concrete witnesses (closed by computation) *)
Definition cmt (id ts key author st ep : N) (auth : bool) : event := mkEvent id 0 ts key author st ep auth 0 0 [] [] 0.
Definition w_c0 : client := init_client 1 false 5.
Definition w_A : event := cmt 10 100 5 2 0 1 true.          (* first commit on the initial state *)
Definition w_B : event := cmt 20 50 5 3 0 1 true.           (* MIP-03-better competitor of w_A *)
Definition w_Bbad : event := cmt 20 50 5 3 0 1 false.       (* the same, but not authorised *)
Definition w_own : event := cmt 10 100 5 1 0 1 true.        (* client 1's own commit on the initial state *)
Definition w_leave : event := mkEvent 30 2 100 5 2 0 1 true 0 0 [] [] 0.
Definition w_msg : event := mkEvent 30 1 100 5 2 0 1 true 0 7 [] [] 0.
Definition w_e2 : event := cmt 20 100 5 2 11 2 true.        (* successor of w_A *)

Lemma fork_ready_init i a r : 1 <= r -> fork_ready (init_client i a r).
Proof.
  intros Hr. unfold fork_ready, init_client, init_core. cbn [kc k_active k_pending retention k_rec_epoch k_epoch queue k_secrets k_cur aget].
  repeat split; try assumption; try reflexivity; [intros s []|intros x H; discriminate].
Qed.

Lemma rollback_then_refused_witness : exists c e,
  rollbacks (fst (deliver c e)) <> rollbacks c /\ refused (snd (deliver c e)) = true /\ proj (fst (deliver c e)) <> proj c.
Proof. exists (fst (deliver w_c0 w_A)), w_Bbad. vm_compute. repeat split; discriminate. Qed.

(* (removed: fixed in the code, see known_findings fixed entry) *)

Lemma late_message_refuted : exists c msg worse better,
  fork_ready c /\ e_state msg = k_cur (kc c) /\
  let c' := deliver_all c [worse; msg; better; msg] in
  k_cur (kc c') = e_id better + 1 /\
  exists mr, aget N.eqb (e_msg msg) (msgs c') = Some mr /\ m_state mr = MS_INVALID.
Proof.
  exists w_c0, w_msg, w_A, w_B. split; [apply fork_ready_init; lia|]. split; [reflexivity|].
  cbv zeta. split; [vm_compute; reflexivity|].
  exists (mkM MS_INVALID 2 30 7). split; vm_compute; reflexivity.
Qed.

Lemma immediate_merge_refuted : exists c own better,
  fork_ready c /\ mip03_lt (ev_key better) (ev_key own) /\
  let c1 := fst (merge_pending (committed c own)) in
  k_cur (kc (deliver_all c1 [better; better])) = e_id own + 1.
Proof.
  exists (init_client 1 true 5), w_own, w_B. split; [apply fork_ready_init; lia|].
  split; [left; vm_compute; reflexivity|]. vm_compute. reflexivity.
Qed.

Lemma ahead_of_predecessor_refuted : exists c e1 e2,
  fork_ready c /\ e_state e2 = e_id e1 + 1 /\
  k_cur (kc (deliver_all c [e2; e1; e2])) = e_id e1 + 1 /\ snd (deliver (deliver_all c [e2; e1]) e2) = RUnproc.
Proof.
  exists w_c0, w_A, w_e2. split; [apply fork_ready_init; lia|]. repeat split; vm_compute; reflexivity.
Qed.

(* ================================================================ C01: the MIP-03 order *)
Lemma mip03_lt_irrefl : forall a, ~ mip03_lt a a.
Proof. intros a. unfold mip03_lt. lia. Qed.
Lemma mip03_lt_trans : forall a b c, mip03_lt a b -> mip03_lt b c -> mip03_lt a c.
Proof. intros a b c. unfold mip03_lt. lia. Qed.
Lemma mip03_lt_total : forall a b, a <> b -> mip03_lt a b \/ mip03_lt b a.
Proof.
  intros [a1 a2] [b1 b2] Hne. unfold mip03_lt. cbn [fst snd].
  assert (a1 <> b1 \/ a2 <> b2) as H by (destruct (N.eq_dec a1 b1) as [->|]; [right; congruence|left; assumption]). lia.
Qed.

Lemma lt_bool_spec ts key ts' key' :
  (ts <? ts') || ((ts =? ts') && (key <? key')) = true <-> mip03_lt (ts, key) (ts', key').
Proof. unfold mip03_lt. cbn [fst snd]. lia. Qed.

Lemma is_better_spec : forall c ep ts key,
  is_better c ep ts key = true <->
  exists s, find_snap ep (queue c) = Some s /\ sn_ts s <> 0 /\ mip03_lt (ts, key) (sn_ts s, sn_key s).
Proof.
  intros c ep ts key. unfold is_better. destruct (find_snap ep (queue c)) as [s|].
  - destruct (N.eqb_spec (sn_ts s) 0) as [E|E].
    + split; [discriminate|]. intros (s' & [= <-] & H & _). contradiction.
    + rewrite lt_bool_spec. split.
      * intros H. exists s. auto.
      * intros (s' & [= <-] & _ & H). exact H.
  - split; [discriminate|]. intros (s' & H & _). discriminate.
Qed.

Lemma same_commit_not_better : forall c e s,
  find_snap (e_epoch e) (queue c) = Some s -> sn_ts s = e_ts e -> sn_key s = e_key e ->
  is_better c (e_epoch e) (e_ts e) (e_key e) = false.
Proof.
  intros c e s Hs Hts Hkey. destruct (is_better c (e_epoch e) (e_ts e) (e_key e)) eqn:E; [|reflexivity].
  apply is_better_spec in E. destruct E as (s' & Hs' & _ & Hlt). rewrite Hs in Hs'. injection Hs' as <-.
  rewrite Hts, Hkey in Hlt. exfalso. exact (mip03_lt_irrefl _ Hlt).
Qed.

(* ================================================================ C02: application messages *)
Lemma rollback_invalidates_later : forall c ep s m mr,
  aget N.eqb m (msgs (rollback c ep s)) = Some mr -> ep < m_epoch mr -> m_state mr = MS_INVALID.
Proof.
  intros c ep s m mr H Hlt.
  change (msgs (rollback c ep s)) with
    (map (fun kv : N * mrec => if ep <? m_epoch (snd kv) then (fst kv, mkM MS_INVALID (m_epoch (snd kv)) (m_wrapper (snd kv)) (m_created (snd kv))) else kv) (msgs c)) in H.
  apply dget_map_inv in H.
  - destruct H as (mr0 & _ & H). cbn [fst snd] in H.
    destruct (N.ltb_spec ep (m_epoch mr0)) as [L|L].
    + injection H as <-. reflexivity.
    + injection H as <-. lia.
  - intros kv. destruct (ep <? m_epoch (snd kv)); reflexivity.
Qed.

Lemma own_echo_confirms : forall c e m mr,
  e_kind e = 1 -> e_author e = me c -> Inv c -> k_active (kc c) = true ->
  aget N.eqb (e_id e) (dedup c) = Some (mkD PS_CREATED (Some (k_epoch (kc c))) true (Some m)) ->
  aget N.eqb m (msgs c) = Some mr -> e_epoch e = k_epoch (kc c) -> outer_opens (ensure_secret (kc c)) (e_state e) = true ->
  snd (deliver c e) = RApp /\
  exists mr', aget N.eqb m (msgs (fst (deliver c e))) = Some mr' /\ m_state mr' = MS_PROCESSED.
Proof.
  intros c e m mr K1 Hme _ Hact Hd Hm Hep Hopen.
  unfold deliver. rewrite process_unfold. unfold blockedb. rewrite Hd. cbn [d_state].
  change ((PS_CREATED =? PS_FAILED) || (PS_CREATED =? PS_INVALID)) with false. cbv iota.
  rewrite K1. change (1 =? 3) with false. cbn [andb orb]. rewrite Hact. cbn [negb]. cbv zeta.
  change (kc (ens c)) with (ensure_secret (kc c)). rewrite Hopen. cbn [negb].
  unfold wrong_epoch. rewrite K1. change (1 =? 1) with true. cbv iota. rewrite es_epoch, Hep, N.ltb_irrefl.
  unfold here. change (me (ens c)) with (me c). rewrite Hme, N.eqb_refl.
  unfold own_here. rewrite K1. change (1 =? 0) with false. cbv iota.
  change (dedup (ens c)) with (dedup c). rewrite Hd. cbn [d_state d_msg d_epoch].
  change ((PS_CREATED =? PS_CREATED) || (PS_CREATED =? PS_RETRY)) with true. cbv iota.
  change (msgs (ens c)) with (msgs c). rewrite Hm. split; [reflexivity|].
  cbn [fst put_dedup set_dedup set_msgs msgs]. eexists. split; [apply dget_aset_same|reflexivity].
Qed.

Lemma rk_apply_commit_not_app c e cm : snd (apply_commit c e cm) <> RApp.
Proof. rewrite apply_commit_rk. discriminate. Qed.

Lemma app_stored_once_fuel fuel : forall c e,
  snd (process fuel c e) = RApp -> e_author e <> me c -> NoDup (map fst (msgs c)) ->
  let c' := fst (process fuel c e) in
  exists mr, aget N.eqb (e_msg e) (msgs c') = Some mr /\ m_state mr = MS_PROCESSED /\
  length (filter (fun kv => fst kv =? e_msg e) (msgs c')) = 1%nat.
Proof.
  induction fuel as [|f IH]; intros c e; rewrite process_unfold; intros Hrk Hme Hnd; revert Hrk.
  all: destruct (blockedb c e); [unfold blocked_rk; destruct (_ && _); discriminate|].
  all: destruct ((e_kind e =? 3) && (e_bad e <? 2)); [discriminate|].
  all: destruct ((e_kind e =? 3) && (e_bad e =? 2)); [discriminate|].
  all: destruct (negb (k_active (kc c))); [discriminate|].
  all: cbv zeta.
  all: destruct ((e_kind e =? 3) || negb (outer_opens (kc (ens c)) (e_state e))); [discriminate|].
  all: assert (Hhere : snd (here (ens c) e (k_rec_epoch (kc c))) = RApp ->
      exists mr, aget N.eqb (e_msg e) (msgs (fst (here (ens c) e (k_rec_epoch (kc c))))) = Some mr /\ m_state mr = MS_PROCESSED /\
      length (filter (fun kv => fst kv =? e_msg e) (msgs (fst (here (ens c) e (k_rec_epoch (kc c)))))) = 1%nat).
  1,3: unfold here; change (me (ens c)) with (me c);
       (destruct (N.eqb_spec (e_author e) (me c)) as [E|_]; [contradiction|]);
       (destruct (e_kind e =? 1);
        [unfold app_here; destruct (negb _ || existsb (N.eqb (e_msg e)) (k_seen (kc (ens c))) || (e_bad e =? 7)); [discriminate|]; intros _;
         cbn [fst set_core put_dedup set_dedup set_msgs msgs ens];
         eexists; split; [apply dget_aset_same|split; [reflexivity|apply aset_filter_one; exact Hnd]]
        |]);
       (destruct (e_kind e =? 2);
        [unfold leave_here; destruct (existsb _ _); [discriminate|]; destruct (is_admin (ens c) && _); discriminate|]);
       unfold commit_here; (destruct (negb (forallb _ (e_refs e))); [discriminate|]);
       (destruct (negb (e_auth e) || (e_bad e =? 8)); [destruct (negb (e_auth e)); discriminate|]); rewrite apply_commit_rk; discriminate.
  all: destruct (wrong_epoch (kc (ens c)) e); [|exact Hhere].
  all: destruct (is_commit_kind e && is_better (ens c) (e_epoch e) (e_ts e) (e_key e));
       [|unfold late; destruct (dget (e_id e) (dedup (ens c))) as [d|]; [destruct (d_state d =? PS_COMMIT)|]; discriminate].
  all: destruct (find_snap (e_epoch e) (queue (ens c))) as [s|] eqn:Es; [|discriminate].
  - discriminate.
  - intros Hrk. apply IH; [exact Hrk|exact Hme|].
    change (msgs (rollback (ens c) (e_epoch e) s)) with
      (map (fun kv : N * mrec => if e_epoch e <? m_epoch (snd kv) then (fst kv, mkM MS_INVALID (m_epoch (snd kv)) (m_wrapper (snd kv)) (m_created (snd kv))) else kv) (msgs c)).
    rewrite map_keys_same; [exact Hnd|]. intros kv. destruct (e_epoch e <? m_epoch (snd kv)); reflexivity.
Qed.

Lemma app_stored_once : forall c e,
  snd (deliver c e) = RApp -> e_author e <> me c -> NoDup (map fst (msgs c)) ->
  let c' := fst (deliver c e) in
  exists mr, aget N.eqb (e_msg e) (msgs c') = Some mr /\ m_state mr = MS_PROCESSED /\
  length (filter (fun kv => fst kv =? e_msg e) (msgs c')) = 1%nat.
Proof. intros c e. apply app_stored_once_fuel. Qed.

(* ================================================================ C07: re-delivery *)
Lemma nodup_msgs_apply_commit c e cm : msgs (fst (apply_commit c e cm)) = msgs c.
Proof. unfold apply_commit. destruct (evicted_by c (snd cm)); reflexivity. Qed.

Lemma nodup_msgs_here c e r : NoDup (map fst (msgs c)) -> NoDup (map fst (msgs (fst (here c e r)))).
Proof.
  intros Hnd. unfold here.
  destruct (e_author e =? me c).
  - unfold own_here.
    destruct (if e_kind e =? 0 then k_pending (kc c) else None) as [cm|]; [rewrite nodup_msgs_apply_commit; exact Hnd|].
    destruct (dget (e_id e) (dedup c)) as [d|]; [|exact Hnd].
    destruct ((d_state d =? PS_CREATED) || (d_state d =? PS_RETRY)).
    + destruct (d_msg d) as [m|]; [|exact Hnd]. destruct (dget m (msgs c)); [|exact Hnd].
      cbn [fst put_dedup set_dedup set_msgs msgs]. apply aset_nodup. exact Hnd.
    + destruct (d_state d =? PS_COMMIT); exact Hnd.
  - destruct (e_kind e =? 1).
    + unfold app_here. destruct (negb _ || existsb (N.eqb (e_msg e)) (k_seen (kc c)) || (e_bad e =? 7)); [exact Hnd|].
      cbn [fst set_core put_dedup set_dedup set_msgs msgs]. apply aset_nodup. exact Hnd.
    + destruct (e_kind e =? 2).
      * unfold leave_here. destruct (existsb (N.eqb (100000 + e_id e)) (k_seen (kc c))); [exact Hnd|].
        destruct (is_admin c && _); exact Hnd.
      * unfold commit_here. destruct (negb (forallb _ (e_refs e))); [exact Hnd|].
        destruct (negb (e_auth e) || (e_bad e =? 8)); [exact Hnd|]. rewrite nodup_msgs_apply_commit. exact Hnd.
Qed.

Lemma no_second_copy_fuel fuel : forall c e, NoDup (map fst (msgs c)) -> NoDup (map fst (msgs (fst (process fuel c e)))).
Proof.
  induction fuel as [|f IH]; intros c e Hnd; rewrite process_unfold.
  all: destruct (blockedb c e); [exact Hnd|].
  all: destruct ((e_kind e =? 3) && (e_bad e <? 2)); [exact Hnd|].
  all: destruct ((e_kind e =? 3) && (e_bad e =? 2)); [exact Hnd|].
  all: destruct (negb (k_active (kc c))); [exact Hnd|].
  all: cbv zeta.
  all: destruct ((e_kind e =? 3) || negb (outer_opens (kc (ens c)) (e_state e))); [exact Hnd|].
  all: destruct (wrong_epoch (kc (ens c)) e); [|apply nodup_msgs_here; exact Hnd].
  all: destruct (is_commit_kind e && is_better (ens c) (e_epoch e) (e_ts e) (e_key e));
       [|unfold late; destruct (dget (e_id e) (dedup (ens c))) as [d|]; [destruct (d_state d =? PS_COMMIT)|]; exact Hnd].
  all: destruct (find_snap (e_epoch e) (queue (ens c))) as [s|] eqn:Es; [|exact Hnd].
  - exact Hnd.
  - apply IH.
    change (msgs (rollback (ens c) (e_epoch e) s)) with
      (map (fun kv : N * mrec => if e_epoch e <? m_epoch (snd kv) then (fst kv, mkM MS_INVALID (m_epoch (snd kv)) (m_wrapper (snd kv)) (m_created (snd kv))) else kv) (msgs c)).
    rewrite map_keys_same; [exact Hnd|]. intros kv. destruct (e_epoch e <? m_epoch (snd kv)); reflexivity.
Qed.

Lemma no_second_copy : forall c e, NoDup (map fst (msgs c)) -> NoDup (map fst (msgs (fst (deliver c e)))).
Proof. intros c e. apply no_second_copy_fuel. Qed.

(* ---- stored secrets *)
Definition has_secret (k : core) : Prop := exists s, dget (k_epoch k) (k_secrets k) = Some s.

Lemma has_secret_es k : has_secret (ensure_secret k).
Proof. unfold has_secret. rewrite es_epoch. apply es_has. Qed.
Lemma has_secret_fix k : has_secret k -> ensure_secret k = k.
Proof. intros [s Hs]. exact (es_fix k s Hs). Qed.
Lemma has_secret_ens c : has_secret (kc c) -> ens c = c.
Proof. intros H. unfold ens. rewrite (has_secret_fix _ H). apply set_core_kc. Qed.
Lemma has_secret_same k k' : k_epoch k' = k_epoch k -> k_secrets k' = k_secrets k -> has_secret k -> has_secret k'.
Proof. intros E1 E2 [s Hs]. exists s. rewrite E1, E2. exact Hs. Qed.

Lemma upd_last_fields k a b :
  k_cur (upd_last k a b) = k_cur k /\ k_epoch (upd_last k a b) = k_epoch k /\ k_rec_epoch (upd_last k a b) = k_rec_epoch k /\
  k_active (upd_last k a b) = k_active k /\ k_pending (upd_last k a b) = k_pending k /\ k_props (upd_last k a b) = k_props k /\
  k_secrets (upd_last k a b) = k_secrets k /\ k_past (upd_last k a b) = k_past k /\ k_data (upd_last k a b) = k_data k /\
  k_seen (upd_last k a b) = k_seen k.
Proof. unfold upd_last. destruct (match k_last k with None => true | Some l => newer (a, b) l end); repeat split; reflexivity. Qed.

Lemma advance_fields k id data rm save :
  k_cur (advance k (id, data, rm) save false) = id + 1 /\
  k_epoch (advance k (id, data, rm) save false) = k_epoch k + 1 /\
  k_rec_epoch (advance k (id, data, rm) save false) = k_epoch k + 1 /\
  k_active (advance k (id, data, rm) save false) = k_active k.
Proof.
  unfold advance. cbn [negb]. rewrite andb_true_r.
  destruct save; rewrite ?es_cur, ?es_epoch, ?es_rec_epoch, ?es_active; repeat split; reflexivity.
Qed.

Lemma advance_evicted_inactive k cm save : k_active (advance k cm save true) = false.
Proof. destruct cm as [[id data] rm]. unfold advance. rewrite andb_false_r. reflexivity. Qed.

Lemma has_secret_advance k cm : has_secret (advance k cm true false).
Proof. destruct cm as [[id data] rm]. unfold advance. cbn [negb andb]. apply has_secret_es. Qed.

(* ---- snapshot queue facts *)
Lemma drop_front_In {A} n (l : list A) x : In x (drop_front n l) -> In x l.
Proof.
  revert l. induction n as [|n IH]; intros l H; cbn [drop_front] in H; [exact H|].
  destruct l as [|y r]; [destruct H|]. right. exact (IH r H).
Qed.

Lemma drop_front_app_last {A} n (q : list A) s :
  ((n <= length q)%nat -> drop_front n (q ++ [s]) = drop_front n q ++ [s]) /\
  ((length q < n)%nat -> drop_front n (q ++ [s]) = []).
Proof.
  revert q. induction n as [|n IH]; intros q; cbn [drop_front].
  - split; [reflexivity|lia].
  - destruct q as [|y r]; cbn [app length].
    + split; [lia|]. intros _. destruct n; reflexivity.
    + destruct (IH r) as [H1 H2]. split; intros H; [apply H1|apply H2]; lia.
Qed.

Lemma prune_app_last r q s :
  (prune r (q ++ [s]) = [] /\ r = 0) \/
  (exists q2, prune r (q ++ [s]) = q2 ++ [s] /\ (forall x, In x q2 -> In x q)).
Proof.
  unfold prune. destruct (N.leb_spec (lenN (q ++ [s])) r) as [L|L].
  - right. exists q. split; [reflexivity|auto].
  - rewrite lenN_app in *. change (lenN [s]) with 1 in *. unfold lenN in *.
    destruct (drop_front_app_last (N.to_nat (N.of_nat (length q) + 1 - r)) q s) as [H1 H2].
    destruct (N.eq_dec r 0) as [R|R].
    + left. split; [apply H2; lia|exact R].
    + right. exists (drop_front (N.to_nat (N.of_nat (length q) + 1 - r)) q). split; [apply H1; lia|].
      intros x. apply drop_front_In.
Qed.

Lemma find_snap_app_none ep q l : (forall x, In x q -> sn_epoch x <> ep) -> find_snap ep (q ++ l) = find_snap ep l.
Proof.
  intros H. induction q as [|y r IH]; [reflexivity|]. unfold find_snap in *. cbn [app find].
  destruct (N.eqb_spec (sn_epoch y) ep) as [E|_]; [exfalso; exact (H y (or_introl eq_refl) E)|].
  apply IH. intros x Hx. apply H. right. exact Hx.
Qed.

Lemma take_until_no ep q : forall x, In x (take_until ep q) -> sn_epoch x <> ep.
Proof.
  induction q as [|y r IH]; cbn [take_until]; [intros x []|].
  destruct (N.eqb_spec (sn_epoch y) ep) as [E|E]; [intros x []|].
  intros x [<-|Hx]; [exact E|exact (IH x Hx)].
Qed.

Lemma take_until_app_last ep q s : (forall x, In x q -> sn_epoch x <> ep) -> sn_epoch s = ep -> take_until ep (q ++ [s]) = q.
Proof.
  intros H Hs. induction q as [|y r IH]; cbn [app take_until].
  - rewrite Hs, N.eqb_refl. reflexivity.
  - destruct (N.eqb_spec (sn_epoch y) ep) as [E|_]; [exfalso; exact (H y (or_introl eq_refl) E)|].
    f_equal. apply IH. intros x Hx. apply H. right. exact Hx.
Qed.

Lemma is_better_new_snapshot c' e r q k :
  queue c' = prune r (q ++ [mkSnap (e_epoch e) (e_key e) (e_ts e) k]) ->
  (forall x, In x q -> sn_epoch x <> e_epoch e) ->
  is_better c' (e_epoch e) (e_ts e) (e_key e) = false.
Proof.
  intros Hq Hno.
  destruct (prune_app_last r q (mkSnap (e_epoch e) (e_key e) (e_ts e) k)) as [[E _]|(q2 & E & Hsub)].
  - unfold is_better. rewrite Hq, E. reflexivity.
  - apply (same_commit_not_better c' e (mkSnap (e_epoch e) (e_key e) (e_ts e) k)); [|reflexivity|reflexivity].
    rewrite Hq, E. rewrite find_snap_app_none; [|intros x Hx; apply Hno; apply Hsub; exact Hx].
    unfold find_snap. cbn [find sn_epoch]. rewrite N.eqb_refl. reflexivity.
Qed.

(* ---- settled states: handling the event again changes nothing observable, and then nothing at all *)
Definition Fixed (e : event) (c : client) : Prop := fst (deliver c e) = c.
Definition Settled (e : event) (c : client) : Prop :=
  Fixed e c \/ exists c0 g ep, fst (deliver c e) = record_failure c0 (e_id e) g ep /\ proj c0 = proj c.

Lemma blockedb_rf c e g ep : blockedb (record_failure c (e_id e) g ep) e = true.
Proof. unfold blockedb, record_failure. cbn [set_dedup dedup]. rewrite dget_aset_same. reflexivity. Qed.

Lemma fixed_blocked e c : blockedb c e = true -> Fixed e c.
Proof. intros H. unfold Fixed, deliver. rewrite process_unfold, H. reflexivity. Qed.

Lemma settled_rf e c g ep : Settled e (record_failure c (e_id e) g ep).
Proof. left. apply fixed_blocked. apply blockedb_rf. Qed.

Lemma settled_step e c : Settled e c -> proj (fst (deliver c e)) = proj c /\ Fixed e (fst (deliver c e)).
Proof.
  intros [H|(c0 & g & ep & E & P)].
  - unfold Fixed in *. rewrite H. split; [reflexivity|exact H].
  - rewrite E. split; [exact P|]. apply fixed_blocked. apply blockedb_rf.
Qed.

Lemma fixed_all e c n : Fixed e c -> deliver_all c (repeat e n) = c.
Proof.
  intros H. induction n as [|n IH]; [reflexivity|].
  unfold deliver_all in *. cbn [repeat fold_left]. rewrite H. exact IH.
Qed.

Definition tail (f : nat) (c : client) (e : event) : client * rk :=
  if wrong_epoch (kc c) e then
    if is_commit_kind e && is_better c (e_epoch e) (e_ts e) (e_key e) then
      match find_snap (e_epoch e) (queue c), f with
      | Some s, S f' => process f' (rollback c (e_epoch e) s) e
      | _, _ => fail_unprocessable c e (k_rec_epoch (kc c))
      end
    else late c e (k_rec_epoch (kc c))
  else here c e (k_rec_epoch (kc c)).

Lemma is_commit_kind_0 e : e_kind e = 0 -> is_commit_kind e = true.
Proof. intros H. unfold is_commit_kind. rewrite H. reflexivity. Qed.
Lemma is_commit_kind_1 e : e_kind e = 1 -> is_commit_kind e = false.
Proof. intros H. unfold is_commit_kind. rewrite H. reflexivity. Qed.
Lemma is_commit_kind_2 e : e_kind e = 2 -> is_commit_kind e = false.
Proof. intros H. unfold is_commit_kind. rewrite H. reflexivity. Qed.

Lemma gates f c e : blockedb c e = false -> e_kind e <> 3 -> has_secret (kc c) ->
  (exists c0 g ep, process f c e = (record_failure c0 (e_id e) g ep, RErr) /\ proj c0 = proj c) \/
  process f c e = tail f c e.
Proof.
  intros Hb Hk Hs. rewrite process_unfold, Hb.
  destruct (N.eqb_spec (e_kind e) 3) as [E|_]; [contradiction|]. cbn [andb orb].
  destruct (k_active (kc c)); cbn [negb]; [|left; exists c, true, None; split; reflexivity].
  cbv zeta. rewrite (has_secret_ens c Hs).
  destruct (outer_opens (kc c) (e_state e)); cbn [negb]; [right; reflexivity|].
  left; exists c, true, None; split; reflexivity.
Qed.

(* a client that passes the gates and whose tail is a fixed point or a plain refusal is settled *)
Lemma settled_via_tail e c : blockedb c e = false -> e_kind e <> 3 -> has_secret (kc c) ->
  (fst (tail 2 c e) = c \/ exists c0 g ep, fst (tail 2 c e) = record_failure c0 (e_id e) g ep /\ proj c0 = proj c) ->
  Settled e c.
Proof.
  intros Hb Hk Hs Ht. unfold Settled, Fixed, deliver.
  destruct (gates 2 c e Hb Hk Hs) as [(c0 & g & ep & E & P)|E]; rewrite E.
  - right. exists c0, g, ep. split; [reflexivity|exact P].
  - exact Ht.
Qed.

Lemma wrong_epoch_ext k k' e : k_epoch k' = k_epoch k -> wrong_epoch k' e = wrong_epoch k e.
Proof. intros E. unfold wrong_epoch. rewrite E. reflexivity. Qed.

Lemma wrong_epoch_false_eq k e : e_kind e <> 1 -> wrong_epoch k e = false -> e_epoch e = k_epoch k.
Proof.
  unfold wrong_epoch. intros K1. destruct (N.eqb_spec (e_kind e) 1) as [E|_]; [contradiction|].
  destruct (N.eqb_spec (e_epoch e) (k_epoch k)) as [E|_]; [auto|discriminate].
Qed.

Lemma blockedb_put c e st ep m : st <> PS_FAILED -> st <> PS_INVALID -> blockedb (put_dedup c (e_id e) st ep m) e = false.
Proof.
  intros H1 H2. unfold blockedb, put_dedup. cbn [set_dedup dedup]. rewrite dget_aset_same. cbn [d_state].
  destruct (N.eqb_spec st PS_FAILED) as [E|_]; [contradiction|]. destruct (N.eqb_spec st PS_INVALID) as [E|_]; [contradiction|]. reflexivity.
Qed.

Lemma sync_fix c : k_rec_epoch (kc c) = k_epoch (kc c) -> sync c = c.
Proof. intros H. unfold sync. rewrite <- H, with_rec_epoch_same. apply set_core_kc. Qed.

Lemma dedup_put c id st ep m : dedup (put_dedup c id st ep m) = aset N.eqb id (mkD st ep true m) (dedup c).
Proof. reflexivity. Qed.

Lemma settled_apply_commit c e cm :
  e_kind e <> 1 -> e_kind e <> 3 -> wrong_epoch (kc c) e = false ->
  (forall s, In s (queue c) -> sn_epoch s <> e_epoch e) ->
  Settled e (fst (apply_commit c e cm)).
Proof.
  intros K1 K3 Hw Hq. pose proof (wrong_epoch_false_eq _ _ K1 Hw) as Hep.
  destruct cm as [[id data] rm]. unfold apply_commit. cbn [snd]. destruct (evicted_by c rm); cbn [fst].
  - right. unfold deliver. rewrite process_unfold.
    rewrite blockedb_put by discriminate.
    destruct (N.eqb_spec (e_kind e) 3) as [E|_]; [contradiction|]. cbn [andb].
    cbn [put_dedup set_dedup set_core kc]. rewrite advance_evicted_inactive. cbn [negb fst].
    eexists _, true, None. split; reflexivity.
  - set (k' := advance (kc (take_snapshot c e)) (id, data, rm) true false).
    destruct (advance_fields (kc c) id data rm true) as (_ & Aep & Arec & _).
    change (kc (take_snapshot c e)) with (kc c) in k'. fold k' in Aep, Arec.
    apply settled_via_tail.
    + apply blockedb_put; discriminate.
    + exact K3.
    + cbn [put_dedup set_dedup set_core kc]. apply has_secret_advance.
    + left. unfold tail. cbn [put_dedup set_dedup set_core kc].
      assert (wrong_epoch k' e = true) as ->.
      { unfold wrong_epoch. destruct (N.eqb_spec (e_kind e) 1) as [E|_]; [contradiction|].
        rewrite Aep, Hep. destruct (N.eqb_spec (k_epoch (kc c)) (k_epoch (kc c) + 1)) as [E|_]; [lia|reflexivity]. }
      rewrite (is_better_new_snapshot _ e (retention c) (queue c) (kc c)); [|rewrite Hep; reflexivity|exact Hq].
      rewrite andb_false_r.
      unfold late. rewrite dedup_put, dget_aset_same. cbn [d_state].
      change (PS_COMMIT =? PS_COMMIT) with true. cbv iota. cbn [fst].
      apply sync_fix. cbn [put_dedup set_dedup set_core kc]. rewrite Aep, Arec. reflexivity.
Qed.

Lemma settled_late c e r :
  blockedb c e = false -> e_kind e <> 3 -> has_secret (kc c) ->
  wrong_epoch (kc c) e = true -> is_commit_kind e && is_better c (e_epoch e) (e_ts e) (e_key e) = false ->
  Settled e (fst (late c e r)).
Proof.
  intros Hb K3 Hs Hw Hnb. unfold late.
  destruct (dget (e_id e) (dedup c)) as [d|] eqn:Hd; [|apply settled_rf].
  destruct (d_state d =? PS_COMMIT) eqn:Hc; [|apply settled_rf]. cbn [fst].
  apply settled_via_tail; [exact Hb|exact K3|exact Hs|].
  left. unfold tail. change (wrong_epoch (kc (sync c)) e) with (wrong_epoch (kc c) e). rewrite Hw.
  change (is_better (sync c) (e_epoch e) (e_ts e) (e_key e)) with (is_better c (e_epoch e) (e_ts e) (e_key e)). rewrite Hnb.
  unfold late. change (dedup (sync c)) with (dedup c). rewrite Hd, Hc. reflexivity.
Qed.

Lemma settled_own_here c e :
  blockedb c e = false -> e_kind e <> 3 -> has_secret (kc c) ->
  wrong_epoch (kc c) e = false -> (e_author e =? me c) = true ->
  (e_kind e <> 1 -> forall s, In s (queue c) -> sn_epoch s <> e_epoch e) ->
  Settled e (fst (own_here c e)).
Proof.
  intros Hb K3 Hs Hw Hme Hq.
  assert (Hself : fst (own_here c e) = c -> Settled e c).
  { intros H. apply settled_via_tail; [exact Hb|exact K3|exact Hs|]. left. unfold tail, here. rewrite Hw, Hme. exact H. }
  unfold own_here in *.
  destruct (if e_kind e =? 0 then k_pending (kc c) else None) as [cm|] eqn:Hp.
  { destruct (N.eqb_spec (e_kind e) 0) as [K0|_]; [|discriminate].
    apply settled_apply_commit; [rewrite K0; discriminate|exact K3|exact Hw|apply Hq; rewrite K0; discriminate]. }
  destruct (dget (e_id e) (dedup c)) as [d|] eqn:Hd; [|apply Hself; reflexivity].
  destruct ((d_state d =? PS_CREATED) || (d_state d =? PS_RETRY)) eqn:Hcr.
  - destruct (d_msg d) as [m|] eqn:Hm; [|apply Hself; reflexivity].
    destruct (dget m (msgs c)) as [mr|] eqn:Hmr; [|apply Hself; reflexivity].
    cbn [fst]. set (c' := put_dedup _ _ _ _ _).
    apply settled_via_tail; [apply blockedb_put; discriminate|exact K3|exact Hs|].
    left. unfold tail. change (kc c') with (kc c). rewrite Hw.
    unfold here. change (me c') with (me c). rewrite Hme. unfold own_here. change (kc c') with (kc c). rewrite Hp.
    assert (dget (e_id e) (dedup c') = Some (mkD PS_PROCESSED (d_epoch d) true (Some m))) as -> by apply dget_aset_same.
    reflexivity.
  - destruct (d_state d =? PS_COMMIT) eqn:Hc; [|apply Hself; reflexivity].
    cbn [fst]. apply settled_via_tail; [exact Hb|exact K3|exact Hs|].
    left. unfold tail. change (wrong_epoch (kc (sync c)) e) with (wrong_epoch (kc c) e). rewrite Hw.
    unfold here. change (me (sync c)) with (me c). rewrite Hme. unfold own_here.
    change (k_pending (kc (sync c))) with (k_pending (kc c)). rewrite Hp.
    change (dedup (sync c)) with (dedup c). rewrite Hd, Hcr, Hc. reflexivity.
Qed.

Lemma settled_app_here c e r :
  e_kind e <> 3 -> has_secret (kc c) -> wrong_epoch (kc c) e = false ->
  (e_author e =? me c) = false -> (e_kind e =? 1) = true ->
  Settled e (fst (app_here c e r)).
Proof.
  intros K3 Hs Hw Hme K1. unfold app_here.
  destruct (negb _ || existsb (N.eqb (e_msg e)) (k_seen (kc c)) || (e_bad e =? 7)); [apply settled_rf|]. cbn [fst].
  set (k2 := upd_last _ (e_msg e) (e_msg e)).
  pose proof (upd_last_fields (with_seen (kc c) (e_msg e :: k_seen (kc c))) (e_msg e) (e_msg e)) as F.
  cbn [put_dedup set_dedup set_msgs set_core kc me is_admin retention dedup msgs queue rollbacks] in k2, F. fold k2 in F.
  destruct F as (_ & Fep & _ & _ & _ & _ & Fsec & _ & _ & Fseen). cbn [with_seen k_epoch k_secrets k_seen] in Fep, Fsec, Fseen.
  set (c' := set_core _ k2).
  apply settled_via_tail.
  - unfold blockedb.
    change (dedup c') with (aset N.eqb (e_id e) (mkD PS_PROCESSED (Some (k_epoch (kc c))) true (Some (e_msg e))) (dedup c)).
    rewrite dget_aset_same. reflexivity.
  - exact K3.
  - change (kc c') with k2. exact (has_secret_same _ _ Fep Fsec Hs).
  - right. unfold tail. change (kc c') with k2. rewrite (wrong_epoch_ext _ _ e Fep), Hw.
    unfold here. change (me c') with (me c). rewrite Hme, K1. unfold app_here. change (kc c') with k2. rewrite Fseen. cbn [existsb].
    rewrite N.eqb_refl. cbn [orb]. rewrite orb_true_r. cbn [fst fail_unprocessable].
    eexists _, true, _. split; reflexivity.
Qed.

Lemma settled_leave_here c e r :
  e_kind e <> 3 -> has_secret (kc c) -> wrong_epoch (kc c) e = false ->
  (e_author e =? me c) = false -> (e_kind e =? 1) = false -> (e_kind e =? 2) = true ->
  Settled e (fst (leave_here c e r)).
Proof.
  intros K3 Hs Hw Hme K1 K2. unfold leave_here.
  destruct (existsb (N.eqb (100000 + e_id e)) (k_seen (kc c))); [apply settled_rf|].
  cbv zeta. cbn [fst].
  set (k1 := if is_admin c && _ then with_pending _ _ else _).
  assert (k_epoch k1 = k_epoch (kc c) /\ k_secrets k1 = k_secrets (kc c) /\ k_seen k1 = (100000 + e_id e) :: k_seen (kc c))
    as (Fep & Fsec & Fseen) by (unfold k1; destruct (is_admin c && _); repeat split; reflexivity).
  set (c' := put_dedup (set_core c k1) _ _ _ _).
  apply settled_via_tail.
  - apply blockedb_put; discriminate.
  - exact K3.
  - change (kc c') with k1. exact (has_secret_same _ _ Fep Fsec Hs).
  - right. unfold tail. change (kc c') with k1. rewrite (wrong_epoch_ext _ _ e Fep), Hw.
    unfold here. change (me c') with (me c). rewrite Hme, K1, K2. unfold leave_here. change (kc c') with k1. rewrite Fseen.
    cbn [existsb]. rewrite N.eqb_refl. cbn [orb fst fail_unprocessable].
    eexists _, true, _. split; reflexivity.
Qed.

Lemma settled_commit_here c e r :
  e_kind e <> 3 -> wrong_epoch (kc c) e = false -> e_kind e <> 1 ->
  (forall s, In s (queue c) -> sn_epoch s <> e_epoch e) ->
  Settled e (fst (commit_here c e r)).
Proof.
  intros K3 Hw K1 Hq. unfold commit_here.
  destruct (negb (forallb _ (e_refs e))); [apply settled_rf|].
  destruct (negb (e_auth e) || (e_bad e =? 8)); [apply settled_rf|].
  apply settled_apply_commit; assumption.
Qed.

(* one pass that does not take the rollback arm leaves a settled client *)
Lemma step_settled f c e :
  (wrong_epoch (kc (ens c)) e = true -> is_commit_kind e && is_better (ens c) (e_epoch e) (e_ts e) (e_key e) = false) ->
  (wrong_epoch (kc (ens c)) e = false -> e_kind e <> 1 -> forall s, In s (queue c) -> sn_epoch s <> e_epoch e) ->
  Settled e (fst (process f c e)).
Proof.
  intros Hnb Hq. rewrite process_unfold.
  destruct (blockedb c e) eqn:Hb; [left; apply fixed_blocked; exact Hb|].
  destruct ((e_kind e =? 3) && (e_bad e <? 2)); [apply settled_rf|].
  destruct ((e_kind e =? 3) && (e_bad e =? 2)); [apply settled_rf|].
  destruct (negb (k_active (kc c))); [apply settled_rf|].
  cbv zeta.
  destruct (N.eqb_spec (e_kind e) 3) as [K3|K3]; [apply settled_rf|]. cbn [orb].
  destruct (negb (outer_opens (kc (ens c)) (e_state e))); [apply settled_rf|].
  assert (Hs : has_secret (kc (ens c))) by apply has_secret_es.
  destruct (wrong_epoch (kc (ens c)) e) eqn:Hw.
  - rewrite (Hnb eq_refl). apply settled_late; [exact Hb|exact K3|exact Hs|exact Hw|exact (Hnb eq_refl)].
  - specialize (Hq eq_refl). unfold here.
    destruct (e_author e =? me (ens c)) eqn:Hme.
    + apply settled_own_here; [exact Hb|exact K3|exact Hs|exact Hw|exact Hme|exact Hq].
    + destruct (e_kind e =? 1) eqn:K1; [apply settled_app_here; assumption|].
      destruct (e_kind e =? 2) eqn:K2; [apply settled_leave_here; assumption|].
      assert (e_kind e <> 1) as K1' by (destruct (N.eqb_spec (e_kind e) 1); [discriminate|assumption]).
      apply settled_commit_here; [exact K3|exact Hw|exact K1'|exact (Hq K1')].
Qed.

Lemma find_snap_none ep q : (forall x, In x q -> sn_epoch x <> ep) -> find_snap ep q = None.
Proof. intros H. rewrite <- (app_nil_r q). rewrite find_snap_app_none; [reflexivity|exact H]. Qed.

Lemma deliver_settled c e :
  (forall s, In s (queue c) -> sn_epoch s <> k_epoch (kc c)) -> Settled e (fst (deliver c e)).
Proof.
  intros Hq. unfold deliver at 1.
  destruct (wrong_epoch (kc (ens c)) e && (is_commit_kind e && is_better (ens c) (e_epoch e) (e_ts e) (e_key e))) eqn:WB.
  - apply andb_true_iff in WB. destruct WB as [Hw Hbt]. rewrite process_unfold.
    destruct (blockedb c e) eqn:Hb; [left; apply fixed_blocked; exact Hb|].
    destruct ((e_kind e =? 3) && (e_bad e <? 2)); [apply settled_rf|].
    destruct ((e_kind e =? 3) && (e_bad e =? 2)); [apply settled_rf|].
    destruct (negb (k_active (kc c))); [apply settled_rf|].
    cbv zeta.
    destruct ((e_kind e =? 3) || negb (outer_opens (kc (ens c)) (e_state e))); [apply settled_rf|].
    rewrite Hw, Hbt.
    destruct (find_snap (e_epoch e) (queue (ens c))) as [s|]; [|apply settled_rf].
    apply step_settled.
    + intros _. unfold is_better.
      change (queue (ens (rollback (ens c) (e_epoch e) s))) with (take_until (e_epoch e) (queue c)).
      rewrite find_snap_none; [apply andb_false_r|apply take_until_no].
    + intros _ _. change (queue (rollback (ens c) (e_epoch e) s)) with (take_until (e_epoch e) (queue c)). apply take_until_no.
  - apply step_settled.
    + intros Hw. rewrite Hw in WB. exact WB.
    + intros Hw K1 s Hs. rewrite (wrong_epoch_false_eq _ _ K1 Hw). cbn [ens set_core kc]. rewrite es_epoch. exact (Hq s Hs).
Qed.

Lemma redelivery_idempotent : forall c e, Inv c ->
  (forall s, In s (queue c) -> sn_epoch s <> k_epoch (kc c)) ->
  proj (fst (deliver (fst (deliver c e)) e)) = proj (fst (deliver c e)).
Proof. intros c e _ Hq. exact (proj1 (settled_step e _ (deliver_settled c e Hq))). Qed.

Lemma redelivery_idempotent_n : forall c e n, Inv c ->
  (forall s, In s (queue c) -> sn_epoch s <> k_epoch (kc c)) ->
  proj (deliver_all (fst (deliver c e)) (repeat e n)) = proj (fst (deliver c e)).
Proof.
  intros c e n _ Hq. destruct (settled_step e _ (deliver_settled c e Hq)) as [P F].
  destruct n as [|n]; [reflexivity|].
  unfold deliver_all. cbn [repeat fold_left]. fold (deliver_all (fst (deliver (fst (deliver c e)) e)) (repeat e n)).
  rewrite (fixed_all e _ n F). exact P.
Qed.

(* ================================================================ C01: single-fork convergence *)
Lemma newer_spec a b : newer a b = true <-> mip03_lt b a.
Proof. unfold newer, mip03_lt. lia. Qed.

Lemma mip03_min_in d K : K <> [] -> In (mip03_min d K) K.
Proof.
  induction K as [|e r IH]; intros H; [contradiction|]. cbn [mip03_min].
  destruct r as [|e2 r']; [left; reflexivity|].
  destruct (newer _ _); [left; reflexivity|]. right. apply IH. discriminate.
Qed.

Lemma mip03_min_le d K : forall x, In x K -> ~ mip03_lt (ev_key x) (ev_key (mip03_min d K)).
Proof.
  induction K as [|e r IH]; intros x Hx; [destruct Hx|]. cbn [mip03_min].
  destruct r as [|e2 r'].
  - destruct Hx as [<-|[]]. apply mip03_lt_irrefl.
  - set (m := mip03_min d (e2 :: r')) in *.
    destruct (newer (ev_key m) (ev_key e)) eqn:E.
    + apply newer_spec in E. destruct Hx as [<-|Hx]; [apply mip03_lt_irrefl|].
      intros H. exact (IH x Hx (mip03_lt_trans _ _ _ H E)).
    + destruct Hx as [<-|Hx]; [|exact (IH x Hx)].
      intros H. apply newer_spec in H. rewrite H in E. discriminate.
Qed.

Lemma NoDup_map_inj {A B} (f : A -> B) l a b : NoDup (map f l) -> In a l -> In b l -> f a = f b -> a = b.
Proof.
  induction l as [|x l IH]; intros Hnd Ha Hb E; [destruct Ha|].
  cbn [map] in Hnd. inversion Hnd as [|? ? Hnotin Hnd']; subst.
  destruct Ha as [<-|Ha], Hb as [<-|Hb].
  - reflexivity.
  - exfalso. apply Hnotin. rewrite E. apply in_map. exact Hb.
  - exfalso. apply Hnotin. rewrite <- E. apply in_map. exact Ha.
  - exact (IH Hnd' Ha Hb E).
Qed.

Lemma mip03_min_unique d K m :
  NoDup (map ev_key K) -> In m K -> (forall x, In x K -> ~ mip03_lt (ev_key x) (ev_key m)) -> m = mip03_min d K.
Proof.
  intros Hnd Hm Hle.
  assert (K <> []) as Hne by (intros ->; destruct Hm).
  pose proof (mip03_min_in d K Hne) as Hin.
  apply (NoDup_map_inj ev_key K); [exact Hnd|exact Hm|exact Hin|].
  destruct (pair_eqb (ev_key m) (ev_key (mip03_min d K))) eqn:E; [apply pair_eqb_spec; exact E|].
  exfalso.
  assert (ev_key m <> ev_key (mip03_min d K)) as Hk by (intros H; apply pair_eqb_spec in H; rewrite H in E; discriminate).
  destruct (mip03_lt_total _ _ Hk) as [H|H]; [exact (mip03_min_le d K m Hm H)|exact (Hle _ Hin H)].
Qed.

Lemma opens_lookback k ep st :
  dget ep (k_secrets k) = Some st -> ep < k_epoch k -> k_epoch k <= ep + LOOKBACK -> outer_opens k st = true.
Proof.
  intros Hd H1 H2. unfold outer_opens. apply orb_true_iff. right. apply existsb_exists.
  exists (ep, st). split; [apply dget_In; exact Hd|]. cbn [fst snd]. rewrite N.eqb_refl. lia.
Qed.

Lemma es_secrets_other k ep : ep <> k_epoch k -> dget ep (k_secrets (ensure_secret k)) = dget ep (k_secrets k).
Proof.
  intros H. unfold ensure_secret. destruct (dget (k_epoch k) (k_secrets k)); [reflexivity|].
  cbn [with_secrets k_secrets]. apply dget_aset_other. exact H.
Qed.

(* ---- the dedup table under a rollback *)
Definition rb1 (ep : N) (r : drec) : drec :=
  if d_group r && (match d_epoch r with Some x => ep <? x | None => false end) then mkD PS_INVALID (d_epoch r) (d_group r) (d_msg r) else r.
Definition rb2 (r : drec) : drec :=
  if d_group r && (d_state r =? PS_FAILED) && (match d_epoch r with None => true | Some _ => false end)
  then mkD PS_RETRY (d_epoch r) (d_group r) (d_msg r) else r.

Definition inval_f (ep : N) (kv : N * drec) : N * drec :=
  let r := snd kv in
  if d_group r && (match d_epoch r with Some x => ep <? x | None => false end) then (fst kv, mkD PS_INVALID (d_epoch r) (d_group r) (d_msg r)) else kv.
Definition retry_f (kv : N * drec) : N * drec :=
  let r := snd kv in
  if d_group r && (d_state r =? PS_FAILED) && (match d_epoch r with None => true | Some _ => false end)
  then (fst kv, mkD PS_RETRY (d_epoch r) (d_group r) (d_msg r)) else kv.

Lemma dedup_rollback c ep s : dedup (rollback c ep s) = map retry_f (map (inval_f ep) (dedup c)).
Proof. reflexivity. Qed.

Lemma inval_f_fst ep kv : fst (inval_f ep kv) = fst kv.
Proof. unfold inval_f. cbv zeta. destruct (d_group (snd kv) && _); reflexivity. Qed.
Lemma retry_f_fst kv : fst (retry_f kv) = fst kv.
Proof. unfold retry_f. cbv zeta. destruct (d_group (snd kv) && (d_state (snd kv) =? PS_FAILED) && _); reflexivity. Qed.
Lemma inval_f_snd ep id r : snd (inval_f ep (id, r)) = rb1 ep r.
Proof. unfold inval_f, rb1. cbv zeta. cbn [snd fst]. destruct (d_group r && _); reflexivity. Qed.
Lemma retry_f_snd id r : snd (retry_f (id, r)) = rb2 r.
Proof. unfold retry_f, rb2. cbv zeta. cbn [snd fst]. destruct (d_group r && (d_state r =? PS_FAILED) && _); reflexivity. Qed.

Lemma dget_rollback c ep s id :
  dget id (dedup (rollback c ep s)) = match dget id (dedup c) with Some r => Some (rb2 (rb1 ep r)) | None => None end.
Proof.
  rewrite dedup_rollback. rewrite (dget_map retry_f) by apply retry_f_fst. rewrite (dget_map (inval_f ep)) by apply inval_f_fst.
  destruct (dget id (dedup c)) as [r|]; [|reflexivity].
  rewrite inval_f_snd, retry_f_snd. reflexivity.
Qed.

Section Fork.
  Variable k1 : core.      (* the pre-fork core (exporter secret ensured) *)
  Variables me0 ret : N.
  Hypothesis k1_active : k_active k1 = true.
  Hypothesis k1_secret : dget (k_epoch k1) (k_secrets k1) = Some (k_cur k1).
  Hypothesis ret_pos : 1 <= ret.

  (* an event that the engine applies as the next commit on the pre-fork state *)
  Definition applies (x : event) : Prop :=
    e_kind x = 0 /\ e_state x = k_cur k1 /\ e_epoch x = k_epoch k1 /\ e_removes x = [] /\ e_ts x <> 0 /\
    ((e_author x <> me0 /\ (e_auth x = true /\ e_bad x <> 8) /\ e_refs x = []) \/ (e_author x = me0 /\ k_pending k1 = Some (commit_of x))).

  Definition fresh (d : list (N * drec)) (x : event) : Prop :=
    dget (e_id x) d = None \/
    exists r, dget (e_id x) d = Some r /\ d_state r = PS_COMMIT /\ d_epoch r = Some (k_epoch k1).

  Definition blocking (d : list (N * drec)) (x : event) : Prop :=
    exists r, dget (e_id x) d = Some r /\ (d_state r = PS_INVALID \/ (d_state r = PS_FAILED /\ d_epoch r <> None)).

  Definition snapm (m : event) : snap := mkSnap (k_epoch k1) (e_key m) (e_ts m) k1.

  Definition Forked (m : event) (c : client) : Prop :=
    me c = me0 /\ retention c = ret /\ kc c = advance k1 (commit_of m) true false /\
    (exists q', queue c = q' ++ [snapm m] /\ forall s, In s q' -> sn_epoch s <> k_epoch k1) /\
    dget (e_id m) (dedup c) = Some (mkD PS_COMMIT (Some (k_epoch k1 + 1)) true None).

  Lemma k1_es : ensure_secret k1 = k1.
  Proof. exact (es_fix _ _ k1_secret). Qed.

  Lemma fresh_not_blocked c x : fresh (dedup c) x -> blockedb c x = false.
  Proof. unfold blockedb. intros [H|(r & H & St & _)]; rewrite H; [reflexivity|]. rewrite St. reflexivity. Qed.

  Lemma blocking_blocked c x : blocking (dedup c) x -> blockedb c x = true.
  Proof. unfold blockedb. intros (r & H & [St|[St _]]); rewrite H, St; reflexivity. Qed.

  Lemma apply_at_base f b x :
    me b = me0 -> ensure_secret (kc b) = k1 -> applies x -> blockedb b x = false ->
    process f b x = apply_commit (ens b) x (commit_of x).
  Proof.
    intros Hme Hk (K0 & Hst & Hep & Hrm & Hts & Hau) Hb.
    rewrite process_unfold, Hb, K0. change (0 =? 3) with false. cbn [andb orb].
    assert (k_active (kc b) = true) as -> by (rewrite <- (es_active (kc b)), Hk; exact k1_active).
    cbn [negb]. cbv zeta. change (kc (ens b)) with (ensure_secret (kc b)). rewrite Hk.
    assert (outer_opens k1 (e_state x) = true) as ->.
    { unfold outer_opens. rewrite k1_secret, Hst, N.eqb_refl. reflexivity. }
    cbn [negb].
    assert (wrong_epoch k1 x = false) as ->.
    { unfold wrong_epoch. rewrite K0, Hep, N.eqb_refl. reflexivity. }
    unfold here. change (me (ens b)) with (me b). rewrite Hme.
    destruct Hau as [(Hne & Hauth & Hrefs)|(Heq & Hpend)].
    - destruct (N.eqb_spec (e_author x) me0) as [E|_]; [contradiction|].
      rewrite K0. change (0 =? 1) with false. change (0 =? 2) with false. cbv iota.
      unfold commit_here. destruct Hauth as [Hauth Hbad]. rewrite Hrefs, Hauth.
      destruct (N.eqb_spec (e_bad x) 8) as [E|_]; [contradiction|]. reflexivity.
    - rewrite Heq, N.eqb_refl. unfold own_here. rewrite K0. change (0 =? 0) with true. cbv iota.
      change (kc (ens b)) with (ensure_secret (kc b)). rewrite Hk, Hpend. reflexivity.
  Qed.

  Lemma apply_commit_forked b1 x :
    kc b1 = k1 -> me b1 = me0 -> retention b1 = ret -> (forall s, In s (queue b1) -> sn_epoch s <> k_epoch k1) ->
    applies x ->
    Forked x (fst (apply_commit b1 x (commit_of x))) /\
    dedup (fst (apply_commit b1 x (commit_of x))) = aset N.eqb (e_id x) (mkD PS_COMMIT (Some (k_epoch k1 + 1)) true None) (dedup b1).
  Proof.
    intros Hk Hme Hret Hq (K0 & Hst & Hep & Hrm & Hts & Hau).
    assert (Hcm : commit_of x = (e_id x, e_data x, [])) by (unfold commit_of; rewrite Hrm; reflexivity).
    rewrite Hcm. unfold apply_commit. cbn [snd].
    change (evicted_by b1 []) with false. cbv iota. cbn [fst].
    change (kc (take_snapshot b1 x)) with (kc b1). rewrite Hk.
    destruct (advance_fields k1 (e_id x) (e_data x) [] true) as (_ & Aep & _ & _).
    split.
    - unfold Forked. cbn [put_dedup set_dedup set_core take_snapshot set_queue me retention kc queue dedup].
      split; [exact Hme|]. split; [exact Hret|]. split; [rewrite Hcm; reflexivity|]. split.
      + rewrite Hk, Hret. fold (snapm x).
        destruct (prune_app_last ret (queue b1) (snapm x)) as [[_ R]|(q2 & E & Hsub)]; [lia|].
        exists q2. split; [exact E|]. intros s Hs. apply Hq. apply Hsub. exact Hs.
      + rewrite dget_aset_same. rewrite Aep. reflexivity.
    - cbn [put_dedup set_dedup set_core take_snapshot set_queue dedup]. rewrite Aep. reflexivity.
  Qed.

  Lemma forked_fields m c : Forked m c ->
    k_cur (kc c) = e_id m + 1 /\ k_epoch (kc c) = k_epoch k1 + 1 /\ k_rec_epoch (kc c) = k_epoch k1 + 1 /\ k_active (kc c) = true.
  Proof.
    intros (_ & _ & Hkc & _). rewrite Hkc. unfold commit_of.
    destruct (advance_fields k1 (e_id m) (e_data m) (e_removes m) true) as (A1 & A2 & A3 & A4).
    rewrite A1, A2, A3, A4. auto.
  Qed.

  Lemma forked_process f c m x :
    Forked m c -> e_ts m <> 0 -> applies x -> blockedb c x = false ->
    process f c x =
      if (e_ts x <? e_ts m) || ((e_ts x =? e_ts m) && (e_key x <? e_key m))
      then match f with S f' => process f' (rollback c (k_epoch k1) (snapm m)) x | O => fail_unprocessable c x (k_rec_epoch (kc c)) end
      else late c x (k_rec_epoch (kc c)).
  Proof.
    intros HF Htm (K0 & Hst & Hep & _) Hb.
    destruct (forked_fields m c HF) as (Acur & Aep & Arec & Aact).
    destruct HF as (Hme & Hret & Hkc & (q' & Hq & Hq') & Hrec).
    assert (Hs : has_secret (kc c)) by (rewrite Hkc; apply has_secret_advance).
    rewrite process_unfold, Hb, K0. change (0 =? 3) with false. cbn [andb orb].
    rewrite Aact. cbn [negb]. cbv zeta. rewrite (has_secret_ens c Hs).
    assert (outer_opens (kc c) (e_state x) = true) as ->.
    { apply (opens_lookback _ (k_epoch k1)); [|lia|unfold LOOKBACK; lia].
      rewrite Hkc, Hst. unfold commit_of, advance. cbn [negb andb].
      rewrite es_secrets_other; [exact k1_secret|]. cbn [k_epoch]. lia. }
    cbn [negb].
    assert (wrong_epoch (kc c) x = true) as ->.
    { unfold wrong_epoch. rewrite K0, Hep, Aep. change (0 =? 1) with false. cbv iota.
      destruct (N.eqb_spec (k_epoch k1) (k_epoch k1 + 1)) as [E|_]; [lia|reflexivity]. }
    assert (Hfs : find_snap (e_epoch x) (queue c) = Some (snapm m)).
    { rewrite Hq, Hep. rewrite find_snap_app_none by exact Hq'. unfold find_snap. cbn [find snapm sn_epoch].
      rewrite N.eqb_refl. reflexivity. }
    rewrite (is_commit_kind_0 x K0). cbn [andb].
    unfold is_better. rewrite Hfs. cbn [snapm sn_ts sn_key].
    destruct (N.eqb_spec (e_ts m) 0) as [E|_]; [contradiction|].
    destruct ((e_ts x <? e_ts m) || ((e_ts x =? e_ts m) && (e_key x <? e_key m))); [|reflexivity].
    rewrite Hep. destruct f; reflexivity.
  Qed.

  (* the fork set *)
  Variable K : list event.
  Hypothesis K_applies : forall x, In x K -> applies x.
  Hypothesis K_inj : forall x y, In x K -> In y K -> e_id x = e_id y -> x = y.

  Definition lt_ev (x y : event) : Prop := mip03_lt (ev_key x) (ev_key y).

  (* m is applied; every other member of K is either still untouched, or refused for good and not better than m *)
  Definition Recs (m : event) (c : client) : Prop :=
    forall y, In y K -> y <> m -> fresh (dedup c) y \/ (blocking (dedup c) y /\ ~ lt_ev y m).

  Definition FInv (m : event) (S : list event) (c : client) : Prop :=
    In m K /\ Forked m c /\ Recs m c /\ forall y, In y S -> ~ lt_ev y m.

  Lemma fresh_rollback c s x : fresh (dedup c) x -> fresh (dedup (rollback c (k_epoch k1) s)) x.
  Proof.
    intros [H|(r & H & St & Ep)]; [left|right]; rewrite dget_rollback, H; [reflexivity|].
    exists r. split; [|split; assumption]. f_equal.
    unfold rb1. rewrite Ep, N.ltb_irrefl, andb_false_r. unfold rb2. rewrite St.
    change (PS_COMMIT =? PS_FAILED) with false. rewrite andb_false_r. reflexivity.
  Qed.

  Lemma rb2_invalid r : d_state r = PS_INVALID -> rb2 r = r.
  Proof. intros H. unfold rb2. rewrite H. change (PS_INVALID =? PS_FAILED) with false. rewrite andb_false_r. reflexivity. Qed.

  Lemma blocking_rollback c s x : blocking (dedup c) x -> blocking (dedup (rollback c (k_epoch k1) s)) x.
  Proof.
    intros (r & H & Hst).
    unfold blocking. rewrite dget_rollback, H. eexists. split; [reflexivity|].
    unfold rb1. destruct (d_group r && _).
    - left. rewrite rb2_invalid; reflexivity.
    - destruct Hst as [St|[St Ep]].
      + left. rewrite rb2_invalid by exact St. exact St.
      + right. unfold rb2. destruct (d_epoch r) as [x0|] eqn:Ex; [|contradiction]. cbv iota. rewrite andb_false_r.
        split; [exact St|rewrite Ex; discriminate].
  Qed.

  Lemma commit_rollback c s m :
    dget (e_id m) (dedup c) = Some (mkD PS_COMMIT (Some (k_epoch k1 + 1)) true None) ->
    blocking (dedup (rollback c (k_epoch k1) s)) m.
  Proof.
    intros H. unfold blocking. rewrite dget_rollback, H. eexists. split; [reflexivity|].
    left. unfold rb1. cbn [d_group d_epoch andb].
    destruct (N.ltb_spec (k_epoch k1) (k_epoch k1 + 1)) as [_|L]; [|lia].
    rewrite rb2_invalid; reflexivity.
  Qed.

  Lemma fresh_aset d id v x : e_id x <> id -> fresh d x -> fresh (aset N.eqb id v d) x.
  Proof. intros Hne H. unfold fresh in *. rewrite dget_aset_other by exact Hne. exact H. Qed.
  Lemma blocking_aset d id v x : e_id x <> id -> blocking d x -> blocking (aset N.eqb id v d) x.
  Proof. intros Hne H. unfold blocking in *. rewrite dget_aset_other by exact Hne. exact H. Qed.

  Lemma lt_ev_dec x y : ((e_ts x <? e_ts y) || ((e_ts x =? e_ts y) && (e_key x <? e_key y))) = true <-> lt_ev x y.
  Proof. apply lt_bool_spec. Qed.

  Lemma fork_step m S c x : FInv m S c -> In x K -> exists m', FInv m' (x :: S) (fst (deliver c x)).
  Proof.
    intros (HmK & HF & HR & HS) HxK.
    pose proof (K_applies m HmK) as Hma. pose proof (K_applies x HxK) as Hxa.
    assert (Htm : e_ts m <> 0) by apply Hma.
    destruct (forked_fields m c HF) as (Acur & Aep & Arec & Aact).
    assert (Hsync : sync c = c) by (apply sync_fix; rewrite Aep, Arec; reflexivity).
    assert (Hrecm : dget (e_id m) (dedup c) = Some (mkD PS_COMMIT (Some (k_epoch k1 + 1)) true None)) by apply HF.
    destruct (N.eq_dec (e_id x) (e_id m)) as [Eid|Nid].
    { (* the applied commit again *)
      assert (x = m) as -> by (apply K_inj; assumption).
      exists m. unfold deliver. rewrite (forked_process _ c m m HF Htm Hma).
      2:{ unfold blockedb. rewrite Hrecm. reflexivity. }
      assert ((e_ts m <? e_ts m) || ((e_ts m =? e_ts m) && (e_key m <? e_key m)) = false) as -> by lia.
      unfold late. rewrite Hrecm. cbn [d_state]. change (PS_COMMIT =? PS_COMMIT) with true. cbv iota. cbn [fst]. rewrite Hsync.
      split; [exact HmK|]. split; [exact HF|]. split; [exact HR|].
      intros y [<-|Hy]; [apply mip03_lt_irrefl|exact (HS y Hy)]. }
    assert (Hxm : x <> m) by (intros ->; apply Nid; reflexivity).
    destruct (HR x HxK Hxm) as [Hfr|[Hbl Hnlt]].
    2:{ (* refused earlier: blocked *)
      exists m. unfold deliver. rewrite process_unfold, (blocking_blocked c x Hbl). cbn [fst].
      split; [exact HmK|]. split; [exact HF|]. split; [exact HR|].
      intros y [<-|Hy]; [exact Hnlt|exact (HS y Hy)]. }
    unfold deliver. rewrite (forked_process _ c m x HF Htm Hxa (fresh_not_blocked c x Hfr)).
    destruct ((e_ts x <? e_ts m) || ((e_ts x =? e_ts m) && (e_key x <? e_key m))) eqn:Elt.
    - (* better: roll back and apply x *)
      apply lt_ev_dec in Elt.
      set (c2 := rollback c (k_epoch k1) (snapm m)).
      destruct HF as (Hme & Hret & Hkc & (q' & Hq & Hq') & _).
      assert (Hq2 : queue c2 = q').
      { change (queue c2) with (take_until (k_epoch k1) (queue c)). rewrite Hq. apply take_until_app_last; [exact Hq'|reflexivity]. }
      assert (Hfr2 : fresh (dedup c2) x) by (apply fresh_rollback; exact Hfr).
      rewrite (apply_at_base 1 c2 x); [|exact Hme|exact k1_es|exact Hxa|apply fresh_not_blocked; exact Hfr2].
      assert (Hens : ens c2 = c2) by (apply has_secret_ens; exists (k_cur k1); exact k1_secret).
      rewrite Hens.
      destruct (apply_commit_forked c2 x eq_refl Hme Hret) as [HF' Hd']; [rewrite Hq2; exact Hq'|exact Hxa|].
      exists x. split; [exact HxK|]. split; [exact HF'|]. split.
      + intros y HyK Hyx. rewrite Hd'.
        assert (e_id y <> e_id x) as Hidy by (intros E; apply Hyx; apply K_inj; assumption).
        destruct (N.eq_dec (e_id y) (e_id m)) as [Eym|Nym].
        * assert (y = m) as -> by (apply K_inj; assumption).
          right. split; [apply blocking_aset; [exact Hidy|]; apply commit_rollback; exact Hrecm|].
          intros H. exact (mip03_lt_irrefl _ (mip03_lt_trans _ _ _ H Elt)).
        * assert (y <> m) as Hym by (intros ->; apply Nym; reflexivity).
          destruct (HR y HyK Hym) as [Hf|[Hb Hn]].
          -- left. apply fresh_aset; [exact Hidy|]. apply fresh_rollback. exact Hf.
          -- right. split; [apply blocking_aset; [exact Hidy|]; apply blocking_rollback; exact Hb|].
             intros H. apply Hn. exact (mip03_lt_trans _ _ _ H Elt).
      + intros y [<-|Hy]; [apply mip03_lt_irrefl|].
        intros H. apply (HS y Hy). exact (mip03_lt_trans _ _ _ H Elt).
    - (* not better: refused, or (own commit, still recorded ProcessedCommit) acknowledged without effect *)
      assert (Hnlt : ~ lt_ev x m) by (intros H; apply lt_ev_dec in H; rewrite H in Elt; discriminate).
      exists m. unfold late.
      destruct Hfr as [Hnone|(r & Hr & St & Ep)].
      + rewrite Hnone. cbn [fst fail_unprocessable].
        split; [exact HmK|]. split.
        * destruct HF as (Hme & Hret & Hkc & Hqq & _). unfold Forked.
          cbn [record_failure set_dedup me retention kc queue dedup].
          repeat split; try assumption. rewrite dget_aset_other by (intros E; apply Nid; symmetry; exact E). exact Hrecm.
        * split.
          -- intros y HyK Hym. cbn [record_failure set_dedup dedup].
             destruct (N.eq_dec (e_id y) (e_id x)) as [Eyx|Nyx].
             ++ assert (y = x) as -> by (apply K_inj; assumption).
                right. split; [|exact Hnlt]. unfold blocking. rewrite dget_aset_same. eexists. split; [reflexivity|].
                right. split; [reflexivity|discriminate].
             ++ destruct (HR y HyK Hym) as [Hf|[Hb Hn]].
                ** left. apply fresh_aset; assumption.
                ** right. split; [apply blocking_aset; assumption|exact Hn].
          -- intros y [<-|Hy]; [exact Hnlt|exact (HS y Hy)].
      + rewrite Hr, St. change (PS_COMMIT =? PS_COMMIT) with true. cbv iota. cbn [fst]. rewrite Hsync.
        split; [exact HmK|]. split; [exact HF|]. split; [exact HR|].
        intros y [<-|Hy]; [exact Hnlt|exact (HS y Hy)].
  Qed.

  Lemma fork_run ds : forall m S c, FInv m S c -> (forall x, In x ds -> In x K) ->
    exists m', FInv m' (rev ds ++ S) (deliver_all c ds).
  Proof.
    induction ds as [|x ds IH]; intros m S c HI Hds; [exists m; exact HI|].
    destruct (fork_step m S c x HI (Hds x (or_introl eq_refl))) as (m1 & H1).
    destruct (IH m1 (x :: S) _ H1 (fun y Hy => Hds y (or_intror Hy))) as (m2 & H2).
    exists m2. cbn [rev]. rewrite <- app_assoc. exact H2.
  Qed.

  Theorem fork_converges b ds d :
    me b = me0 -> retention b = ret -> ensure_secret (kc b) = k1 ->
    (forall s, In s (queue b) -> sn_epoch s <> k_epoch k1) ->
    K <> [] -> (forall x, In x K -> fresh (dedup b) x) -> NoDup (map ev_key K) ->
    (forall x, In x ds -> In x K) -> (forall x, In x K -> In x ds) ->
    Forked (mip03_min d K) (deliver_all b ds).
  Proof.
    intros Hme Hret Hk Hq Hne Hfr Hnd Hsub Hsup.
    destruct ds as [|x0 ds]; [destruct K as [|y K']; [contradiction|destruct (Hsup y (or_introl eq_refl))]|].
    assert (Hx0 : In x0 K) by (apply Hsub; left; reflexivity).
    assert (H0 : FInv x0 [x0] (fst (deliver b x0))).
    { unfold deliver. rewrite (apply_at_base 2 b x0 Hme Hk (K_applies x0 Hx0) (fresh_not_blocked b x0 (Hfr x0 Hx0))).
      destruct (apply_commit_forked (ens b) x0) as [HF Hd]; [exact Hk|exact Hme|exact Hret|exact Hq|exact (K_applies x0 Hx0)|].
      split; [exact Hx0|]. split; [exact HF|]. split.
      - intros y HyK Hyx. left. rewrite Hd. apply fresh_aset; [|exact (Hfr y HyK)].
        intros E. apply Hyx. apply K_inj; assumption.
      - intros y [<-|[]]. apply mip03_lt_irrefl. }
    destruct (fork_run ds x0 [x0] _ H0 (fun y Hy => Hsub y (or_intror Hy))) as (m & HmK & HF & _ & HS).
    unfold deliver_all. cbn [fold_left]. fold (deliver_all (fst (deliver b x0)) ds).
    rewrite <- (mip03_min_unique d K m Hnd HmK); [exact HF|].
    intros y Hy. apply HS. apply in_or_app. destruct (Hsup y Hy) as [<-|Hy']; [right; left; reflexivity|left; apply in_rev in Hy'; exact Hy'].
  Qed.
End Fork.

Lemma fork_ready_secret c : fork_ready c ->
  dget (k_epoch (ensure_secret (kc c))) (k_secrets (ensure_secret (kc c))) = Some (k_cur (ensure_secret (kc c))).
Proof.
  intros (_ & _ & _ & _ & _ & Hsec). rewrite es_epoch, es_cur. unfold ensure_secret.
  destruct (dget (k_epoch (kc c)) (k_secrets (kc c))) as [x|] eqn:E.
  - rewrite E. f_equal. apply Hsec. reflexivity.
  - cbn [with_secrets k_secrets]. apply dget_aset_same.
Qed.

Lemma competitor_applies c x : competitor c x -> applies (ensure_secret (kc c)) (me c) x.
Proof.
  intros (K0 & Hst & Hep & Hau & (Hauth & Hbad) & Hrm & Hrefs & Hts & _). unfold applies. rewrite es_cur, es_epoch.
  repeat split; try assumption. left. repeat split; assumption.
Qed.

Lemma single_fork_converges : forall c K ds d,
  fork_ready c -> fork_set c K ->
  (forall e, In e ds -> In e K) -> (forall e, In e K -> In e ds) ->
  let c' := deliver_all c ds in
  k_cur (kc c') = e_id (mip03_min d K) + 1 /\ k_epoch (kc c') = k_epoch (kc c) + 1 /\
  k_rec_epoch (kc c') = k_epoch (kc c) + 1 /\ k_active (kc c') = true.
Proof.
  intros c K ds d Hfr (Hne & Hcomp & _ & Hnd & Hinj) Hsub Hsup. cbv zeta.
  pose proof (fork_ready_secret c Hfr) as Hsec.
  destruct Hfr as (Hact & _ & Hret & _ & Hq & _).
  rewrite Forall_forall in Hcomp.
  assert (Hk1a : k_active (ensure_secret (kc c)) = true) by (rewrite es_active; exact Hact).
  pose proof (fork_converges (ensure_secret (kc c)) (me c) (retention c) Hk1a Hsec Hret K
                (fun x Hx => competitor_applies c x (Hcomp x Hx)) Hinj c ds d eq_refl eq_refl eq_refl) as HF.
  rewrite es_epoch in HF.
  assert (Forked (ensure_secret (kc c)) (me c) (retention c) (mip03_min d K) (deliver_all c ds)) as HF'.
  { apply HF; try assumption.
    - intros s Hs. specialize (Hq s Hs). lia.
    - intros x Hx. left. apply (Hcomp x Hx). }
  destruct (forked_fields _ _ _ Hk1a _ _ HF') as (A1 & A2 & A3 & A4).
  rewrite es_epoch in A2, A3. auto.
Qed.

Lemma own_echo_converges : forall c own K ds d,
  fork_ready c -> e_kind own = 0 -> e_ts own <> 0 -> e_removes own = [] -> e_refs own = [] ->
  aget N.eqb (e_id own) (dedup c) = None ->
  let own' := mkEvent (e_id own) 0 (e_ts own) (e_key own) (me c) (k_cur (kc c)) (k_epoch (kc c)) true (e_data own) 0 [] [] 0 in
  let c0 := committed c own' in
  fork_set c K -> ~ In (e_id own) (map e_id K) -> ~ In (ev_key own') (map ev_key K) ->
  (forall e, In e ds -> In e (own' :: K)) -> (forall e, In e (own' :: K) -> In e ds) ->
  let c' := deliver_all c0 ds in
  k_cur (kc c') = e_id (mip03_min d (own' :: K)) + 1 /\ k_epoch (kc c') = k_epoch (kc c) + 1.
Proof.
  intros c own K ds d Hfr _ Hts _ _ _ own' c0 (Hne & Hcomp & _ & Hnd & Hinj) HnId HnKey Hsub Hsup. cbv zeta.
  pose proof (fork_ready_secret c Hfr) as Hsec.
  destruct Hfr as (Hact & _ & Hret & _ & Hq & _).
  rewrite Forall_forall in Hcomp.
  set (k1 := with_pending (ensure_secret (kc c)) (Some (commit_of own'))).
  assert (Hkc0 : kc c0 = k1) by reflexivity.
  assert (Hk1a : k_active k1 = true) by (unfold k1; cbn [with_pending k_active]; rewrite es_active; exact Hact).
  assert (Hk1s : dget (k_epoch k1) (k_secrets k1) = Some (k_cur k1)) by exact Hsec.
  assert (Happ : forall x, In x (own' :: K) -> applies k1 (me c) x).
  { intros x [<-|Hx].
    - unfold applies, k1. cbn [own' e_kind e_state e_epoch e_removes e_ts e_author with_pending k_cur k_epoch k_pending].
      rewrite es_cur, es_epoch. repeat split; try assumption. right. split; reflexivity.
    - destruct (Hcomp x Hx) as (K0 & Hst & Hep & Hau & (Hauth & Hbad) & Hrm & Hrefs & Htx & _).
      unfold applies, k1. cbn [with_pending k_cur k_epoch k_pending]. rewrite es_cur, es_epoch.
      repeat split; try assumption. left. repeat split; assumption. }
  assert (Hinj' : forall x y, In x (own' :: K) -> In y (own' :: K) -> e_id x = e_id y -> x = y).
  { intros x y [<-|Hx] [<-|Hy] E.
    - reflexivity.
    - exfalso. apply HnId. change (e_id own) with (e_id own'). rewrite E. apply in_map. exact Hy.
    - exfalso. apply HnId. change (e_id own) with (e_id own'). rewrite <- E. apply in_map. exact Hx.
    - exact (Hinj x y Hx Hy E). }
  assert (Forked k1 (me c) (retention c) (mip03_min d (own' :: K)) (deliver_all c0 ds)) as HF.
  { apply (fork_converges k1 (me c) (retention c) Hk1a Hk1s Hret (own' :: K) Happ Hinj' c0 ds d).
    - reflexivity.
    - reflexivity.
    - rewrite Hkc0. exact (es_fix _ _ Hk1s).
    - intros s Hs. change (queue c0) with (queue c) in Hs. specialize (Hq s Hs).
      unfold k1. cbn [with_pending k_epoch]. rewrite es_epoch. lia.
    - discriminate.
    - intros x [<-|Hx].
      + right. eexists. split; [apply dget_aset_same|]. split; reflexivity.
      + left. change (dedup c0) with (aset N.eqb (e_id own') (mkD PS_COMMIT (Some (k_epoch (ensure_secret (kc c)))) true None) (dedup c)).
        rewrite dget_aset_other; [apply (Hcomp x Hx)|].
        intros E. apply HnId. change (e_id own) with (e_id own'). rewrite <- E. apply in_map. exact Hx.
    - cbn [map]. constructor; assumption.
    - exact Hsub.
    - exact Hsup. }
  destruct (forked_fields _ _ _ Hk1a _ _ HF) as (A1 & A2 & _ & _).
  unfold k1 in A2. cbn [with_pending k_epoch] in A2. rewrite es_epoch in A2. auto.
Qed.

(* ---- a concrete three-way fork (timestamp tie between two competitors), worst-first delivery with repetitions *)
Definition ex_c : client := fst (deliver (init_client 1 false 3) (cmt 10 100 5 2 0 1 true)).
Definition ex_A : event := cmt 20 100 7 2 11 2 true.
Definition ex_B : event := cmt 30 100 3 3 11 2 true.
Definition ex_C : event := cmt 40 90 9 4 11 2 true.
Definition C01_fork_example_statement : Prop :=
  let K := [ex_A; ex_B; ex_C] in
  let ds := [ex_A; ex_B; ex_A; ex_C; ex_B; ex_C; ex_A] in
  fork_ready ex_c /\ fork_set ex_c K /\ mip03_min ex_A K = ex_C /\
  k_cur (kc (deliver_all ex_c ds)) = e_id ex_C + 1 /\ k_epoch (kc (deliver_all ex_c ds)) = 3 /\
  rollbacks (deliver_all ex_c ds) = 2.

Lemma c01_fork_example : C01_fork_example_statement.
Proof.
  unfold C01_fork_example_statement. cbv zeta.
  split; [|split; [|split; [|split; [|split]]]].
  - unfold fork_ready. vm_compute. repeat split; try discriminate.
    + intros s [<-|[]]. reflexivity.
    + intros x [= <-]. reflexivity.
  - unfold fork_set. split; [discriminate|]. split; [|split; [|split]].
    + repeat constructor; vm_compute; try reflexivity; discriminate.
    + vm_compute. repeat constructor; cbn [In]; intros H; repeat destruct H as [H|H]; try discriminate H; exact H.
    + vm_compute. repeat constructor; cbn [In]; intros H; repeat destruct H as [H|H]; try discriminate H; exact H.
    + intros e e' He He'. cbn [In] in He, He'.
      destruct He as [<-|[<-|[<-|[]]]]; destruct He' as [<-|[<-|[<-|[]]]]; intros E; try reflexivity; vm_compute in E; discriminate E.
  - vm_compute. reflexivity.
  - vm_compute. reflexivity.
  - vm_compute. reflexivity.
  - vm_compute. reflexivity.
Qed.

(* ================================================================ the snapshot queue is well formed in every reachable state *)
Lemma sorted_app_last q s : snaps_sorted q -> Forall (fun t => sn_epoch t < sn_epoch s) q -> snaps_sorted (q ++ [s]).
Proof.
  induction q as [|a r IH]; intros Hs Hb; cbn [app snaps_sorted]; [split; [constructor|exact I]|].
  destruct Hs as [Ha Hr]. inversion Hb as [|? ? Hab Hrb]; subst. split.
  - apply Forall_app. split; [exact Ha|]. constructor; [exact Hab|constructor].
  - exact (IH Hr Hrb).
Qed.

Lemma sorted_drop_front n : forall q, snaps_sorted q -> snaps_sorted (drop_front n q).
Proof.
  induction n as [|n IH]; intros q H; cbn [drop_front]; [exact H|].
  destruct q as [|a r]; [exact I|]. apply IH. exact (proj2 H).
Qed.

Lemma sorted_prune r q : snaps_sorted q -> snaps_sorted (prune r q).
Proof. intros H. unfold prune. destruct (lenN q <=? r); [exact H|apply sorted_drop_front; exact H]. Qed.

Lemma sorted_take_until ep q : snaps_sorted q -> snaps_sorted (take_until ep q).
Proof.
  induction q as [|a r IH]; intros H; cbn [take_until]; [exact I|].
  destruct (sn_epoch a =? ep); [exact I|]. destruct H as [Ha Hr]. split; [apply Forall_take_until; exact Ha|exact (IH Hr)].
Qed.

Lemma take_until_below ep q s : snaps_sorted q -> find_snap ep q = Some s -> Forall (fun t => sn_epoch t < sn_epoch s) (take_until ep q).
Proof.
  induction q as [|a r IH]; intros H Hf; cbn [take_until]; [constructor|].
  unfold find_snap in Hf. cbn [find] in Hf. destruct (sn_epoch a =? ep); [constructor|].
  destruct H as [Ha Hr]. constructor; [|exact (IH Hr Hf)].
  apply find_snap_In in Hf. rewrite Forall_forall in Ha. exact (Ha s (proj1 Hf)).
Qed.

Lemma advance_epoch k cm save ev : k_epoch (advance k cm save ev) = k_epoch k + 1.
Proof. destruct cm as [[id data] rm]. unfold advance. destruct (save && negb ev); rewrite ?es_epoch; reflexivity. Qed.

Lemma qwf_same c c' : k_epoch (kc c') = k_epoch (kc c) -> queue c' = queue c -> queue_wf c -> queue_wf c'.
Proof. intros E Q H. unfold queue_wf. rewrite E, Q. exact H. Qed.

Lemma qwf_bump c c' : k_epoch (kc c') = k_epoch (kc c) + 1 -> queue c' = queue c -> queue_wf c -> queue_wf c'.
Proof.
  intros E Q [H1 H2]. unfold queue_wf. rewrite E, Q. split; [|exact H2].
  eapply Forall_impl; [|exact H1]. intros s [A B]. split; [exact A|lia].
Qed.

Lemma qwf_ens c : queue_wf c -> queue_wf (ens c).
Proof. apply qwf_same; [apply es_epoch|reflexivity]. Qed.

Lemma qwf_apply_commit c e cm : queue_wf c -> queue_wf (fst (apply_commit c e cm)).
Proof.
  intros [H1 H2].
  assert (queue_wf (set_core (take_snapshot c e) (advance (kc (take_snapshot c e)) cm true (evicted_by c (snd cm))))) as H.
  { unfold queue_wf. cbn [set_core kc queue take_snapshot set_queue]. rewrite advance_epoch. split.
    - apply Forall_prune. apply Forall_app. split.
      + eapply Forall_impl; [|exact H1]. intros s [A B]. split; [exact A|lia].
      + constructor; [|constructor]. cbn [sn_core sn_epoch]. split; [reflexivity|lia].
    - apply sorted_prune. apply sorted_app_last; [exact H2|].
      eapply Forall_impl; [|exact H1]. intros s [_ B]. exact B. }
  unfold apply_commit. destruct (evicted_by c (snd cm)); exact H.
Qed.

Lemma qwf_rollback c ep s : queue_wf c -> find_snap ep (queue c) = Some s -> queue_wf (rollback c ep s).
Proof.
  intros [H1 H2] Hf. unfold queue_wf.
  change (kc (rollback c ep s)) with (sn_core s). change (queue (rollback c ep s)) with (take_until ep (queue c)).
  pose proof (find_snap_In _ _ _ Hf) as [Hin _].
  rewrite Forall_forall in H1. destruct (H1 s Hin) as [Es _]. rewrite Es. split; [|apply sorted_take_until; exact H2].
  pose proof (take_until_below ep (queue c) s H2 Hf) as Hb.
  pose proof (Forall_take_until _ ep (queue c) (proj2 (Forall_forall _ _) H1)) as Hc.
  rewrite Forall_forall in *. intros t Ht. split; [exact (proj1 (Hc t Ht))|exact (Hb t Ht)].
Qed.

Lemma qwf_late c e r : queue_wf c -> queue_wf (fst (late c e r)).
Proof.
  intros H. unfold late. destruct (dget (e_id e) (dedup c)) as [d|]; [|exact H].
  destruct (d_state d =? PS_COMMIT); exact H.
Qed.

Lemma qwf_here c e r : queue_wf c -> queue_wf (fst (here c e r)).
Proof.
  intros H. unfold here.
  destruct (e_author e =? me c).
  - unfold own_here.
    destruct (if e_kind e =? 0 then k_pending (kc c) else None) as [cm|]; [apply qwf_apply_commit; exact H|].
    destruct (dget (e_id e) (dedup c)) as [d|]; [|exact H].
    destruct ((d_state d =? PS_CREATED) || (d_state d =? PS_RETRY)).
    + destruct (d_msg d) as [m|]; [|exact H]. destruct (dget m (msgs c)); exact H.
    + destruct (d_state d =? PS_COMMIT); exact H.
  - destruct (e_kind e =? 1).
    + unfold app_here. destruct (negb _ || existsb (N.eqb (e_msg e)) (k_seen (kc c)) || (e_bad e =? 7)); [exact H|].
      cbn [fst]. revert H. apply qwf_same; [|reflexivity]. cbn [set_core kc].
      rewrite (proj1 (proj2 (upd_last_fields _ _ _))). reflexivity.
    + destruct (e_kind e =? 2).
      * unfold leave_here. destruct (existsb (N.eqb (100000 + e_id e)) (k_seen (kc c))); [exact H|].
        destruct (is_admin c && _); exact H.
      * unfold commit_here. destruct (negb (forallb _ (e_refs e))); [exact H|].
        destruct (negb (e_auth e) || (e_bad e =? 8)); [exact H|apply qwf_apply_commit; exact H].
Qed.

Lemma qwf_process fuel : forall c e, queue_wf c -> queue_wf (fst (process fuel c e)).
Proof.
  induction fuel as [|f IH]; intros c e H; rewrite process_unfold.
  all: destruct (blockedb c e); [exact H|].
  all: destruct ((e_kind e =? 3) && (e_bad e <? 2)); [exact H|].
  all: destruct ((e_kind e =? 3) && (e_bad e =? 2)); [exact H|].
  all: destruct (negb (k_active (kc c))); [exact H|].
  all: cbv zeta; pose proof (qwf_ens c H) as H1.
  all: destruct ((e_kind e =? 3) || negb (outer_opens (kc (ens c)) (e_state e))); [exact H1|].
  all: destruct (wrong_epoch (kc (ens c)) e); [|apply qwf_here; exact H1].
  all: destruct (is_commit_kind e && is_better (ens c) (e_epoch e) (e_ts e) (e_key e)); [|apply qwf_late; exact H1].
  all: destruct (find_snap (e_epoch e) (queue (ens c))) as [s|] eqn:Es; [|exact H1].
  - exact H1.
  - apply IH. apply qwf_rollback; [exact H1|exact Es].
Qed.

Lemma queue_wf_init : forall i a r, queue_wf (init_client i a r).
Proof. intros i a r. split; [constructor|exact I]. Qed.

Lemma queue_wf_deliver : forall c e, queue_wf c -> queue_wf (fst (deliver c e)).
Proof. intros c e. apply qwf_process. Qed.

Lemma queue_wf_api : forall c e, queue_wf c ->
  queue_wf (fst (merge_pending c)) /\ queue_wf (committed c e) /\ queue_wf (clear_pending c) /\ queue_wf (sent c e) /\ queue_wf (leave_created c e).
Proof.
  intros c e H. split; [|split; [|split; [|split]]].
  - unfold merge_pending. destruct (k_pending (kc c)) as [cm|]; [|exact H]. cbn [fst].
    revert H. apply qwf_bump; [|reflexivity]. cbn [set_core kc]. apply advance_epoch.
  - revert H. apply qwf_same; [|reflexivity]. unfold committed. cbn [put_dedup set_dedup set_core kc with_pending k_epoch]. apply es_epoch.
  - exact H.
  - revert H. apply qwf_same; [|reflexivity]. unfold sent. cbn [put_dedup set_dedup set_msgs set_core kc].
    rewrite (proj1 (proj2 (upd_last_fields _ _ _))). apply es_epoch.
  - revert H. apply qwf_same; [|reflexivity]. unfold leave_created. cbn [put_dedup set_dedup set_core kc with_props k_epoch]. apply es_epoch.
Qed.

Lemma queue_wf_no_current : forall c, queue_wf c -> forall s, In s (queue c) -> sn_epoch s <> k_epoch (kc c).
Proof. intros c [H _] s Hs. rewrite Forall_forall in H. destruct (H s Hs) as [_ L]. lia. Qed.

Lemma queue_wf_deliver_all ds : forall c, queue_wf c -> queue_wf (deliver_all c ds).
Proof.
  induction ds as [|e ds IH]; intros c H; [exact H|].
  unfold deliver_all. cbn [fold_left]. apply IH. apply queue_wf_deliver. exact H.
Qed.

Lemma redelivery_idempotent_reachable : forall i a r ds e n, let c := deliver_all (init_client i a r) ds in
  proj (deliver_all (fst (deliver c e)) (repeat e n)) = proj (fst (deliver c e)).
Proof.
  intros i a r ds e n c. apply redelivery_idempotent_n.
  - apply inv_deliver_all. apply inv_init.
  - apply queue_wf_no_current. apply queue_wf_deliver_all. apply queue_wf_init.
Qed.

(* ---- sent_as (message filed under a caller-chosen key): same invariants as `sent` *)
Lemma inv_sent_as : forall c e key, Inv c -> Inv (sent_as c e key).
Proof.
  intros c e key H. unfold sent_as. apply Inv_set_core; [|split; [exact (core_ok_ensure _ (proj1 H))|exact (proj2 H)]].
  apply core_ok_upd_last. exact (core_ok_ensure _ (proj1 H)).
Qed.

Lemma queue_wf_sent_as : forall c e key, queue_wf c -> queue_wf (sent_as c e key).
Proof.
  intros c e key. apply qwf_same; [|reflexivity]. unfold sent_as. cbn [put_dedup set_dedup set_msgs set_core kc].
  rewrite (proj1 (proj2 (upd_last_fields _ _ _))). apply es_epoch.
Qed.
