(* Extraction of the executable models to OCaml.  ExtrOcamlBasic only: N / positive / nat / ascii stay the
   extracted inductive types; the development adds no Extract Constant / Extract Inductive of its own. *)
Require Import ExtrOcamlBasic.
From MDK Require Import Base.Prelude Base.BSet Codec.Varint Codec.TlsVec Codec.Utf8 Codec.GroupDataExt Base.AMap Store.Contract Mdk.Engine Conc.Keyring Mdk.Welcome Codec.MediaCtx Mdk.Media Codec.EventCodec Crash.StmtProg.
Extraction Language OCaml.
Extraction Blacklist String.
Separate Extraction
  enc_len dec_len utf8_valid
  GroupDataExt.serialize GroupDataExt.deserialize GroupDataExt.wf GroupDataExt.roundtrip_ok
  Contract.empty Contract.step Contract.run Contract.reopen
  Contract.upd_ptr Contract.ptr_of Engine.init_client Engine.join_client Engine.deliver Engine.committed Engine.merge_pending Engine.clear_pending Engine.sent Engine.sent_as Engine.leave_created Engine.restart Engine.restart_with AMap.aget
  Keyring.open_db Keyring.mode_after Keyring.created_dir_modes
  Welcome.process_welcome Welcome.accept_welcome Welcome.decline_welcome Welcome.note_message Welcome.evict Welcome.self_updated Welcome.empty_st
  MediaCtx.mctx MediaCtx.mctx_guards MediaCtx.validate_mime MediaCtx.filename_valid Media.scenario_ok Media.same_file_twice
  EventCodec.b64_encode EventCodec.b64_decode EventCodec.hex_encode EventCodec.hex_decode EventCodec.kp_verdict EventCodec.welcome_verdict
  StmtProg.show_prog StmtProg.smallest_failing_k StmtProg.first_guard_rewrite.
