(* Finite maps as association lists without duplicate keys (insert replaces in place, else appends). *)
From MDK Require Import Base.Prelude.

Section AMap.
  Context {K V : Type}.
  Variable keqb : K -> K -> bool.

  Fixpoint aget (k : K) (m : list (K * V)) : option V :=
    match m with
    | [] => None
    | (k', v) :: r => if keqb k k' then Some v else aget k r
    end.

  Fixpoint aset (k : K) (v : V) (m : list (K * V)) : list (K * V) :=
    match m with
    | [] => [(k, v)]
    | (k', v') :: r => if keqb k k' then (k, v) :: r else (k', v') :: aset k v r
    end.

  Fixpoint adel (k : K) (m : list (K * V)) : list (K * V) :=
    match m with
    | [] => []
    | (k', v') :: r => if keqb k k' then adel k r else (k', v') :: adel k r
    end.

  Definition amem (k : K) (m : list (K * V)) : bool := match aget k m with Some _ => true | None => false end.
End AMap.

Definition pair_eqb (a b : N * N) : bool := (fst a =? fst b) && (snd a =? snd b).
Lemma pair_eqb_spec a b : pair_eqb a b = true <-> a = b.
Proof. destruct a as [a1 a2], b as [b1 b2]; unfold pair_eqb; cbn [fst snd]. split; [intros H; f_equal; lia | intros [= -> ->]; lia]. Qed.

Definition opt_eqb (a b : option N) : bool :=
  match a, b with Some x, Some y => x =? y | None, None => true | _, _ => false end.
