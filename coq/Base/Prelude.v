(* Common imports and settings for the MDK development (stdlib style: list, N, option). *)
From Coq Require Export List NArith ZArith Bool Lia.
From Coq Require Export ZifyN ZifyBool ZifyNat.
Export ListNotations.
Global Open Scope N_scope.
Ltac Zify.zify_post_hook ::= Z.div_mod_to_equations.
Global Arguments N.add : simpl never.
Global Arguments N.sub : simpl never.
Global Arguments N.mul : simpl never.
Global Arguments N.div : simpl never.
Global Arguments N.modulo : simpl never.
Global Arguments N.ltb : simpl never.
Global Arguments N.leb : simpl never.
Global Arguments N.eqb : simpl never.
Global Arguments N.compare : simpl never.

Lemma some_inj {A} (x y : A) : Some x = Some y -> x = y.
Proof. congruence. Qed.

(* bytes are numbers below 256 *)
Definition byte := N.
Definition bytes := list N.
Definition byte_ok (b : N) : bool := b <? 256.
Definition bytes_ok (bs : bytes) : bool := forallb byte_ok bs.

Lemma bytes_ok_Forall bs : bytes_ok bs = true <-> Forall (fun b => b < 256) bs.
Proof.
  unfold bytes_ok. rewrite forallb_forall, Forall_forall. unfold byte_ok.
  split; intros H x Hx; specialize (H x Hx); lia.
Qed.

Lemma bytes_ok_app a b : bytes_ok (a ++ b) = bytes_ok a && bytes_ok b.
Proof. unfold bytes_ok. apply forallb_app. Qed.

Definition lenN {A} (l : list A) : N := N.of_nat (length l).

Lemma lenN_app {A} (a b : list A) : lenN (a ++ b) = lenN a + lenN b.
Proof. unfold lenN. rewrite app_length. lia. Qed.

Lemma lenN_nil {A} : lenN (@nil A) = 0. Proof. reflexivity. Qed.
Lemma lenN_cons {A} (x : A) l : lenN (x :: l) = 1 + lenN l.
Proof. unfold lenN. cbn [length]. lia. Qed.

(* option bind *)
Definition obind {A B} (o : option A) (f : A -> option B) : option B :=
  match o with Some x => f x | None => None end.
Notation "'do' x <- e ; k" := (obind e (fun x => k)) (at level 200, x name, e at level 100, k at level 200, right associativity).
Notation "'do' ' p <- e ; k" := (obind e (fun x => match x with p => k end)) (at level 200, p strict pattern, e at level 100, k at level 200, right associativity).

(* take exactly n elements, or fail on truncation *)
Fixpoint take_exact {A} (n : nat) (l : list A) : option (list A * list A) :=
  match n with
  | O => Some ([], l)
  | S n' => match l with
            | [] => None
            | x :: r => match take_exact n' r with
                        | Some (a, b) => Some (x :: a, b)
                        | None => None end
            end
  end.

Lemma take_exact_app {A} (a b : list A) : take_exact (length a) (a ++ b) = Some (a, b).
Proof. induction a as [|x a IH]; cbn [take_exact length app]; [reflexivity|]. rewrite IH. reflexivity. Qed.

Lemma take_exact_spec {A} n (l a b : list A) : take_exact n l = Some (a, b) -> l = a ++ b /\ length a = n.
Proof.
  revert l a b. induction n as [|n IH]; intros l a b; cbn [take_exact].
  - intros [= <- <-]. auto.
  - destruct l as [|x r]; [discriminate|]. destruct (take_exact n r) as [[a' b']|] eqn:E; [|discriminate].
    intros [= <- <-]. apply IH in E. destruct E as [-> <-]. auto.
Qed.

Lemma take_exact_none {A} n (l : list A) : take_exact n l = None <-> (length l < n)%nat.
Proof.
  revert l. induction n as [|n IH]; intros l; cbn [take_exact].
  - split; [discriminate|lia].
  - destruct l as [|x r]; cbn [length]; [split; [lia|reflexivity]|].
    specialize (IH r). destruct (take_exact n r) as [[a b]|].
    + split; [discriminate|]. intros H. assert (length r < n)%nat as H' by lia. apply IH in H'. discriminate.
    + split; [|reflexivity]. intros _. assert (length r < n)%nat by (apply IH; reflexivity). lia.
Qed.
