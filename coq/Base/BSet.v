(* Sorted duplicate-free lists of byte strings: the model of BTreeSet<[u8;32]> / BTreeSet<RelayUrl>
   (ordering = bytewise lexicographic, as derived Ord on byte arrays / strings gives). *)
From MDK Require Import Base.Prelude.

Fixpoint lex_cmp (a b : bytes) : comparison :=
  match a, b with
  | [], [] => Eq
  | [], _ :: _ => Lt
  | _ :: _, [] => Gt
  | x :: a', y :: b' => match N.compare x y with Eq => lex_cmp a' b' | c => c end
  end.

Definition lex_ltb (a b : bytes) : bool := match lex_cmp a b with Lt => true | _ => false end.
Definition lex_eqb (a b : bytes) : bool := match lex_cmp a b with Eq => true | _ => false end.

Fixpoint bs_insert (x : bytes) (l : list bytes) : list bytes :=
  match l with
  | [] => [x]
  | y :: r => match lex_cmp x y with
              | Lt => x :: y :: r
              | Eq => y :: r
              | Gt => y :: bs_insert x r
              end
  end.

Definition bs_of_list (l : list bytes) : list bytes := fold_left (fun s x => bs_insert x s) l [].

Fixpoint bs_sorted (l : list bytes) : bool :=
  match l with
  | [] => true
  | x :: r => match r with
              | [] => true
              | y :: _ => lex_ltb x y && bs_sorted r
              end
  end.

(* keyed variant: a set ordered and deduplicated by key that remembers the first value inserted per key
   (BTreeSet::insert does not replace an equal element) *)
Fixpoint ks_insert {V} (k : bytes) (v : V) (l : list (bytes * V)) : list (bytes * V) :=
  match l with
  | [] => [(k, v)]
  | (k', v') :: r => match lex_cmp k k' with
                     | Lt => (k, v) :: (k', v') :: r
                     | Eq => (k', v') :: r
                     | Gt => (k', v') :: ks_insert k v r
                     end
  end.

Definition ks_sorted {V} (l : list (bytes * V)) : bool := bs_sorted (map fst l).
