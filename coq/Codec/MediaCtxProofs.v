(* C17 - proofs about Codec/MediaCtx.v: injectivity of the HKDF context / AAD encodings under the validators' guards,
   a refutation without them, and the round-trip / tamper / key-separation / non-member theorems of the symbolic model. *)
From Coq Require Import String Ascii.
From MDK Require Import Base.Prelude Gen.MediaConsts Codec.MediaCtx.

(* ---- equality tests ---------------------------------------------------------------------------------------------- *)
Lemma bytes_eqb_eq a b : bytes_eqb a b = true <-> a = b.
Proof.
  revert b. induction a as [|x a IH]; intros [|y b]; cbn [bytes_eqb]; try (split; [discriminate|discriminate]); [tauto|].
  rewrite andb_true_iff, IH, N.eqb_eq. split; [intros [-> ->]; reflexivity|intros [= -> ->]; auto].
Qed.
Lemma bytes_eqb_refl a : bytes_eqb a a = true.
Proof. apply bytes_eqb_eq. reflexivity. Qed.
Lemma bytes_eqb_neq a b : a <> b -> bytes_eqb a b = false.
Proof. intros Hn. destruct (bytes_eqb a b) eqn:E; [|reflexivity]. apply bytes_eqb_eq in E. contradiction. Qed.

Lemma key_eqb_eq a b : key_eqb a b = true <-> a = b.
Proof.
  destruct a as [s c|s], b as [s' c'|s']; cbn [key_eqb]; try (split; discriminate).
  - rewrite andb_true_iff, N.eqb_eq, bytes_eqb_eq. split; [intros [-> ->]; reflexivity|intros [= -> ->]; auto].
  - rewrite N.eqb_eq. split; [intros ->; reflexivity|intros [= ->]; reflexivity].
Qed.

(* the AEAD law of the term algebra *)
Lemma dec_spec k n a c p : dec k n a c = Some p <-> c = Enc k n a p.
Proof.
  destruct c as [k' n' a' pt|j]; cbn [dec]; [|split; discriminate].
  destruct (key_eqb k k' && bytes_eqb n n' && bytes_eqb a a') eqn:E.
  - apply andb_true_iff in E. destruct E as [E E3]. apply andb_true_iff in E. destruct E as [E1 E2].
    apply key_eqb_eq in E1. apply bytes_eqb_eq in E2. apply bytes_eqb_eq in E3. subst.
    split; [intros [= ->]; reflexivity|intros [= ->]; reflexivity].
  - split; [discriminate|]. intros [= -> -> -> ->].
    rewrite (proj2 (key_eqb_eq k k) eq_refl), !bytes_eqb_refl in E. discriminate.
Qed.
Lemma dec_enc k n a p : dec k n a (Enc k n a p) = Some p.
Proof. apply dec_spec. reflexivity. Qed.

(* ---- splitting at separators ------------------------------------------------------------------------------------- *)
Lemma no_nul_cons x a : no_nul (x :: a) = true <-> x <> sep /\ no_nul a = true.
Proof. unfold no_nul. cbn [forallb]. rewrite andb_true_iff, negb_true_iff, N.eqb_neq. tauto. Qed.
Lemma no_nul_app a b : no_nul (a ++ b) = no_nul a && no_nul b.
Proof. unfold no_nul. apply forallb_app. Qed.

(* both prefixes are separator-free: the first separator is at the same place *)
Lemma app_sep_inj2 a a' b b' :
  no_nul a = true -> no_nul a' = true -> a ++ sep :: b = a' ++ sep :: b' -> a = a' /\ b = b'.
Proof.
  revert a'. induction a as [|x a IH]; intros [|y a'] Ha Ha' E; cbn [app] in E.
  - injection E as ->. auto.
  - injection E as <- _. apply no_nul_cons in Ha'. destruct Ha' as [Hy _]. contradiction.
  - injection E as -> _. apply no_nul_cons in Ha. destruct Ha as [Hx _]. contradiction.
  - injection E as -> E. apply no_nul_cons in Ha. apply no_nul_cons in Ha'.
    destruct (IH a' (proj2 Ha) (proj2 Ha') E) as [-> ->]. auto.
Qed.
(* one side only is guarded (prefix and rest separator-free): still the same split *)
Lemma app_sep_inj1 a a' b b' :
  no_nul a = true -> no_nul b = true -> a ++ sep :: b = a' ++ sep :: b' -> a = a' /\ b = b'.
Proof.
  revert a'. induction a as [|x a IH]; intros [|y a'] Ha Hb E; cbn [app] in E.
  - injection E as ->. auto.
  - injection E as <- E. rewrite E, no_nul_app in Hb. apply andb_true_iff in Hb. destruct Hb as [_ Hb].
    apply no_nul_cons in Hb. destruct Hb as [Hb _]. contradiction.
  - injection E as -> _. apply no_nul_cons in Ha. destruct Ha as [Hx _]. contradiction.
  - injection E as -> E. apply no_nul_cons in Ha.
    destruct (IH a' (proj2 Ha) Hb E) as [-> ->]. auto.
Qed.
Lemma app_len_inj {A} (a a' b b' : list A) : length a = length a' -> a ++ b = a' ++ b' -> a = a' /\ b = b'.
Proof.
  revert a'. induction a as [|x a IH]; intros [|y a'] L E; cbn [length app] in *; try discriminate; [auto|].
  injection E as -> E. injection L as L. destruct (IH a' L E) as [-> ->]. auto.
Qed.
Lemma hash_ok_len h : hash_ok h = true -> length h = 32%nat.
Proof. unfold hash_ok. apply Nat.eqb_eq. Qed.

(* ---- injectivity of the AAD and of the HKDF context --------------------------------------------------------------- *)
(* two-sided guard: labels and MIME types separator-free, hashes 32 bytes; the file name needs NO guard (it is last) *)
Theorem aad_injective : forall l h m n l' h' m' n',
  no_nul l = true -> no_nul l' = true -> hash_ok h = true -> hash_ok h' = true ->
  no_nul m = true -> no_nul m' = true ->
  build_aad l h m n = build_aad l' h' m' n' -> l = l' /\ h = h' /\ m = m' /\ n = n'.
Proof.
  intros l h m n l' h' m' n' Hl Hl' Hh Hh' Hm Hm' E. unfold build_aad in E.
  apply app_sep_inj2 in E; [|assumption|assumption]. destruct E as [-> E].
  apply app_len_inj in E; [|rewrite (hash_ok_len _ Hh), (hash_ok_len _ Hh'); reflexivity]. destruct E as [-> E].
  injection E as E. apply app_sep_inj2 in E; [|assumption|assumption]. destruct E as [-> ->]. auto.
Qed.
Theorem ctx_injective : forall l h m n l' h' m' n' s,
  no_nul l = true -> no_nul l' = true -> hash_ok h = true -> hash_ok h' = true ->
  no_nul m = true -> no_nul m' = true ->
  build_ctx l h m n s = build_ctx l' h' m' n' s -> l = l' /\ h = h' /\ m = m' /\ n = n'.
Proof.
  intros l h m n l' h' m' n' s Hl Hl' Hh Hh' Hm Hm' E. unfold build_ctx in E.
  apply app_sep_inj2 in E; [|assumption|assumption]. destruct E as [-> E].
  apply app_len_inj in E; [|rewrite (hash_ok_len _ Hh), (hash_ok_len _ Hh'); reflexivity]. destruct E as [-> E].
  injection E as E. apply app_sep_inj2 in E; [|assumption|assumption]. destruct E as [-> E].
  change (n ++ sep :: s) with (n ++ (sep :: s)) in E. apply app_inv_tail in E. subst. auto.
Qed.
(* one-sided guard: only the honest (encrypting) side is validated; the other side's MIME type and file name are arbitrary *)
Theorem aad_injective_honest : forall l h m n l' h' m' n',
  no_nul l = true -> no_nul l' = true -> hash_ok h = true -> hash_ok h' = true ->
  no_nul m = true -> no_nul n = true ->
  build_aad l h m n = build_aad l' h' m' n' -> l = l' /\ h = h' /\ m = m' /\ n = n'.
Proof.
  intros l h m n l' h' m' n' Hl Hl' Hh Hh' Hm Hn E. unfold build_aad in E.
  apply app_sep_inj2 in E; [|assumption|assumption]. destruct E as [-> E].
  apply app_len_inj in E; [|rewrite (hash_ok_len _ Hh), (hash_ok_len _ Hh'); reflexivity]. destruct E as [-> E].
  injection E as E. apply app_sep_inj1 in E; [|assumption|assumption]. destruct E as [-> ->]. auto.
Qed.
Theorem ctx_injective_honest : forall l h m n l' h' m' n' s,
  no_nul l = true -> no_nul l' = true -> hash_ok h = true -> hash_ok h' = true ->
  no_nul m = true -> no_nul n = true ->
  build_ctx l h m n s = build_ctx l' h' m' n' s -> l = l' /\ h = h' /\ m = m' /\ n = n'.
Proof.
  intros l h m n l' h' m' n' s Hl Hl' Hh Hh' Hm Hn E. unfold build_ctx in E.
  apply app_sep_inj2 in E; [|assumption|assumption]. destruct E as [-> E].
  apply app_len_inj in E; [|rewrite (hash_ok_len _ Hh), (hash_ok_len _ Hh'); reflexivity]. destruct E as [-> E].
  injection E as E.
  assert (m ++ sep :: n = m' ++ sep :: n') as E'.
  { apply (app_inv_tail (sep :: s)). rewrite <- !app_assoc. cbn [app]. exact E. }
  apply app_sep_inj1 in E'; [|assumption|assumption]. destruct E' as [-> ->]. auto.
Qed.

(* without the MIME guard the encodings are NOT injective: ("a\0b","c") and ("a","b\0c") collide *)
Definition collide_l : bytes := bytes_of_string "mip04-v2".
Definition collide_h : bytes := repeat 7 32.
Theorem ctx_not_injective_without_guard : exists l h m n m' n',
  (m, n) <> (m', n') /\ hash_ok h = true /\ no_nul l = true /\
  build_ctx l h m n key_suffix = build_ctx l h m' n' key_suffix /\ build_aad l h m n = build_aad l h m' n'.
Proof.
  exists collide_l, collide_h, [97; 0; 98], [99], [97], [98; 0; 99].
  split; [discriminate|]. repeat split; vm_compute; reflexivity.
Qed.

(* ---- what the validators give -------------------------------------------------------------------------------------- *)
Lemma allowed_mimes_no_nul : forallb no_nul allowed_mimes = true.
Proof. vm_compute. reflexivity. Qed.
Lemma mime_allowed_no_nul m : mime_allowed m = true -> no_nul m = true.
Proof.
  unfold mime_allowed. intros E. apply existsb_exists in E. destruct E as [x [Hin Hx]].
  apply bytes_eqb_eq in Hx. subst. exact (proj1 (forallb_forall _ _) allowed_mimes_no_nul x Hin).
Qed.
Lemma validate_mime_no_nul m c : validate_mime m = Some c -> no_nul c = true.
Proof.
  unfold validate_mime. destruct (existsb _ _ && _); [|discriminate].
  destruct (mime_allowed (canon_mime m)) eqn:E; [|discriminate]. intros [= <-]. apply mime_allowed_no_nul. exact E.
Qed.
Lemma no_control_no_nul n : no_control n = true -> no_nul n = true.
Proof.
  induction n as [|x r IH]; [reflexivity|]. cbn [no_control]. intros E.
  repeat (apply andb_true_iff in E; destruct E as [E ?]).
  apply no_nul_cons. split; [|auto]. apply negb_true_iff in E. unfold sep. lia.
Qed.
Lemma filename_valid_no_nul n : filename_valid n = true -> no_nul n = true.
Proof. unfold filename_valid. intros E. apply andb_true_iff in E. destruct E as [_ E]. apply no_control_no_nul. exact E. Qed.
Lemma file_ok_guards f : file_ok f = true -> hash_ok (f_hash f) = true /\ no_nul (f_mime f) = true /\ no_nul (f_name f) = true.
Proof.
  unfold file_ok. intros E. apply andb_true_iff in E. destruct E as [E E3]. apply andb_true_iff in E. destruct E as [E1 E2].
  auto using mime_allowed_no_nul, filename_valid_no_nul.
Qed.

(* scheme labels: every label of the source's match is separator-free, and two versions with the same label are the same version *)
Lemma assoc_label_in arms v l : assoc_label arms v = Some l -> In (v, l) arms.
Proof.
  induction arms as [|[s t] r IH]; cbn [assoc_label]; [discriminate|].
  destruct (bytes_eqb v s) eqn:E.
  - intros [= <-]. apply bytes_eqb_eq in E. subst. cbn [In]. auto.
  - intros Hr. cbn [In]. auto.
Qed.
Definition arms_ok (arms : list (bytes * bytes)) : bool :=
  forallb (fun p => no_nul (snd p) &&
     forallb (fun q => implb (bytes_eqb (snd p) (snd q)) (bytes_eqb (fst p) (fst q))) arms) arms.
Lemma scheme_arms_ok : arms_ok scheme_label_arms_b = true.
Proof. vm_compute. reflexivity. Qed.
Lemma scheme_label_no_nul v l : scheme_label v = Some l -> no_nul l = true.
Proof.
  intros E. apply assoc_label_in in E.
  pose proof (proj1 (forallb_forall _ _) scheme_arms_ok (v, l) E) as Hp. cbn [fst snd] in Hp.
  apply andb_true_iff in Hp. tauto.
Qed.
Lemma scheme_label_inj v v' l : scheme_label v = Some l -> scheme_label v' = Some l -> v = v'.
Proof.
  intros E E'. apply assoc_label_in in E. apply assoc_label_in in E'.
  pose proof (proj1 (forallb_forall _ _) scheme_arms_ok (v, l) E) as Hp. cbn [fst snd] in Hp.
  apply andb_true_iff in Hp. destruct Hp as [_ Hp].
  pose proof (proj1 (forallb_forall _ _) Hp (v', l) E') as Hq. cbn [fst snd] in Hq.
  rewrite bytes_eqb_refl in Hq. cbn [implb] in Hq. apply bytes_eqb_eq in Hq. exact Hq.
Qed.

(* the model's two strings are assembled from exactly the pieces the source functions append, in the source's order *)
Definition layout_tied_statement : Prop :=
  (forall l h m n s, assemble hkdf_ctx_pieces l h m n s = build_ctx l h m n s) /\
  (forall l h m n, assemble aad_pieces l h m n [] = build_aad l h m n) /\
  key_suffix = [107; 101; 121] /\ hkdf_salt_is_none = true /\
  scheme_label (bytes_of_string default_scheme_version) = Some (bytes_of_string "mip04-v2") /\
  map fst scheme_label_arms = supported_scheme_versions /\
  (* the byte-list tables used by the executable model are the string tables *)
  map bytes_of_string supported_mime_types = supported_mime_types_b /\
  bytes_of_string escape_hatch_mime_type = escape_hatch_mime_type_b /\
  map (fun p => (bytes_of_string (fst p), bytes_of_string (snd p))) scheme_label_arms = scheme_label_arms_b /\
  bytes_of_string default_scheme_version = default_scheme_version_b /\
  bytes_of_string key_ctx_suffix = key_ctx_suffix_b /\
  bytes_of_string image_encryption_context_v2 = image_encryption_context_v2_b /\
  max_filename_length = 210 /\
  filename_refusals = ["slash"; "backslash"; "control"; "empty"; "too_long"]%string /\
  decrypt_fallback_errors = ["NoExporterSecretForEpoch"; "DecryptionFailed"]%string /\
  epoch_hint_search_format = "x {}"%string /\
  image_decrypt_tries_v2_first = true /\
  (forall m, In m group_image_mime_types -> In m supported_mime_types).
Lemma media_layout_tied : layout_tied_statement.
Proof.
  unfold layout_tied_statement. repeat split; try reflexivity.
  - intros l h m n s. unfold assemble, hkdf_ctx_pieces, build_ctx. simpl. rewrite app_nil_r. reflexivity.
  - intros l h m n. unfold assemble, aad_pieces, build_aad. simpl. rewrite app_nil_r. reflexivity.
  - intros m Hin. cbn in Hin. cbn. tauto.
Qed.

(* ---- media theorems ------------------------------------------------------------------------------------------------- *)
Section MediaThms.
  Variable H : bytes -> bytes.

  Lemma media_key_some secret f k : media_key secret f = Some k ->
    exists l, scheme_label (f_version f) = Some l /\ k = Kdf secret (build_ctx l (f_hash f) (f_mime f) (f_name f) key_suffix).
  Proof. unfold media_key. destruct (scheme_label (f_version f)) as [l|]; cbn [obind]; [|discriminate]. intros [= <-]. eauto. Qed.
  Lemma media_encrypt_some secret f n pt c : media_encrypt secret f n pt = Some c ->
    exists l, scheme_label (f_version f) = Some l /\
      c = Enc (Kdf secret (build_ctx l (f_hash f) (f_mime f) (f_name f) key_suffix)) n (build_aad l (f_hash f) (f_mime f) (f_name f)) pt.
  Proof.
    unfold media_encrypt, media_key. destruct (scheme_label (f_version f)) as [l|]; cbn [obind]; [|discriminate].
    intros [= <-]. eauto.
  Qed.

  (* every member holding the secret of the encryption epoch gets the same bytes back *)
  Theorem media_roundtrip_same_epoch : forall secret f n pt c,
    media_encrypt secret f n pt = Some c -> f_hash f = H pt -> media_decrypt H secret f n c = inl pt.
  Proof.
    intros secret f n pt c E Hh. apply media_encrypt_some in E. destruct E as [l [El ->]].
    unfold media_decrypt. rewrite El, dec_enc, Hh, bytes_eqb_refl. reflexivity.
  Qed.
  Corollary upload_roundtrip : forall secret v m nm n pt c f,
    upload H secret v m nm n pt = Some (c, f) -> media_decrypt H secret f n c = inl pt.
  Proof.
    intros secret v m nm n pt c f. unfold upload.
    destruct (media_encrypt _ _ _ _) as [c0|] eqn:E; cbn [obind]; [|discriminate]. intros [= <- <-].
    eapply media_roundtrip_same_epoch; [exact E|reflexivity].
  Qed.

  (* whatever decrypts was encrypted, with exactly these fields, nonce and secret, and decrypts to the encrypted bytes *)
  Lemma media_decrypt_ok secret f n c x : media_decrypt H secret f n c = inl x ->
    media_encrypt secret f n x = Some c /\ f_hash f = H x.
  Proof.
    unfold media_decrypt, media_encrypt, media_key. destruct (scheme_label (f_version f)) as [l|]; [|discriminate].
    destruct (dec _ _ _ c) as [p|] eqn:D; [|discriminate].
    destruct (bytes_eqb (H p) (f_hash f)) eqn:Eh; [|discriminate]. intros [= <-].
    apply dec_spec in D. apply bytes_eqb_eq in Eh. subst c. cbn [obind]. auto.
  Qed.

  (* tampering: an honest (validated) upload c of pt; any decryption attempt in which the ciphertext is unchanged but a
     field or the nonce differs, or in which the ciphertext is anything not made with the group's secret, fails. *)
  Theorem tamper_fails : forall secret f n pt c f' n' c',
    file_ok f = true -> hash_ok (f_hash f') = true ->
    media_encrypt secret f n pt = Some c ->
    (c', n', f') <> (c, n, f) ->
    (c' = c \/ ct_secret c' <> Some secret) ->
    exists e, media_decrypt H secret f' n' c' = inr e.
  Proof.
    intros secret f n pt c f' n' c' Hok Hh' E Hne Hc.
    destruct (media_decrypt H secret f' n' c') as [x|e] eqn:D; [|eauto]. exfalso.
    apply media_decrypt_ok in D. destruct D as [D _]. apply media_encrypt_some in D. destruct D as [l' [El' Ec']].
    destruct Hc as [->|Hs]; [|subst c'; cbn [ct_secret] in Hs; congruence].
    apply media_encrypt_some in E. destruct E as [l [El Ec]]. rewrite Ec in Ec'. injection Ec' as _ En Ea Ept.
    apply file_ok_guards in Hok. destruct Hok as [Hh [Hm Hn]].
    apply aad_injective_honest in Ea; eauto using scheme_label_no_nul.
    destruct Ea as [-> [Eh [Em Enm]]]. assert (f_version f = f_version f') as Ev by (eapply scheme_label_inj; eauto).
    apply Hne. destruct f, f'. cbn in *. subst. reflexivity.
  Qed.
  (* never different bytes: if a tampered attempt on the unchanged ciphertext returned anything, it is pt (vacuous by tamper_fails,
     stated separately because it needs no guard at all) *)
  Theorem never_different_bytes : forall secret f n pt c secret' f' n' x,
    media_encrypt secret f n pt = Some c -> media_decrypt H secret' f' n' c = inl x -> x = pt.
  Proof.
    intros secret f n pt c secret' f' n' x E D. apply media_decrypt_ok in D. destruct D as [D _].
    apply media_encrypt_some in E. destruct E as [l [_ ->]]. apply media_encrypt_some in D. destruct D as [l' [_ D]].
    injection D as _ _ _ _ ->. reflexivity.
  Qed.

  (* different file (hash), name, MIME type or group/epoch secret -> different key *)
  Theorem keys_distinct : forall secret f secret' f' k k',
    file_ok f = true -> hash_ok (f_hash f') = true ->
    media_key secret f = Some k -> media_key secret' f' = Some k' ->
    (secret <> secret' \/ f <> f') -> k <> k'.
  Proof.
    intros secret f secret' f' k k' Hok Hh' Ek Ek' Hd Eq. apply media_key_some in Ek. apply media_key_some in Ek'.
    destruct Ek as [l [El ->]]. destruct Ek' as [l' [El' ->]]. injection Eq as Es Ec.
    apply file_ok_guards in Hok. destruct Hok as [Hh [Hm Hn]].
    apply ctx_injective_honest in Ec; eauto using scheme_label_no_nul.
    destruct Ec as [-> [Eh [Em Enm]]]. assert (f_version f = f_version f') as Ev by (eapply scheme_label_inj; eauto).
    destruct Hd as [Hd|Hd]; [contradiction|]. apply Hd. destruct f, f'. cbn in *. subst. reflexivity.
  Qed.
  (* different uploads give different ciphertexts (different key, or different nonce, or different content) *)
  Corollary ciphertexts_distinct : forall secret f n pt c secret' f' n' pt' c',
    file_ok f = true -> hash_ok (f_hash f') = true ->
    media_encrypt secret f n pt = Some c -> media_encrypt secret' f' n' pt' = Some c' ->
    (secret <> secret' \/ f <> f' \/ n <> n' \/ pt <> pt') -> c <> c'.
  Proof.
    intros secret f n pt c secret' f' n' pt' c' Hok Hh' E E' Hd Eq. subst c'.
    pose proof E as E0. pose proof E' as E0'.
    apply media_encrypt_some in E. apply media_encrypt_some in E'. destruct E as [l [El Ec]]. destruct E' as [l' [El' Ec']].
    rewrite Ec in Ec'. injection Ec' as Es Ectx En Ea Ept.
    assert (Some (Kdf secret (build_ctx l (f_hash f) (f_mime f) (f_name f) key_suffix)) =
            Some (Kdf secret' (build_ctx l' (f_hash f') (f_mime f') (f_name f') key_suffix))) as Ek by (rewrite Es, Ectx; reflexivity).
    destruct Hd as [Hd|[Hd|[Hd|Hd]]]; try contradiction.
    refine (keys_distinct secret f secret' f' _ _ Hok Hh' _ _ (or_intror Hd) _);
      [unfold media_key; rewrite El; reflexivity|unfold media_key; rewrite El'; reflexivity|].
    injection Ek as -> ->. reflexivity.
  Qed.

  (* nobody else: any key built from a different secret fails, whatever fields and nonce are tried *)
  Theorem non_member_fails : forall secret f n pt c secret' f' n',
    media_encrypt secret f n pt = Some c -> secret' <> secret ->
    exists e, media_decrypt H secret' f' n' c = inr e.
  Proof.
    intros secret f n pt c secret' f' n' E Hs.
    destruct (media_decrypt H secret' f' n' c) as [x|e] eqn:D; [|eauto]. exfalso.
    apply media_decrypt_ok in D. destruct D as [D _].
    apply media_encrypt_some in E. destruct E as [l [_ ->]]. apply media_encrypt_some in D. destruct D as [l' [_ D]].
    injection D as Es. congruence.
  Qed.
End MediaThms.

(* ---- group image ------------------------------------------------------------------------------------------------------ *)
Section ImageThms.
  Variable Hc : ct -> bytes.

  (* a group image decrypts with the seed and nonce published in the group data, in both formats, with or without the blob hash *)
  Theorem image_roundtrip_v1_v2 : forall seed nonce pt,
    image_decrypt Hc (image_encrypt_v2 seed nonce pt) (Some (Hc (image_encrypt_v2 seed nonce pt))) seed nonce = Some pt /\
    image_decrypt Hc (image_encrypt_v2 seed nonce pt) None seed nonce = Some pt /\
    image_decrypt Hc (image_encrypt_v1 seed nonce pt) (Some (Hc (image_encrypt_v1 seed nonce pt))) seed nonce = Some pt /\
    image_decrypt Hc (image_encrypt_v1 seed nonce pt) None seed nonce = Some pt.
  Proof.
    intros seed nonce pt. unfold image_decrypt, image_encrypt_v2, image_encrypt_v1. rewrite !bytes_eqb_refl, !dec_enc.
    repeat split; reflexivity.
  Qed.
  (* whatever the image decryption returns is the plaintext of a v2 or v1 encryption of exactly this seed and nonce *)
  Lemma image_decrypt_ok c e seed nonce p : image_decrypt Hc c e seed nonce = Some p ->
    (c = image_encrypt_v2 seed nonce p \/ c = image_encrypt_v1 seed nonce p) /\
    match e with Some h => Hc c = h | None => True end.
  Proof.
    unfold image_decrypt. destruct e as [h|].
    - destruct (bytes_eqb (Hc c) h) eqn:Eh; [|discriminate]. apply bytes_eqb_eq in Eh.
      destruct (dec (Kdf seed image_label_v2) nonce [] c) as [q|] eqn:D.
      + intros [= <-]. apply dec_spec in D. auto.
      + intros D1. apply dec_spec in D1. auto.
    - destruct (dec (Kdf seed image_label_v2) nonce [] c) as [q|] eqn:D.
      + intros [= <-]. apply dec_spec in D. auto.
      + intros D1. apply dec_spec in D1. auto.
  Qed.
  (* wrong seed, wrong nonce, or a blob that is not the published one: an error, never different bytes *)
  Theorem image_tamper_fails : forall seed nonce pt c seed' nonce' c' e,
    (c = image_encrypt_v2 seed nonce pt \/ c = image_encrypt_v1 seed nonce pt) ->
    (c' = c /\ (seed' <> seed \/ nonce' <> nonce)) \/ ct_secret c' <> Some seed' \/ (e = Some (Hc c) /\ Hc c' <> Hc c) ->
    image_decrypt Hc c' e seed' nonce' = None.
  Proof.
    intros seed nonce pt c seed' nonce' c' e Hc0 Hd.
    destruct (image_decrypt Hc c' e seed' nonce') as [p|] eqn:D; [|reflexivity]. exfalso.
    apply image_decrypt_ok in D. destruct D as [D Dh].
    destruct Hd as [[-> Hd]|[Hd|[-> Hd]]].
    - unfold image_encrypt_v2, image_encrypt_v1 in *.
      destruct Hc0 as [->| ->], D as [D|D]; try discriminate; injection D as -> -> _; destruct Hd; congruence.
    - unfold image_encrypt_v2, image_encrypt_v1 in D. destruct D as [-> | ->]; cbn [ct_secret] in Hd; congruence.
    - contradiction.
  Qed.
  (* migration v1 -> v2 keeps the bytes *)
  Theorem image_migrate_keeps_bytes : forall k nonce pt seed2 nonce2 c2,
    image_migrate Hc (image_encrypt_v1 k nonce pt) None k nonce seed2 nonce2 = Some c2 ->
    image_decrypt Hc c2 (Some (Hc c2)) seed2 nonce2 = Some pt.
  Proof.
    intros k nonce pt seed2 nonce2 c2. unfold image_migrate.
    destruct (image_roundtrip_v1_v2 k nonce pt) as [_ [_ [_ R]]]. rewrite R. cbn [obind]. intros [= <-].
    apply image_roundtrip_v1_v2.
  Qed.
End ImageThms.

(* ---- non-vacuity ------------------------------------------------------------------------------------------------------ *)
Definition ex_H (b : bytes) : bytes := repeat (lenN b mod 256) 32.    (* stand-in hash for the example only *)
Definition ex_file : fileinfo :=
  {| f_version := bytes_of_string "mip04-v2"; f_hash := ex_H [1; 2; 3]; f_mime := bytes_of_string "image/png"; f_name := bytes_of_string "a b.png" |}.
Lemma media_example :
  file_ok ex_file = true /\
  (exists c, media_encrypt 5 ex_file [9] [1; 2; 3] = Some c /\ media_decrypt ex_H 5 ex_file [9] c = inl [1; 2; 3] /\
             media_decrypt ex_H 6 ex_file [9] c = inr EDecrypt /\ media_decrypt ex_H 5 ex_file [8] c = inr EDecrypt) /\
  filename_valid (bytes_of_string "a/b") = false /\ filename_valid [97; 0; 98] = false /\ filename_valid [194; 133] = false /\
  mime_allowed (bytes_of_string "image/svg+xml") = false.
Proof. vm_compute. repeat split; try reflexivity. eexists. repeat split; reflexivity. Qed.
