(* C15 (part b) - codecs and decision models of the Nostr-level wire formats:
     * base64 as the `base64` crate's STANDARD engine decodes it (standard alphabet, '=' padding REQUIRED and canonical, non-zero
       trailing bits refused, no whitespace) and hex as the `hex` crate (lower-case output, either case accepted, even length);
     * MDK::parse_key_package (crates/mdk-core/src/key_packages.rs) as a decision function of an abstract event, in the source's
       ORDER of checks: kind, required tags present, per-tag validators, encoding tag, base64, exact TLS parse + validate,
       credential identity = author, `i` tag = KeyPackageRef;
     * MDK::validate_welcome_event + preview_welcome's content decoding (welcomes.rs) for the kind-444 rumor.
   The MLS parts are opaque Section variables.  Definitions only; proofs in Codec/EventCodecProofs.v. *)
From MDK Require Import Base.Prelude.

Fixpoint beqb (a b : bytes) : bool :=
  match a, b with
  | [], [] => true
  | x :: a', y :: b' => (x =? y) && beqb a' b'
  | _, _ => false
  end.

(* ---- base64 ---------------------------------------------------------------------------------------------------------- *)
Definition b64_char (n : N) : N :=
  if n <? 26 then 65 + n else if n <? 52 then 97 + (n - 26) else if n <? 62 then 48 + (n - 52) else if n =? 62 then 43 else 47.
Definition b64_val (c : N) : option N :=
  if (65 <=? c) && (c <=? 90) then Some (c - 65)
  else if (97 <=? c) && (c <=? 122) then Some (c - 97 + 26)
  else if (48 <=? c) && (c <=? 57) then Some (c - 48 + 52)
  else if c =? 43 then Some 62 else if c =? 47 then Some 63 else None.
Definition pad : N := 61.

Fixpoint b64_encode (bs : bytes) : bytes :=
  match bs with
  | [] => []
  | [x] => [b64_char (x / 4); b64_char ((x mod 4) * 16); pad; pad]
  | [x; y] => [b64_char (x / 4); b64_char ((x mod 4) * 16 + y / 16); b64_char ((y mod 16) * 4); pad]
  | x :: y :: z :: rest =>
      b64_char (x / 4) :: b64_char ((x mod 4) * 16 + y / 16) :: b64_char ((y mod 16) * 4 + z / 64) :: b64_char (z mod 64) :: b64_encode rest
  end.

Definition quad3 (a b c d : N) : option bytes :=
  do x <- b64_val a; do y <- b64_val b; do z <- b64_val c; do w <- b64_val d;
  Some [x * 4 + y / 16; (y mod 16) * 16 + z / 4; (z mod 4) * 64 + w].
Definition quad_last (a b c d : N) : option bytes :=
  if d =? pad then
    if c =? pad then
      do x <- b64_val a; do y <- b64_val b;
      if y mod 16 =? 0 then Some [x * 4 + y / 16] else None            (* non-canonical trailing bits refused *)
    else
      do x <- b64_val a; do y <- b64_val b; do z <- b64_val c;
      if z mod 4 =? 0 then Some [x * 4 + y / 16; (y mod 16) * 16 + z / 4] else None
  else quad3 a b c d.
Fixpoint b64_decode (s : bytes) : option bytes :=
  match s with
  | [] => Some []
  | a :: b :: c :: d :: rest =>
      match rest with
      | [] => quad_last a b c d
      | _ => do q <- quad3 a b c d; do r <- b64_decode rest; Some (q ++ r)
      end
  | _ => None                                                            (* length not a multiple of 4: padding is required *)
  end.

(* ---- hex --------------------------------------------------------------------------------------------------------------- *)
Definition hex_char (n : N) : N := if n <? 10 then 48 + n else 87 + n.       (* lower case *)
Definition hex_val (c : N) : option N :=
  if (48 <=? c) && (c <=? 57) then Some (c - 48)
  else if (97 <=? c) && (c <=? 102) then Some (c - 87)
  else if (65 <=? c) && (c <=? 70) then Some (c - 55) else None.
Fixpoint hex_encode (bs : bytes) : bytes :=
  match bs with [] => [] | x :: r => hex_char (x / 16) :: hex_char (x mod 16) :: hex_encode r end.
Fixpoint hex_decode (s : bytes) : option bytes :=
  match s with
  | [] => Some []
  | a :: b :: r => do x <- hex_val a; do y <- hex_val b; do t <- hex_decode r; Some (x * 16 + y :: t)
  | _ => None
  end.
Definition is_hex_digit (c : N) : bool := match hex_val c with Some _ => true | None => false end.
Definition ascii_lower (b : bytes) : bytes := map (fun x => if (65 <=? x) && (x <=? 90) then x + 32 else x) b.

(* ---- tag names and constants (ASCII) -------------------------------------------------------------------------------------- *)
Definition s_pv : bytes := [109;108;115;95;112;114;111;116;111;99;111;108;95;118;101;114;115;105;111;110].  (* mls_protocol_version *)
Definition s_cs : bytes := [109;108;115;95;99;105;112;104;101;114;115;117;105;116;101].                       (* mls_ciphersuite *)
Definition s_ext : bytes := [109;108;115;95;101;120;116;101;110;115;105;111;110;115].                         (* mls_extensions *)
Definition s_relays : bytes := [114;101;108;97;121;115].                                                       (* relays *)
Definition s_i : bytes := [105].                                                                               (* i *)
Definition s_e : bytes := [101].                                                                               (* e *)
Definition s_client : bytes := [99;108;105;101;110;116].                                                       (* client *)
Definition s_encoding : bytes := [101;110;99;111;100;105;110;103].                                             (* encoding *)
Definition s_base64 : bytes := [98;97;115;101;54;52].                                                          (* base64 *)
Definition s_10 : bytes := [49;46;48].                                                                         (* 1.0 *)
Definition s_cs1 : bytes := [48;120;48;48;48;49].                                                              (* 0x0001 *)
Definition s_ext_lr : bytes := [48;120;48;48;48;97].                                                           (* 0x000a *)
Definition s_ext_gd : bytes := [48;120;102;50;101;101].                                                        (* 0xf2ee *)
Definition kind_key_package : N := 443.
Definition kind_welcome : N := 444.

Definition tag := list bytes.
Record event := { ev_kind : N; ev_tags : list tag; ev_content : bytes; ev_author : bytes }.

Definition tag_named (name : bytes) (t : tag) : bool := match t with n :: _ => beqb n name | [] => false end.
Definition find_tag (name : bytes) (ts : list tag) : option tag := find (tag_named name) ts.

(* "0x" + 4 hex digits, 6 characters *)
Definition hex4_ok (v : bytes) : bool :=
  match v with
  | [z; x; a; b; c; d] => (z =? 48) && (x =? 120) && is_hex_digit a && is_hex_digit b && is_hex_digit c && is_hex_digit d
  | _ => false
  end.

Inductive kp_err := EKind | EMissingTag | EProtocol | ECiphersuite | EExtensions | ERelays | EITag | EEncoding | EBase64 | ETls | EIdentity | ERefMismatch.

Definition validate_pv (t : tag) : bool := match t with _ :: v :: _ => beqb v s_10 | _ => false end.
Definition validate_cs (t : tag) : bool := match t with _ :: v :: _ => hex4_ok v && beqb (ascii_lower v) s_cs1 | _ => false end.
Definition validate_ext (t : tag) : bool :=
  match t with
  | _ :: (v :: vs) as vals =>
      forallb hex4_ok vals && existsb (fun x => beqb (ascii_lower x) s_ext_lr) vals && existsb (fun x => beqb (ascii_lower x) s_ext_gd) vals
  | _ => false
  end.
Definition validate_i (t : tag) : bool :=
  match t with [_; v] => negb (beqb v []) && match hex_decode v with Some _ => true | None => false end | _ => false end.
(* ContentEncoding::from_tags: the first tag ["encoding", v, ...] whose v lower-cases to "base64"; others are skipped *)
Definition encoding_tag_ok (t : tag) : bool := match t with n :: v :: _ => beqb n s_encoding && beqb (ascii_lower v) s_base64 | _ => false end.
Definition has_encoding (ts : list tag) : bool := existsb encoding_tag_ok ts.

Section KeyPackageEvent.
  Variable kp : Type.
  Variable kp_tls_parse : bytes -> option kp.      (* KeyPackageIn::tls_deserialize_exact + validate *)
  Variable kp_ref : kp -> bytes.                   (* hash_ref *)
  Variable kp_identity : kp -> option bytes.       (* BasicCredential identity, parse_credential_identity (None: not a 32-byte x-only key) *)
  Variable relay_ok : bytes -> bool.               (* RelayUrl::parse succeeds *)

  Definition validate_relays (t : tag) : bool := match t with _ :: (v :: vs) as vals => forallb relay_ok vals | _ => false end.

  (* validate_key_package_tags(event, None) *)
  Definition validate_tags (ts : list tag) : option kp_err :=
    match find_tag s_pv ts, find_tag s_cs ts, find_tag s_ext ts, find_tag s_relays ts, find_tag s_i ts with
    | Some pv, Some cs, Some ext, Some rl, Some it =>
        if negb (validate_pv pv) then Some EProtocol
        else if negb (validate_cs cs) then Some ECiphersuite
        else if negb (validate_ext ext) then Some EExtensions
        else if negb (validate_relays rl) then Some ERelays
        else if negb (validate_i it) then Some EITag
        else None
    | _, _, _, _, _ => Some EMissingTag
    end.

  Definition parse_key_package (e : event) : kp + kp_err :=
    if negb (ev_kind e =? kind_key_package) then inr EKind else
    match validate_tags (ev_tags e) with
    | Some err => inr err
    | None =>
      if negb (has_encoding (ev_tags e)) then inr EEncoding else
      match b64_decode (ev_content e) with
      | None => inr EBase64
      | Some raw =>
        match kp_tls_parse raw with
        | None => inr ETls
        | Some k =>
          match kp_identity k with
          | None => inr EIdentity
          | Some id =>
            if negb (beqb id (ev_author e)) then inr EIdentity else
            match find_tag s_i (ev_tags e) with
            | Some [_; v] =>
                match hex_decode v with
                | Some r => if beqb r (kp_ref k) then inl k else inr ERefMismatch
                | None => inr EITag
                end
            | _ => inr EITag
            end
          end
        end
      end
    end.

  (* create_key_package_for_event + signing by `author` *)
  Variable kp_tls_bytes : kp -> bytes.
  Definition build_key_package_event (k : kp) (author : bytes) (relays : list bytes) (protected : bool) (client : bytes) : event :=
    {| ev_kind := kind_key_package;
       ev_tags := [[s_pv; s_10]; [s_cs; s_cs1]; [s_ext; s_ext_lr; s_ext_gd]; s_relays :: relays; [s_i; hex_encode (kp_ref k)]]
                  ++ (if protected then [[[45]]] else []) ++ [[s_client; client]; [s_encoding; s_base64]];
       ev_content := b64_encode (kp_tls_bytes k);
       ev_author := author |}.
End KeyPackageEvent.

(* ---- welcome rumor (kind 444) ----------------------------------------------------------------------------------------------- *)
Inductive w_err := WKind | WFewTags | WBadRelay | WBadClient | WBadEncoding | WNoRelays | WNoEventRef | WNoEncoding | WBase64 | WTls.
Section WelcomeRumor.
  Variable relay_ok : bytes -> bool.
  Variable welcome : Type.
  Variable welcome_tls_parse : bytes -> option welcome.   (* MlsMessageIn::tls_deserialize_exact + extract Welcome + staging *)

  (* the loop of validate_welcome_event: state (has_relays, has_event_ref, has_encoding), first error wins *)
  Fixpoint scan (ts : list tag) (st : bool * bool * bool) : (bool * bool * bool) + w_err :=
    match ts with
    | [] => inl st
    | t :: r =>
      let '(hr, he, hc) := st in
      match t with
      | [] => scan r st
      | n :: vals =>
        if beqb n s_relays then
          match vals with
          | [] => scan r st
          | _ => if forallb relay_ok vals then scan r (true, he, hc) else inr WBadRelay
          end
        else if beqb n s_e then
          match vals with v :: _ => if beqb v [] then scan r st else scan r (hr, true, hc) | [] => scan r st end
        else if beqb n s_client then
          match vals with v :: _ => if beqb v [] then inr WBadClient else scan r st | [] => inr WBadClient end
        else if beqb n s_encoding then
          match vals with v :: _ => if beqb v s_base64 then scan r (hr, he, true) else inr WBadEncoding | [] => inr WBadEncoding end
        else scan r st
      end
    end.
  Definition validate_welcome (e : event) : option w_err :=
    if negb (ev_kind e =? kind_welcome) then Some WKind else
    if (length (ev_tags e) <? 3)%nat then Some WFewTags else
    match scan (ev_tags e) (false, false, false) with
    | inr err => Some err
    | inl (hr, he, hc) => if negb hr then Some WNoRelays else if negb he then Some WNoEventRef else if negb hc then Some WNoEncoding else None
    end.
  Definition parse_welcome (e : event) : welcome + w_err :=
    match validate_welcome e with
    | Some err => inr err
    | None =>
      if negb (has_encoding (ev_tags e)) then inr WNoEncoding else
      match b64_decode (ev_content e) with
      | None => inr WBase64
      | Some raw => match welcome_tls_parse raw with Some w => inl w | None => inr WTls end
      end
    end.
  Variable welcome_tls_bytes : welcome -> bytes.
  Definition build_welcome_rumor (w : welcome) (author : bytes) (relays : list bytes) (kp_event_id : bytes) (client : bytes) : event :=
    {| ev_kind := kind_welcome;
       ev_tags := [s_relays :: relays; [s_e; kp_event_id]; [s_client; client]; [s_encoding; s_base64]];
       ev_content := b64_encode (welcome_tls_bytes w);
       ev_author := author |}.
End WelcomeRumor.

(* ---- entry points for the correspondence run: verdict codes with the opaque parts supplied as ground-truth facts ------------ *)
Definition kp_err_code (e : kp_err) : N :=
  match e with EKind => 1 | EMissingTag => 2 | EProtocol => 3 | ECiphersuite => 4 | EExtensions => 5 | ERelays => 6 | EITag => 7
             | EEncoding => 8 | EBase64 => 9 | ETls => 10 | EIdentity => 11 | ERefMismatch => 12 end.
(* facts: tls_ok (the decoded content is exactly one valid KeyPackage), its ref and identity; relay table as a list of accepted urls *)
Definition kp_verdict (e : event) (tls_ok : bool) (kref : bytes) (ident : option bytes) (good_relays : list bytes) : N :=
  match parse_key_package unit (fun _ => if tls_ok then Some tt else None) (fun _ => kref) (fun _ => ident)
          (fun r => existsb (beqb r) good_relays) e with
  | inl _ => 0
  | inr err => kp_err_code err
  end.
Definition w_err_code (e : w_err) : N :=
  match e with WKind => 1 | WFewTags => 2 | WBadRelay => 3 | WBadClient => 4 | WBadEncoding => 5 | WNoRelays => 6 | WNoEventRef => 7
             | WNoEncoding => 8 | WBase64 => 9 | WTls => 10 end.
Definition welcome_verdict (e : event) (tls_ok : bool) (good_relays : list bytes) : N :=
  match parse_welcome (fun r => existsb (beqb r) good_relays) unit (fun _ => if tls_ok then Some tt else None) e with
  | inl _ => 0
  | inr err => w_err_code err
  end.
