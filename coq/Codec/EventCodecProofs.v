(* C15 (part b) - proofs about Codec/EventCodec.v: base64 / hex round trip and strictness, the refusals of the key-package
   event parser and of the welcome-rumor validation, and the build-then-parse round trips. *)
From MDK Require Import Base.Prelude Codec.EventCodec.

Ltac split_ifs := repeat match goal with
  | |- context [if ?b then _ else _] => let E := fresh "E" in destruct b eqn:E
  | H : context [if ?b then _ else _] |- _ => let E := fresh "E" in destruct b eqn:E
  end.

Lemma beqb_eq a b : beqb a b = true <-> a = b.
Proof.
  revert b. induction a as [|x a IH]; intros [|y b]; cbn [beqb]; try (split; discriminate); [tauto|].
  rewrite andb_true_iff, IH, N.eqb_eq. split; [intros [-> ->]; reflexivity|intros [= -> ->]; auto].
Qed.
Lemma beqb_refl a : beqb a a = true.
Proof. apply beqb_eq. reflexivity. Qed.

(* ---- base64 -------------------------------------------------------------------------------------------------------------- *)
Lemma b64_val_char n : n < 64 -> b64_val (b64_char n) = Some n.
Proof.
  intros Hn. unfold b64_val, b64_char.
  destruct (n <? 26) eqn:E1; [|destruct (n <? 52) eqn:E2; [|destruct (n <? 62) eqn:E3; [|destruct (n =? 62) eqn:E4]]];
  repeat match goal with |- context [if ?b then _ else _] => let E := fresh "E" in destruct b eqn:E end; try (f_equal; lia); try lia.
Qed.
Lemma b64_char_val c n : b64_val c = Some n -> n < 64 /\ b64_char n = c.
Proof.
  unfold b64_val. intros Hc.
  repeat match type of Hc with context [if ?b then _ else _] => let E := fresh "E" in destruct b eqn:E end; try discriminate;
  injection Hc as <-; unfold b64_char;
  (split; [lia|]);
  repeat match goal with |- context [if ?b then _ else _] => let E := fresh "E" in destruct b eqn:E end; lia.
Qed.
Lemma b64_char_not_pad n : n < 64 -> b64_char n <> pad.
Proof.
  intros Hn. unfold b64_char, pad.
  repeat match goal with |- context [if ?b then _ else _] => let E := fresh "E" in destruct b eqn:E end; lia.
Qed.
Lemma b64_val_pad : b64_val pad = None.
Proof. reflexivity. Qed.

Lemma quad3_enc x y z : x < 256 -> y < 256 -> z < 256 ->
  quad3 (b64_char (x / 4)) (b64_char ((x mod 4) * 16 + y / 16)) (b64_char ((y mod 16) * 4 + z / 64)) (b64_char (z mod 64)) = Some [x; y; z].
Proof.
  intros Hx Hy Hz. unfold quad3.
  rewrite !b64_val_char by lia. cbn [obind]. f_equal. f_equal; [lia|]. f_equal; [lia|]. f_equal. lia.
Qed.

Lemma b64_encode_nil_iff bs : b64_encode bs = [] <-> bs = [].
Proof. destruct bs as [|x [|y [|z r]]]; cbn [b64_encode]; split; try discriminate; auto. Qed.

Lemma b64_decode_encode_len n : forall bs, (length bs <= n)%nat -> bytes_ok bs = true -> b64_decode (b64_encode bs) = Some bs.
Proof.
  induction n as [|n IH]; intros bs Hl Hok.
  - destruct bs; [reflexivity|cbn [length] in Hl; lia].
  - apply bytes_ok_Forall in Hok.
    destruct bs as [|x [|y [|z r]]]; [reflexivity| | |].
    + inversion Hok as [|? ? Hx _]; subst. cbn [b64_encode b64_decode]. unfold quad_last.
      rewrite N.eqb_refl. rewrite !b64_val_char by lia. cbn [obind].
      assert (((x mod 4) * 16) mod 16 =? 0 = true) as -> by (apply N.eqb_eq; lia).
      f_equal. f_equal. lia.
    + inversion Hok as [|? ? Hx Hok']; subst. inversion Hok' as [|? ? Hy _]; subst.
      cbn [b64_encode b64_decode]. unfold quad_last. rewrite N.eqb_refl.
      destruct (b64_char ((y mod 16) * 4) =? pad) eqn:Ep; [apply N.eqb_eq in Ep; apply b64_char_not_pad in Ep; [contradiction|lia]|].
      rewrite !b64_val_char by lia. cbn [obind].
      assert (((y mod 16) * 4) mod 4 =? 0 = true) as -> by (apply N.eqb_eq; lia).
      f_equal. f_equal; [lia|]. f_equal. lia.
    + inversion Hok as [|? ? Hx Hok1]; subst. inversion Hok1 as [|? ? Hy Hok2]; subst. inversion Hok2 as [|? ? Hz Hok3]; subst.
      cbn [b64_encode]. cbn [b64_decode].
      destruct (b64_encode r) as [|c0 cr] eqn:Er.
      * apply (proj1 (b64_encode_nil_iff r)) in Er. rewrite Er. unfold quad_last.
        destruct (b64_char (z mod 64) =? pad) eqn:Ep; [apply N.eqb_eq in Ep; apply b64_char_not_pad in Ep; [contradiction|lia]|].
        apply quad3_enc; assumption.
      * rewrite quad3_enc by assumption. cbn [obind]. rewrite <- Er.
        rewrite IH; [reflexivity|cbn [length] in Hl; lia|apply bytes_ok_Forall; exact Hok3].
Qed.
Theorem b64_decode_encode : forall bs, bytes_ok bs = true -> b64_decode (b64_encode bs) = Some bs.
Proof. intros bs. apply (b64_decode_encode_len (length bs)). lia. Qed.

(* strictness *)
Lemma b64_decode_last a b c d : b64_decode [a; b; c; d] = quad_last a b c d.
Proof. reflexivity. Qed.
Lemma b64_decode_cons4 a b c d rest : rest <> [] ->
  b64_decode (a :: b :: c :: d :: rest) = (do q <- quad3 a b c d; do r <- b64_decode rest; Some (q ++ r)).
Proof. destruct rest; [contradiction|reflexivity]. Qed.
Lemma quad3_in a b c d q x : quad3 a b c d = Some q -> In x [a; b; c; d] -> exists n, b64_val x = Some n.
Proof.
  unfold quad3. destruct (b64_val a) eqn:A; [|discriminate]. destruct (b64_val b) eqn:B; [|discriminate].
  destruct (b64_val c) eqn:C; [|discriminate]. destruct (b64_val d) eqn:D; [|discriminate].
  intros _ [<-|[<-|[<-|[<-|[]]]]]; eauto.
Qed.
(* a character outside the alphabet (and not '=') anywhere: refused *)
Theorem b64_non_alphabet_rejected : forall s c, In c s -> b64_val c = None -> c <> pad -> b64_decode s = None.
Proof.
  intros s. remember (length s) as n eqn:Hn. revert s Hn.
  induction n as [n IH] using lt_wf_ind. intros s Hn c Hin Hv Hp.
  destruct s as [|a [|b [|c0 [|d rest]]]]; try reflexivity; [destruct Hin|].
  destruct rest as [|r0 rr]; [rewrite b64_decode_last|rewrite b64_decode_cons4 by discriminate].
  - destruct (quad_last a b c0 d) as [q|] eqn:Q; [|reflexivity]. exfalso. unfold quad_last in Q.
    destruct (d =? pad) eqn:Ed.
    + apply N.eqb_eq in Ed. destruct (c0 =? pad) eqn:Ec.
      * apply N.eqb_eq in Ec. destruct (b64_val a) eqn:A; [|discriminate]. destruct (b64_val b) eqn:B; [|discriminate].
        destruct Hin as [<-|[<-|[<-|[<-|[]]]]]; congruence.
      * destruct (b64_val a) eqn:A; [|discriminate]. destruct (b64_val b) eqn:B; [|discriminate]. destruct (b64_val c0) eqn:C; [|discriminate].
        destruct Hin as [<-|[<-|[<-|[<-|[]]]]]; congruence.
    + destruct Hin as [Hin|[Hin|[Hin|[Hin|[]]]]]; subst;
      (edestruct (quad3_in _ _ _ _ _ c Q) as [m Hm]; [cbn [In]; auto|congruence]).
  - destruct (quad3 a b c0 d) as [q|] eqn:Q; [|reflexivity]. cbn [obind].
    destruct Hin as [Hin|[Hin|[Hin|[Hin|Hin]]]].
    1-4: (subst; edestruct (quad3_in _ _ _ _ _ c Q) as [m Hm]; [cbn [In]; auto|congruence]).
    subst n. rewrite (IH (length (r0 :: rr))) with (c := c); [reflexivity|cbn [length]; lia|reflexivity|assumption|assumption|assumption].
Qed.
(* a length that is not a multiple of 4 (missing padding included): refused *)
Theorem b64_bad_length_rejected : forall s, (length s mod 4 <> 0)%nat -> b64_decode s = None.
Proof.
  intros s. remember (length s) as n eqn:Hn. revert s Hn.
  induction n as [n IH] using lt_wf_ind. intros s Hn Hm.
  destruct s as [|a [|b [|c0 [|d rest]]]]; try reflexivity; [subst; cbn in Hm; lia|].
  destruct rest as [|r0 rr]; [subst; cbn in Hm; lia|]. rewrite b64_decode_cons4 by discriminate.
  destruct (quad3 a b c0 d); [|reflexivity]. cbn [obind].
  rewrite (IH (length (r0 :: rr))); [reflexivity|subst; cbn [length]; lia|reflexivity|].
  subst n. cbn [length] in *. intros X. apply Hm.
  replace (S (S (S (S (S (length rr)))))) with (S (length rr) + 1 * 4)%nat by lia. rewrite Nat.mod_add by lia. exact X.
Qed.
(* canonicity: whatever decodes is the encoding of the result (so padding position, padding bits and every character are forced) *)
Lemma quad3_canon a b c d q : quad3 a b c d = Some q -> exists x y z, q = [x; y; z] /\
  a = b64_char (x / 4) /\ b = b64_char ((x mod 4) * 16 + y / 16) /\ c = b64_char ((y mod 16) * 4 + z / 64) /\ d = b64_char (z mod 64) /\ d <> pad.
Proof.
  unfold quad3. destruct (b64_val a) as [x|] eqn:A; [|discriminate]. destruct (b64_val b) as [y|] eqn:B; [|discriminate].
  destruct (b64_val c) as [z|] eqn:C; [|discriminate]. destruct (b64_val d) as [w|] eqn:D; [|discriminate]. cbn [obind].
  apply b64_char_val in A. apply b64_char_val in B. apply b64_char_val in C. apply b64_char_val in D.
  destruct A as [Hx <-]. destruct B as [Hy <-]. destruct C as [Hz <-]. destruct D as [Hw <-]. intros [= <-].
  exists (x * 4 + y / 16), ((y mod 16) * 16 + z / 4), ((z mod 4) * 64 + w). split; [reflexivity|].
  repeat split; try (f_equal; lia). apply b64_char_not_pad. exact Hw.
Qed.
Theorem b64_canonical : forall s bs, b64_decode s = Some bs -> b64_encode bs = s.
Proof.
  intros s. remember (length s) as n eqn:Hn. revert s Hn.
  induction n as [n IH] using lt_wf_ind. intros s Hn bs Hd.
  destruct s as [|a [|b [|c0 [|d rest]]]]; try discriminate; [injection Hd as <-; reflexivity|].
  destruct rest as [|r0 rr]; [rewrite b64_decode_last in Hd|rewrite b64_decode_cons4 in Hd by discriminate].
  - unfold quad_last in Hd. destruct (d =? pad) eqn:Ed.
    + apply N.eqb_eq in Ed. subst d. destruct (c0 =? pad) eqn:Ec.
      * apply N.eqb_eq in Ec. subst c0.
        destruct (b64_val a) as [x|] eqn:A; [|discriminate]. destruct (b64_val b) as [y|] eqn:B; [|discriminate]. cbn [obind] in Hd.
        destruct (y mod 16 =? 0) eqn:Ey; [|discriminate]. injection Hd as <-. apply N.eqb_eq in Ey.
        apply b64_char_val in A. apply b64_char_val in B. destruct A as [Hx <-]. destruct B as [Hy <-].
        cbn [b64_encode]. repeat f_equal; lia.
      * destruct (b64_val a) as [x|] eqn:A; [|discriminate]. destruct (b64_val b) as [y|] eqn:B; [|discriminate].
        destruct (b64_val c0) as [z|] eqn:C; [|discriminate]. cbn [obind] in Hd.
        destruct (z mod 4 =? 0) eqn:Ez; [|discriminate]. injection Hd as <-. apply N.eqb_eq in Ez.
        apply b64_char_val in A. apply b64_char_val in B. apply b64_char_val in C.
        destruct A as [Hx <-]. destruct B as [Hy <-]. destruct C as [Hz <-].
        cbn [b64_encode]. repeat f_equal; lia.
    + apply quad3_canon in Hd. destruct Hd as [x [y [z [-> [-> [-> [-> [-> _]]]]]]]]. reflexivity.
  - destruct (quad3 a b c0 d) as [q|] eqn:Q; [|discriminate]. cbn [obind] in Hd.
    destruct (b64_decode (r0 :: rr)) as [t|] eqn:R; [|discriminate]. cbn [obind] in Hd. injection Hd as <-.
    apply quad3_canon in Q. destruct Q as [x [y [z [-> [-> [-> [-> [-> _]]]]]]]].
    apply (IH (length (r0 :: rr))) in R; [|subst; cbn [length]; lia|reflexivity].
    cbn [app b64_encode]. rewrite R. reflexivity.
Qed.

(* ---- hex ----------------------------------------------------------------------------------------------------------------- *)
Lemma hex_val_char n : n < 16 -> hex_val (hex_char n) = Some n.
Proof.
  intros Hn. unfold hex_val, hex_char. destruct (n <? 10) eqn:E1;
  repeat match goal with |- context [if ?b then _ else _] => let E := fresh "E" in destruct b eqn:E end; try (f_equal; lia); try lia.
Qed.
Theorem hex_decode_encode : forall bs, bytes_ok bs = true -> hex_decode (hex_encode bs) = Some bs.
Proof.
  induction bs as [|x r IH]; [reflexivity|]. intros Hok. apply bytes_ok_Forall in Hok. inversion Hok as [|? ? Hx Hr]; subst.
  cbn [hex_encode hex_decode]. rewrite !hex_val_char by lia. cbn [obind]. rewrite IH by (apply bytes_ok_Forall; exact Hr).
  cbn [obind]. f_equal. f_equal. lia.
Qed.
Theorem hex_odd_length_rejected : forall s, (length s mod 2 <> 0)%nat -> hex_decode s = None.
Proof.
  intros s. remember (length s) as n eqn:Hn. revert s Hn. induction n as [n IH] using lt_wf_ind. intros s Hn Hm.
  destruct s as [|a [|b r]]; [subst; cbn in Hm; lia|reflexivity|]. cbn [hex_decode].
  destruct (hex_val a); [|reflexivity]. destruct (hex_val b); [|reflexivity]. cbn [obind].
  rewrite (IH (length r)); [reflexivity|subst; cbn [length]; lia|reflexivity|].
  subst n. cbn [length] in Hm. intros X. apply Hm. replace (S (S (length r))) with (length r + 1 * 2)%nat by lia. rewrite Nat.mod_add by lia. exact X.
Qed.
Theorem hex_non_digit_rejected : forall s c, In c s -> hex_val c = None -> hex_decode s = None.
Proof.
  intros s. remember (length s) as n eqn:Hn. revert s Hn. induction n as [n IH] using lt_wf_ind. intros s Hn c Hin Hv.
  destruct s as [|a [|b r]]; [destruct Hin|reflexivity|]. cbn [hex_decode].
  destruct (hex_val a) eqn:A; [|reflexivity]. destruct (hex_val b) eqn:B; [|reflexivity]. cbn [obind].
  destruct Hin as [<-|[<-|Hin]]; try congruence.
  rewrite (IH (length r)) with (c := c); [reflexivity|subst; cbn [length]; lia|reflexivity|assumption|assumption].
Qed.
Lemma hex_encode_nil_iff bs : hex_encode bs = [] <-> bs = [].
Proof. destruct bs; cbn [hex_encode]; split; try discriminate; auto. Qed.

(* ---- key-package event ------------------------------------------------------------------------------------------------------ *)
Section KpThms.
  Variable kp : Type.
  Variable kp_tls_parse : bytes -> option kp.
  Variable kp_ref : kp -> bytes.
  Variable kp_identity : kp -> option bytes.
  Variable relay_ok : bytes -> bool.
  Notation parse := (parse_key_package kp kp_tls_parse kp_ref kp_identity relay_ok).

  (* everything an accepted event satisfies *)
  Theorem kp_accept_sound : forall e k, parse e = inl k ->
    ev_kind e = kind_key_package /\
    (exists pv cs ext rl it, find_tag s_pv (ev_tags e) = Some pv /\ validate_pv pv = true /\
        find_tag s_cs (ev_tags e) = Some cs /\ validate_cs cs = true /\
        find_tag s_ext (ev_tags e) = Some ext /\ validate_ext ext = true /\
        find_tag s_relays (ev_tags e) = Some rl /\ validate_relays relay_ok rl = true /\
        find_tag s_i (ev_tags e) = Some it /\ validate_i it = true /\
        exists n v, it = [n; v] /\ hex_decode v = Some (kp_ref k)) /\
    has_encoding (ev_tags e) = true /\
    (exists raw, b64_decode (ev_content e) = Some raw /\ kp_tls_parse raw = Some k) /\
    kp_identity k = Some (ev_author e).
  Proof.
    intros e k. unfold parse_key_package.
    destruct (ev_kind e =? kind_key_package) eqn:Ek; cbn [negb]; [|discriminate]. apply N.eqb_eq in Ek.
    unfold validate_tags.
    destruct (find_tag s_pv (ev_tags e)) as [pv|] eqn:F1; [|discriminate].
    destruct (find_tag s_cs (ev_tags e)) as [cs|] eqn:F2; [|discriminate].
    destruct (find_tag s_ext (ev_tags e)) as [ext|] eqn:F3; [|discriminate].
    destruct (find_tag s_relays (ev_tags e)) as [rl|] eqn:F4; [|discriminate].
    destruct (find_tag s_i (ev_tags e)) as [it|] eqn:F5; [|discriminate].
    destruct (validate_pv pv) eqn:V1; cbn [negb]; [|discriminate].
    destruct (validate_cs cs) eqn:V2; cbn [negb]; [|discriminate].
    destruct (validate_ext ext) eqn:V3; cbn [negb]; [|discriminate].
    destruct (validate_relays relay_ok rl) eqn:V4; cbn [negb]; [|discriminate].
    destruct (validate_i it) eqn:V5; cbn [negb]; [|discriminate].
    destruct (has_encoding (ev_tags e)) eqn:He; cbn [negb]; [|discriminate].
    destruct (b64_decode (ev_content e)) as [raw|] eqn:B; [|discriminate].
    destruct (kp_tls_parse raw) as [k0|] eqn:T; [|discriminate].
    destruct (kp_identity k0) as [id|] eqn:I; [|discriminate].
    destruct (beqb id (ev_author e)) eqn:Ea; cbn [negb]; [|discriminate]. apply beqb_eq in Ea. subst id.
    destruct it as [|n [|v [|? ?]]]; try discriminate.
    destruct (hex_decode v) as [r|] eqn:Hx; [|discriminate].
    destruct (beqb r (kp_ref k0)) eqn:Er; [|discriminate]. apply beqb_eq in Er. subst r. intros [= <-].
    split; [assumption|]. split; [exists pv, cs, ext, rl, [n; v]; repeat split; try assumption; eauto|].
    split; [reflexivity|]. split; [eauto|assumption].
  Qed.

  Theorem wrong_kind_rejected : forall e, ev_kind e <> kind_key_package -> parse e = inr EKind.
  Proof. intros e Hk. unfold parse_key_package. apply N.eqb_neq in Hk. rewrite Hk. reflexivity. Qed.

  Ltac by_sound := let k := fresh "k" in let D := fresh "D" in
    match goal with |- exists err, ?p = inr err => destruct p as [k|err] eqn:D; [exfalso; apply kp_accept_sound in D|eauto] end.

  Theorem missing_encoding_tag_rejected : forall e,
    (forall t, In t (ev_tags e) -> tag_named s_encoding t = false) -> exists err, parse e = inr err.
  Proof.
    intros e Hno. by_sound. destruct D as [_ [_ [He _]]]. unfold has_encoding in He. apply existsb_exists in He.
    destruct He as [t [Hin Ht]]. specialize (Hno t Hin). unfold encoding_tag_ok in Ht. unfold tag_named in Hno.
    destruct t as [|n [|v r]]; try discriminate. rewrite Hno in Ht. discriminate.
  Qed.
  Theorem non_base64_encoding_rejected : forall e,
    (forall t, In t (ev_tags e) -> encoding_tag_ok t = false) -> exists err, parse e = inr err.
  Proof.
    intros e Hno. by_sound. destruct D as [_ [_ [He _]]]. unfold has_encoding in He. apply existsb_exists in He.
    destruct He as [t [Hin Ht]]. rewrite (Hno t Hin) in Ht. discriminate.
  Qed.
  Theorem non_base64_content_rejected : forall e, b64_decode (ev_content e) = None -> exists err, parse e = inr err.
  Proof. intros e Hb. by_sound. destruct D as [_ [_ [_ [[raw [B _]] _]]]]. congruence. Qed.
  (* trailing bytes, truncation, any TLS or validation failure of the decoded content *)
  Theorem bad_tls_rejected : forall e raw, b64_decode (ev_content e) = Some raw -> kp_tls_parse raw = None -> exists err, parse e = inr err.
  Proof. intros e raw Hb Ht. by_sound. destruct D as [_ [_ [_ [[raw' [B T]] _]]]]. congruence. Qed.
  Theorem ref_tag_mismatch_rejected : forall e raw k n v,
    b64_decode (ev_content e) = Some raw -> kp_tls_parse raw = Some k ->
    find_tag s_i (ev_tags e) = Some [n; v] -> hex_decode v <> Some (kp_ref k) -> exists err, parse e = inr err.
  Proof.
    intros e raw k n v Hb Ht Hi Hne. by_sound.
    destruct D as [_ [Dt [_ [[raw' [B T]] _]]]]. destruct Dt as (pv & cs & ext & rl & it & _ & _ & _ & _ & _ & _ & _ & _ & Fi & _ & n' & v' & -> & Hx).
    rewrite Hb in B. injection B as <-. rewrite Ht in T. injection T as <-. rewrite Hi in Fi. injection Fi as <- <-. contradiction.
  Qed.
  Theorem identity_author_mismatch_rejected : forall e raw k,
    b64_decode (ev_content e) = Some raw -> kp_tls_parse raw = Some k ->
    kp_identity k <> Some (ev_author e) -> exists err, parse e = inr err.
  Proof.
    intros e raw k Hb Ht Hne. by_sound. destruct D as [_ [_ [_ [[raw' [B T]] I]]]].
    rewrite Hb in B. injection B as <-. rewrite Ht in T. injection T as <-. contradiction.
  Qed.
  Theorem wrong_protocol_rejected : forall e t, find_tag s_pv (ev_tags e) = Some t -> validate_pv t = false -> exists err, parse e = inr err.
  Proof.
    intros e t Hf Hv. by_sound. destruct D as [_ [Dt _]]. destruct Dt as (pv & cs & ext & rl & it & F & V & _). rewrite Hf in F. injection F as <-. congruence.
  Qed.
  Theorem wrong_ciphersuite_rejected : forall e t, find_tag s_cs (ev_tags e) = Some t -> validate_cs t = false -> exists err, parse e = inr err.
  Proof.
    intros e t Hf Hv. by_sound. destruct D as [_ [Dt _]]. destruct Dt as (pv & cs & ext & rl & it & _ & _ & F & V & _). rewrite Hf in F. injection F as <-. congruence.
  Qed.
  Theorem missing_extensions_rejected : forall e t, find_tag s_ext (ev_tags e) = Some t -> validate_ext t = false -> exists err, parse e = inr err.
  Proof.
    intros e t Hf Hv. by_sound. destruct D as [_ [Dt _]]. destruct Dt as (pv & cs & ext & rl & it & _ & _ & _ & _ & F & V & _). rewrite Hf in F. injection F as <-. congruence.
  Qed.
  Theorem missing_required_tag_rejected : forall e name, In name [s_pv; s_cs; s_ext; s_relays; s_i] -> find_tag name (ev_tags e) = None -> exists err, parse e = inr err.
  Proof.
    intros e name Hin Hf. by_sound.
    destruct D as [_ [Dt _]]. destruct Dt as (pv & cs & ext & rl & it & F1 & _ & F2 & _ & F3 & _ & F4 & _ & F5 & _).
    cbn [In] in Hin. destruct Hin as [<-|[<-|[<-|[<-|[<-|[]]]]]]; congruence.
  Qed.
  (* what the validators demand of the values: the required extension ids must both be listed; version must be "1.0"; suite 0x0001 *)
  Lemma validate_pv_spec t : validate_pv t = true <-> exists n r, t = n :: s_10 :: r.
  Proof.
    unfold validate_pv. destruct t as [|n [|v r]]; try (split; [discriminate|intros [? [? X]]; discriminate]).
    rewrite beqb_eq. split; [intros ->; eauto|intros [? [? [= _ -> _]]]; reflexivity].
  Qed.

  Variable kp_tls_bytes : kp -> bytes.
  Theorem kp_event_roundtrip : forall k author relays protected client,
    kp_tls_parse (kp_tls_bytes k) = Some k -> bytes_ok (kp_tls_bytes k) = true ->
    bytes_ok (kp_ref k) = true -> kp_ref k <> [] ->
    kp_identity k = Some author -> relays <> [] -> forallb relay_ok relays = true ->
    parse (build_key_package_event kp kp_ref kp_tls_bytes k author relays protected client) = inl k.
  Proof.
    intros k author relays protected client Ht Hb Hr Hne Hi Hrl Hok.
    destruct relays as [|r0 rs]; [contradiction|].
    assert (beqb (hex_encode (kp_ref k)) [] = false) as Hnz.
    { destruct (beqb (hex_encode (kp_ref k)) []) eqn:E; [|reflexivity]. apply beqb_eq in E. apply (proj1 (hex_encode_nil_iff _)) in E. contradiction. }
    unfold parse_key_package, build_key_package_event. cbn [ev_kind ev_tags ev_content ev_author].
    rewrite N.eqb_refl. cbn [negb].
    assert (forall tl, validate_tags relay_ok ([[s_pv; s_10]; [s_cs; s_cs1]; [s_ext; s_ext_lr; s_ext_gd]; s_relays :: r0 :: rs; [s_i; hex_encode (kp_ref k)]] ++ tl) = None) as Vt.
    { intros tl. unfold validate_tags.
      change (find_tag s_pv _) with (Some [s_pv; s_10]). change (find_tag s_cs _) with (Some [s_cs; s_cs1]).
      change (find_tag s_ext _) with (Some [s_ext; s_ext_lr; s_ext_gd]). change (find_tag s_relays _) with (Some (s_relays :: r0 :: rs)).
      change (find_tag s_i _) with (Some [s_i; hex_encode (kp_ref k)]).
      change (validate_pv [s_pv; s_10]) with true. change (validate_cs [s_cs; s_cs1]) with true.
      change (validate_ext [s_ext; s_ext_lr; s_ext_gd]) with true. cbn [negb].
      unfold validate_relays. rewrite Hok. cbn [negb]. unfold validate_i. rewrite Hnz, (hex_decode_encode _ Hr). reflexivity. }
    rewrite Vt.
    assert (has_encoding ([[s_pv; s_10]; [s_cs; s_cs1]; [s_ext; s_ext_lr; s_ext_gd]; s_relays :: r0 :: rs; [s_i; hex_encode (kp_ref k)]]
              ++ (if protected then [[[45]]] else []) ++ [[s_client; client]; [s_encoding; s_base64]]) = true) as ->.
    { unfold has_encoding. rewrite !existsb_app. apply orb_true_iff. right. apply orb_true_iff. right. reflexivity. }
    cbn [negb]. rewrite (b64_decode_encode _ Hb), Ht, Hi, beqb_refl. cbn [negb].
    change (find_tag s_i _) with (Some [s_i; hex_encode (kp_ref k)]). cbv beta iota.
    rewrite (hex_decode_encode _ Hr), beqb_refl. reflexivity.
  Qed.
End KpThms.

(* ---- welcome rumor ------------------------------------------------------------------------------------------------------------ *)
Section WelcomeThms.
  Variable relay_ok : bytes -> bool.
  Variable welcome : Type.
  Variable welcome_tls_parse : bytes -> option welcome.
  Notation wparse := (parse_welcome relay_ok welcome welcome_tls_parse).

  Theorem welcome_wrong_kind_rejected : forall e, ev_kind e <> kind_welcome -> wparse e = inr WKind.
  Proof. intros e Hk. unfold parse_welcome, validate_welcome. apply N.eqb_neq in Hk. rewrite Hk. reflexivity. Qed.

  Theorem welcome_accept_sound : forall e w, wparse e = inl w ->
    ev_kind e = kind_welcome /\ validate_welcome relay_ok e = None /\ has_encoding (ev_tags e) = true /\
    exists raw, b64_decode (ev_content e) = Some raw /\ welcome_tls_parse raw = Some w.
  Proof.
    intros e w. unfold parse_welcome. destruct (validate_welcome relay_ok e) as [err|] eqn:V; [discriminate|].
    destruct (has_encoding (ev_tags e)) eqn:He; cbn [negb]; [|discriminate].
    destruct (b64_decode (ev_content e)) as [raw|] eqn:B; [|discriminate].
    destruct (welcome_tls_parse raw) as [w0|] eqn:T; [|discriminate]. intros [= <-].
    repeat split; eauto. unfold validate_welcome in V. destruct (ev_kind e =? kind_welcome) eqn:Ek; cbn [negb] in V; [|discriminate].
    apply N.eqb_eq. exact Ek.
  Qed.
  Theorem welcome_missing_encoding_rejected : forall e,
    (forall t, In t (ev_tags e) -> encoding_tag_ok t = false) -> exists err, wparse e = inr err.
  Proof.
    intros e Hno. destruct (wparse e) as [w|err] eqn:D; [exfalso|eauto]. apply welcome_accept_sound in D.
    destruct D as [_ [_ [He _]]]. unfold has_encoding in He. apply existsb_exists in He. destruct He as [t [Hin Ht]].
    rewrite (Hno t Hin) in Ht. discriminate.
  Qed.
  Theorem welcome_non_base64_content_rejected : forall e, b64_decode (ev_content e) = None -> exists err, wparse e = inr err.
  Proof.
    intros e Hb. destruct (wparse e) as [w|err] eqn:D; [exfalso|eauto]. apply welcome_accept_sound in D.
    destruct D as [_ [_ [_ [raw [B _]]]]]. congruence.
  Qed.
  Theorem welcome_bad_tls_rejected : forall e raw, b64_decode (ev_content e) = Some raw -> welcome_tls_parse raw = None -> exists err, wparse e = inr err.
  Proof.
    intros e raw Hb Ht. destruct (wparse e) as [w|err] eqn:D; [exfalso|eauto]. apply welcome_accept_sound in D.
    destruct D as [_ [_ [_ [raw' [B T]]]]]. congruence.
  Qed.

  Variable welcome_tls_bytes : welcome -> bytes.
  Theorem welcome_rumor_roundtrip : forall w author relays kpid client,
    welcome_tls_parse (welcome_tls_bytes w) = Some w -> bytes_ok (welcome_tls_bytes w) = true ->
    relays <> [] -> forallb relay_ok relays = true -> kpid <> [] -> client <> [] ->
    wparse (build_welcome_rumor welcome welcome_tls_bytes w author relays kpid client) = inl w.
  Proof.
    intros w author relays kpid client Ht Hb Hrl Hok Hk Hc.
    destruct relays as [|r0 rs]; [contradiction|].
    assert (beqb kpid [] = false) as Hk' by (destruct (beqb kpid []) eqn:E; [apply beqb_eq in E; contradiction|reflexivity]).
    assert (beqb client [] = false) as Hc' by (destruct (beqb client []) eqn:E; [apply beqb_eq in E; contradiction|reflexivity]).
    unfold parse_welcome, validate_welcome, build_welcome_rumor. cbn [ev_kind ev_tags ev_content ev_author].
    rewrite N.eqb_refl. cbn [negb length]. change (4 <? 3)%nat with false. cbv iota.
    cbn [scan]. change (beqb s_relays s_relays) with true. cbv iota. rewrite Hok.
    change (beqb s_e s_relays) with false. change (beqb s_e s_e) with true. cbv iota. rewrite Hk'.
    change (beqb s_client s_relays) with false. change (beqb s_client s_e) with false. change (beqb s_client s_client) with true. cbv iota. rewrite Hc'.
    change (beqb s_encoding s_relays) with false. change (beqb s_encoding s_e) with false. change (beqb s_encoding s_client) with false.
    change (beqb s_encoding s_encoding) with true. change (beqb s_base64 s_base64) with true. cbv iota. cbn [negb].
    change (has_encoding _) with true.
    cbn [negb]. rewrite (b64_decode_encode _ Hb), Ht. reflexivity.
  Qed.
End WelcomeThms.

(* ---- non-vacuity ---------------------------------------------------------------------------------------------------------------- *)
Definition ex_kp_event : event :=
  build_key_package_event N (fun k => [k; 7]) (fun k => [k; 1; 2; 255]) 9 [3; 3] [[119; 115; 115; 58; 47; 47; 114]] true [77].
Lemma event_codec_example :
  b64_encode [77; 97; 110] = [84; 87; 70; 117] /\ b64_encode [77; 97] = [84; 87; 69; 61] /\ b64_encode [77] = [84; 81; 61; 61] /\
  b64_decode [84; 81; 61; 61] = Some [77] /\ b64_decode [84; 82; 61; 61] = None /\ b64_decode [84; 81; 61] = None /\ b64_decode [84; 81] = None /\
  hex_decode [65; 98] = Some [171] /\ hex_decode [65] = None /\
  kp_verdict ex_kp_event true [9; 7] (Some [3; 3]) [[119; 115; 115; 58; 47; 47; 114]] = 0 /\
  kp_verdict ex_kp_event true [9; 8] (Some [3; 3]) [[119; 115; 115; 58; 47; 47; 114]] = 12 /\
  kp_verdict ex_kp_event true [9; 7] (Some [3; 4]) [[119; 115; 115; 58; 47; 47; 114]] = 11 /\
  kp_verdict ex_kp_event false [9; 7] (Some [3; 3]) [[119; 115; 115; 58; 47; 47; 114]] = 10.
Proof. vm_compute. repeat split; reflexivity. Qed.
