(* tls_codec's variable-length vectors.  `dec_vec` follows `impl DeserializeBytes for Vec<T>` literally:
   read the length L, then keep reading whole elements from the *remaining input* while fewer than L bytes
   have been consumed - an element may therefore run past the declared length (overrun). *)
From MDK Require Import Base.Prelude Codec.Varint.

Section Vec.
  Context {T : Type}.
  Variable encT : T -> option bytes.
  Variable decT : bytes -> option (T * bytes).

  Fixpoint enc_elems (xs : list T) : option bytes :=
    match xs with
    | [] => Some []
    | x :: r => do bx <- encT x; do br <- enc_elems r; Some (bx ++ br)
    end.

  Definition enc_vec (xs : list T) : option bytes :=
    do body <- enc_elems xs; do hd <- enc_len (lenN body); Some (hd ++ body).

  (* fuel bounds the number of elements; every element decoder used consumes at least one byte *)
  Fixpoint dec_elems (fuel : nat) (need : N) (bs : bytes) : option (list T * bytes) :=
    if need =? 0 then Some ([], bs) else
    match fuel with
    | O => None
    | S f =>
      do '(x, r) <- decT bs;
      let used := lenN bs - lenN r in
      do '(xs, r') <- dec_elems f (need - used) r;
      Some (x :: xs, r')
    end.

  Definition dec_vec (bs : bytes) : option (list T * bytes) :=
    do '(L, r) <- dec_len bs; dec_elems (S (length r)) L r.
End Vec.

(* u8 elements *)
Definition enc_u8 (b : N) : option bytes := Some [b].
Definition dec_u8 (bs : bytes) : option (N * bytes) := match bs with [] => None | b :: r => Some (b, r) end.

(* Vec<u8>: the generic loop specialised to bytes = "take exactly L bytes" *)
Definition enc_bytes (v : bytes) : option bytes := do hd <- enc_len (lenN v); Some (hd ++ v).
Definition dec_bytes (bs : bytes) : option (bytes * bytes) :=
  do '(L, r) <- dec_len bs;
  if L <=? lenN r then take_exact (N.to_nat L) r else None.

(* fixed arrays [u8; n] *)
Definition enc_fixed (n : nat) (v : bytes) : option bytes := if Nat.eqb (length v) n then Some v else None.
Definition dec_fixed (n : nat) (bs : bytes) : option (bytes * bytes) := take_exact n bs.

(* u16 big endian *)
Definition enc_u16 (n : N) : option bytes := if n <? 65536 then Some [n / 256; n mod 256] else None.
Definition dec_u16 (bs : bytes) : option (N * bytes) :=
  match bs with b0 :: b1 :: r => Some (b0 * 256 + b1, r) | _ => None end.
