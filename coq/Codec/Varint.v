(* MLS/QUIC variable-length integer exactly as tls_codec 0.4.2 with the `mls` feature implements it:
   max 2^30-1, 1/2/4-byte forms, minimal-length rule, 8-byte form refused. *)
From MDK Require Import Base.Prelude.

Definition MAX_LEN : N := 1073741823.

Definition enc_len (n : N) : option bytes :=
  if n <? 64 then Some [n]
  else if n <? 16384 then Some [64 + n / 256; n mod 256]
  else if n <? 1073741824 then Some [128 + n / 16777216; (n / 65536) mod 256; (n / 256) mod 256; n mod 256]
  else None.

(* returns (value, rest); None on truncation, on the 8-byte form, or on a non-minimal encoding *)
Definition dec_len (bs : bytes) : option (N * bytes) :=
  match bs with
  | [] => None
  | b0 :: r =>
    let v0 := b0 mod 64 in
    match b0 / 64 with
    | 0 => Some (v0, r)
    | 1 => match r with
           | b1 :: r' => let v := v0 * 256 + b1 in if v <? 64 then None else Some (v, r')
           | _ => None end
    | 2 => match r with
           | b1 :: b2 :: b3 :: r' =>
               let v := ((v0 * 256 + b1) * 256 + b2) * 256 + b3 in
               if v <? 16384 then None else Some (v, r')
           | _ => None end
    | _ => None
    end
  end.
