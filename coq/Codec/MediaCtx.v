(* C17 - byte-exact model of the inputs MDK hands to HKDF and to the AEAD for encrypted media
   (crates/mdk-core/src/encrypted_media/crypto.rs: build_hkdf_context, build_aad, get_scheme_label), the validators
   that guard those inputs (media_processing/validation.rs: validate_mime_type's allow-list, validate_filename), and a
   symbolic (term-algebra) model of HKDF / ChaCha20-Poly1305 / the group-image key schedule (extension/group_image.rs).
   Definitions only; proofs are in Codec/MediaCtxProofs.v.  Tables come from Gen/MediaConsts.v (regenerated from /repo). *)
From Coq Require Import String Ascii.
From MDK Require Import Base.Prelude Gen.MediaConsts.

Definition bytes_of_string (s : string) : bytes := map (fun a => N_of_ascii a) (list_ascii_of_string s).

Fixpoint bytes_eqb (a b : bytes) : bool :=
  match a, b with
  | [], [] => true
  | x :: a', y :: b' => (x =? y) && bytes_eqb a' b'
  | _, _ => false
  end.

(* NOTE: the executable definitions below use only the byte-list tables (…_b) of Gen/MediaConsts.v; Coq strings appear only in
   definitions that are never extracted (bytes_of_string, piece, assemble). *)
(* ---- the byte strings ------------------------------------------------------------------------------------------ *)
Definition sep : N := 0.                                   (* context.push(0x00) *)
Definition key_suffix : bytes := key_ctx_suffix_b.   (* b"key" *)

(* get_scheme_label: version string -> label bytes (first matching arm of the source's match) *)
Fixpoint assoc_label (arms : list (bytes * bytes)) (version : bytes) : option bytes :=
  match arms with
  | [] => None
  | (v, l) :: r => if bytes_eqb version v then Some l else assoc_label r version
  end.
Definition scheme_label (version : bytes) : option bytes := assoc_label scheme_label_arms_b version.

(* build_hkdf_context(scheme_label, file_hash, mime_type, filename, suffix) *)
Definition build_ctx (label hash mime name suffix : bytes) : bytes :=
  label ++ sep :: hash ++ sep :: mime ++ sep :: name ++ sep :: suffix.
(* build_aad(scheme_label, file_hash, mime_type, filename) *)
Definition build_aad (label hash mime name : bytes) : bytes :=
  label ++ sep :: hash ++ sep :: mime ++ sep :: name.

(* the same two strings assembled from the piece lists the translator reads out of the function bodies *)
Definition piece (label hash mime name suffix : bytes) (p : string) : bytes :=
  if String.eqb p "scheme_label" then label else if String.eqb p "file_hash" then hash
  else if String.eqb p "mime_type" then mime else if String.eqb p "filename" then name
  else if String.eqb p "suffix" then suffix else if String.eqb p "0x00" then [sep] else [256] (* unknown piece: poison *).
Definition assemble (ps : list string) (label hash mime name suffix : bytes) : bytes :=
  concat (map (piece label hash mime name suffix) ps).

(* ---- guards enforced by the validators ------------------------------------------------------------------------- *)
Definition no_nul (b : bytes) : bool := forallb (fun x => negb (x =? sep)) b.
Definition hash_ok (h : bytes) : bool := Nat.eqb (length h) 32.       (* &[u8; 32] *)

(* validate_mime_type's result is a member of SUPPORTED_MIME_TYPES or the escape hatch *)
Definition allowed_mimes : list bytes := supported_mime_types_b ++ [escape_hatch_mime_type_b].
Definition mime_allowed (m : bytes) : bool := existsb (bytes_eqb m) allowed_mimes.

(* validate_mime_type: trim, ASCII-lowercase, cut at ';', trim; must contain '/', be at most 100 bytes and be allow-listed.
   (Rust's trim() also removes non-ASCII Unicode whitespace; the model trims ASCII whitespace only.) *)
Definition is_ws (b : N) : bool := (b =? 32) || ((9 <=? b) && (b <=? 13)).
Fixpoint trim_start (b : bytes) : bytes := match b with x :: r => if is_ws x then trim_start r else b | [] => [] end.
Definition trim (b : bytes) : bytes := rev (trim_start (rev (trim_start b))).
Definition lower (b : bytes) : bytes := map (fun x => if (65 <=? x) && (x <=? 90) then x + 32 else x) b.
Fixpoint take_until (c : N) (b : bytes) : bytes := match b with [] => [] | x :: r => if x =? c then [] else x :: take_until c r end.
Definition canon_mime (m : bytes) : bytes := trim (take_until 59 (lower (trim m))).
Definition validate_mime (m : bytes) : option bytes :=
  let c := canon_mime m in
  if existsb (N.eqb 47) c && (lenN c <=? 100) then (if mime_allowed c then Some c else None) else None.

(* validate_filename on the UTF-8 bytes of a Rust &str: non-empty, at most MAX_FILENAME_LENGTH bytes, no '/', no '\',
   no char with is_control() (U+0000-U+001F, U+007F, and U+0080-U+009F which UTF-8 encodes as C2 80..C2 9F). *)
Fixpoint no_control (b : bytes) : bool :=
  match b with
  | [] => true
  | x :: r => negb (x <? 32) && negb (x =? 127) && negb (x =? 47) && negb (x =? 92) &&
              match r with
              | y :: _ => negb ((x =? 194) && (128 <=? y) && (y <? 160))
              | [] => true
              end && no_control r
  end.
Definition filename_valid (n : bytes) : bool :=
  negb (Nat.eqb (length n) 0) && (lenN n <=? max_filename_length) && no_control n.

Record fileinfo := { f_version : bytes; f_hash : bytes; f_mime : bytes; f_name : bytes }.
(* what encrypt_for_upload guarantees about the fields it feeds to the key derivation *)
Definition file_ok (f : fileinfo) : bool :=
  hash_ok (f_hash f) && mime_allowed (f_mime f) && filename_valid (f_name f).

(* ---- symbolic crypto: a term algebra, not axioms --------------------------------------------------------------- *)
(* HKDF-Expand(secret, ctx) is the free constructor Kdf; a key used as given (group image v1) is RawKey.
   Secrets (exporter secrets of a group epoch, image seeds) are named by numbers: different group/epoch <-> different number. *)
Inductive key := Kdf (secret : N) (ctx : bytes) | RawKey (secret : N).
(* ChaCha20-Poly1305 output is the free constructor Enc; Junk stands for every byte string that is not the output of an
   encryption (bit-flipped, truncated, extended, random). *)
Inductive ct := Enc (k : key) (nonce aad pt : bytes) | Junk (id : N).

Definition key_eqb (a b : key) : bool :=
  match a, b with
  | Kdf s c, Kdf s' c' => (s =? s') && bytes_eqb c c'
  | RawKey s, RawKey s' => s =? s'
  | _, _ => false
  end.
(* the AEAD law: decryption succeeds iff key, nonce and aad are exactly those of the encryption *)
Definition dec (k : key) (nonce aad : bytes) (c : ct) : option bytes :=
  match c with
  | Enc k' n' a' pt => if key_eqb k k' && bytes_eqb nonce n' && bytes_eqb aad a' then Some pt else None
  | Junk _ => None
  end.
(* which secret a ciphertext was made with (None: made without any group/seed secret) *)
Definition ct_secret (c : ct) : option N :=
  match c with Enc (Kdf s _) _ _ _ => Some s | Enc (RawKey s) _ _ _ => Some s | Junk _ => None end.

Section Media.
  (* SHA-256 of the plaintext, only compared for equality (decrypt_and_verify) *)
  Variable H : bytes -> bytes.

  (* derive_encryption_key_with_secret *)
  Definition media_key (secret : N) (f : fileinfo) : option key :=
    do l <- scheme_label (f_version f);
    Some (Kdf secret (build_ctx l (f_hash f) (f_mime f) (f_name f) key_suffix)).
  (* encrypt_data_with_aad under the derived key *)
  Definition media_encrypt (secret : N) (f : fileinfo) (nonce pt : bytes) : option ct :=
    do k <- media_key secret f;
    do l <- scheme_label (f_version f);
    Some (Enc k nonce (build_aad l (f_hash f) (f_mime f) (f_name f)) pt).

  Inductive derr := EDecrypt | EHash | EVersion | ENoSecret | EGroup.
  (* decrypt_and_verify with the key derived from `secret` *)
  Definition media_decrypt (secret : N) (f : fileinfo) (nonce : bytes) (c : ct) : bytes + derr :=
    match scheme_label (f_version f) with
    | None => inr EVersion
    | Some l =>
      match dec (Kdf secret (build_ctx l (f_hash f) (f_mime f) (f_name f) key_suffix)) nonce
                (build_aad l (f_hash f) (f_mime f) (f_name f)) c with
      | None => inr EDecrypt
      | Some p => if bytes_eqb (H p) (f_hash f) then inl p else inr EHash
      end
    end.

  (* encrypt_for_upload: the hash field is the hash of the (processed) plaintext *)
  Definition upload (secret : N) (version mime name nonce pt : bytes) : option (ct * fileinfo) :=
    let f := {| f_version := version; f_hash := H pt; f_mime := mime; f_name := name |} in
    do c <- media_encrypt secret f nonce pt; Some (c, f).
End Media.

(* ---- group image (extension/group_image.rs) -------------------------------------------------------------------- *)
Definition image_label_v2 : bytes := image_encryption_context_v2_b.
Definition image_encrypt_v2 (seed : N) (nonce pt : bytes) : ct := Enc (Kdf seed image_label_v2) nonce [] pt.   (* no AAD *)
Definition image_encrypt_v1 (k : N) (nonce pt : bytes) : ct := Enc (RawKey k) nonce [] pt.
Section Image.
  Variable Hc : ct -> bytes.           (* SHA-256 of the encrypted blob *)
  (* decrypt_group_image(encrypted, expected_hash, image_key, image_nonce): blob hash check, then v2, then v1 *)
  Definition image_decrypt (c : ct) (expected : option bytes) (seed : N) (nonce : bytes) : option bytes :=
    if match expected with Some h => bytes_eqb (Hc c) h | None => true end then
      match dec (Kdf seed image_label_v2) nonce [] c with
      | Some p => Some p
      | None => dec (RawKey seed) nonce [] c
      end
    else None.
  (* migrate_group_image_v1_to_v2: decrypt, then a fresh v2 encryption *)
  Definition image_migrate (c : ct) (expected : option bytes) (k : N) (nonce : bytes) (seed2 : N) (nonce2 : bytes) : option ct :=
    do p <- image_decrypt c expected k nonce; Some (image_encrypt_v2 seed2 nonce2 p).
End Image.

(* entry points for the correspondence run (extracted): context and AAD bytes of a version/hash/mime/name tuple *)
Definition mctx (version hash mime name : bytes) : option (bytes * bytes) :=
  do l <- scheme_label version; Some (build_ctx l hash mime name key_suffix, build_aad l hash mime name).
Definition mctx_guards (hash mime name : bytes) : bool * bool * bool := (hash_ok hash, mime_allowed mime, filename_valid name).
