(* Executable UTF-8 validator: the accept/reject decision of Rust's `str::from_utf8`
   (no overlong forms, no surrogates, nothing above U+10FFFF). *)
From MDK Require Import Base.Prelude.

Definition cont (b : N) : bool := (128 <=? b) && (b <? 192).

Fixpoint utf8_valid_fuel (fuel : nat) (bs : bytes) : bool :=
  match fuel with
  | O => match bs with [] => true | _ => false end
  | S f =>
    match bs with
    | [] => true
    | b0 :: r =>
      if b0 <? 128 then utf8_valid_fuel f r
      else if (194 <=? b0) && (b0 <? 224) then
        match r with b1 :: r' => cont b1 && utf8_valid_fuel f r' | _ => false end
      else if b0 =? 224 then
        match r with b1 :: b2 :: r' => (160 <=? b1) && (b1 <? 192) && cont b2 && utf8_valid_fuel f r' | _ => false end
      else if ((225 <=? b0) && (b0 <? 237)) || (b0 =? 238) || (b0 =? 239) then
        match r with b1 :: b2 :: r' => cont b1 && cont b2 && utf8_valid_fuel f r' | _ => false end
      else if b0 =? 237 then
        match r with b1 :: b2 :: r' => (128 <=? b1) && (b1 <? 160) && cont b2 && utf8_valid_fuel f r' | _ => false end
      else if b0 =? 240 then
        match r with b1 :: b2 :: b3 :: r' => (144 <=? b1) && (b1 <? 192) && cont b2 && cont b3 && utf8_valid_fuel f r' | _ => false end
      else if (241 <=? b0) && (b0 <? 244) then
        match r with b1 :: b2 :: b3 :: r' => cont b1 && cont b2 && cont b3 && utf8_valid_fuel f r' | _ => false end
      else if b0 =? 244 then
        match r with b1 :: b2 :: b3 :: r' => (128 <=? b1) && (b1 <? 144) && cont b2 && cont b3 && utf8_valid_fuel f r' | _ => false end
      else false
    end
  end.

Definition utf8_valid (bs : bytes) : bool := utf8_valid_fuel (length bs) bs.
