(* The Marmot group-data extension (extension type 0xF2EE): TLS struct `TlsNostrGroupDataExtension`
   and the typed value `NostrGroupDataExtension`, following crates/mdk-core/src/extension/types.rs:
   `as_raw`, `from_raw`, `deserialize_bytes` (with its trailing-byte check). *)
From MDK Require Import Base.Prelude Base.BSet Codec.Varint Codec.TlsVec Codec.Utf8.

Record raw := mkRaw {
  r_version : N; r_gid : bytes; r_name : bytes; r_descr : bytes;
  r_admins : list bytes; r_relays : list bytes;
  r_ihash : bytes; r_ikey : bytes; r_inonce : bytes; r_iupload : bytes }.

Record ext := mkExt {
  version : N; gid : bytes; name : bytes; descr : bytes;
  admins : list bytes;            (* BTreeSet<PublicKey>: sorted, duplicate-free, 32 bytes each *)
  relays : list (bytes * bytes);  (* BTreeSet<RelayUrl>: (normalised url = ordering/equality key, printed form) *)
  ihash : option bytes; ikey : option bytes; inonce : option bytes; iupload : option bytes }.

Definition enc_raw (r : raw) : option bytes :=
  do b1 <- enc_u16 (r_version r);
  do b2 <- enc_fixed 32 (r_gid r);
  do b3 <- enc_bytes (r_name r);
  do b4 <- enc_bytes (r_descr r);
  do b5 <- enc_vec (enc_fixed 32) (r_admins r);
  do b6 <- enc_vec enc_bytes (r_relays r);
  do b7 <- enc_bytes (r_ihash r);
  do b8 <- enc_bytes (r_ikey r);
  do b9 <- enc_bytes (r_inonce r);
  do b10 <- enc_bytes (r_iupload r);
  Some (b1 ++ b2 ++ b3 ++ b4 ++ b5 ++ b6 ++ b7 ++ b8 ++ b9 ++ b10).

Definition dec_raw (bs : bytes) : option (raw * bytes) :=
  do '(v, bs) <- dec_u16 bs;
  do '(g, bs) <- dec_fixed 32 bs;
  do '(n, bs) <- dec_bytes bs;
  do '(d, bs) <- dec_bytes bs;
  do '(a, bs) <- dec_vec (dec_fixed 32) bs;
  do '(r, bs) <- dec_vec dec_bytes bs;
  do '(h, bs) <- dec_bytes bs;
  do '(k, bs) <- dec_bytes bs;
  do '(c, bs) <- dec_bytes bs;
  do '(u, bs) <- dec_bytes bs;
  Some (mkRaw v g n d a r h k c u, bs).

Definition opt_fixed (n : nat) (v : bytes) : option (option bytes) :=
  match v with
  | [] => Some None
  | _ => if Nat.eqb (length v) n then Some (Some v) else None
  end.

Definition of_opt (o : option bytes) : bytes := match o with Some v => v | None => [] end.

Section Ext.
  (* `RelayUrl::parse` on a UTF-8 string: third-party, an oracle.  Returns the normalised url (what
     `Eq`/`Ord` of RelayUrl compare) and the printed form (`to_string`, which keeps or drops the
     trailing slash as written). *)
  Variable relay_norm : bytes -> option (bytes * bytes).

  Fixpoint parse_relays (l : list bytes) (acc : list (bytes * bytes)) : option (list (bytes * bytes)) :=
    match l with
    | [] => Some acc
    | r :: l' => if utf8_valid r then do '(k, p) <- relay_norm r; parse_relays l' (ks_insert k p acc) else None
    end.

  Definition from_raw (r : raw) : option ext :=
    if r_version r =? 0 then None else
    let adm := bs_of_list (r_admins r) in
    do rel <- parse_relays (r_relays r) [];
    do h <- opt_fixed 32 (r_ihash r);
    do k <- opt_fixed 32 (r_ikey r);
    do c <- opt_fixed 12 (r_inonce r);
    do u <- opt_fixed 32 (r_iupload r);
    if utf8_valid (r_name r) && utf8_valid (r_descr r)
    then Some (mkExt (r_version r) (r_gid r) (r_name r) (r_descr r) adm rel h k c u)
    else None.

  Definition as_raw (e : ext) : raw :=
    mkRaw (version e) (gid e) (name e) (descr e) (admins e) (map snd (relays e))
          (of_opt (ihash e)) (of_opt (ikey e)) (of_opt (inonce e)) (of_opt (iupload e)).

  Definition serialize (e : ext) : option bytes := enc_raw (as_raw e).

  Definition deserialize (bs : bytes) : option ext :=
    do '(r, rest) <- dec_raw bs;
    match rest with [] => from_raw r | _ => None end.

  (* decidable equality of typed values, as `PartialEq` compares them (relays by normalised url) *)
  Definition obytes_eqb (a b : option bytes) : bool :=
    match a, b with Some x, Some y => lex_eqb x y | None, None => true | _, _ => false end.
  Fixpoint lbytes_eqb (a b : list bytes) : bool :=
    match a, b with
    | [], [] => true
    | x :: a', y :: b' => lex_eqb x y && lbytes_eqb a' b'
    | _, _ => false
    end.
  Definition ext_eqb (a b : ext) : bool :=
    (version a =? version b) && lex_eqb (gid a) (gid b) && lex_eqb (name a) (name b) &&
    lex_eqb (descr a) (descr b) && lbytes_eqb (admins a) (admins b) &&
    lbytes_eqb (map fst (relays a)) (map fst (relays b)) &&
    obytes_eqb (ihash a) (ihash b) && obytes_eqb (ikey a) (ikey b) &&
    obytes_eqb (inonce a) (inonce b) && obytes_eqb (iupload a) (iupload b).

  Definition roundtrip_ok (e : ext) : bool :=
    match serialize e with
    | Some b => match deserialize b with Some e' => ext_eqb e' e | None => false end
    | None => false
    end.

  (* well-formed typed values: what `NostrGroupDataExtension` can hold *)
  Definition len_is (n : nat) (v : bytes) : bool := Nat.eqb (length v) n.
  Definition opt_len_is (n : nat) (o : option bytes) : bool :=
    match o with None => true | Some v => len_is n v && negb (Nat.eqb n 0) end.

  Definition wf (e : ext) : bool :=
    (1 <=? version e) && (version e <? 65536) &&
    len_is 32 (gid e) && bytes_ok (gid e) &&
    utf8_valid (name e) && bytes_ok (name e) && utf8_valid (descr e) && bytes_ok (descr e) &&
    forallb (fun a => len_is 32 a && bytes_ok a) (admins e) && bs_sorted (admins e) &&
    forallb (fun kp => utf8_valid (snd kp) && bytes_ok (snd kp) &&
                       match relay_norm (snd kp) with
                       | Some (k, p) => lex_eqb k (fst kp) && lex_eqb p (snd kp)
                       | None => false end) (relays e) &&
    ks_sorted (relays e) &&
    opt_len_is 32 (ihash e) && opt_len_is 32 (ikey e) && opt_len_is 12 (inonce e) && opt_len_is 32 (iupload e) &&
    forallb bytes_ok [of_opt (ihash e); of_opt (ikey e); of_opt (inonce e); of_opt (iupload e)].
End Ext.
