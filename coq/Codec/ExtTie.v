(* Tie of the hand-written codec model to the source text: the struct layout, constants and the presence of the
   trailing-byte check are re-extracted from /repo on every run (Gen/ExtLayout.v) and must equal what
   Codec/GroupDataExt.v models (enc_raw / dec_raw field order and element types). *)
From Coq Require Import List String NArith.
From MDK Require Import Gen.ExtLayout.
Import ListNotations.
Local Open Scope string_scope.

Definition model_layout : list (string * string) :=
  [("version", "u16"); ("nostr_group_id", "[u8; 32]"); ("name", "Vec<u8>"); ("description", "Vec<u8>");
   ("admin_pubkeys", "Vec<[u8; 32]>"); ("relays", "Vec<Vec<u8>>"); ("image_hash", "Vec<u8>");
   ("image_key", "Vec<u8>"); ("image_nonce", "Vec<u8>"); ("image_upload_key", "Vec<u8>")].

Definition layout_tied_statement : Prop :=
  tls_ext_layout = model_layout /\ ext_checks_trailing_bytes = true /\
  ext_current_version = 2%N /\ ext_type = 62190%N /\
  In "TlsDeserializeBytes" tls_ext_derives /\ In "TlsSerialize" tls_ext_derives.

Lemma layout_tied : layout_tied_statement.
Proof. unfold layout_tied_statement. repeat split; try reflexivity; cbn; tauto. Qed.
