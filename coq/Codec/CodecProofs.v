(* Proofs about the codec models (Varint, TlsVec, GroupDataExt): round trips, strictness, rejections,
   and the refutation of canonicity.  Statements are consumed by Props/C15.v. *)
From MDK Require Import Base.Prelude Base.BSet Codec.Varint Codec.TlsVec Codec.Utf8 Codec.GroupDataExt.

(* ------------------------------------------------------------------ *)
(* Variable-length integers *)

Lemma dec_enc_len n bs rest : enc_len n = Some bs -> dec_len (bs ++ rest) = Some (n, rest).
Proof.
  unfold enc_len.
  destruct (n <? 64) eqn:E1.
  - intros H; apply some_inj in H; subst bs. cbn [app]; unfold dec_len; cbv zeta.
    assert (n / 64 = 0) as -> by lia. assert (n mod 64 = n) as -> by lia. reflexivity.
  - destruct (n <? 16384) eqn:E2.
    + intros H; apply some_inj in H; subst bs. cbn [app]; unfold dec_len; cbv zeta.
      assert ((64 + n / 256) / 64 = 1) as -> by lia.
      assert ((64 + n / 256) mod 64 * 256 + n mod 256 = n) as -> by lia.
      rewrite E1. reflexivity.
    + destruct (n <? 1073741824) eqn:E3; [|discriminate].
      intros H; apply some_inj in H; subst bs. cbn [app]; unfold dec_len; cbv zeta.
      assert ((128 + n / 16777216) / 64 = 2) as -> by lia.
      assert ((((128 + n / 16777216) mod 64 * 256 + (n / 65536) mod 256) * 256 + (n / 256) mod 256) * 256 + n mod 256 = n) as -> by lia.
      rewrite E2. reflexivity.
Qed.

Lemma enc_dec_len_Forall bs n rest :
  Forall (fun b => b < 256) bs -> dec_len bs = Some (n, rest) -> exists pre, enc_len n = Some pre /\ bs = pre ++ rest.
Proof.
  intros Hb. unfold dec_len. destruct bs as [|b0 r]; [discriminate|].
  inversion Hb as [|? ? Hb0 Hr]; subst.
  destruct (b0 / 64) as [|p] eqn:Eq.
  - intros [= <- <-]. exists [b0]. unfold enc_len. assert (b0 mod 64 = b0) as -> by lia.
    assert (b0 <? 64 = true) as -> by lia. split; reflexivity.
  - destruct p as [p|p|].
    + destruct p; discriminate.
    + destruct p; try discriminate.
      destruct r as [|b1 [|b2 [|b3 r']]]; try discriminate.
      inversion Hr as [|? ? Hb1 Hr1]; subst. inversion Hr1 as [|? ? Hb2 Hr2]; subst. inversion Hr2 as [|? ? Hb3 _]; subst.
      destruct (_ <? 16384) eqn:Emin; [discriminate|]. intros [= <- <-].
      set (v := ((b0 mod 64 * 256 + b1) * 256 + b2) * 256 + b3) in *.
      exists [b0; b1; b2; b3]. unfold enc_len.
      assert (v <? 64 = false) as -> by lia. rewrite Emin.
      assert (v <? 1073741824 = true) as -> by lia.
      assert (128 + v / 16777216 = b0) as -> by lia.
      assert ((v / 65536) mod 256 = b1) as -> by lia.
      assert ((v / 256) mod 256 = b2) as -> by lia.
      assert (v mod 256 = b3) as -> by lia.
      split; reflexivity.
    + destruct r as [|b1 r']; [discriminate|]. inversion Hr as [|? ? Hb1 _]; subst.
      destruct (_ <? 64) eqn:Emin; [discriminate|]. intros [= <- <-].
      set (v := b0 mod 64 * 256 + b1) in *.
      exists [b0; b1]. unfold enc_len. rewrite Emin.
      assert (v <? 16384 = true) as -> by lia.
      assert (64 + v / 256 = b0) as -> by lia. assert (v mod 256 = b1) as -> by lia.
      split; reflexivity.
Qed.

Lemma enc_dec_len : forall bs n rest,
  bytes_ok bs = true -> dec_len bs = Some (n, rest) -> exists pre, enc_len n = Some pre /\ bs = pre ++ rest.
Proof. intros bs n rest Hb. apply enc_dec_len_Forall. apply bytes_ok_Forall. exact Hb. Qed.

Lemma enc_len_nonnil n hd : enc_len n = Some hd -> hd <> [].
Proof.
  unfold enc_len.
  destruct (n <? 64); [intros [= <-]; discriminate|].
  destruct (n <? 16384); [intros [= <-]; discriminate|].
  destruct (n <? 1073741824); [intros [= <-]; discriminate|discriminate].
Qed.

(* ------------------------------------------------------------------ *)
(* Scalar and byte-vector codecs *)

Lemma dec_enc_bytes : forall v b rest, enc_bytes v = Some b -> dec_bytes (b ++ rest) = Some (v, rest).
Proof.
  intros v b rest. unfold enc_bytes.
  destruct (enc_len (lenN v)) as [hd|] eqn:E; cbn [obind]; [|discriminate].
  intros [= <-]. unfold dec_bytes. rewrite <- app_assoc. rewrite (dec_enc_len _ _ _ E). cbn [obind].
  assert (lenN v <=? lenN (v ++ rest) = true) as -> by (rewrite lenN_app; lia).
  assert (N.to_nat (lenN v) = length v) as -> by (unfold lenN; lia).
  apply take_exact_app.
Qed.

Lemma enc_bytes_nonnil v b : enc_bytes v = Some b -> b <> [].
Proof.
  unfold enc_bytes. destruct (enc_len (lenN v)) as [hd|] eqn:E; cbn [obind]; [|discriminate].
  intros [= <-]. apply enc_len_nonnil in E. destruct hd; [congruence|discriminate].
Qed.

Lemma dec_enc_fixed n v b rest : enc_fixed n v = Some b -> dec_fixed n (b ++ rest) = Some (v, rest).
Proof.
  unfold enc_fixed, dec_fixed. destruct (Nat.eqb (length v) n) eqn:E; [|discriminate].
  intros [= <-]. apply Nat.eqb_eq in E. rewrite <- E. apply take_exact_app.
Qed.

Lemma enc_fixed_nonnil n v b : n <> 0%nat -> enc_fixed n v = Some b -> b <> [].
Proof.
  intros Hn. unfold enc_fixed. destruct (Nat.eqb (length v) n) eqn:E; [|discriminate].
  intros [= <-]. apply Nat.eqb_eq in E. destruct v; [cbn [length] in E; congruence|discriminate].
Qed.

Lemma dec_enc_u16 n b rest : enc_u16 n = Some b -> dec_u16 (b ++ rest) = Some (n, rest).
Proof.
  unfold enc_u16. destruct (n <? 65536) eqn:E; [|discriminate].
  intros [= <-]. cbn [app dec_u16].
  assert (n / 256 * 256 + n mod 256 = n) as -> by lia. reflexivity.
Qed.

(* ------------------------------------------------------------------ *)
(* Generic vector round trip *)

Section VecRT.
  Context {T : Type}.
  Variable encT : T -> option bytes.
  Variable decT : bytes -> option (T * bytes).

  (* an element whose encoding is non-empty and decodes back to it, whatever follows *)
  Definition elem_ok (x : T) : Prop :=
    forall bx, encT x = Some bx -> bx <> [] /\ forall r, decT (bx ++ r) = Some (x, r).

  Lemma enc_elems_length xs body :
    Forall elem_ok xs -> enc_elems encT xs = Some body -> (length xs <= length body)%nat.
  Proof.
    revert body. induction xs as [|x xs IH]; intros body Hok; cbn [enc_elems].
    - intros _. cbn [length]. lia.
    - inversion Hok as [|? ? Hx Hxs]; subst.
      destruct (encT x) as [bx|] eqn:Ex; cbn [obind]; [|discriminate].
      destruct (enc_elems encT xs) as [br|] eqn:Er; cbn [obind]; [|discriminate].
      intros [= <-]. specialize (IH br Hxs eq_refl). destruct (Hx bx Ex) as [Hne _].
      rewrite app_length. cbn [length]. destruct bx; [congruence|]. cbn [length]. lia.
  Qed.

  Lemma dec_enc_elems xs : forall body rest fuel,
    Forall elem_ok xs -> enc_elems encT xs = Some body -> (length xs <= fuel)%nat ->
    dec_elems decT fuel (lenN body) (body ++ rest) = Some (xs, rest).
  Proof.
    induction xs as [|x xs IH]; intros body rest fuel Hok; cbn [enc_elems].
    - intros [= <-] _. cbn [app].
      destruct fuel; cbn [dec_elems];
        (assert (lenN (@nil N) =? 0 = true) as -> by reflexivity); reflexivity.
    - inversion Hok as [|? ? Hx Hxs]; subst.
      destruct (encT x) as [bx|] eqn:Ex; cbn [obind]; [|discriminate].
      destruct (enc_elems encT xs) as [br|] eqn:Er; cbn [obind]; [|discriminate].
      intros [= <-] Hfuel. destruct (Hx bx Ex) as [Hne Hdec].
      destruct fuel as [|f]; [cbn [length] in Hfuel; lia|].
      cbn [dec_elems].
      assert (lenN (bx ++ br) =? 0 = false) as ->.
      { rewrite lenN_app. destruct bx; [congruence|]. rewrite lenN_cons. lia. }
      rewrite <- app_assoc. rewrite Hdec. cbn [obind].
      assert (lenN (bx ++ br) - (lenN (bx ++ br ++ rest) - lenN (br ++ rest)) = lenN br) as ->.
      { rewrite !lenN_app. lia. }
      rewrite (IH br rest f Hxs eq_refl) by (cbn [length] in Hfuel; lia).
      cbn [obind]. reflexivity.
  Qed.

  Lemma dec_enc_vec xs b rest :
    Forall elem_ok xs -> enc_vec encT xs = Some b -> dec_vec decT (b ++ rest) = Some (xs, rest).
  Proof.
    intros Hok. unfold enc_vec.
    destruct (enc_elems encT xs) as [body|] eqn:Eb; cbn [obind]; [|discriminate].
    destruct (enc_len (lenN body)) as [hd|] eqn:El; cbn [obind]; [|discriminate].
    intros [= <-]. unfold dec_vec. rewrite <- app_assoc. rewrite (dec_enc_len _ _ _ El). cbn [obind].
    apply dec_enc_elems; [exact Hok|exact Eb|].
    pose proof (enc_elems_length xs body Hok Eb) as Hl. rewrite app_length. cbn [length]. lia.
  Qed.
End VecRT.

Lemma dec_enc_vec_fixed32 xs b rest :
  enc_vec (enc_fixed 32) xs = Some b -> dec_vec (dec_fixed 32) (b ++ rest) = Some (xs, rest).
Proof.
  apply dec_enc_vec. apply Forall_forall. intros x _ bx Hx. split.
  - apply (enc_fixed_nonnil 32 x bx); [discriminate|exact Hx].
  - intros r. apply dec_enc_fixed. exact Hx.
Qed.

Lemma dec_enc_vec_bytes xs b rest :
  enc_vec enc_bytes xs = Some b -> dec_vec dec_bytes (b ++ rest) = Some (xs, rest).
Proof.
  apply dec_enc_vec. apply Forall_forall. intros x _ bx Hx. split.
  - apply (enc_bytes_nonnil x bx Hx).
  - intros r. apply dec_enc_bytes. exact Hx.
Qed.

(* ------------------------------------------------------------------ *)
(* Ordered byte-string sets: inserting a strictly sorted list one by one rebuilds it *)

Lemma lex_cmp_eq a b : lex_cmp a b = Eq <-> a = b.
Proof.
  revert b. induction a as [|x a IH]; intros [|y b]; cbn [lex_cmp]; split;
    try discriminate; try (intros _; reflexivity).
  - destruct (N.compare_spec x y) as [->|Hlt|Hgt]; try discriminate.
    intros H. apply IH in H. subst. reflexivity.
  - intros [= -> ->]. rewrite N.compare_refl. apply IH. reflexivity.
Qed.

Lemma lex_eqb_eq a b : lex_eqb a b = true -> a = b.
Proof. unfold lex_eqb. destruct (lex_cmp a b) eqn:E; try discriminate. intros _. apply lex_cmp_eq. exact E. Qed.

Lemma lex_ltb_lt a b : lex_ltb a b = true -> lex_cmp a b = Lt.
Proof. unfold lex_ltb. destruct (lex_cmp a b); try discriminate. reflexivity. Qed.

Lemma lex_cmp_antisym a b : lex_cmp b a = CompOpp (lex_cmp a b).
Proof.
  revert b. induction a as [|x a IH]; intros [|y b]; cbn [lex_cmp CompOpp]; try reflexivity.
  rewrite (N.compare_antisym x y). destruct (x ?= y); cbn [CompOpp]; auto.
Qed.

Lemma lex_lt_gt a b : lex_cmp a b = Lt -> lex_cmp b a = Gt.
Proof. intros H. rewrite lex_cmp_antisym, H. reflexivity. Qed.

Lemma lex_lt_trans a b c : lex_cmp a b = Lt -> lex_cmp b c = Lt -> lex_cmp a c = Lt.
Proof.
  revert b c. induction a as [|x a IH]; intros [|y b] [|z c]; cbn [lex_cmp];
    try discriminate; try (intros _ _; reflexivity).
  destruct (N.compare_spec x y) as [Hxy|Hxy|Hxy];
    destruct (N.compare_spec y z) as [Hyz|Hyz|Hyz]; intros H1 H2; subst; try discriminate.
  - rewrite N.compare_refl. eapply IH; eassumption.
  - assert (y ?= z = Lt) as -> by (apply N.compare_lt_iff; lia). reflexivity.
  - assert (x ?= z = Lt) as -> by (apply N.compare_lt_iff; lia). reflexivity.
  - assert (x ?= z = Lt) as -> by (apply N.compare_lt_iff; lia). reflexivity.
Qed.

Lemma bs_sorted_cons2 x y l : bs_sorted (x :: y :: l) = lex_ltb x y && bs_sorted (y :: l).
Proof. reflexivity. Qed.

Lemma bs_sorted_cons x l :
  bs_sorted (x :: l) = true -> bs_sorted l = true /\ forall y, In y l -> lex_cmp x y = Lt.
Proof.
  revert x. induction l as [|z l IH]; intros x H.
  - split; [reflexivity|]. intros y [].
  - rewrite bs_sorted_cons2 in H. apply andb_true_iff in H. destruct H as [Hxz Hs].
    apply lex_ltb_lt in Hxz. destruct (IH z Hs) as [_ Hall]. split; [exact Hs|].
    intros y [<-|Hy]; [exact Hxz|]. eapply lex_lt_trans; [exact Hxz|]. apply Hall. exact Hy.
Qed.

Lemma bs_insert_last x l : (forall y, In y l -> lex_cmp y x = Lt) -> bs_insert x l = l ++ [x].
Proof.
  induction l as [|z l IH]; intros H; cbn [bs_insert app]; [reflexivity|].
  rewrite (lex_lt_gt z x) by (apply H; left; reflexivity).
  rewrite IH; [reflexivity|]. intros y Hy. apply H. right. exact Hy.
Qed.

Lemma bs_fold_sorted l : forall acc,
  (forall y z, In y acc -> In z l -> lex_cmp y z = Lt) -> bs_sorted l = true ->
  fold_left (fun s x => bs_insert x s) l acc = acc ++ l.
Proof.
  induction l as [|x l IH]; intros acc Hlt Hs; cbn [fold_left].
  - rewrite app_nil_r. reflexivity.
  - apply bs_sorted_cons in Hs. destruct Hs as [Hs Hx].
    rewrite bs_insert_last by (intros y Hy; apply Hlt; [exact Hy|left; reflexivity]).
    rewrite IH; [rewrite <- app_assoc; reflexivity| |exact Hs].
    intros y z Hy Hz. apply in_app_or in Hy. destruct Hy as [Hy|[<-|[]]].
    + apply Hlt; [exact Hy|right; exact Hz].
    + apply Hx. exact Hz.
Qed.

Lemma bs_of_list_sorted l : bs_sorted l = true -> bs_of_list l = l.
Proof.
  intros Hs. unfold bs_of_list. rewrite bs_fold_sorted; [reflexivity| |exact Hs].
  intros y z [].
Qed.

Lemma ks_insert_last {V} k (v : V) l :
  (forall y, In y l -> lex_cmp (fst y) k = Lt) -> ks_insert k v l = l ++ [(k, v)].
Proof.
  induction l as [|[k' v'] l IH]; intros H; cbn [ks_insert app]; [reflexivity|].
  pose proof (H (k', v') (or_introl eq_refl)) as Hk. cbn [fst] in Hk.
  rewrite (lex_lt_gt k' k Hk).
  rewrite IH; [reflexivity|]. intros y Hy. apply H. right. exact Hy.
Qed.

Lemma parse_relays_sorted rn l : forall acc,
  (forall kp, In kp l -> utf8_valid (snd kp) = true /\ rn (snd kp) = Some kp) ->
  bs_sorted (map fst l) = true ->
  (forall y z, In y acc -> In z l -> lex_cmp (fst y) (fst z) = Lt) ->
  parse_relays rn (map snd l) acc = Some (acc ++ l).
Proof.
  induction l as [|[k p] l IH]; intros acc Hok Hs Hlt; cbn [map parse_relays].
  - rewrite app_nil_r. reflexivity.
  - destruct (Hok (k, p) (or_introl eq_refl)) as [Hu Hn]. cbn [snd] in Hu, Hn |- *.
    rewrite Hu, Hn. cbn [obind].
    cbn [map fst] in Hs. apply bs_sorted_cons in Hs. destruct Hs as [Hs Hk].
    rewrite ks_insert_last.
    + rewrite IH; [rewrite <- app_assoc; reflexivity| |exact Hs|].
      * intros kp Hkp. apply Hok. right. exact Hkp.
      * intros y z Hy Hz. apply in_app_or in Hy. destruct Hy as [Hy|[<-|[]]].
        -- apply Hlt; [exact Hy|right; exact Hz].
        -- cbn [fst]. apply Hk. apply in_map. exact Hz.
    + intros y Hy. apply (Hlt y (k, p) Hy). left. reflexivity.
Qed.

Lemma parse_relays_bad rn u l :
  In u l -> (utf8_valid u = false \/ rn u = None) -> forall acc, parse_relays rn l acc = None.
Proof.
  intros Hin Hbad. induction l as [|a l IH]; intros acc; [destruct Hin|].
  cbn [parse_relays]. destruct (utf8_valid a) eqn:Eu; [|reflexivity].
  destruct (rn a) as [[k p]|] eqn:En; cbn [obind]; [|reflexivity].
  destruct Hin as [->|Hin]; [destruct Hbad; congruence|]. apply IH. exact Hin.
Qed.

(* ------------------------------------------------------------------ *)
(* The TLS struct: decode after encode, with arbitrary following bytes *)

Lemma dec_enc_raw r b rest : enc_raw r = Some b -> dec_raw (b ++ rest) = Some (r, rest).
Proof.
  unfold enc_raw.
  destruct (enc_u16 (r_version r)) as [b1|] eqn:E1; cbn [obind]; [|discriminate].
  destruct (enc_fixed 32 (r_gid r)) as [b2|] eqn:E2; cbn [obind]; [|discriminate].
  destruct (enc_bytes (r_name r)) as [b3|] eqn:E3; cbn [obind]; [|discriminate].
  destruct (enc_bytes (r_descr r)) as [b4|] eqn:E4; cbn [obind]; [|discriminate].
  destruct (enc_vec (enc_fixed 32) (r_admins r)) as [b5|] eqn:E5; cbn [obind]; [|discriminate].
  destruct (enc_vec enc_bytes (r_relays r)) as [b6|] eqn:E6; cbn [obind]; [|discriminate].
  destruct (enc_bytes (r_ihash r)) as [b7|] eqn:E7; cbn [obind]; [|discriminate].
  destruct (enc_bytes (r_ikey r)) as [b8|] eqn:E8; cbn [obind]; [|discriminate].
  destruct (enc_bytes (r_inonce r)) as [b9|] eqn:E9; cbn [obind]; [|discriminate].
  destruct (enc_bytes (r_iupload r)) as [b10|] eqn:E10; cbn [obind]; [|discriminate].
  intros [= <-]. rewrite <- !app_assoc. unfold dec_raw.
  rewrite (dec_enc_u16 _ _ _ E1). cbn [obind].
  rewrite (dec_enc_fixed _ _ _ _ E2). cbn [obind].
  rewrite (dec_enc_bytes _ _ _ E3). cbn [obind].
  rewrite (dec_enc_bytes _ _ _ E4). cbn [obind].
  rewrite (dec_enc_vec_fixed32 _ _ _ E5). cbn [obind].
  rewrite (dec_enc_vec_bytes _ _ _ E6). cbn [obind].
  rewrite (dec_enc_bytes _ _ _ E7). cbn [obind].
  rewrite (dec_enc_bytes _ _ _ E8). cbn [obind].
  rewrite (dec_enc_bytes _ _ _ E9). cbn [obind].
  rewrite (dec_enc_bytes _ _ _ E10). cbn [obind].
  destruct r; reflexivity.
Qed.

(* ------------------------------------------------------------------ *)
(* Typed value <-> TLS struct *)

Lemma opt_fixed_of_opt n o : opt_len_is n o = true -> opt_fixed n (of_opt o) = Some o.
Proof.
  destruct o as [w|]; cbn [opt_len_is of_opt]; [|intros _; reflexivity].
  unfold len_is. intros H. apply andb_true_iff in H. destruct H as [Hl Hn].
  apply negb_true_iff in Hn. apply Nat.eqb_neq in Hn.
  destruct w as [|x w].
  - apply Nat.eqb_eq in Hl. cbn [length] in Hl. congruence.
  - unfold opt_fixed. rewrite Hl. reflexivity.
Qed.

Lemma opt_fixed_bad n v : length v <> 0%nat -> length v <> n -> opt_fixed n v = None.
Proof.
  intros H0 Hn. destruct v as [|x v]; [cbn [length] in H0; congruence|].
  unfold opt_fixed. apply Nat.eqb_neq in Hn. rewrite Hn. reflexivity.
Qed.

Lemma from_raw_as_raw relay_norm e : wf relay_norm e = true -> from_raw relay_norm (as_raw e) = Some e.
Proof.
  destruct e as [v g n d a r h k c u]. unfold wf.
  cbn [version gid name descr admins relays ihash ikey inonce iupload].
  rewrite !andb_true_iff.
  intros [[[[[[[[[[[[[[[[Hv1 Hv2] Hg1] Hg2] Hn1] Hn2] Hd1] Hd2] Ha1] Ha2] Hr1] Hr2] Hh] Hk] Hc] Hu] Hb].
  unfold from_raw, as_raw. cbv zeta.
  cbn [r_version r_gid r_name r_descr r_admins r_relays r_ihash r_ikey r_inonce r_iupload
       version gid name descr admins relays ihash ikey inonce iupload].
  assert (v =? 0 = false) as -> by lia.
  rewrite (parse_relays_sorted relay_norm r []).
  - cbn [obind app].
    rewrite (opt_fixed_of_opt 32 h Hh). cbn [obind].
    rewrite (opt_fixed_of_opt 32 k Hk). cbn [obind].
    rewrite (opt_fixed_of_opt 12 c Hc). cbn [obind].
    rewrite (opt_fixed_of_opt 32 u Hu). cbn [obind].
    rewrite Hn1, Hd1. cbn [andb]. rewrite (bs_of_list_sorted a Ha2). reflexivity.
  - intros [kk pp] Hin. rewrite forallb_forall in Hr1. specialize (Hr1 (kk, pp) Hin).
    cbn [fst snd] in Hr1 |- *. rewrite !andb_true_iff in Hr1. destruct Hr1 as [[Hu1 _] Hrn].
    split; [exact Hu1|].
    destruct (relay_norm pp) as [[k' p']|]; [|discriminate].
    apply andb_true_iff in Hrn. destruct Hrn as [Ek Ep].
    apply lex_eqb_eq in Ek. apply lex_eqb_eq in Ep. subst. reflexivity.
  - exact Hr2.
  - intros y z [].
Qed.

Lemma ext_decode_encode : forall relay_norm e b,
  wf relay_norm e = true -> serialize e = Some b -> deserialize relay_norm b = Some e.
Proof.
  intros relay_norm e b Hwf Hs. unfold serialize in Hs. unfold deserialize.
  pose proof (dec_enc_raw _ _ [] Hs) as Hd. rewrite app_nil_r in Hd. rewrite Hd. cbn [obind].
  apply from_raw_as_raw. exact Hwf.
Qed.

Lemma trailing_bytes_rejected : forall relay_norm e b rest,
  wf relay_norm e = true -> serialize e = Some b -> rest <> [] -> deserialize relay_norm (b ++ rest) = None.
Proof.
  intros relay_norm e b rest _ Hs Hne. unfold serialize in Hs. unfold deserialize.
  rewrite (dec_enc_raw _ _ rest Hs). cbn [obind].
  destruct rest; [congruence|reflexivity].
Qed.

Lemma version0_rejected : forall relay_norm bs r rest,
  dec_raw bs = Some (r, rest) -> r_version r = 0 -> deserialize relay_norm bs = None.
Proof.
  intros relay_norm bs r rest H Hv. unfold deserialize. rewrite H. cbn [obind].
  destruct rest; [|reflexivity]. unfold from_raw. rewrite Hv. reflexivity.
Qed.

Lemma bad_fixed_length_rejected : forall relay_norm bs r rest,
  dec_raw bs = Some (r, rest) ->
  (length (r_ihash r) <> 0 /\ length (r_ihash r) <> 32 \/
   length (r_ikey r) <> 0 /\ length (r_ikey r) <> 32 \/
   length (r_inonce r) <> 0 /\ length (r_inonce r) <> 12 \/
   length (r_iupload r) <> 0 /\ length (r_iupload r) <> 32)%nat ->
  deserialize relay_norm bs = None.
Proof.
  intros relay_norm bs r rest H Hbad. unfold deserialize. rewrite H. cbn [obind].
  destruct rest; [|reflexivity]. unfold from_raw. cbv zeta.
  destruct (r_version r =? 0); [reflexivity|].
  destruct (parse_relays relay_norm (r_relays r) []); cbn [obind]; [|reflexivity].
  destruct Hbad as [[A B]|[[A B]|[[A B]|[A B]]]].
  - rewrite (opt_fixed_bad 32 _ A B). reflexivity.
  - destruct (opt_fixed 32 (r_ihash r)); cbn [obind]; [|reflexivity].
    rewrite (opt_fixed_bad 32 _ A B). reflexivity.
  - destruct (opt_fixed 32 (r_ihash r)); cbn [obind]; [|reflexivity].
    destruct (opt_fixed 32 (r_ikey r)); cbn [obind]; [|reflexivity].
    rewrite (opt_fixed_bad 12 _ A B). reflexivity.
  - destruct (opt_fixed 32 (r_ihash r)); cbn [obind]; [|reflexivity].
    destruct (opt_fixed 32 (r_ikey r)); cbn [obind]; [|reflexivity].
    destruct (opt_fixed 12 (r_inonce r)); cbn [obind]; [|reflexivity].
    rewrite (opt_fixed_bad 32 _ A B). reflexivity.
Qed.

Lemma bad_text_rejected : forall relay_norm bs r rest,
  dec_raw bs = Some (r, rest) ->
  (utf8_valid (r_name r) = false \/ utf8_valid (r_descr r) = false \/
   exists u, In u (r_relays r) /\ (utf8_valid u = false \/ relay_norm u = None)) ->
  deserialize relay_norm bs = None.
Proof.
  intros relay_norm bs r rest H Hbad. unfold deserialize. rewrite H. cbn [obind].
  destruct rest; [|reflexivity]. unfold from_raw. cbv zeta.
  destruct (r_version r =? 0); [reflexivity|].
  destruct Hbad as [Hn|[Hd|[u [Hin Hu]]]].
  - destruct (parse_relays relay_norm (r_relays r) []); cbn [obind]; [|reflexivity].
    destruct (opt_fixed 32 (r_ihash r)); cbn [obind]; [|reflexivity].
    destruct (opt_fixed 32 (r_ikey r)); cbn [obind]; [|reflexivity].
    destruct (opt_fixed 12 (r_inonce r)); cbn [obind]; [|reflexivity].
    destruct (opt_fixed 32 (r_iupload r)); cbn [obind]; [|reflexivity].
    rewrite Hn. reflexivity.
  - destruct (parse_relays relay_norm (r_relays r) []); cbn [obind]; [|reflexivity].
    destruct (opt_fixed 32 (r_ihash r)); cbn [obind]; [|reflexivity].
    destruct (opt_fixed 32 (r_ikey r)); cbn [obind]; [|reflexivity].
    destruct (opt_fixed 12 (r_inonce r)); cbn [obind]; [|reflexivity].
    destruct (opt_fixed 32 (r_iupload r)); cbn [obind]; [|reflexivity].
    rewrite Hd, andb_false_r. reflexivity.
  - rewrite (parse_relays_bad relay_norm u _ Hin Hu). reflexivity.
Qed.

(* ------------------------------------------------------------------ *)
(* Canonicity is false: the vector decoder reads whole elements past the declared length *)

Definition overrun_bytes : bytes :=
  [0; 1] ++ repeat 7 32 ++ [0] ++ [0] ++
  [33] ++ repeat 1 32 ++ repeat 2 32 ++     (* admins: declared 33 bytes, two whole 32-byte elements read *)
  [0] ++ [0; 0; 0; 0].

Definition overrun_ext : ext :=
  mkExt 1 (repeat 7 32) [] [] [repeat 1 32; repeat 2 32] [] None None None None.

Lemma canonical_refuted : exists relay_norm bs e,
  deserialize relay_norm bs = Some e /\ serialize e <> Some bs.
Proof.
  exists (fun _ => None), overrun_bytes, overrun_ext. split.
  - vm_compute. reflexivity.
  - intros H. vm_compute in H. discriminate H.
Qed.

(* ------------------------------------------------------------------ *)
(* Non-vacuity: a concrete non-trivial well-formed value *)

Definition example_norm : bytes -> option (bytes * bytes) := fun u => Some (u, u).

Definition example_ext : ext :=
  mkExt 2 (repeat 9 32)
        [77; 195; 169; 226; 130; 172]            (* "M" e-acute euro-sign : 1-, 2- and 3-byte UTF-8 forms *)
        [100; 240; 159; 152; 128]                (* "d" + a 4-byte form *)
        [repeat 1 32; repeat 2 32]
        [([119; 115; 115; 58; 47; 47; 114], [119; 115; 115; 58; 47; 47; 114])]
        (Some (repeat 3 32)) (Some (repeat 4 32)) (Some (repeat 5 12)) None.

Lemma wf_example : wf example_norm example_ext = true /\ roundtrip_ok example_norm example_ext = true.
Proof. split; vm_compute; reflexivity. Qed.
