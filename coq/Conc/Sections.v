(* C19 - storage methods as sequences of critical sections (definitions only; proofs in Conc/SectionsProofs.v).

   Part 1  lock level: threads execute Acq/Rel instructions compiled from the acquisition lists of
           Gen/LockTable.v; non-reentrant reader/writer/exclusive locks; used for deadlock freedom.
   Part 2  section level: one step runs one whole critical section atomically on a shared state (the standard
           reduction for lock-protected sections); sections of one call run in program order, sections of
           different threads interleave arbitrarily; any number of threads.
   Part 3  the shape every storage method is modelled with (model_sections) - compared with the generated table.
   Part 4  a small key/value instance of the state sufficient to express every multi-section method. *)
From MDK Require Import Base.Prelude.
From Coq Require Import String.
Local Open Scope string_scope.
Local Open Scope N_scope.

(* ------------------------------------------------------------------------------------------------ *)
(* Part 1: lock level                                                                                *)

Definition acq := (string * string * bool)%type.      (* lock, mode r|w|x, taken while an earlier one is held *)
Definition entry := (string * string * list acq)%type. (* backend, method, acquisitions *)

Inductive instr := Acq (l m : string) | Rel (l : string).

(* release everything held (latest first) *)
Definition rel_all (held : list string) : list instr := map Rel held.

(* compile an acquisition list: a non-nested acquisition first releases what is held *)
Fixpoint compile_from (held : list string) (a : list acq) : list instr :=
  match a with
  | [] => rel_all held
  | (l, m, nested) :: r =>
      if nested then Acq l m :: compile_from (l :: held) r
      else rel_all held ++ Acq l m :: compile_from [l] r
  end.
Definition compile (a : list acq) : list instr := compile_from [] a.

Record lthread := mkLT { lt_held : list (string * string); lt_prog : list instr }.

Definition conflicts (m1 m2 : string) : bool := negb (String.eqb m1 "r" && String.eqb m2 "r").

(* does some thread (the acquiring one included: the locks are not reentrant) hold l in a mode conflicting with m *)
Definition blocked (l m : string) (ts : list lthread) : bool :=
  existsb (fun t => existsb (fun h => String.eqb (fst h) l && conflicts (snd h) m) (lt_held t)) ts.

Fixpoint remove_held (l : string) (h : list (string * string)) : list (string * string) :=
  match h with
  | [] => []
  | (l', m) :: r => if String.eqb l l' then r else (l', m) :: remove_held l r
  end.

Definition lstep_thread (ts : list lthread) (t : lthread) : option lthread :=
  match lt_prog t with
  | [] => None
  | Acq l m :: p => if blocked l m ts then None else Some (mkLT ((l, m) :: lt_held t) p)
  | Rel l :: p => Some (mkLT (remove_held l (lt_held t)) p)
  end.

Fixpoint set_nth {A} (n : nat) (x : A) (l : list A) : list A :=
  match l, n with
  | [], _ => []
  | _ :: r, O => x :: r
  | y :: r, S n' => y :: set_nth n' x r
  end.

Definition lstep_at (i : nat) (ts : list lthread) : option (list lthread) :=
  match nth_error ts i with
  | None => None
  | Some t => match lstep_thread ts t with None => None | Some t' => Some (set_nth i t' ts) end
  end.

Definition lstep (ts ts' : list lthread) : Prop := exists i, lstep_at i ts = Some ts'.

Inductive lreach (ts : list lthread) : list lthread -> Prop :=
| lreach_refl : lreach ts ts
| lreach_step ts1 ts2 : lreach ts ts1 -> lstep ts1 ts2 -> lreach ts ts2.

Definition ldone (ts : list lthread) : Prop := forall t, In t ts -> lt_prog t = [].

(* a thread = the calls it will issue, each an acquisition list *)
Definition linit (threads : list (list (list acq))) : list lthread :=
  map (fun calls => mkLT [] (List.concat (map compile calls))) threads.

Definition acqs_not_nested (a : list acq) : bool := forallb (fun x => negb (snd x)) a.
Definition no_nested_locks (table : list entry) : bool := forallb (fun e => acqs_not_nested (snd e)) table.
Definition nested_pairs (table : list entry) : list (string * string) :=
  map (fun e => (fst (fst e), snd (fst e))) (filter (fun e => negb (acqs_not_nested (snd e))) table).

(* ------------------------------------------------------------------------------------------------ *)
(* Part 2: section level                                                                             *)

Section Interleaving.
  Context {State Local : Type}.

  (* a critical section: runs atomically; the boolean says whether the call continues with its next section
     (false = the method returns here, e.g. an early `return Err(..)`) *)
  Record sect := mkSect { s_lock : string; s_mode : string; s_run : State -> Local -> State * Local * bool }.
  Record call := mkCall { c_loc : Local; c_todo : list sect }.
  Definition thread := list call.          (* pending calls; the head may be partly executed *)
  Record cfg := mkCfg { st : State; thr : list thread; fin : list (nat * Local) }.   (* fin: completed calls, latest first *)

  Definition is_nil {A} (l : list A) : bool := match l with [] => true | _ => false end.

  (* one thread runs its next critical section *)
  Definition step_thread (s : State) (t : thread) : option (State * thread * option Local) :=
    match t with
    | [] => None
    | c :: rest =>
        match c_todo c with
        | [] => Some (s, rest, Some (c_loc c))
        | x :: xs =>
            match s_run x s (c_loc c) with
            | (s', l', cont) =>
                if cont && negb (is_nil xs) then Some (s', mkCall l' xs :: rest, None)
                else Some (s', rest, Some l')
            end
        end
    end.

  Definition exec_one (i : nat) (c : cfg) : option cfg :=
    match nth_error (thr c) i with
    | None => None
    | Some t =>
        match step_thread (st c) t with
        | None => None
        | Some (s', t', r) =>
            Some (mkCfg s' (set_nth i t' (thr c)) (match r with Some l => (i, l) :: fin c | None => fin c end))
        end
    end.

  (* a schedule is any list of thread indices; indices of finished / missing threads are skipped *)
  Fixpoint exec (sched : list nat) (c : cfg) : cfg :=
    match sched with
    | [] => c
    | i :: r => match exec_one i c with Some c' => exec r c' | None => exec r c end
    end.

  Definition step (c c' : cfg) : Prop := exists i, exec_one i c = Some c'.
  Definition all_done (c : cfg) : Prop := forall t, In t (thr c) -> t = [].

  (* the whole call as ONE critical section *)
  Fixpoint run_all (xs : list sect) (s : State) (l : Local) : State * Local * bool :=
    match xs with
    | [] => (s, l, false)
    | x :: r => match s_run x s l with
                | (s', l', cont) => if cont && negb (is_nil r) then run_all r s' l' else (s', l', false)
                end
    end.
  Definition atomize (c : call) : call := mkCall (c_loc c) [mkSect "atomic" "x" (run_all (c_todo c))].
  Definition atomize_cfg (c : cfg) : cfg := mkCfg (st c) (map (map atomize) (thr c)) (fin c).

  (* what an execution is compared by: final shared state and the result of every completed call, in completion order per thread *)
  Definition outcome (c : cfg) : State * list (nat * Local) := (st c, fin c).

  (* a sequential execution of the calls of c = an execution of the atomized configuration *)
  Definition sequential_outcome (order : list nat) (c : cfg) := outcome (exec order (atomize_cfg c)).

  Definition all_single (c : cfg) : Prop := forall t k, In t (thr c) -> In k t -> (List.length (c_todo k) <= 1)%nat.

  (* ---- check-then-act calls: [guard ; act].  The guard does not change the state; it passes or ends the call. *)
  Definition guard_sect (lk md : string) (chk : State -> bool) (fail : Local -> Local) : sect :=
    mkSect lk md (fun s l => if chk s then (s, l, true) else (s, fail l, false)).

  Inductive call_shape (chks : list (State -> bool)) : call -> Prop :=
  | shape0 l : call_shape chks (mkCall l [])
  | shape1 l x : call_shape chks (mkCall l [x])
  | shape2 l lk md chk fail a : In chk chks -> call_shape chks (mkCall l [guard_sect lk md chk fail; a]).

  (* every section that occurs preserves every guard that occurs *)
  Definition sect_preserves (chk : State -> bool) (x : sect) : Prop :=
    forall s l, chk s = true -> chk (fst (fst (s_run x s l))) = true.
  Definition guards_stable (chks : list (State -> bool)) (c : cfg) : Prop :=
    forall chk t k x, In chk chks -> In t (thr c) -> In k t -> In x (c_todo k) -> sect_preserves chk x.
  Definition shapes_ok (chks : list (State -> bool)) (c : cfg) : Prop :=
    forall t k, In t (thr c) -> In k t -> call_shape chks k.
End Interleaving.

Arguments sect : clear implicits.
Arguments call : clear implicits.
Arguments thread : clear implicits.
Arguments cfg : clear implicits.

(* ------------------------------------------------------------------------------------------------ *)
(* Part 3: the shape each storage method is modelled with: (backend, method, [(lock, mode)]).        *)
(* Compared with Gen/LockTable.v by current_table_matches_model.                                      *)

Definition shape := (string * string * list (string * string))%type.
Definition entry_shape (e : entry) : shape :=
  (fst (fst e), snd (fst e), map (fun a => (fst (fst a), snd (fst a))) (snd e)).

Definition ir := ("inner", "r").
Definition iw := ("inner", "w").
Definition gr := ("group_snapshots", "r").
Definition gw := ("group_snapshots", "w").
Definition cx := ("connection", "x").

Definition model_sections : list shape :=
  [ ("memory", "all_groups", [ir]); ("memory", "find_group_by_mls_group_id", [ir]);
    ("memory", "find_group_by_nostr_group_id", [ir]); ("memory", "save_group", [iw]);
    ("memory", "messages", [ir]); ("memory", "last_message", [ir]); ("memory", "admins", [ir]);
    ("memory", "group_relays", [ir]); ("memory", "replace_group_relays", [iw]);
    ("memory", "get_group_exporter_secret", [ir]); ("memory", "save_group_exporter_secret", [iw]);
    ("memory", "groups_needing_self_update", [ir]);
    ("memory", "save_message", [ir; iw]);                                   (* check-then-act *)
    ("memory", "find_message_by_event_id", [ir]); ("memory", "save_processed_message", [iw]);
    ("memory", "find_processed_message_by_event_id", [ir]); ("memory", "invalidate_messages_after_epoch", [iw]);
    ("memory", "invalidate_processed_messages_after_epoch", [iw]); ("memory", "find_failed_messages_for_retry", [ir]);
    ("memory", "find_invalidated_messages", [ir]); ("memory", "find_invalidated_processed_messages", [ir]);
    ("memory", "mark_processed_message_retryable", [iw]); ("memory", "find_message_epoch_by_tag_content", [ir]);
    ("memory", "save_welcome", [iw]); ("memory", "find_welcome_by_event_id", [ir]); ("memory", "pending_welcomes", [ir]);
    ("memory", "save_processed_welcome", [iw]); ("memory", "find_processed_welcome_by_event_id", [ir]);
    ("memory", "backend", []);
    ("memory", "create_group_snapshot", [ir; gw]);                          (* copy view ; publish snapshot *)
    ("memory", "rollback_group_to_snapshot", [gw; iw]);                     (* take snapshot out ; restore *)
    ("memory", "release_group_snapshot", [gw]); ("memory", "list_group_snapshots", [gr]);
    ("memory", "prune_expired_snapshots", [gw]);
    ("memory", "create_snapshot", [ir]); ("memory", "restore_snapshot", [iw]);
    ("memory", "create_group_scoped_snapshot", [ir]); ("memory", "restore_group_scoped_snapshot", [iw]);
    ("sqlite", "all_groups", [cx]); ("sqlite", "find_group_by_mls_group_id", [cx]);
    ("sqlite", "find_group_by_nostr_group_id", [cx]); ("sqlite", "save_group", [cx]);
    ("sqlite", "messages", [cx; cx]); ("sqlite", "last_message", [cx; cx]);            (* group exists? ; query *)
    ("sqlite", "admins", [cx]);
    ("sqlite", "group_relays", [cx; cx]); ("sqlite", "replace_group_relays", [cx; cx]);
    ("sqlite", "get_group_exporter_secret", [cx; cx]); ("sqlite", "save_group_exporter_secret", [cx; cx]);
    ("sqlite", "groups_needing_self_update", [cx]);
    ("sqlite", "save_message", [cx]);
    ("sqlite", "find_message_by_event_id", [cx]); ("sqlite", "save_processed_message", [cx]);
    ("sqlite", "find_processed_message_by_event_id", [cx]); ("sqlite", "invalidate_messages_after_epoch", [cx]);
    ("sqlite", "invalidate_processed_messages_after_epoch", [cx]); ("sqlite", "find_failed_messages_for_retry", [cx]);
    ("sqlite", "find_invalidated_messages", [cx]); ("sqlite", "find_invalidated_processed_messages", [cx]);
    ("sqlite", "mark_processed_message_retryable", [cx]); ("sqlite", "find_message_epoch_by_tag_content", [cx]);
    ("sqlite", "save_welcome", [cx]); ("sqlite", "find_welcome_by_event_id", [cx]); ("sqlite", "pending_welcomes", [cx]);
    ("sqlite", "save_processed_welcome", [cx]); ("sqlite", "find_processed_welcome_by_event_id", [cx]);
    ("sqlite", "backend", []);
    ("sqlite", "create_group_snapshot", [cx]); ("sqlite", "rollback_group_to_snapshot", [cx]);
    ("sqlite", "release_group_snapshot", [cx]); ("sqlite", "list_group_snapshots", [cx]);
    ("sqlite", "prune_expired_snapshots", [cx]);
    ("sqlite", "snapshot_group_state", [cx]); ("sqlite", "restore_group_from_snapshot", [cx]);
    ("sqlite", "delete_group_snapshot", [cx]) ].

Definition shape_eqb (a b : shape) : bool :=
  String.eqb (fst (fst a)) (fst (fst b)) && String.eqb (snd (fst a)) (snd (fst b)) &&
  (fix go (x y : list (string * string)) : bool :=
     match x, y with
     | [], [] => true
     | (l1, m1) :: x', (l2, m2) :: y' => String.eqb l1 l2 && String.eqb m1 m2 && go x' y'
     | _, _ => false
     end) (snd a) (snd b).
Definition shape_of (b m : string) : option (list (string * string)) :=
  match find (fun s => String.eqb (fst (fst s)) b && String.eqb (snd (fst s)) m) model_sections with
  | Some s => Some (snd s) | None => None end.

(* the OpenMLS StorageProvider impl: every method is exactly one non-nested acquisition *)
Definition one_plain_section (e : entry) : bool :=
  match snd e with [(_, _, false)] => true | _ => false end.

(* ------------------------------------------------------------------------------------------------ *)
(* Part 4: key/value instance.  Group records, relay sets, messages, stored snapshots.                *)
(* A group's "view" = its record (or absence) and its relay set (or absence): what a snapshot copies. *)

Definition view := (option N * option N)%type.
Record kv := mkKV {
  k_groups : list (N * N);            (* group id -> record value (version counter) *)
  k_relays : list (N * N);            (* group id -> relay-set value *)
  k_msgs   : list (N * N);            (* (group id, message id) *)
  k_snaps  : list ((N * N) * view)    (* (group id, snapshot name) -> copied view *)
}.
Definition kv0 : kv := mkKV [] [] [] [].

Fixpoint nget {V} (k : N) (m : list (N * V)) : option V :=
  match m with [] => None | (k', v) :: r => if k =? k' then Some v else nget k r end.
Fixpoint nset {V} (k : N) (v : V) (m : list (N * V)) : list (N * V) :=
  match m with [] => [(k, v)] | (k', v') :: r => if k =? k' then (k, v) :: r else (k', v') :: nset k v r end.
Fixpoint ndel {V} (k : N) (m : list (N * V)) : list (N * V) :=
  match m with [] => [] | (k', v') :: r => if k =? k' then ndel k r else (k', v') :: ndel k r end.
Definition pkey (a b : N * N) : bool := (fst a =? fst b) && (snd a =? snd b).
Fixpoint pget {V} (k : N * N) (m : list ((N * N) * V)) : option V :=
  match m with [] => None | (k', v) :: r => if pkey k k' then Some v else pget k r end.
Fixpoint pset {V} (k : N * N) (v : V) (m : list ((N * N) * V)) : list ((N * N) * V) :=
  match m with [] => [(k, v)] | (k', v') :: r => if pkey k k' then (k, v) :: r else (k', v') :: pset k v r end.
Fixpoint pdel {V} (k : N * N) (m : list ((N * N) * V)) : list ((N * N) * V) :=
  match m with [] => [] | (k', v') :: r => if pkey k k' then pdel k r else (k', v') :: pdel k r end.

Definition has_group (g : N) (s : kv) : bool := match nget g (k_groups s) with Some _ => true | None => false end.
Definition view_of (g : N) (s : kv) : view := (nget g (k_groups s), nget g (k_relays s)).
Definition opt_set (k : N) (o : option N) (m : list (N * N)) : list (N * N) :=
  match o with Some v => nset k v m | None => ndel k m end.
(* restore: the group's record and relay set become exactly the copied ones (messages are not part of a snapshot) *)
Definition restore_view (g : N) (v : view) (s : kv) : kv :=
  mkKV (opt_set g (fst v) (k_groups s)) (opt_set g (snd v) (k_relays s)) (k_msgs s) (k_snaps s).
Definition add_msg (g m : N) (s : kv) : kv :=
  if existsb (pkey (g, m)) (k_msgs s) then s else mkKV (k_groups s) (k_relays s) (k_msgs s ++ [(g, m)]) (k_snaps s).
Definition msgs_of (g : N) (s : kv) : list N := map snd (filter (fun p => fst p =? g) (k_msgs s)).
Definition snaps_of (g : N) (s : kv) : list N := map (fun e => snd (fst e)) (filter (fun e => fst (fst e) =? g) (k_snaps s)).

(* per-call local data: a copied view (between the sections of snapshot create / rollback) and the result *)
Inductive result := Pending | Ok | ErrNoGroup | ErrNotFound | RVal (v : option N) | RList (l : list N) | RBool (b : bool).
Record local := mkLocal { l_view : option view; l_res : result }.
Definition loc0 : local := mkLocal None Pending.
Definition ret (r : result) : local := mkLocal None r.

Inductive op :=
| SaveGroup (g v : N) | FindGroup (g : N)
| ReplaceRelays (g v : N) | GroupRelays (g : N)
| SaveMessage (g m : N) | FindMessage (g m : N) | Messages (g : N)
| CreateSnap (g n : N) | Rollback (g n : N) | Release (g n : N) | ListSnaps (g : N).

Definition op_method (o : op) : string :=
  match o with
  | SaveGroup _ _ => "save_group" | FindGroup _ => "find_group_by_mls_group_id"
  | ReplaceRelays _ _ => "replace_group_relays" | GroupRelays _ => "group_relays"
  | SaveMessage _ _ => "save_message" | FindMessage _ _ => "find_message_by_event_id" | Messages _ => "messages"
  | CreateSnap _ _ => "create_group_snapshot" | Rollback _ _ => "rollback_group_to_snapshot"
  | Release _ _ => "release_group_snapshot" | ListSnaps _ => "list_group_snapshots"
  end.

Definition ksect := sect kv local.
Definition sec (lm : string * string) (f : kv -> local -> kv * local * bool) : ksect := mkSect (fst lm) (snd lm) f.
Definition guard (lm : string * string) (g : N) : ksect := guard_sect (fst lm) (snd lm) (has_group g) (fun _ => ret ErrNoGroup).
(* a one-section body that itself checks the group (the check and the action are under one lock) *)
Definition checked (g : N) (f : kv -> kv * result) (s : kv) (l : local) : kv * local * bool :=
  if has_group g s then (fst (f s), ret (snd (f s)), false) else (s, ret ErrNoGroup, false).
Definition always (f : kv -> kv * result) (s : kv) (l : local) : kv * local * bool := (fst (f s), ret (snd (f s)), false).

Definition f_save_group g v (s : kv) := (mkKV (nset g v (k_groups s)) (k_relays s) (k_msgs s) (k_snaps s), Ok).
Definition f_find_group g (s : kv) := (s, RVal (nget g (k_groups s))).
Definition f_replace_relays g v (s : kv) := (mkKV (k_groups s) (nset g v (k_relays s)) (k_msgs s) (k_snaps s), Ok).
Definition f_group_relays g (s : kv) := (s, RVal (nget g (k_relays s))).
Definition f_add_msg g m (s : kv) := (add_msg g m s, Ok).
Definition f_find_msg g m (s : kv) := (s, RBool (existsb (pkey (g, m)) (k_msgs s))).
Definition f_messages g (s : kv) := (s, RList (msgs_of g s)).
Definition f_release g n (s : kv) := (mkKV (k_groups s) (k_relays s) (k_msgs s) (pdel (g, n) (k_snaps s)), Ok).
Definition f_list_snaps g (s : kv) := (s, RList (snaps_of g s)).
Definition f_publish g n (v : view) (s : kv) := mkKV (k_groups s) (k_relays s) (k_msgs s) (pset (g, n) v (k_snaps s)).

(* memory backend: sections exactly as in the source (crates/mdk-memory-storage) *)
Definition mem_sections (o : op) : list ksect :=
  match o with
  | SaveGroup g v => [sec iw (always (f_save_group g v))]
  | FindGroup g => [sec ir (always (f_find_group g))]
  | ReplaceRelays g v => [sec iw (checked g (f_replace_relays g v))]
  | GroupRelays g => [sec ir (checked g (f_group_relays g))]
  | SaveMessage g m => [guard ir g; sec iw (always (f_add_msg g m))]        (* find_group ; then inner.write *)
  | FindMessage g m => [sec ir (always (f_find_msg g m))]
  | Messages g => [sec ir (checked g (f_messages g))]
  | CreateSnap g n =>
      [sec ir (fun s l => (s, mkLocal (Some (view_of g s)) Pending, true));                       (* create_group_scoped_snapshot *)
       sec gw (fun s l => (f_publish g n (match l_view l with Some v => v | None => (None, None) end) s, ret Ok, false))]
  | Rollback g n =>
      [sec gw (fun s l => match pget (g, n) (k_snaps s) with
                          | Some v => (mkKV (k_groups s) (k_relays s) (k_msgs s) (pdel (g, n) (k_snaps s)), mkLocal (Some v) Pending, true)
                          | None => (s, ret ErrNotFound, false) end);
       sec iw (fun s l => (match l_view l with Some v => restore_view g v s | None => s end, ret Ok, false))]
  | Release g n => [sec gw (always (f_release g n))]
  | ListSnaps g => [sec gr (always (f_list_snaps g))]
  end.

(* SQLite backend: one connection mutex; several methods check the group in a first acquisition *)
Definition sq_sections (o : op) : list ksect :=
  match o with
  | SaveGroup g v => [sec cx (always (f_save_group g v))]
  | FindGroup g => [sec cx (always (f_find_group g))]
  | ReplaceRelays g v => [guard cx g; sec cx (checked g (f_replace_relays g v))]    (* FK: relays need the group row *)
  | GroupRelays g => [guard cx g; sec cx (always (f_group_relays g))]
  | SaveMessage g m => [sec cx (checked g (f_add_msg g m))]                          (* FK: messages need the group row *)
  | FindMessage g m => [sec cx (always (f_find_msg g m))]
  | Messages g => [guard cx g; sec cx (always (f_messages g))]
  | CreateSnap g n => [sec cx (checked g (fun s => (f_publish g n (view_of g s) s, Ok)))]   (* FK: snapshot rows need the group row *)
  | Rollback g n =>
      [sec cx (fun s l => match pget (g, n) (k_snaps s) with
                          | Some v => (restore_view g v (mkKV (k_groups s) (k_relays s) (k_msgs s) (pdel (g, n) (k_snaps s))), ret Ok, false)
                          | None => (s, ret ErrNotFound, false) end)]
  | Release g n => [sec cx (always (f_release g n))]
  | ListSnaps g => [sec cx (always (f_list_snaps g))]
  end.

Definition backend_sections (b : string) : op -> list ksect := if String.eqb b "memory" then mem_sections else sq_sections.
Definition kv_call (b : string) (o : op) : call kv local := mkCall loc0 (backend_sections b o).
Definition kv_cfg (b : string) (s : kv) (progs : list (list op)) : cfg kv local := mkCfg s (map (map (kv_call b)) progs) [].
Definition sect_shape (x : ksect) : string * string := (s_lock x, s_mode x).

(* ---- decidable comparison of outcomes (for the computed refutation witnesses) *)
Definition optN_eqb (a b : option N) : bool := match a, b with Some x, Some y => x =? y | None, None => true | _, _ => false end.
Fixpoint listN_eqb (a b : list N) : bool :=
  match a, b with [], [] => true | x :: a', y :: b' => (x =? y) && listN_eqb a' b' | _, _ => false end.
Definition view_eqb (a b : view) : bool := optN_eqb (fst a) (fst b) && optN_eqb (snd a) (snd b).
Definition result_eqb (a b : result) : bool :=
  match a, b with
  | Pending, Pending | Ok, Ok | ErrNoGroup, ErrNoGroup | ErrNotFound, ErrNotFound => true
  | RVal x, RVal y => optN_eqb x y | RList x, RList y => listN_eqb x y | RBool x, RBool y => Bool.eqb x y
  | _, _ => false end.
Fixpoint list_eqb {A} (e : A -> A -> bool) (a b : list A) : bool :=
  match a, b with [], [] => true | x :: a', y :: b' => e x y && list_eqb e a' b' | _, _ => false end.
Definition nn_eqb (a b : N * N) : bool := pkey a b.
Definition kv_eqb (a b : kv) : bool :=
  list_eqb nn_eqb (k_groups a) (k_groups b) && list_eqb nn_eqb (k_relays a) (k_relays b) &&
  list_eqb nn_eqb (k_msgs a) (k_msgs b) &&
  list_eqb (fun x y => pkey (fst x) (fst y) && view_eqb (snd x) (snd y)) (k_snaps a) (k_snaps b).
(* results per thread, in program order: completion order differs between schedules, per-call results must not *)
Definition results_of (i : nat) (f : list (nat * local)) : list result :=
  map (fun p => l_res (snd p)) (filter (fun p => Nat.eqb (fst p) i) (rev f)).
Definition outcome_eqb (nthreads : nat) (a b : kv * list (nat * local)) : bool :=
  kv_eqb (fst a) (fst b) &&
  forallb (fun i => list_eqb result_eqb (results_of i (snd a)) (results_of i (snd b))) (seq 0 nthreads).

(* all interleavings of per-thread call counts = all sequential orders (as schedules of the atomized configuration) *)
Fixpoint orders (fuel : nat) (remaining : list nat) : list (list nat) :=
  match fuel with
  | O => [[]]
  | S f =>
      if forallb (Nat.eqb 0) remaining then [[]]
      else List.concat (map (fun i => match nth_error remaining i with
                                 | Some (S k) => map (cons i) (orders f (set_nth i k remaining))
                                 | _ => [] end) (seq 0 (List.length remaining)))
  end.
Definition all_orders (progs : list (list op)) : list (list nat) :=
  orders (List.length (List.concat progs)) (map (@List.length op) progs).

(* the schedule's outcome is matched by NO sequential order of the same calls *)
Definition not_linearizable (b : string) (s : kv) (progs : list (list op)) (sched : list nat) : bool :=
  let c := kv_cfg b s progs in
  forallb (fun t => is_nil t) (thr (exec sched c)) &&
  forallb (fun order => negb (outcome_eqb (List.length progs) (outcome (exec sched c)) (sequential_outcome order c))) (all_orders progs).

(* ---- what belongs to one group (for "operations on different groups do not disturb each other") *)
Definition op_group (o : op) : N :=
  match o with
  | SaveGroup g _ | FindGroup g | ReplaceRelays g _ | GroupRelays g | SaveMessage g _ | FindMessage g _ | Messages g
  | CreateSnap g _ | Rollback g _ | Release g _ | ListSnaps g => g
  end.
Definition group_part (g : N) (s : kv) :=
  (nget g (k_groups s), nget g (k_relays s), filter (fun p => fst p =? g) (k_msgs s), filter (fun e => fst (fst e) =? g) (k_snaps s)).

(* the two-lock snapshot methods of the memory backend (class C19/memory-snapshot-two-locks) *)
Definition two_lock_snapshot_op (o : op) : bool := match o with CreateSnap _ _ | Rollback _ _ => true | _ => false end.
(* SQLite: a stored snapshot always contains the group's row (group_state_snapshots.group_id REFERENCES groups) *)
Definition snaps_have_group (s : kv) : Prop := forall k v, pget k (k_snaps s) = Some v -> fst v <> None.
Definition is_group_guard (chk : kv -> bool) : Prop := exists g, chk = has_group g.
