(* C13 - tie of Conc/Keyring.v to the source text: the generated table Gen/KeyringProg.v (regenerated from
   crates/mdk-sqlite-storage/src/{keyring,lib,permissions}.rs on every run) must coincide with the model:
   the order get / lock / get / generate / set of get_or_create_db_key (removing the re-check under the lock,
   or moving generate before the lock, breaks keyring_prog_tied), which keyring function each arm of
   MdkSqliteStorage::new calls (the arm for an existing file must not reach get_or_create_db_key), the
   guard of new_with_key, O_EXCL creation, and the mode constants. *)
From Coq Require Import String.
From MDK Require Import Base.Prelude Conc.Keyring Gen.KeyringProg.

Definition instr_label (i : instr) : string :=
  match i with IGet => "get" | ILock => "lock" | IGen => "generate" | ISet => "set" end%string.

Definition keyring_tied_statement : Prop :=
  map instr_label good_prog = get_or_create_steps /\
  new_created_arm = ["get_or_create_db_key"]%string /\
  new_existing_arm = ["get_db_key"; "is_database_encrypted"; "UnencryptedDatabaseWithEncryption";
                      "KeyringEntryMissingForExistingDatabase"]%string /\
  new_with_key_refuses_unencrypted_existing = true /\
  precreate_uses_create_new = true /\
  m_file = src_file_mode /\ m_dir = src_dir_mode /\
  src_sidecar_suffixes = ["-wal"; "-shm"; "-journal"]%string.

Lemma keyring_prog_tied : keyring_tied_statement.
Proof. unfold keyring_tied_statement. repeat split; reflexivity. Qed.
