(* C19 - proofs about Conc/Sections.v and the generated lock table Gen/LockTable.v. *)
From MDK Require Import Base.Prelude Conc.Sections Gen.LockTable.
From Coq Require Import String.
Local Open Scope string_scope.
Local Open Scope N_scope.

(* ================================================================================================ *)
(* generic list helpers                                                                              *)

Lemma set_nth_map {A B} (f : A -> B) i x (l : list A) : map f (set_nth i x l) = set_nth i (f x) (map f l).
Proof.
  revert i. induction l as [|y l IH]; intros i; [destruct i; reflexivity|].
  destruct i as [|i]; cbn [set_nth map]; [reflexivity|]. rewrite IH. reflexivity.
Qed.

Lemma set_nth_Forall {A} (P : A -> Prop) i x (l : list A) : Forall P l -> P x -> Forall P (set_nth i x l).
Proof.
  intros Hl Hx. revert i. induction Hl as [|y l Hy Hl IH]; intros i; [destruct i; constructor|].
  destruct i as [|i]; cbn [set_nth]; constructor; auto.
Qed.

Lemma set_nth_In {A} i (x : A) l y : In y (set_nth i x l) -> y = x \/ In y l.
Proof.
  revert i. induction l as [|z l IH]; intros i; [destruct i; intros []|].
  destruct i as [|i]; cbn [set_nth In].
  - intros [<-|H]; auto.
  - intros [<-|H]; auto. apply IH in H. tauto.
Qed.

Lemma Forall2_nth_error {A B} (R : A -> B -> Prop) l1 l2 i x :
  Forall2 R l1 l2 -> nth_error l1 i = Some x -> exists y, nth_error l2 i = Some y /\ R x y.
Proof.
  intros H. revert i. induction H as [|a b l1 l2 Hab H IH]; intros i.
  - destruct i; discriminate.
  - destruct i as [|i]; cbn [nth_error].
    + intros [= <-]. eauto.
    + apply IH.
Qed.

Lemma Forall2_set_nth {A B} (R : A -> B -> Prop) l1 l2 i x y :
  Forall2 R l1 l2 -> R x y -> Forall2 R (set_nth i x l1) (set_nth i y l2).
Proof.
  intros H Hxy. revert i. induction H as [|a b l1 l2 Hab H IH]; intros i; [destruct i; constructor|].
  destruct i as [|i]; cbn [set_nth]; constructor; auto.
Qed.

Lemma Forall2_mono {A B} (R R' : A -> B -> Prop) l1 l2 :
  (forall a b, R a b -> R' a b) -> Forall2 R l1 l2 -> Forall2 R' l1 l2.
Proof. intros HR H. induction H; constructor; auto. Qed.

(* ================================================================================================ *)
(* Part 1: no nested acquisition => no deadlock (any number of threads, any calls)                   *)

Inductive flat : list instr -> Prop :=
| flat_nil : flat []
| flat_cons l m p : flat p -> flat (Acq l m :: Rel l :: p).

Lemma flat_app p q : flat p -> flat q -> flat (p ++ q).
Proof. intros Hp Hq. induction Hp as [|l m p Hp IH]; [exact Hq|]. cbn [app]. constructor. exact IH. Qed.

Lemma compile_from_one a : acqs_not_nested a = true ->
  forall l, exists p, compile_from [l] a = Rel l :: p /\ flat p.
Proof.
  induction a as [|[[l' m'] n'] a IH]; intros Hn l.
  - exists []. split; [reflexivity|constructor].
  - unfold acqs_not_nested in Hn. cbn [forallb snd] in Hn. apply andb_prop in Hn. destruct Hn as [Hn1 Hn2].
    destruct n'; [discriminate|].
    destruct (IH Hn2 l') as [p [Ep Fp]].
    exists (Acq l' m' :: compile_from [l'] a). split; [reflexivity|].
    rewrite Ep. constructor. exact Fp.
Qed.

Lemma compile_flat a : acqs_not_nested a = true -> flat (compile a).
Proof.
  destruct a as [|[[l m] n] a]; intros Hn; [constructor|].
  unfold acqs_not_nested in Hn. cbn [forallb snd] in Hn. apply andb_prop in Hn. destruct Hn as [Hn1 Hn2].
  destruct n; [discriminate|].
  unfold compile. cbn [compile_from rel_all map app].
  destruct (compile_from_one a Hn2 l) as [p [Ep Fp]]. rewrite Ep. constructor. exact Fp.
Qed.

Lemma concat_flat ps : Forall flat ps -> flat (List.concat ps).
Proof. intros H. induction H as [|p ps Hp H IH]; [constructor|]. cbn [List.concat]. apply flat_app; assumption. Qed.

Definition lt_ok (t : lthread) : Prop :=
  (lt_held t = [] /\ flat (lt_prog t)) \/
  (exists l m p, lt_held t = [(l, m)] /\ lt_prog t = Rel l :: p /\ flat p).

Lemma linit_ok threads :
  (forall calls a, In calls threads -> In a calls -> acqs_not_nested a = true) -> Forall lt_ok (linit threads).
Proof.
  intros H. unfold linit. apply Forall_forall. intros t Ht. apply in_map_iff in Ht. destruct Ht as [calls [<- Hc]].
  left. cbn [lt_held lt_prog]. split; [reflexivity|]. apply concat_flat. apply Forall_forall.
  intros p Hp. apply in_map_iff in Hp. destruct Hp as [a [<- Ha]]. apply compile_flat. eapply H; eassumption.
Qed.

Lemma lstep_thread_ok ts t t' : lt_ok t -> lstep_thread ts t = Some t' -> lt_ok t'.
Proof.
  intros [[Hh Hf]|[l [m [p [Hh [Hp Hf]]]]]]; unfold lstep_thread.
  - inversion Hf as [Hnil|l m p Hf' Hp]; rewrite <- ?Hnil, <- ?Hp; [discriminate|].
    destruct (blocked l m ts); [discriminate|]. intros [= <-]. right. exists l, m, p. rewrite Hh. cbn. auto.
  - rewrite Hp. intros [= <-]. left. rewrite Hh. cbn [lt_held lt_prog remove_held]. rewrite String.eqb_refl. auto.
Qed.

Lemma lstep_ok ts ts' : Forall lt_ok ts -> lstep ts ts' -> Forall lt_ok ts'.
Proof.
  intros Hok [i Hi]. unfold lstep_at in Hi. destruct (nth_error ts i) as [t|] eqn:Et; [|discriminate].
  destruct (lstep_thread ts t) as [t'|] eqn:Es; [|discriminate]. injection Hi as <-.
  apply set_nth_Forall; [exact Hok|]. eapply lstep_thread_ok; [|exact Es].
  rewrite Forall_forall in Hok. apply Hok. eapply nth_error_In; exact Et.
Qed.

Lemma lreach_ok ts0 ts : Forall lt_ok ts0 -> lreach ts0 ts -> Forall lt_ok ts.
Proof. intros H0 Hr. induction Hr as [|ts1 ts2 Hr IH Hs]; [exact H0|]. eapply lstep_ok; eauto. Qed.

Lemma held_dec (ts : list lthread) : (exists t, In t ts /\ lt_held t <> []) \/ (forall t, In t ts -> lt_held t = []).
Proof.
  induction ts as [|t ts IH]; [right; intros t []|].
  destruct (lt_held t) eqn:E.
  - destruct IH as [[t' [Hin Hne]]|Hall]; [left; exists t'; split; [right; exact Hin|exact Hne]|].
    right. intros t' [<-|Hin]; auto.
  - left. exists t. split; [left; reflexivity|]. rewrite E. discriminate.
Qed.

Lemma prog_dec (ts : list lthread) : (exists t, In t ts /\ lt_prog t <> []) \/ (forall t, In t ts -> lt_prog t = []).
Proof.
  induction ts as [|t ts IH]; [right; intros t []|].
  destruct (lt_prog t) eqn:E.
  - destruct IH as [[t' [Hin Hne]]|Hall]; [left; exists t'; split; [right; exact Hin|exact Hne]|].
    right. intros t' [<-|Hin]; auto.
  - left. exists t. split; [left; reflexivity|]. rewrite E. discriminate.
Qed.

Lemma not_blocked_when_nothing_held ts l m : (forall t, In t ts -> lt_held t = []) -> blocked l m ts = false.
Proof.
  intros H. unfold blocked. destruct (existsb _ ts) eqn:E; [|reflexivity].
  apply existsb_exists in E. destruct E as [t [Hin Ht]]. rewrite (H t Hin) in Ht. discriminate.
Qed.

Lemma progress ts : Forall lt_ok ts -> ldone ts \/ exists ts', lstep ts ts'.
Proof.
  intros Hok. rewrite Forall_forall in Hok.
  destruct (held_dec ts) as [[t [Hin Hne]]|Hnone].
  - (* a thread holds a lock: it is about to release it *)
    right. destruct (Hok t Hin) as [[Hh _]|[l [m [p [Hh [Hp Hf]]]]]]; [contradiction|].
    destruct (In_nth_error _ _ Hin) as [i Hi].
    eexists. exists i. unfold lstep_at. rewrite Hi. unfold lstep_thread. rewrite Hp. reflexivity.
  - destruct (prog_dec ts) as [[t [Hin Hne]]|Hall]; [|left; exact Hall].
    (* nobody holds anything: any unfinished thread can take its next lock *)
    right. destruct (Hok t Hin) as [[Hh Hf]|[l [m [p [Hh _]]]]]; [|rewrite (Hnone t Hin) in Hh; discriminate].
    inversion Hf as [Hnil|l m p Hf' Hp]; [rewrite <- Hnil in Hne; contradiction|].
    destruct (In_nth_error _ _ Hin) as [i Hi].
    eexists. exists i. unfold lstep_at. rewrite Hi. unfold lstep_thread. rewrite <- Hp.
    rewrite (not_blocked_when_nothing_held ts l m Hnone). reflexivity.
Qed.

Theorem no_nested_deadlock_free : forall threads : list (list (list acq)),
  (forall calls a, In calls threads -> In a calls -> acqs_not_nested a = true) ->
  forall ts, lreach (linit threads) ts -> ldone ts \/ exists ts', lstep ts ts'.
Proof. intros threads H ts Hr. apply progress. eapply lreach_ok; [apply linit_ok; exact H|exact Hr]. Qed.

(* the hypothesis is needed: two threads taking two locks in opposite order, nested, can get stuck *)
Definition nested_example : list (list (list acq)) :=
  [[[("a", "x", false); ("b", "x", true)]]; [[("b", "x", false); ("a", "x", true)]]].
Lemma nested_can_deadlock : exists ts, lreach (linit nested_example) ts /\ ~ ldone ts /\ forall ts', ~ lstep ts ts'.
Proof.
  exists [mkLT [("a", "x")] [Acq "b" "x"; Rel "b"; Rel "a"]; mkLT [("b", "x")] [Acq "a" "x"; Rel "a"; Rel "b"]].
  split; [|split].
  - apply lreach_step with (ts1 := [mkLT [("a", "x")] [Acq "b" "x"; Rel "b"; Rel "a"]; mkLT [] [Acq "b" "x"; Acq "a" "x"; Rel "a"; Rel "b"]]).
    + apply lreach_step with (ts1 := linit nested_example); [apply lreach_refl|]. exists 0%nat. vm_compute. reflexivity.
    + exists 1%nat. vm_compute. reflexivity.
  - intros H. specialize (H _ (or_introl eq_refl)). discriminate.
  - intros ts' [i Hi]. destruct i as [|[|i]]; try (vm_compute in Hi; discriminate).
    unfold lstep_at in Hi. cbn [nth_error] in Hi. destruct i; discriminate.
Qed.

(* ---- the generated table *)
Lemma current_table_no_nested_locks : no_nested_locks lock_table = true /\ no_nested_locks mls_lock_table = true.
Proof. split; vm_compute; reflexivity. Qed.

Lemma current_table_matches_model : map entry_shape lock_table = model_sections.
Proof. vm_compute. reflexivity. Qed.

Lemma current_mls_table_single_section : forallb one_plain_section mls_lock_table = true.
Proof. vm_compute. reflexivity. Qed.

Lemma table_entry_not_nested table e : no_nested_locks table = true -> In e table -> acqs_not_nested (snd e) = true.
Proof. unfold no_nested_locks. rewrite forallb_forall. intros H Hin. apply H. exact Hin. Qed.

(* any number of threads calling any methods of the current tables, in any order, never deadlock *)
Theorem current_table_deadlock_free : forall threads : list (list entry),
  (forall calls e, In calls threads -> In e calls -> In e lock_table \/ In e mls_lock_table) ->
  forall ts, lreach (linit (map (map snd) threads)) ts -> ldone ts \/ exists ts', lstep ts ts'.
Proof.
  intros threads H. apply no_nested_deadlock_free.
  intros calls a Hc Ha. apply in_map_iff in Hc. destruct Hc as [es [<- Hes]].
  apply in_map_iff in Ha. destruct Ha as [e [<- He]].
  destruct current_table_no_nested_locks as [T1 T2].
  destruct (H es e Hes He) as [Hin|Hin]; [exact (table_entry_not_nested _ _ T1 Hin)|exact (table_entry_not_nested _ _ T2 Hin)].
Qed.

(* ================================================================================================ *)
(* Part 2: section-level interleavings                                                               *)

Section Lin.
  Context {State Local : Type}.
  Notation sect := (Sections.sect State Local).
  Notation call := (Sections.call State Local).
  Notation thread := (Sections.thread State Local).
  Notation cfg := (Sections.cfg State Local).

  Lemma run_all_single (x : sect) s l :
    run_all [x] s l = (fst (fst (s_run x s l)), snd (fst (s_run x s l)), false).
  Proof. cbn [run_all]. destruct (s_run x s l) as [[s' l'] cont]. cbn [is_nil negb fst snd]. rewrite andb_false_r. reflexivity. Qed.

  (* ---- calls with at most one section: the interleaved run IS a sequential run *)
  Lemma step_thread_atomize_single (s : State) (k : call) (rest : thread) :
    (List.length (c_todo k) <= 1)%nat ->
    step_thread s (map atomize (k :: rest)) =
    match step_thread s (k :: rest) with Some (s', t', r) => Some (s', map atomize t', r) | None => None end.
  Proof.
    intros Hlen. destruct k as [l todo]. cbn [map atomize c_loc c_todo s_run step_thread].
    destruct todo as [|x [|y todo]]; cbn [List.length c_todo] in Hlen; [| |lia].
    - cbn [run_all is_nil negb andb]. reflexivity.
    - rewrite run_all_single. destruct (s_run x s l) as [[s' l'] cont]. cbn [fst snd is_nil negb andb].
      rewrite andb_false_r. reflexivity.
  Qed.

  Lemma exec_one_atomize_single (c : cfg) i :
    all_single c ->
    exec_one i (atomize_cfg c) = match exec_one i c with Some c' => Some (atomize_cfg c') | None => None end.
  Proof.
    intros Hs. unfold exec_one, atomize_cfg. cbn [thr st fin]. rewrite nth_error_map. unfold Sections.thread in *.
    destruct (@nth_error (list (Sections.call State Local)) (thr c) i) as [t|] eqn:Et; cbn [option_map]; [|reflexivity].
    destruct t as [|k rest]; [reflexivity|].
    rewrite step_thread_atomize_single by (apply (Hs (k :: rest) k); [eapply nth_error_In; exact Et|left; reflexivity]).
    destruct (step_thread (st c) (k :: rest)) as [[[s' t'] r]|]; [|reflexivity].
    cbn [thr st fin]. rewrite set_nth_map. reflexivity.
  Qed.

  Lemma step_thread_calls (s : State) (t : thread) s' t' r k :
    step_thread s t = Some (s', t', r) -> In k t' ->
    In k t \/ exists k0 x, In k0 t /\ c_todo k0 = x :: c_todo k.
  Proof.
    destruct t as [|k0 rest]; [discriminate|]. cbn [step_thread].
    destruct (c_todo k0) as [|x xs] eqn:E.
    - intros [= <- <- <-] Hin. left. right. exact Hin.
    - destruct (s_run x s (c_loc k0)) as [[s1 l1] cont]. destruct (cont && negb (is_nil xs)).
      + intros [= <- <- <-] [<-|Hin]; [|left; right; exact Hin].
        right. exists k0, x. split; [left; reflexivity|exact E].
      + intros [= <- <- <-] Hin. left. right. exact Hin.
  Qed.

  Lemma exec_one_calls (c c' : cfg) i t' k :
    exec_one i c = Some c' -> In t' (thr c') -> In k t' ->
    exists t k0, In t (thr c) /\ In k0 t /\ (k = k0 \/ exists x, c_todo k0 = x :: c_todo k).
  Proof.
    unfold exec_one. unfold Sections.thread in *. destruct (@nth_error (list (Sections.call State Local)) (thr c) i) as [t|] eqn:Et; [|discriminate].
    destruct (step_thread (st c) t) as [[[s1 t1] r]|] eqn:Es; [|discriminate].
    intros [= <-]. cbn [thr]. intros Ht' Hk. apply set_nth_In in Ht'. destruct Ht' as [->|Ht'].
    - destruct (step_thread_calls _ _ _ _ _ _ Es Hk) as [Hin|[k0 [x [Hin E]]]].
      + exists t, k. split; [eapply nth_error_In; exact Et|]. split; [exact Hin|left; reflexivity].
      + exists t, k0. split; [eapply nth_error_In; exact Et|]. split; [exact Hin|right; exists x; exact E].
    - exists t', k. split; [exact Ht'|]. split; [exact Hk|left; reflexivity].
  Qed.

  Lemma all_single_step (c c' : cfg) i : all_single c -> exec_one i c = Some c' -> all_single c'.
  Proof.
    intros Hs He t' k Ht' Hk. destruct (exec_one_calls _ _ _ _ _ He Ht' Hk) as [t [k0 [Ht [Hk0 [->|[x E]]]]]].
    - exact (Hs t k0 Ht Hk0).
    - specialize (Hs t k0 Ht Hk0). rewrite E in Hs. cbn [List.length] in Hs. lia.
  Qed.

  Lemma exec_atomize_single sched : forall c : cfg, all_single c -> exec sched (atomize_cfg c) = atomize_cfg (exec sched c).
  Proof.
    induction sched as [|i sched IH]; intros c Hs; [reflexivity|].
    cbn [exec]. rewrite exec_one_atomize_single by exact Hs.
    destruct (exec_one i c) as [c'|] eqn:E.
    - apply IH. eapply all_single_step; eassumption.
    - apply IH. exact Hs.
  Qed.

  Theorem single_section_linearizable : forall (c : cfg) sched,
    all_single c -> exists order, sequential_outcome order c = outcome (exec sched c).
  Proof.
    intros c sched Hs. exists sched. unfold sequential_outcome. rewrite exec_atomize_single by exact Hs. reflexivity.
  Qed.

  (* ---- check-then-act calls whose guard, once true, stays true *)
  Variable G : (State -> bool) -> Prop.     (* the guards that occur *)
  Variable I : State -> Prop.               (* a state invariant under which the guards are stable *)

  Definition sect_ok (x : sect) : Prop :=
    forall s l, I s -> I (fst (fst (s_run x s l))) /\
                       forall chk, G chk -> chk s = true -> chk (fst (fst (s_run x s l))) = true.
  Definition sects_ok (c : cfg) : Prop := forall t k x, In t (thr c) -> In k t -> In x (c_todo k) -> sect_ok x.

  Inductive gshape : call -> Prop :=
  | gshape0 l : gshape (mkCall l [])
  | gshape1 l x : gshape (mkCall l [x])
  | gshape2 l lk md chk fail a : G chk -> gshape (mkCall l [guard_sect lk md chk fail; a]).
  Definition gshapes (c : cfg) : Prop := forall t k, In t (thr c) -> In k t -> gshape k.

  Inductive trel (s : State) : thread -> thread -> Prop :=
  | trel_idle t : (forall k, In k t -> gshape k) -> trel s t (map atomize t)
  | trel_flight l a rest lk md chk fail :
      G chk -> chk s = true -> (forall k, In k rest -> gshape k) ->
      trel s (mkCall l [a] :: rest) (atomize (mkCall l [guard_sect lk md chk fail; a]) :: map atomize rest).

  Definition R (C A : cfg) : Prop :=
    st C = st A /\ fin C = fin A /\ I (st C) /\ Forall2 (trel (st C)) (thr C) (thr A).

  Lemma trel_mono s s' tC tA :
    (forall chk, G chk -> chk s = true -> chk s' = true) -> trel s tC tA -> trel s' tC tA.
  Proof. intros H [t Ht|l a rest lk md chk fail Hg Hc Hr]; constructor; auto. Qed.

  Lemma R_init (c : cfg) : gshapes c -> I (st c) -> R c (atomize_cfg c).
  Proof.
    intros Hg Hi. unfold R, atomize_cfg. cbn [st fin thr]. repeat split; [exact Hi|].
    unfold gshapes in Hg. induction (thr c) as [|t ts IH]; [constructor|].
    cbn [map]. constructor.
    - constructor. intros k Hk. apply (Hg t k); [left; reflexivity|exact Hk].
    - apply IH. intros t' k Ht' Hk. apply (Hg t' k); [right; exact Ht'|exact Hk].
  Qed.

  Lemma sects_ok_step (c c' : cfg) i : sects_ok c -> exec_one i c = Some c' -> sects_ok c'.
  Proof.
    intros Hs He t' k x Ht' Hk Hx. destruct (exec_one_calls _ _ _ _ _ He Ht' Hk) as [t [k0 [Ht [Hk0 [->|[y E]]]]]].
    - exact (Hs t k0 x Ht Hk0 Hx).
    - apply (Hs t k0 x Ht Hk0). rewrite E. right. exact Hx.
  Qed.

  (* one concurrent step is matched by zero or one step of the atomized configuration *)
  Lemma simulation (C A C' : cfg) i :
    R C A -> sects_ok C -> exec_one i C = Some C' ->
    R C' A \/ exists A', exec_one i A = Some A' /\ R C' A'.
  Proof.
    intros [Hst [Hfin [Hinv Hthr]]] Hok He. unfold exec_one in He. unfold Sections.thread in *.
    destruct (@nth_error (list (Sections.call State Local)) (thr C) i) as [tC|] eqn:EtC; [|discriminate].
    destruct (Forall2_nth_error _ _ _ _ _ Hthr EtC) as [tA [EtA Hrel]].
    assert (HinC : In tC (thr C)) by (eapply nth_error_In; exact EtC).
    destruct Hrel as [t Hsh|l a rest lk md chk fail Hg Hchk Hsh].
    - (* thread i is between calls *)
      destruct t as [|k rest]; [discriminate|].
      assert (Hk : gshape k) by (apply Hsh; left; reflexivity).
      assert (Hrest : forall k', In k' rest -> gshape k') by (intros k' Hk'; apply Hsh; right; exact Hk').
      destruct Hk as [l|l x|l lk md chk fail a Hg].
      + (* no section at all *)
        cbn [step_thread c_todo c_loc] in He. injection He as <-. right.
        eexists. split.
        * unfold exec_one, Sections.thread. rewrite EtA. cbn [map atomize c_loc c_todo s_run step_thread run_all is_nil negb andb]. reflexivity.
        * unfold R. cbn [st fin thr]. rewrite <- Hst, <- Hfin. repeat split; [exact Hinv|].
          apply Forall2_set_nth; [exact Hthr|]. constructor. exact Hrest.
      + (* one section *)
        cbn [step_thread c_todo c_loc] in He.
        assert (Hx : sect_ok x) by (apply (Hok _ (mkCall l [x]) x HinC); [left; reflexivity|left; reflexivity]).
        specialize (Hx (st C) l Hinv).
        destruct (s_run x (st C) l) as [[s' l'] cont] eqn:Er. cbn [fst snd] in Hx. destruct Hx as [Hinv' Hstab].
        cbn [is_nil negb] in He. rewrite andb_false_r in He. injection He as <-. right.
        eexists. split.
        * unfold exec_one, Sections.thread. rewrite EtA. cbn [map atomize c_loc c_todo s_run step_thread]. rewrite run_all_single.
          rewrite <- Hst, Er. cbn [fst snd andb]. reflexivity.
        * unfold R. cbn [st fin thr]. rewrite <- Hfin. repeat split; [exact Hinv'|].
          apply Forall2_set_nth; [|constructor; exact Hrest].
          eapply Forall2_mono; [|exact Hthr]. intros tc ta. apply trel_mono. exact Hstab.
      + (* guard ; act *)
        cbn [step_thread c_todo c_loc guard_sect s_run] in He.
        destruct (chk (st C)) eqn:Echk.
        * (* the guard passes: the atomized configuration waits *)
          cbn [is_nil negb andb] in He. injection He as <-. left.
          unfold R. cbn [st fin thr]. repeat split; [exact Hst|exact Hfin|exact Hinv|].
          replace (thr A) with (set_nth i (atomize (mkCall l [guard_sect lk md chk fail; a]) :: map atomize rest) (thr A)).
          -- apply Forall2_set_nth; [exact Hthr|]. constructor; assumption.
          -- clear -EtA. revert i EtA. induction (thr A) as [|y ys IH]; intros i E; [destruct i; discriminate|].
             destruct i as [|i]; cbn [nth_error set_nth] in *; [injection E as ->; reflexivity|]. rewrite (IH i E). reflexivity.
        * (* the guard fails: the call ends here, in both *)
          cbn [andb] in He. injection He as <-. right.
          eexists. split.
          -- unfold exec_one, Sections.thread. rewrite EtA. cbn [map atomize c_loc c_todo s_run step_thread run_all guard_sect s_run].
             rewrite <- Hst, Echk. cbn [andb]. reflexivity.
          -- unfold R. cbn [st fin thr]. rewrite <- Hfin. repeat split; [exact Hinv|].
             apply Forall2_set_nth; [exact Hthr|]. constructor. exact Hrest.
    - (* thread i passed its guard earlier and now runs the action *)
      cbn [step_thread c_todo c_loc] in He.
      assert (Hx : sect_ok a) by (apply (Hok _ (mkCall l [a]) a HinC); [left; reflexivity|left; reflexivity]).
      specialize (Hx (st C) l Hinv).
      destruct (s_run a (st C) l) as [[s' l'] cont] eqn:Er. cbn [fst snd] in Hx. destruct Hx as [Hinv' Hstab].
      cbn [is_nil negb] in He. rewrite andb_false_r in He. injection He as <-. right.
      eexists. split.
      + unfold exec_one, Sections.thread. rewrite EtA. cbn [atomize c_loc c_todo s_run step_thread run_all guard_sect s_run].
        rewrite <- Hst, Hchk. cbn [is_nil negb andb]. rewrite Er. cbn [is_nil negb]. rewrite andb_false_r. cbn [andb]. reflexivity.
      + unfold R. cbn [st fin thr]. rewrite <- Hfin. repeat split; [exact Hinv'|].
        apply Forall2_set_nth; [|constructor; exact Hsh].
        eapply Forall2_mono; [|exact Hthr]. intros tc ta. apply trel_mono. exact Hstab.
  Qed.

  Lemma simulation_run sched : forall C A : cfg, R C A -> sects_ok C ->
    exists order, outcome (exec order A) = outcome (exec sched C).
  Proof.
    induction sched as [|i sched IH]; intros C A HR Hok.
    - exists []. destruct HR as [Hst [Hfin _]]. unfold outcome. cbn [exec]. rewrite Hst, Hfin. reflexivity.
    - cbn [exec]. destruct (exec_one i C) as [C'|] eqn:E; [|apply IH; assumption].
      assert (Hok' : sects_ok C') by (eapply sects_ok_step; eassumption).
      destruct (simulation _ _ _ _ HR Hok E) as [HR'|[A' [EA HR']]].
      + apply IH; assumption.
      + destruct (IH C' A' HR' Hok') as [order Ho]. exists (i :: order). cbn [exec]. rewrite EA. exact Ho.
  Qed.

  (* Every interleaving of calls that are single sections or [stable guard ; action] has the outcome of a
     sequential order of the same calls: each call takes effect where its LAST executed section ran. *)
  Theorem guarded_linearizable : forall (c : cfg) sched,
    gshapes c -> sects_ok c -> I (st c) ->
    exists order, sequential_outcome order c = outcome (exec sched c).
  Proof. intros c sched Hg Hok Hi. apply simulation_run; [apply R_init; assumption|exact Hok]. Qed.
End Lin.

(* ================================================================================================ *)
(* Part 4: the key/value instance                                                                    *)

Lemma kv_model_matches_shapes : forall o,
  shape_of "memory" (op_method o) = Some (map sect_shape (mem_sections o)) /\
  shape_of "sqlite" (op_method o) = Some (map sect_shape (sq_sections o)).
Proof. intros o. destruct o; split; vm_compute; reflexivity. Qed.

Lemma nget_nset {V} k k' (v : V) m : nget k' (nset k v m) = if k' =? k then Some v else nget k' m.
Proof.
  induction m as [|[k0 v0] m IH]; cbn [nget nset].
  - destruct (N.eqb_spec k' k); reflexivity.
  - destruct (N.eqb_spec k k0) as [->|Hne]; cbn [nget].
    + destruct (N.eqb_spec k' k0); reflexivity.
    + rewrite IH. destruct (N.eqb_spec k' k0) as [->|Hne']; [|reflexivity].
      destruct (N.eqb_spec k0 k); [congruence|reflexivity].
Qed.

Lemma nget_ndel {V} k k' (m : list (N * V)) : nget k' (ndel k m) = if k' =? k then None else nget k' m.
Proof.
  induction m as [|[k0 v0] m IH]; cbn [nget ndel].
  - destruct (k' =? k); reflexivity.
  - destruct (N.eqb_spec k k0) as [->|Hne]; cbn [nget].
    + rewrite IH. destruct (N.eqb_spec k' k0); reflexivity.
    + rewrite IH. destruct (N.eqb_spec k' k0) as [->|Hne']; [|reflexivity].
      destruct (N.eqb_spec k0 k); [congruence|reflexivity].
Qed.

Lemma pkey_spec a b : pkey a b = true <-> a = b.
Proof.
  destruct a as [a1 a2], b as [b1 b2]. unfold pkey. cbn [fst snd]. split.
  - intros H. apply andb_prop in H. destruct H as [H1 H2]. apply N.eqb_eq in H1, H2. congruence.
  - intros [= -> ->]. rewrite !N.eqb_refl. reflexivity.
Qed.
Lemma pkey_trans_false a b c : pkey a b = true -> pkey a c = pkey b c.
Proof. intros H. apply pkey_spec in H. subst. reflexivity. Qed.

Lemma pget_pset {V} k k' (v : V) m : pget k' (pset k v m) = if pkey k' k then Some v else pget k' m.
Proof.
  induction m as [|[k0 v0] m IH]; cbn [pget pset]; [reflexivity|].
  destruct (pkey k k0) eqn:E; cbn [pget].
  - apply pkey_spec in E. subst k0. destruct (pkey k' k); reflexivity.
  - rewrite IH. destruct (pkey k' k0) eqn:E'; [|reflexivity].
    apply pkey_spec in E'. subst k0. destruct (pkey k' k) eqn:E2; [|reflexivity].
    apply pkey_spec in E2. subst k'. rewrite (proj2 (pkey_spec k k) eq_refl) in E. discriminate.
Qed.

Lemma pget_pdel_some {V} k k' (v : V) m : pget k' (pdel k m) = Some v -> pget k' m = Some v.
Proof.
  induction m as [|[k0 v0] m IH]; cbn [pget pdel]; [discriminate|].
  destruct (pkey k k0) eqn:E; cbn [pget].
  - intros H. specialize (IH H). destruct (pkey k' k0) eqn:E'; [|exact IH].
    (* k' = k0 = k : impossible, k was deleted from the rest *)
    exfalso. apply pkey_spec in E, E'. subst. clear IH. revert H. clear.
    induction m as [|[k1 v1] m IH]; cbn [pget pdel]; [discriminate|].
    destruct (pkey k0 k1) eqn:E1; cbn [pget]; [exact IH|]. rewrite E1. exact IH.
  - destruct (pkey k' k0); [auto|exact IH].
Qed.

(* ---- guards of the form "group g exists" are stable *)
Definition keeps_groups (x : ksect) : Prop :=
  forall s l g, has_group g s = true -> has_group g (fst (fst (s_run x s l))) = true.
Definition keeps_groups_under (P : kv -> Prop) (x : ksect) : Prop :=
  forall s l g, P s -> has_group g s = true -> has_group g (fst (fst (s_run x s l))) = true.

Lemma has_group_same_groups g s s' : k_groups s' = k_groups s -> has_group g s' = has_group g s.
Proof. unfold has_group. intros ->. reflexivity. Qed.

Lemma has_group_nset g g' v s gs :
  gs = nset g v (k_groups s) -> has_group g' s = true -> has_group g' (mkKV gs (k_relays s) (k_msgs s) (k_snaps s)) = true.
Proof.
  intros -> H. unfold has_group in *. cbn [k_groups]. rewrite nget_nset. destruct (g' =? g); [reflexivity|exact H].
Qed.

Lemma add_msg_groups g m s : k_groups (add_msg g m s) = k_groups s /\ k_snaps (add_msg g m s) = k_snaps s /\ k_relays (add_msg g m s) = k_relays s.
Proof. unfold add_msg. destruct (existsb _ _); cbn; auto. Qed.

Lemma has_group_add_msg g' g m s : has_group g' (add_msg g m s) = has_group g' s.
Proof. apply has_group_same_groups. apply (proj1 (add_msg_groups _ _ _)). Qed.

Ltac kv_cases :=
  repeat match goal with
         | |- context [if ?b then _ else _] => destruct b eqn:?
         | |- context [match pget ?k ?m with _ => _ end] => destruct (pget k m) eqn:?
         | |- context [match l_view ?l with _ => _ end] => destruct (l_view l) eqn:?
         end.

Ltac kv_unfold :=
  unfold sec, guard, guard_sect, always, checked, f_save_group, f_find_group, f_replace_relays, f_group_relays,
         f_add_msg, f_find_msg, f_messages, f_release, f_list_snaps, f_publish; cbn [s_run fst snd].

Lemma mem_keeps_groups o x : two_lock_snapshot_op o = false -> In x (mem_sections o) -> keeps_groups x.
Proof.
  intros Hex Hx s l g' Hg. destruct o; try discriminate Hex; cbn [mem_sections In] in Hx;
    repeat (destruct Hx as [<-|Hx]; [|]); try contradiction;
    kv_unfold;
    kv_cases; cbn [fst snd]; try exact Hg;
    try (eapply has_group_nset; [reflexivity|exact Hg]);
    try (rewrite has_group_add_msg; exact Hg).
Qed.

Lemma sq_keeps_groups o x : In x (sq_sections o) -> keeps_groups_under snaps_have_group x.
Proof.
  intros Hx s l g' Hi Hg. destruct o; cbn [sq_sections In] in Hx;
    repeat (destruct Hx as [<-|Hx]; [|]); try contradiction;
    kv_unfold;
    kv_cases; cbn [fst snd]; try exact Hg;
    try (eapply has_group_nset; [reflexivity|exact Hg]);
    try (rewrite has_group_add_msg; exact Hg).
  (* rollback: the restored view has a group row *)
  match goal with H : pget _ _ = Some ?v |- _ => pose proof (Hi _ _ H) as Hv; destruct v as [[vg|] vr]; [|contradiction Hv; reflexivity] end.
  unfold restore_view, has_group in *. cbn [k_groups fst snd opt_set]. rewrite nget_nset. destruct (g' =? g); [reflexivity|exact Hg].
Qed.

Lemma sq_keeps_invariant o x s l : In x (sq_sections o) -> snaps_have_group s -> snaps_have_group (fst (fst (s_run x s l))).
Proof.
  intros Hx Hi. destruct o; cbn [sq_sections In] in Hx;
    repeat (destruct Hx as [<-|Hx]; [|]); try contradiction;
    kv_unfold;
    kv_cases; cbn [fst snd]; try exact Hi;
    try (intros k0 v0 Hk; cbn [k_snaps] in Hk; eapply Hi; exact Hk).
  - (* save_message *) intros k0 v0 Hk. rewrite (proj1 (proj2 (add_msg_groups _ _ _))) in Hk. eapply Hi; exact Hk.
  - (* create snapshot: the published view has the group row *)
    intros k0 v0 Hk. cbn [k_snaps] in Hk. rewrite pget_pset in Hk. destruct (pkey k0 (g, n)).
    + injection Hk as <-. unfold view_of. cbn [fst]. unfold has_group in *. destruct (nget g (k_groups s)); [discriminate|discriminate].
    + eapply Hi; exact Hk.
  - (* rollback *) intros k0 v0 Hk. unfold restore_view in Hk. cbn [k_snaps] in Hk. apply pget_pdel_some in Hk. eapply Hi; exact Hk.
  - (* release *) intros k0 v0 Hk. cbn [k_snaps] in Hk. apply pget_pdel_some in Hk. eapply Hi; exact Hk.
Qed.

Lemma kv_gshape_sq (G : (kv -> bool) -> Prop) o : (forall g, G (has_group g)) -> gshape (State := kv) (Local := local) G (kv_call "sqlite" o).
Proof.
  intros HG. unfold kv_call. change (backend_sections "sqlite" o) with (sq_sections o). destruct o; cbn [sq_sections];
    try apply gshape1; try (apply gshape2; apply HG).
Qed.
Lemma kv_gshape_mem (G : (kv -> bool) -> Prop) o : (forall g, G (has_group g)) -> two_lock_snapshot_op o = false ->
  gshape (State := kv) (Local := local) G (kv_call "memory" o).
Proof.
  intros HG Hex. unfold kv_call. change (backend_sections "memory" o) with (mem_sections o). destruct o; try discriminate Hex; cbn [mem_sections];
    try apply gshape1; try (apply gshape2; apply HG).
Qed.

Lemma kv_cfg_calls b s progs t k : In t (thr (kv_cfg b s progs)) -> In k t -> exists p o, In p progs /\ In o p /\ k = kv_call b o.
Proof.
  unfold kv_cfg. cbn [thr]. intros Ht Hk. apply in_map_iff in Ht. destruct Ht as [p [<- Hp]].
  apply in_map_iff in Hk. destruct Hk as [o [<- Ho]]. exists p, o. auto.
Qed.

(* SQLite: every interleaving of any number of threads, over all modelled operations incl. snapshot create /
   rollback, has the outcome of a sequential order of the calls.  Uses: groups are never deleted. *)
Theorem sqlite_kv_linearizable : forall s progs sched,
  snaps_have_group s ->
  exists order, sequential_outcome order (kv_cfg "sqlite" s progs) = outcome (exec sched (kv_cfg "sqlite" s progs)).
Proof.
  intros s progs sched Hi. apply (guarded_linearizable is_group_guard snaps_have_group).
  - intros t k Ht Hk. destruct (kv_cfg_calls _ _ _ _ _ Ht Hk) as [p [o [_ [_ ->]]]]. apply kv_gshape_sq. intros g. exists g. reflexivity.
  - intros t k x Ht Hk Hx. destruct (kv_cfg_calls _ _ _ _ _ Ht Hk) as [p [o [_ [_ ->]]]].
    cbn [kv_call c_todo] in Hx. change (backend_sections "sqlite" o) with (sq_sections o) in Hx.
    intros s0 l0 Hi0. split; [apply (sq_keeps_invariant o); assumption|].
    intros chk [g ->] Hc. apply (sq_keeps_groups o x Hx); assumption.
  - exact Hi.
Qed.

(* memory: the same for all programs that do not use the two-lock snapshot methods (save_message's
   check-then-write linearizes because nothing else removes a group) *)
Theorem memory_kv_linearizable_excl : forall s progs sched,
  (forall p o, In p progs -> In o p -> two_lock_snapshot_op o = false) ->
  exists order, sequential_outcome order (kv_cfg "memory" s progs) = outcome (exec sched (kv_cfg "memory" s progs)).
Proof.
  intros s progs sched Hex. apply (guarded_linearizable is_group_guard (fun _ => True)).
  - intros t k Ht Hk. destruct (kv_cfg_calls _ _ _ _ _ Ht Hk) as [p [o [Hp [Ho ->]]]]. apply kv_gshape_mem; [intros g; exists g; reflexivity|exact (Hex p o Hp Ho)].
  - intros t k x Ht Hk Hx. destruct (kv_cfg_calls _ _ _ _ _ Ht Hk) as [p [o [Hp [Ho ->]]]].
    cbn [kv_call c_todo] in Hx. change (backend_sections "memory" o) with (mem_sections o) in Hx.
    intros s0 l0 _. split; [exact Logic.I|].
    intros chk [g ->] Hc. apply (mem_keeps_groups o x (Hex p o Hp Ho) Hx). exact Hc.
  - exact Logic.I.
Qed.

(* ---- refutations: two threads, computed witnesses.  not_linearizable = the schedule completes and its outcome
   (final state + every call's result) equals the outcome of NO sequential order of the same calls. *)
Definition st_g10_snap5 : kv := mkKV [(1, 10)] [] [] [((1, 7), (Some 5, None))].
Definition st_g10_snap_absent : kv := mkKV [(1, 10)] [] [] [((1, 7), (None, None))].

(* T0 create_group_snapshot(g,n) copies the view (record 10); T1 rollback_group_to_snapshot(g,n) consumes the OLD
   snapshot n (record 5) and restores it; T0 then publishes n -> 10.  End: record 5 with a snapshot holding 10;
   create;rollback gives record 10 and no snapshot, rollback;create gives record 5 and a snapshot holding 5. *)
Theorem memory_create_snapshot_not_atomic : exists s progs sched,
  progs = [[CreateSnap 1 7]; [Rollback 1 7]] /\ not_linearizable "memory" s progs sched = true.
Proof. exists st_g10_snap5, [[CreateSnap 1 7]; [Rollback 1 7]], [0; 1; 1; 0]%nat. split; [reflexivity|vm_compute; reflexivity]. Qed.

(* T0 rollback takes snapshot n out (group_snapshots lock), T1 lists the snapshots (n is gone) and then still
   reads the un-restored record 10, T0 restores record 5 (inner lock). *)
Theorem memory_rollback_not_atomic : exists s progs sched,
  progs = [[Rollback 1 7]; [ListSnaps 1; FindGroup 1]] /\ not_linearizable "memory" s progs sched = true.
Proof. exists st_g10_snap5, [[Rollback 1 7]; [ListSnaps 1; FindGroup 1]], [0; 1; 1; 0]%nat. split; [reflexivity|vm_compute; reflexivity]. Qed.

(* T0 save_message checks the group (read lock); T1 rolls back to a snapshot taken when the group did not exist
   (removes the group) and then does not find the message; T0 inserts the message and returns Ok. *)
Theorem memory_save_message_not_atomic : exists s progs sched,
  progs = [[SaveMessage 1 3]; [Rollback 1 7; FindMessage 1 3]] /\ not_linearizable "memory" s progs sched = true.
Proof. exists st_g10_snap_absent, [[SaveMessage 1 3]; [Rollback 1 7; FindMessage 1 3]], [0; 1; 1; 1; 0]%nat. split; [reflexivity|vm_compute; reflexivity]. Qed.

(* non-vacuity of the exclusion and of the SQLite theorem: the same programs on SQLite are linearizable *)
Example sqlite_same_programs_fine :
  not_linearizable "sqlite" st_g10_snap5 [[CreateSnap 1 7]; [Rollback 1 7]] [0; 1; 1; 0]%nat = false /\
  not_linearizable "sqlite" st_g10_snap5 [[Rollback 1 7]; [ListSnaps 1; FindGroup 1]] [0; 1; 1; 0]%nat = false.
Proof. split; vm_compute; reflexivity. Qed.

(* ---- a snapshot is the group's state at one instant *)
Lemma pget_pset_same {V} k (v : V) m : pget k (pset k v m) = Some v.
Proof. rewrite pget_pset. rewrite (proj2 (pkey_spec k k) eq_refl). reflexivity. Qed.

Definition snapshot_instant_statement : Prop :=
  (forall g n s l, exists x1 x2, mem_sections (CreateSnap g n) = [x1; x2] /\
     fst (fst (s_run x1 s l)) = s /\ snd (s_run x1 s l) = true /\
     forall s2, pget (g, n) (k_snaps (fst (fst (s_run x2 s2 (snd (fst (s_run x1 s l))))))) = Some (view_of g s)) /\
  (forall g n s l, has_group g s = true -> exists x, sq_sections (CreateSnap g n) = [x] /\
     pget (g, n) (k_snaps (fst (fst (s_run x s l)))) = Some (view_of g s)).

Theorem snapshot_is_instantaneous : snapshot_instant_statement.
Proof.
  split.
  - intros g n s l. eexists. eexists. split; [reflexivity|]. cbn [sec s_run fst snd l_view]. repeat split.
    intros s2. unfold f_publish. cbn [k_snaps]. apply pget_pset_same.
  - intros g n s l Hg. eexists. split; [reflexivity|]. cbn [sec s_run fst snd]. unfold checked. rewrite Hg.
    cbn [fst snd]. unfold f_publish. cbn [k_snaps]. apply pget_pset_same.
Qed.

(* ---- operations on one group leave every other group's record, relays, messages and snapshots untouched *)
Lemma filter_pset_other {V} (g' : N) k (v : V) m : (fst k =? g') = false ->
  filter (fun e => fst (fst e) =? g') (pset k v m) = filter (fun e => fst (fst e) =? g') m.
Proof.
  intros Hk. induction m as [|[k0 v0] m IH]; cbn [pset filter fst]; [rewrite Hk; reflexivity|].
  destruct (pkey k k0) eqn:E; cbn [filter fst].
  - apply pkey_spec in E. subst k0. rewrite Hk. reflexivity.
  - rewrite IH. reflexivity.
Qed.
Lemma filter_pdel_other {V} (g' : N) k (m : list ((N * N) * V)) : (fst k =? g') = false ->
  filter (fun e => fst (fst e) =? g') (pdel k m) = filter (fun e => fst (fst e) =? g') m.
Proof.
  intros Hk. induction m as [|[k0 v0] m IH]; cbn [pdel filter fst]; [reflexivity|].
  destruct (pkey k k0) eqn:E; cbn [filter fst].
  - apply pkey_spec in E. subst k0. rewrite Hk. exact IH.
  - rewrite IH. reflexivity.
Qed.
Lemma group_part_add_msg g g' m s : (g =? g') = false -> group_part g' (add_msg g m s) = group_part g' s.
Proof.
  intros H. unfold add_msg. destruct (existsb _ _); [reflexivity|]. unfold group_part. cbn [k_groups k_relays k_msgs k_snaps].
  rewrite filter_app. cbn [filter fst]. rewrite H. rewrite app_nil_r. reflexivity.
Qed.
Lemma opt_set_other g g' o m : (g' =? g) = false -> nget g' (opt_set g o m) = nget g' m.
Proof. intros H. destruct o; cbn [opt_set]; [rewrite nget_nset|rewrite nget_ndel]; rewrite H; reflexivity. Qed.

Theorem different_groups_independent : forall b o x s l g',
  In x (backend_sections b o) -> g' <> op_group o -> group_part g' (fst (fst (s_run x s l))) = group_part g' s.
Proof.
  intros b o x s l g' Hx Hne.
  assert (E1 : (g' =? op_group o) = false) by (apply N.eqb_neq; exact Hne).
  assert (E2 : (op_group o =? g') = false) by (apply N.eqb_neq; congruence).
  unfold backend_sections in Hx. destruct (String.eqb b "memory"); destruct o; cbn [op_group] in E1, E2;
    cbn [mem_sections sq_sections In] in Hx; repeat (destruct Hx as [<-|Hx]; [|]); try contradiction;
    kv_unfold;
    kv_cases; cbn [fst snd]; try reflexivity;
    try (apply group_part_add_msg; exact E2);
    unfold group_part, restore_view; cbn [k_groups k_relays k_msgs k_snaps fst snd];
    rewrite ?nget_nset, ?opt_set_other, ?E1 by exact E1;
    rewrite ?filter_pset_other, ?filter_pdel_other by exact E2; reflexivity.
Qed.
