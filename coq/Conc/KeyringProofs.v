(* C13 - proofs about Conc/Keyring.v. *)
From MDK Require Import Base.Prelude Conc.Keyring.

(* ================================================================== Part 1: key creation *)

(* what thread i knows at each program point of good_prog *)
Definition tinv (c : config) (i : nat) : Prop :=
  let t := thr c i in
  match ret t with
  | Some k => cell c = Some k /\ lock c <> Some i
  | None =>
    match pc t with
    | 0%nat | 1%nat => loc t = None /\ lock c <> Some i
    | 2%nat => loc t = None /\ lock c = Some i
    | 3%nat => loc t = None /\ lock c = Some i /\ cell c = None
    | 4%nat => exists k, loc t = Some k /\ lock c = Some i /\ cell c = None
    | 5%nat => exists k, loc t = Some k /\ lock c = Some i /\ cell c = Some k
    | _ => False
    end
  end.

Definition Inv (n : nat) (cell0 : option key) (c : config) : Prop :=
  (forall i, tinv c i) /\
  opt_list cell0 ++ sets c = opt_list (cell c) /\
  (forall i, lock c = Some i -> (i < n)%nat).

Lemma inv_init n cell0 k0 : Inv n cell0 (init cell0 k0).
Proof.
  unfold Inv, init, tinv; cbn [cell lock sets thr thread0 ret pc loc].
  split; [|split].
  - intros i. split; congruence.
  - apply app_nil_r.
  - intros i H; discriminate.
Qed.

(* case analysis of another thread j's invariant; `tac` closes the impossible / unchanged cases *)
Ltac other c j Hall Hj :=
  pose proof (Hall j) as Hj; unfold tinv in Hj;
  destruct (thr c j) as [pj lj rj]; cbn [pc loc ret] in *;
  destruct rj as [kj|]; [| destruct pj as [|[|[|[|[|[|pj]]]]]]; try contradiction ].

Ltac fin_other :=
  repeat match goal with
         | H : _ /\ _ |- _ => destruct H
         | H : exists _, _ |- _ => destruct H
         end;
  first [ congruence | split; congruence ].

Lemma inv_step n cell0 i c c' :
  Inv n cell0 c -> step_thread good_prog n i c = Some c' -> Inv n cell0 c'.
Proof.
  intros (Hall & Hsets & Hlock) Hstep.
  unfold step_thread in Hstep.
  destruct (Nat.ltb i n) eqn:Hin; [|discriminate]. apply Nat.ltb_lt in Hin.
  pose proof (Hall i) as Hi. unfold tinv in Hi.
  destruct (thr c i) as [pci loci reti] eqn:Eti. cbn [pc loc ret] in *.
  destruct reti as [kr|]; [discriminate|].
  destruct pci as [|[|[|[|[|[|pci]]]]]]; cbn [good_prog nth_error] in Hstep; try contradiction.
  - (* pc 0: fast-path get *)
    destruct Hi as (Hloc & Hnl).
    destruct (cell c) as [k|] eqn:Ecell; inversion Hstep; subst c'; clear Hstep.
    + (* found: return k *)
      assert (Hlk : match lock c with Some j => if Nat.eqb j i then None else Some j | None => None end = lock c).
      { destruct (lock c) as [j|]; [|reflexivity]. destruct (Nat.eqb j i) eqn:E; [|reflexivity].
        apply Nat.eqb_eq in E; subst; congruence. }
      unfold finish. rewrite Hlk. split; [|split]; cbn [cell lock sets thr].
      * intros j. unfold tinv; cbn [cell lock thr]. unfold upd.
        destruct (Nat.eqb j i) eqn:Ej.
        -- apply Nat.eqb_eq in Ej; subst j. cbn. split; congruence.
        -- exact (Hall j).
      * congruence.
      * exact Hlock.
    + split; [|split]; cbn [cell lock sets thr].
      * intros j. unfold tinv; cbn [cell lock thr]. unfold upd.
        destruct (Nat.eqb j i) eqn:Ej.
        -- apply Nat.eqb_eq in Ej; subst j. cbn. split; congruence.
        -- pose proof (Hall j) as Hj. unfold tinv in Hj. rewrite Ecell in Hj. exact Hj.
      * exact Hsets.
      * exact Hlock.
  - (* pc 1: lock *)
    destruct Hi as (Hloc & Hnl).
    destruct (lock c) as [h|] eqn:Elock; [discriminate|]. inversion Hstep; subst c'; clear Hstep.
    split; [|split]; cbn [cell lock sets thr].
    + intros j. unfold tinv; cbn [cell lock thr]. unfold upd.
      destruct (Nat.eqb j i) eqn:Ej.
      * apply Nat.eqb_eq in Ej; subst j. cbn. split; congruence.
      * apply Nat.eqb_neq in Ej. other c j Hall Hj; fin_other.
    + exact Hsets.
    + intros j Hx. inversion Hx; subst; exact Hin.
  - (* pc 2: re-check under the lock *)
    destruct Hi as (Hloc & Hl).
    destruct (cell c) as [k|] eqn:Ecell; inversion Hstep; subst c'; clear Hstep.
    + (* found: return k, the guard is dropped *)
      unfold finish. rewrite Hl, Nat.eqb_refl.
      split; [|split]; cbn [cell lock sets thr].
      * intros j. unfold tinv; cbn [cell lock thr]. unfold upd.
        destruct (Nat.eqb j i) eqn:Ej.
        -- apply Nat.eqb_eq in Ej; subst j. cbn. split; congruence.
        -- apply Nat.eqb_neq in Ej. other c j Hall Hj; fin_other.
      * congruence.
      * intros j Hx; discriminate.
    + split; [|split]; cbn [cell lock sets thr].
      * intros j. unfold tinv; cbn [cell lock thr]. unfold upd.
        destruct (Nat.eqb j i) eqn:Ej.
        -- apply Nat.eqb_eq in Ej; subst j. cbn. repeat split; congruence.
        -- pose proof (Hall j) as Hj. unfold tinv in Hj. rewrite Ecell in Hj. exact Hj.
      * exact Hsets.
      * exact Hlock.
  - (* pc 3: generate *)
    destruct Hi as (Hloc & Hl & Hc).
    inversion Hstep; subst c'; clear Hstep.
    split; [|split]; cbn [cell lock sets thr].
    + intros j. unfold tinv; cbn [cell lock thr]. unfold upd.
      destruct (Nat.eqb j i) eqn:Ej.
      * apply Nat.eqb_eq in Ej; subst j. cbn. exists (fresh c). repeat split; congruence.
      * exact (Hall j).
    + exact Hsets.
    + exact Hlock.
  - (* pc 4: set_secret *)
    destruct Hi as (k & Hloc & Hl & Hc). subst loci.
    inversion Hstep; subst c'; clear Hstep.
    split; [|split]; cbn [cell lock sets thr].
    + intros j. unfold tinv; cbn [cell lock thr]. unfold upd.
      destruct (Nat.eqb j i) eqn:Ej.
      * apply Nat.eqb_eq in Ej; subst j. cbn. exists k. repeat split; congruence.
      * apply Nat.eqb_neq in Ej. other c j Hall Hj; fin_other.
    + rewrite Hc in Hsets. cbn [opt_list] in *. rewrite app_assoc, Hsets. reflexivity.
    + exact Hlock.
  - (* pc 5: return, the guard is dropped *)
    destruct Hi as (k & Hloc & Hl & Hc). subst loci.
    inversion Hstep; subst c'; clear Hstep.
    unfold finish. rewrite Hl, Nat.eqb_refl.
    split; [|split]; cbn [cell lock sets thr].
    + intros j. unfold tinv; cbn [cell lock thr]. unfold upd.
      destruct (Nat.eqb j i) eqn:Ej.
      * apply Nat.eqb_eq in Ej; subst j. cbn. split; congruence.
      * apply Nat.eqb_neq in Ej. other c j Hall Hj; fin_other.
    + exact Hsets.
    + intros j Hx; discriminate.
Qed.

Lemma inv_run n cell0 sched : forall c, Inv n cell0 c -> Inv n cell0 (run good_prog n sched c).
Proof.
  induction sched as [|i s IH]; intros c Hc; cbn [run]; [exact Hc|].
  apply IH. unfold step_or_stutter.
  destruct (step_thread good_prog n i c) as [c'|] eqn:E; [|exact Hc].
  eapply inv_step; eassumption.
Qed.

Lemma inv_reachable n cell0 k0 c : reachable good_prog n cell0 k0 c -> Inv n cell0 c.
Proof. intros (sched & ->). apply inv_run, inv_init. Qed.

(* ---- one_key_ever: whatever the number of threads and the interleaving,
        (a) if the entry existed, nothing is ever written and every finished thread returned it;
        (b) otherwise at most one key is ever written, it is the entry, and every finished thread returned it. *)
Theorem one_key_ever : forall n cell0 k0 c,
  reachable good_prog n cell0 k0 c ->
  (length (sets c) <= 1)%nat /\
  opt_list cell0 ++ sets c = opt_list (cell c) /\
  (forall k, cell0 = Some k -> sets c = [] /\ cell c = Some k) /\
  (forall i k, ret (thr c i) = Some k -> cell c = Some k /\ opt_list cell0 ++ sets c = [k]) /\
  (forall i j ki kj, ret (thr c i) = Some ki -> ret (thr c j) = Some kj -> ki = kj).
Proof.
  intros n cell0 k0 c Hr. apply inv_reachable in Hr. destruct Hr as (Hall & Hsets & Hlock).
  assert (Hret : forall i k, ret (thr c i) = Some k -> cell c = Some k).
  { intros i k Hk. pose proof (Hall i) as Hi. unfold tinv in Hi. rewrite Hk in Hi. tauto. }
  repeat split.
  - assert (L : length (opt_list cell0 ++ sets c) = length (opt_list (cell c))) by now rewrite Hsets.
    rewrite app_length in L. destruct (cell c); cbn in L; lia.
  - exact Hsets.
  - subst cell0. cbn [opt_list app] in Hsets. destruct (cell c) as [k'|]; cbn in Hsets; [|discriminate].
    inversion Hsets as [[Hk Hs]]. reflexivity.
  - subst cell0. cbn [opt_list app] in Hsets. destruct (cell c) as [k'|]; cbn in Hsets; [|discriminate].
    inversion Hsets as [[Hk Hs]]. reflexivity.
  - eapply Hret; eassumption.
  - rewrite Hsets. erewrite Hret by eassumption. reflexivity.
  - intros i j ki kj Hi Hj. apply Hret in Hi. apply Hret in Hj. congruence.
Qed.

(* ---- progress: in every reachable configuration in which some thread has not returned, some thread can step
        (the lock holder is never finished or stuck; without a holder nobody waits for anything) *)
Theorem no_thread_stuck : forall n cell0 k0 c,
  reachable good_prog n cell0 k0 c ->
  (exists i, (i < n)%nat /\ ret (thr c i) = None) ->
  exists j c', (j < n)%nat /\ step_thread good_prog n j c = Some c'.
Proof.
  intros n cell0 k0 c Hr (i & Hin & Hri). apply inv_reachable in Hr. destruct Hr as (Hall & Hsets & Hlock).
  destruct (lock c) as [h|] eqn:El.
  - (* the holder h can always move *)
    pose proof (Hlock h eq_refl) as Hh. pose proof (Hall h) as Ht. unfold tinv in Ht.
    exists h. unfold step_thread. apply Nat.ltb_lt in Hh as Hb. rewrite Hb.
    destruct (thr c h) as [ph lh rh]; cbn [pc loc ret] in *.
    destruct rh as [kh|]; [destruct Ht; congruence|].
    destruct ph as [|[|[|[|[|[|ph]]]]]]; try contradiction; cbn [good_prog nth_error].
    + destruct Ht; congruence.
    + destruct Ht; congruence.
    + destruct (cell c); eexists; split; eauto.
    + eexists; split; eauto.
    + destruct Ht as (k & -> & _). eexists; split; eauto.
    + destruct Ht as (k & -> & _). eexists; split; eauto.
  - (* nobody holds the lock: the unfinished thread i is before or at the lock *)
    pose proof (Hall i) as Ht. unfold tinv in Ht.
    exists i. unfold step_thread. apply Nat.ltb_lt in Hin as Hb. rewrite Hb.
    destruct (thr c i) as [pi li ri]; cbn [pc loc ret] in *. subst ri.
    destruct pi as [|[|[|[|[|[|pi]]]]]]; try contradiction; cbn [good_prog nth_error].
    + destruct (cell c); eexists; split; eauto.
    + rewrite El. eexists; split; eauto.
    + destruct Ht; congruence.
    + destruct Ht as (_ & ? & _); congruence.
    + destruct Ht as (? & _ & ? & _); congruence.
    + destruct Ht as (? & _ & ? & _); congruence.
Qed.

(* ---- every step strictly decreases the number of steps left: executions are finite, so with
        no_thread_stuck every thread returns after at most 6 steps of its own *)
Lemma fold_measure_ext p (f g : nat -> thread) l :
  (forall i, In i l -> remaining p (f i) = remaining p (g i)) ->
  fold_right (fun i acc => (remaining p (f i) + acc)%nat) 0%nat l =
  fold_right (fun i acc => (remaining p (g i) + acc)%nat) 0%nat l.
Proof.
  induction l as [|x l IH]; intros H; cbn [fold_right]; [reflexivity|].
  rewrite H by (left; reflexivity). rewrite IH; [reflexivity|]. intros i Hi. apply H. right; exact Hi.
Qed.

Lemma fold_measure_upd p (f : nat -> thread) i t l :
  NoDup l -> In i l -> (remaining p t < remaining p (f i))%nat ->
  (fold_right (fun j acc => (remaining p (upd f i t j) + acc)%nat) 0%nat l <
   fold_right (fun j acc => (remaining p (f j) + acc)%nat) 0%nat l)%nat.
Proof.
  induction l as [|x l IH]; intros Hnd Hin Hlt; [contradiction|].
  inversion Hnd as [|? ? Hx Hnd']; subst. cbn [fold_right].
  destruct Hin as [->|Hin].
  - unfold upd at 1. rewrite Nat.eqb_refl.
    rewrite (fold_measure_ext p (upd f i t) f l).
    + lia.
    + intros j Hj. unfold upd. destruct (Nat.eqb j i) eqn:E; [|reflexivity].
      apply Nat.eqb_eq in E; subst; contradiction.
  - specialize (IH Hnd' Hin Hlt). unfold upd at 1.
    destruct (Nat.eqb x i) eqn:E.
    + apply Nat.eqb_eq in E; subst; contradiction.
    + lia.
Qed.

Theorem step_decreases : forall n i c c',
  step_thread good_prog n i c = Some c' -> (measure good_prog n c' < measure good_prog n c)%nat.
Proof.
  intros n i c c' Hstep. unfold step_thread in Hstep.
  destruct (Nat.ltb i n) eqn:Hin; [|discriminate]. apply Nat.ltb_lt in Hin.
  assert (Hi : In i (seq 0 n)) by (apply in_seq; lia).
  pose proof (seq_NoDup n 0) as Hnd.
  unfold measure.
  destruct (thr c i) as [pci loci reti] eqn:Eti; cbn [pc loc ret] in *.
  destruct reti as [kr|]; [discriminate|].
  assert (Hfin : forall k, (fold_right (fun j acc => (remaining good_prog (thr (finish c i {| pc := pci; loc := loci; ret := None |} k) j) + acc)%nat) 0%nat (seq 0 n) <
                            fold_right (fun j acc => (remaining good_prog (thr c j) + acc)%nat) 0%nat (seq 0 n))%nat).
  { intros k. unfold finish; cbn [thr]. apply fold_measure_upd; auto.
    rewrite Eti. unfold remaining; cbn [ret pc good_prog length].
    destruct (nth_error good_prog pci) eqn:En.
    - assert (pci < 5)%nat by (apply (nth_error_Some good_prog pci); congruence). lia.
    - lia. }
  assert (Hadv : forall t', pc t' = S pci -> ret t' = None -> (pci < 5)%nat ->
     (fold_right (fun j acc => (remaining good_prog (upd (thr c) i t' j) + acc)%nat) 0%nat (seq 0 n) <
      fold_right (fun j acc => (remaining good_prog (thr c j) + acc)%nat) 0%nat (seq 0 n))%nat).
  { intros t' Hp Hr Hlt. apply fold_measure_upd; auto.
    rewrite Eti. unfold remaining. rewrite Hr, Hp. cbn [ret pc good_prog length]. lia. }
  destruct (nth_error good_prog pci) as [ins|] eqn:En.
  - assert (Hlt : (pci < 5)%nat) by (apply (nth_error_Some good_prog pci); congruence).
    destruct ins.
    + destruct (cell c); inversion Hstep; subst c'; [apply Hfin|]. cbn [thr]. apply Hadv; auto.
    + destruct (lock c); inversion Hstep; subst c'. cbn [thr]. apply Hadv; auto.
    + inversion Hstep; subst c'. cbn [thr]. apply Hadv; auto.
    + destruct loci; inversion Hstep; subst c'. cbn [thr]. apply Hadv; auto.
  - destruct loci; inversion Hstep; subst c'. apply Hfin.
Qed.

(* ---- the statement is not vacuous: the same program WITHOUT the re-check under the lock lets two threads
        store two different keys and return different keys *)
Definition bad_schedule : list nat := [0; 1; 0; 0; 0; 0; 1; 1; 1; 1]%nat.
Theorem norecheck_two_keys :
  let c := run norecheck_prog 2 bad_schedule (init None 100) in
  sets c = [100; 101] /\ returns 2 c = [Some 100; Some 101] /\ cell c = Some 101.
Proof. vm_compute. repeat split. Qed.

Theorem norecheck_refuted : exists n sched c,
  c = run norecheck_prog n sched (init None 100) /\
  (length (sets c) > 1)%nat /\
  exists i j ki kj, ret (thr c i) = Some ki /\ ret (thr c j) = Some kj /\ ki <> kj.
Proof.
  exists 2%nat, bad_schedule, (run norecheck_prog 2 bad_schedule (init None 100)).
  split; [reflexivity|]. split; [vm_compute; lia|].
  exists 0%nat, 1%nat, 100, 101. vm_compute. repeat split; congruence.
Qed.

(* the good program on the same schedule (and on a schedule where both threads pass the fast path before
   either locks): one key, both return it *)
Example good_prog_same_schedule :
  let c := run good_prog 2 [0; 1; 0; 0; 0; 0; 0; 1; 1; 1]%nat (init None 100) in
  sets c = [100] /\ returns 2 c = [Some 100; Some 100].
Proof. vm_compute. repeat split. Qed.

(* ================================================================== Part 2: constructors x file states *)

Lemma keqb_refl (k : key) : (k =? k) = true. Proof. apply N.eqb_refl. Qed.
Lemma keqb_neq (a b : key) : a <> b -> (a =? b) = false. Proof. intros H. apply N.eqb_neq. exact H. Qed.

Ltac open_cases :=
  unfold open_db, conclude, refuse, precreate, open_conn, is_encrypted, file_exists, is_ok, generated;
  cbn [verdict_of file_after kr_after andb negb].

(* ---- a key is generated only by the keyring constructor, on a missing file, without an entry *)
Theorem generates_iff : forall fresh kr c fs,
  generated (open_db fresh kr c fs) = true <-> c = Keyring None /\ fs = Missing.
Proof.
  intros fresh kr c fs. split.
  - destruct c as [[s|]|k|]; destruct fs as [| | |k']; open_cases;
      repeat match goal with |- context [?a =? ?b] => destruct (a =? b) end; cbn; intros H; try discriminate; auto.
  - intros (-> & ->). reflexivity.
Qed.

Theorem existing_file_never_generates : forall fresh kr c fs,
  fs <> Missing ->
  generated (open_db fresh kr c fs) = false /\
  kr_after (open_db fresh kr c fs) = match c with Keyring stored => stored | _ => kr end.
Proof.
  intros fresh kr c fs Hfs. split.
  - destruct (generated (open_db fresh kr c fs)) eqn:E; [|reflexivity].
    apply generates_iff in E. destruct E as (_ & E). contradiction.
  - destruct c as [[s|]|k|]; destruct fs as [| | |k']; try contradiction; open_cases;
      repeat match goal with |- context [?a =? ?b] => destruct (a =? b) end; reflexivity.
Qed.

(* the keyring entry is never replaced: whatever was stored stays stored *)
Theorem keyring_entry_never_replaced : forall fresh kr c fs k,
  (match c with Keyring stored => stored | _ => kr end) = Some k ->
  kr_after (open_db fresh kr c fs) = Some k.
Proof.
  intros fresh kr c fs k H.
  destruct c as [[s|]|k0|]; destruct fs as [| | |k']; try discriminate; open_cases;
    repeat match goal with |- context [?a =? ?b] => destruct (a =? b) end; cbn; congruence.
Qed.

(* ---- the matrix on an encrypted database *)
Theorem wrong_key_refused : forall fresh kr k1 k2, k1 <> k2 ->
  verdict_of (open_db fresh kr (WithKey k2) (Encrypted k1)) = VErr EWrongKey /\
  verdict_of (open_db fresh kr (Keyring (Some k2)) (Encrypted k1)) = VErr EWrongKey.
Proof.
  intros fresh kr k1 k2 H. open_cases. rewrite (keqb_neq k2 k1) by congruence. split; reflexivity.
Qed.

Theorem no_key_refused : forall fresh kr k,
  verdict_of (open_db fresh kr (Keyring None) (Encrypted k)) = VErr EKeyringEntryMissing /\
  verdict_of (open_db fresh kr Unencrypted (Encrypted k)) = VErr ENotADatabase.
Proof. intros; split; reflexivity. Qed.

Theorem right_key_reopens : forall fresh kr k,
  open_db fresh kr (WithKey k) (Encrypted k) =
    {| verdict_of := VOk (Some k) false; file_after := Encrypted k; kr_after := kr |} /\
  open_db fresh kr (Keyring (Some k)) (Encrypted k) =
    {| verdict_of := VOk (Some k) false; file_after := Encrypted k; kr_after := Some k |}.
Proof. intros. open_cases. rewrite keqb_refl. split; reflexivity. Qed.

Theorem encrypted_opens_iff_right_key : forall fresh kr c k,
  is_ok (open_db fresh kr c (Encrypted k)) = true <-> c = WithKey k \/ c = Keyring (Some k).
Proof.
  intros fresh kr c k. split.
  - destruct c as [[s|]|k0|]; open_cases; try discriminate.
    + destruct (s =? k) eqn:E; cbn; [|discriminate]. apply N.eqb_eq in E; subst; auto.
    + destruct (k0 =? k) eqn:E; cbn; [|discriminate]. apply N.eqb_eq in E; subst; auto.
  - intros [-> | ->]; open_cases; rewrite keqb_refl; reflexivity.
Qed.

(* ---- a plaintext database is refused by both encrypting constructors, whatever the keys *)
Theorem plain_refused_by_encrypting_ctors : forall fresh kr c,
  c <> Unencrypted -> is_ok (open_db fresh kr c Plain) = false.
Proof. intros fresh kr c H. destruct c as [[s|]|k|]; try contradiction; reflexivity. Qed.

Theorem plain_opens_unencrypted : forall fresh kr,
  open_db fresh kr Unencrypted Plain = {| verdict_of := VOk None false; file_after := Plain; kr_after := kr |}.
Proof. reflexivity. Qed.

(* ---- no constructor ever changes the state or the key of an existing database, and a refused open changes
        nothing at all (file, keyring) *)
Theorem existing_database_unchanged : forall fresh kr c,
  file_after (open_db fresh kr c Plain) = Plain /\
  forall k, file_after (open_db fresh kr c (Encrypted k)) = Encrypted k.
Proof.
  intros fresh kr c. split; [|intros k]; destruct c as [[s|]|k0|]; open_cases;
    repeat match goal with |- context [?a =? ?b] => destruct (a =? b) end; reflexivity.
Qed.

Theorem refused_open_changes_nothing : forall fresh kr c fs,
  is_ok (open_db fresh kr c fs) = false ->
  file_after (open_db fresh kr c fs) = fs /\
  kr_after (open_db fresh kr c fs) = match c with Keyring stored => stored | _ => kr end.
Proof.
  intros fresh kr c fs.
  destruct c as [[s|]|k0|]; destruct fs as [| | |k']; open_cases;
    repeat match goal with |- context [?a =? ?b] => destruct (a =? b) end; cbn; intros H; try discriminate; split; reflexivity.
Qed.

(* ---- what an encrypting constructor returns is encrypted, with the caller's key resp. the key the keyring holds
        afterwards; the unencrypted constructor never yields an encrypted file *)
Theorem ok_means_encrypted_with_that_key : forall fresh kr c fs,
  is_ok (open_db fresh kr c fs) = true ->
  match c with
  | WithKey k => file_after (open_db fresh kr c fs) = Encrypted k
  | Keyring _ => exists k, kr_after (open_db fresh kr c fs) = Some k /\ file_after (open_db fresh kr c fs) = Encrypted k
  | Unencrypted => file_after (open_db fresh kr c fs) = Plain
  end.
Proof.
  intros fresh kr c fs.
  destruct c as [[s|]|k0|]; destruct fs as [| | |k']; open_cases;
    repeat match goal with |- context [?a =? ?b] => destruct (a =? b) eqn:?E end; cbn; intros H; try discriminate;
    try reflexivity; try (eexists; split; reflexivity).
  - apply N.eqb_eq in E; subst. eexists; split; reflexivity.
  - apply N.eqb_eq in E; subst. reflexivity.
Qed.

(* the task's `open` (keyring entry carried by the constructor) is the same function *)
Lemma open_is_open_db : forall fresh stored fs, open fresh (Keyring stored) fs = open_db fresh stored (Keyring stored) fs.
Proof. reflexivity. Qed.

(* ---- mode bits *)
Theorem modes_file : forall before o,
  (is_ok o = true -> mode_after before o = Some m_file) /\
  (is_ok o = false -> mode_after before o = before) /\
  owner_only m_file = true /\ owner_only m_dir = true.
Proof.
  intros before o. unfold mode_after. repeat split.
  - intros ->; reflexivity.
  - intros ->; reflexivity.
Qed.

Lemma created_dir_modes_length u n : length (created_dir_modes u n) = n.
Proof.
  induction n as [|n IH]; [reflexivity|].
  change (created_dir_modes u (S n)) with (m_dir :: created_dir_modes u n). cbn [length]. now rewrite IH.
Qed.

(* the database's own parent directory is always created 0700 *)
Theorem modes_parent_dir : forall u n, n <> 0%nat -> last (created_dir_modes u n) 0 = m_dir.
Proof.
  intros u n. induction n as [|n IH]; [congruence|]. intros _.
  destruct n as [|n]; [reflexivity|].
  change (created_dir_modes u (S (S n))) with (m_dir :: created_dir_modes u (S n)).
  change (created_dir_modes u (S n)) with (m_dir :: created_dir_modes u n) in *.
  cbn [last]. cbn [last] in IH. apply IH. discriminate.
Qed.

(* every directory the library creates is owner-only, however many path components were missing and whatever the
   process umask (since fix: every created ancestor is chmod-ed, not only the last component) *)
Theorem modes_dirs_owner_only : forall u n, forallb owner_only (created_dir_modes u n) = true.
Proof.
  intros u n. induction n as [|n IH]; [reflexivity|].
  change (created_dir_modes u (S n)) with (m_dir :: created_dir_modes u n).
  cbn [forallb]. rewrite IH. reflexivity.
Qed.

Theorem modes_sidecars : forall existing m, In (Some m) (sidecar_modes existing) -> m = m_file.
Proof.
  intros existing m H. unfold sidecar_modes in H. apply in_map_iff in H. destruct H as (b & Hb & _).
  destruct b; congruence.
Qed.

(* ---- non-vacuity: the matrix rows the harness replays, computed *)
Example matrix_example :
  verdict_of (open_db 99 None (Keyring None) Missing) = VOk (Some 99) true /\
  file_after (open_db 99 None (Keyring None) Missing) = Encrypted 99 /\
  verdict_of (open_db 99 None (Keyring None) Empty) = VErr EUnencryptedWithEncryption /\
  verdict_of (open_db 99 (Some 1) (Keyring (Some 1)) Empty) = VOk (Some 1) false /\
  verdict_of (open_db 99 (Some 1) (Keyring (Some 1)) Plain) = VErr EWrongKey /\
  verdict_of (open_db 99 None (WithKey 1) Empty) = VErr EUnencryptedWithEncryption /\
  verdict_of (open_db 99 None (WithKey 1) Plain) = VErr EUnencryptedWithEncryption /\
  verdict_of (open_db 99 None (WithKey 2) (Encrypted 1)) = VErr EWrongKey /\
  verdict_of (open_db 99 None Unencrypted (Encrypted 1)) = VErr ENotADatabase /\
  file_after (open_db 99 None Unencrypted Empty) = Plain /\
  created_dir_modes 493 2 = [448; 448].
Proof. vm_compute. repeat split. Qed.
