(* C13 - models (definitions only; proofs in Conc/KeyringProofs.v).

   Part 1: key creation.  Threads execute the program of `keyring::get_or_create_db_key`
   (crates/mdk-sqlite-storage/src/keyring.rs) over a shared keyring cell and the process-wide
   KEY_GENERATION_LOCK:
       get_db_key            -- fast path: return the key if present
       lock                  -- KEY_GENERATION_LOCK.lock()
       get_db_key            -- re-check under the lock: return the key if present (guard dropped)
       EncryptionConfig::generate
       entry.set_secret
       (return; the guard is dropped)
   as a small-step semantics for ANY number of threads and any interleaving (a schedule is a list of
   thread ids; a step of a thread that is blocked or finished stutters).

   Part 2: the constructor x file-state decision model of MdkSqliteStorage::new / new_with_key /
   new_unencrypted (lib.rs), with the helper decisions of permissions.rs / encryption.rs as separate
   functions (precreate, is_encrypted, open_conn) and the mode bits the library sets. *)
From MDK Require Import Base.Prelude.

Definition key := N.

(* ------------------------------------------------------------------ Part 1: get_or_create_db_key *)
Inductive instr := IGet | ILock | IGen | ISet.
Definition prog := list instr.

(* the order of the calls in the source (tied by Gen/KeyringProg.v, lemma keyring_prog_tied) *)
Definition good_prog : prog := [IGet; ILock; IGet; IGen; ISet].
(* the same program without the re-check under the lock (refuted: two keys) *)
Definition norecheck_prog : prog := [IGet; ILock; IGen; ISet].

Record thread := { pc : nat; loc : option key; ret : option key }.
Definition thread0 : thread := {| pc := 0%nat; loc := None; ret := None |}.

Record config := {
  cell  : option key;        (* the keyring entry (service_id, db_key_id) *)
  lock  : option nat;        (* KEY_GENERATION_LOCK: the thread holding it *)
  sets  : list key;          (* ghost: every key ever written by set_secret, oldest first *)
  fresh : key;               (* ghost: generate() returns a key never returned before *)
  thr   : nat -> thread }.

Definition init (cell0 : option key) (k0 : key) : config :=
  {| cell := cell0; lock := None; sets := []; fresh := k0; thr := fun _ => thread0 |}.

Definition upd (f : nat -> thread) (i : nat) (t : thread) : nat -> thread :=
  fun j => if Nat.eqb j i then t else f j.

(* return k from thread i: the MutexGuard (if this thread holds it) is dropped *)
Definition finish (c : config) (i : nat) (t : thread) (k : key) : config :=
  {| cell := cell c;
     lock := match lock c with Some j => if Nat.eqb j i then None else Some j | None => None end;
     sets := sets c; fresh := fresh c;
     thr := upd (thr c) i {| pc := pc t; loc := loc t; ret := Some k |} |}.

Definition advance (t : thread) : thread := {| pc := S (pc t); loc := loc t; ret := ret t |}.

(* one step of thread i (< n) of program p; None = finished, blocked on the lock, or out of range *)
Definition step_thread (p : prog) (n i : nat) (c : config) : option config :=
  if Nat.ltb i n then
    let t := thr c i in
    match ret t with
    | Some _ => None
    | None =>
      match nth_error p (pc t) with
      | None => match loc t with Some k => Some (finish c i t k) | None => None end
      | Some IGet =>
          match cell c with
          | Some k => Some (finish c i t k)
          | None => Some {| cell := cell c; lock := lock c; sets := sets c; fresh := fresh c;
                            thr := upd (thr c) i (advance t) |}
          end
      | Some ILock =>
          match lock c with
          | Some _ => None
          | None => Some {| cell := cell c; lock := Some i; sets := sets c; fresh := fresh c;
                            thr := upd (thr c) i (advance t) |}
          end
      | Some IGen =>
          Some {| cell := cell c; lock := lock c; sets := sets c; fresh := fresh c + 1;
                  thr := upd (thr c) i {| pc := S (pc t); loc := Some (fresh c); ret := None |} |}
      | Some ISet =>
          match loc t with
          | Some k => Some {| cell := Some k; lock := lock c; sets := sets c ++ [k]; fresh := fresh c;
                              thr := upd (thr c) i (advance t) |}
          | None => None
          end
      end
    end
  else None.

Definition step_or_stutter (p : prog) (n i : nat) (c : config) : config :=
  match step_thread p n i c with Some c' => c' | None => c end.

Fixpoint run (p : prog) (n : nat) (sched : list nat) (c : config) : config :=
  match sched with
  | [] => c
  | i :: s => run p n s (step_or_stutter p n i c)
  end.

Definition reachable (p : prog) (n : nat) (cell0 : option key) (k0 : key) (c : config) : Prop :=
  exists sched, c = run p n sched (init cell0 k0).

Definition opt_list {A} (o : option A) : list A := match o with Some x => [x] | None => [] end.

(* observable summary of a configuration over threads 0..n-1 (used by the refutation witness) *)
Definition returns (n : nat) (c : config) : list (option key) := map (fun i => ret (thr c i)) (seq 0 n).

Definition instr_name (i : instr) : N := match i with IGet => 0 | ILock => 1 | IGen => 2 | ISet => 3 end.

(* steps a thread still has to take (termination measure) *)
Definition remaining (p : prog) (t : thread) : nat :=
  match ret t with Some _ => 0%nat | None => S (length p - pc t) end.
Definition measure (p : prog) (n : nat) (c : config) : nat :=
  fold_right (fun i acc => (remaining p (thr c i) + acc)%nat) 0%nat (seq 0 n).

(* ------------------------------------------------------------------ Part 2: constructors x file states *)
Inductive file_state := Missing | Empty | Plain | Encrypted (k : key).
Inductive ctor := Keyring (stored : option key) | WithKey (k : key) | Unencrypted.
Inductive err :=
  | EUnencryptedWithEncryption        (* Error::UnencryptedDatabaseWithEncryption *)
  | EKeyringEntryMissing              (* Error::KeyringEntryMissingForExistingDatabase *)
  | EWrongKey                         (* Error::WrongEncryptionKey *)
  | ENotADatabase.                    (* SQLITE_NOTADB surfacing from the unencrypted constructor *)
Inductive verdict := VOk (used : option key) (generated : bool) | VErr (e : err).
Record outcome := { verdict_of : verdict; file_after : file_state; kr_after : option key }.

Inductive creation := Created | AlreadyExisted.
(* permissions::precreate_secure_database_file: O_CREAT|O_EXCL *)
Definition precreate (fs : file_state) : creation * file_state :=
  match fs with Missing => (Created, Empty) | _ => (AlreadyExisted, fs) end.
(* encryption::is_database_encrypted: false for a missing file, a file shorter than 16 bytes and the
   plain SQLite header; true otherwise *)
Definition is_encrypted (fs : file_state) : bool :=
  match fs with Encrypted _ => true | _ => false end.
Definition file_exists (fs : file_state) : bool :=
  match fs with Missing => false | _ => true end.
(* open_connection + apply_encryption/validate + migrations, as a function of the file *)
Definition open_conn (k : option key) (fs : file_state) : err + file_state :=
  match k, fs with
  | Some k, (Missing | Empty) => inr (Encrypted k)
  | Some _, Plain => inl EWrongKey
  | Some k, Encrypted k' => if k =? k' then inr (Encrypted k') else inl EWrongKey
  | None, (Missing | Empty | Plain) => inr Plain
  | None, Encrypted _ => inl ENotADatabase
  end.

Definition conclude (r : err + file_state) (fs : file_state) (used : option key) (gen : bool) (kr : option key) : outcome :=
  match r with
  | inr fs' => {| verdict_of := VOk used gen; file_after := fs'; kr_after := kr |}
  | inl e => {| verdict_of := VErr e; file_after := fs; kr_after := kr |}
  end.
Definition refuse (e : err) (fs : file_state) (kr : option key) : outcome :=
  {| verdict_of := VErr e; file_after := fs; kr_after := kr |}.

(* `fresh` is the key EncryptionConfig::generate would return; `kr` is the keyring entry seen by the
   constructors that do not use the keyring (it is returned unchanged) *)
Definition open_db (fresh : key) (kr : option key) (c : ctor) (fs : file_state) : outcome :=
  match c with
  | Keyring stored =>
      let '(oc, fs1) := precreate fs in
      match oc with
      | Created =>
          (* keyring::get_or_create_db_key *)
          let '(k, gen) := match stored with Some k => (k, false) | None => (fresh, true) end in
          conclude (open_conn (Some k) fs1) fs1 (Some k) gen (Some k)
      | AlreadyExisted =>
          (* keyring::get_db_key first, then the header *)
          match stored with
          | Some k => conclude (open_conn (Some k) fs1) fs1 (Some k) false stored
          | None => if is_encrypted fs1 then refuse EKeyringEntryMissing fs1 None
                    else refuse EUnencryptedWithEncryption fs1 None
          end
      end
  | WithKey k =>
      if file_exists fs && negb (is_encrypted fs) then refuse EUnencryptedWithEncryption fs kr
      else let '(_, fs1) := precreate fs in conclude (open_conn (Some k) fs1) fs1 (Some k) false kr
  | Unencrypted =>
      let '(_, fs1) := precreate fs in conclude (open_conn None fs1) fs1 None false kr
  end.

(* the task's shape: the keyring-managed constructor carries the entry it finds *)
Definition open (fresh : key) (c : ctor) (fs : file_state) : outcome :=
  open_db fresh (match c with Keyring stored => stored | _ => None end) c fs.

Definition is_ok (o : outcome) : bool := match verdict_of o with VOk _ _ => true | VErr _ => false end.
Definition generated (o : outcome) : bool := match verdict_of o with VOk _ g => g | VErr _ => false end.

(* ------------------------------------------------------------------ mode bits (permissions.rs) *)
Definition mode := N.
Definition m_file : mode := 384.   (* 0o600 *)
Definition m_dir  : mode := 448.   (* 0o700 *)
Definition owner_only (m : mode) : bool := N.land m 63 =? 0.   (* m & 0o077 == 0 *)

(* mode of the database file after a constructor call: apply_secure_permissions chmods it on success,
   a refused open leaves whatever was there (None = no file) *)
Definition mode_after (before : option mode) (o : outcome) : option mode :=
  if is_ok o then Some m_file else before.

(* precreate_secure_database_file -> create_secure_directory(parent) when the parent does not exist:
   create_dir_all creates every missing ancestor with the process default (umask) mode, then (since the fix: every
   directory that was created, not only the parent itself) is chmod-ed to 0700.  `missing` = number of missing path
   components, the last one being the database's parent directory; result = modes of the created directories,
   outermost first.  The umask default no longer matters. *)
Fixpoint created_dir_modes (umask_default : mode) (missing : nat) : list mode :=
  match missing with
  | O => []
  | S m => m_dir :: created_dir_modes umask_default m
  end.
(* the sidecar files that exist when the constructor finishes get the file mode *)
Definition sidecar_modes (existing : list bool) : list (option mode) :=
  map (fun e : bool => if e then Some m_file else None) existing.
