#!/bin/bash
# Build the whole framework from files on disk (offline): translators -> Coq (.vo) -> extracted OCaml model -> Rust harness.
set -e
cd /verif
export CARGO_NET_OFFLINE=true
mkdir -p .cache evidence
for t in tools/translate/*.py; do case "$t" in */common.py) ;; *) python3 "$t";; esac; done
(cd coq && coq_makefile -f _CoqProject -o Makefile && timeout 3000 make -j16 -k || echo "WARNING: some Coq targets failed (reported by the per-property checks)")
tools/build_model.sh
cp /repo/Cargo.lock harness/Cargo.lock
(cd harness && timeout 3000 cargo build --offline --bins)
echo "setup ok"
