//! enc_diff – C13: encrypted databases leak nothing at rest and open only with their key.
//!
//! Model part (case lines `ENC <ctor> <keyring> <filestate> <parent> def=<octal>`): the constructor x file-state
//! matrix is executed on the real constructors and on the extracted Coq decision model (Conc/Keyring.v, `open_db`,
//! `mode_after`, `created_dir_modes`); the implementation's verdict, the state of the file afterwards (probed with
//! an independent SQLCipher connection on a copy), the keyring entry afterwards, the number of keys written to the
//! keyring and the mode bits are printed in the model's vocabulary.
//!
//! Oracle part (directly on the implementation, `run.oracle_fail("C13", ...)`):
//!   CANARY  a history through the storage traits on an encrypted database (recognisable names, contents incl. a
//!           200 kB value that spills to overflow pages, exporter secrets, MLS key material, snapshot + rollback,
//!           welcomes) while a scanner thread keeps reading EVERY file of the database directory (main, -journal,
//!           -wal, -shm, temp files: SQLITE_TMPDIR points there) and afterwards with the connection still open; no
//!           canary and no key bytes (raw / hex) may appear.  The same history on an unencrypted database must show
//!           the canaries (the scan can see them).
//!   MODES   database file and sidecars 0600, directories created by the library 0700 (all of them).
//!   CONC    N threads call `MdkSqliteStorage::new(path, service, key_id)` on the same fresh path: all succeed,
//!           exactly one key is ever written to the keyring, every handle reads every other handle's writes.
//!   REOPEN  a full dump of every table through an independent connection is identical before and after reopening
//!           with the right key; wrong key / no key / unencrypted constructor are refused and change nothing.
use std::collections::{BTreeMap, BTreeSet, HashMap};
use std::os::unix::fs::PermissionsExt;
use std::panic::{AssertUnwindSafe, catch_unwind};
use std::path::{Path, PathBuf};
use std::sync::atomic::{AtomicBool, AtomicU64, Ordering};
use std::sync::{Arc, Barrier, Mutex, OnceLock};

use keyring_core::api::{CredentialApi, CredentialStoreApi};
use keyring_core::{Credential, Entry};
use mdk_sqlite_storage::error::Error as SqlErr;
use mdk_sqlite_storage::{EncryptionConfig, MdkSqliteStorage};
use mdk_storage_traits::groups::GroupStorage;
use mdk_storage_traits::groups::types::{Group, GroupExporterSecret, GroupState, SelfUpdateState};
use mdk_storage_traits::messages::MessageStorage;
use mdk_storage_traits::messages::types::{Message, MessageState, ProcessedMessage, ProcessedMessageState};
use mdk_storage_traits::welcomes::WelcomeStorage;
use mdk_storage_traits::welcomes::types::{Welcome, WelcomeState};
use mdk_storage_traits::{GroupId, MdkStorageProvider, Secret};
use mdk_verif_harness::out::{Run, arg};
use mdk_verif_harness::rng::Rng;
use nostr::{EventId, Keys, Kind, PublicKey, RelayUrl, Tag, Tags, Timestamp, UnsignedEvent};
use openmls_traits::storage::{CURRENT_VERSION, Entity, Key, StorageProvider, traits};
use serde::{Deserialize, Serialize};

const SCRATCH: &str = "/verif/.cache/tmp";

// ---------------------------------------------------------------- in-memory keyring store that records every write
#[derive(Default)]
struct KrInner {
    map: Mutex<HashMap<(String, String), Vec<u8>>>,
    /// every set_secret call, in order: (service, user, value)
    sets: Mutex<Vec<(String, String, Vec<u8>)>>,
    /// microseconds slept inside set_secret / get_secret (a real credential store is slow; widens race windows)
    delay_us: AtomicU64,
}
struct KrStore { inner: Arc<KrInner> }
struct KrCred { inner: Arc<KrInner>, svc: String, user: String }
impl KrInner {
    fn nap(&self) { let d = self.delay_us.load(Ordering::Relaxed); if d > 0 { std::thread::sleep(std::time::Duration::from_micros(d)); } }
}
impl CredentialApi for KrCred {
    fn set_secret(&self, secret: &[u8]) -> keyring_core::Result<()> {
        self.inner.nap();
        self.inner.sets.lock().unwrap().push((self.svc.clone(), self.user.clone(), secret.to_vec()));
        self.inner.map.lock().unwrap().insert((self.svc.clone(), self.user.clone()), secret.to_vec());
        Ok(())
    }
    fn get_secret(&self) -> keyring_core::Result<Vec<u8>> {
        self.inner.nap();
        match self.inner.map.lock().unwrap().get(&(self.svc.clone(), self.user.clone())) { Some(v) => Ok(v.clone()), None => Err(keyring_core::Error::NoEntry) }
    }
    fn delete_credential(&self) -> keyring_core::Result<()> {
        match self.inner.map.lock().unwrap().remove(&(self.svc.clone(), self.user.clone())) { Some(_) => Ok(()), None => Err(keyring_core::Error::NoEntry) }
    }
    fn get_credential(&self) -> keyring_core::Result<Option<Arc<Credential>>> {
        if self.inner.map.lock().unwrap().contains_key(&(self.svc.clone(), self.user.clone())) { Ok(None) } else { Err(keyring_core::Error::NoEntry) }
    }
    fn get_specifiers(&self) -> Option<(String, String)> { Some((self.svc.clone(), self.user.clone())) }
    fn as_any(&self) -> &dyn std::any::Any { self }
    fn debug_fmt(&self, f: &mut std::fmt::Formatter<'_>) -> std::fmt::Result { write!(f, "KrCred({},{})", self.svc, self.user) }
}
impl CredentialStoreApi for KrStore {
    fn vendor(&self) -> String { "mdk-verif in-memory store".into() }
    fn id(&self) -> String { "enc_diff".into() }
    fn build(&self, service: &str, user: &str, _m: Option<&HashMap<&str, &str>>) -> keyring_core::Result<Entry> {
        Ok(Entry::new_with_credential(Arc::new(KrCred { inner: self.inner.clone(), svc: service.into(), user: user.into() })))
    }
    fn as_any(&self) -> &dyn std::any::Any { self }
    fn debug_fmt(&self, f: &mut std::fmt::Formatter<'_>) -> std::fmt::Result { write!(f, "KrStore") }
}
fn keyring() -> Arc<KrInner> {
    static K: OnceLock<Arc<KrInner>> = OnceLock::new();
    K.get_or_init(|| {
        let inner = Arc::new(KrInner::default());
        keyring_core::set_default_store(Arc::new(KrStore { inner: inner.clone() }));
        inner
    }).clone()
}
fn kr_get(svc: &str, id: &str) -> Option<Vec<u8>> { keyring().map.lock().unwrap().get(&(svc.to_string(), id.to_string())).cloned() }
fn kr_put(svc: &str, id: &str, v: &[u8]) { keyring().map.lock().unwrap().insert((svc.to_string(), id.to_string()), v.to_vec()); }
fn kr_sets(svc: &str, id: &str) -> Vec<Vec<u8>> { keyring().sets.lock().unwrap().iter().filter(|(s, u, _)| s == svc && u == id).map(|(_, _, v)| v.clone()).collect() }

// ---------------------------------------------------------------- keys and canaries
const K1: &[u8; 32] = b"K1-CANARY-KEY-MATERIAL-000000001";
const K2: &[u8; 32] = b"K2-CANARY-KEY-MATERIAL-000000002";
fn key_name(k: &[u8]) -> String { if k == K1 { "k1".into() } else if k == K2 { "k2".into() } else { "gen".into() } }
fn key_of(tok: &str) -> Option<[u8; 32]> { match tok { "k1" => Some(*K1), "k2" => Some(*K2), _ => None } }

#[derive(Debug, Clone, PartialEq, Eq, Serialize, Deserialize)]
struct Blob(String);
impl Entity<CURRENT_VERSION> for Blob {}
impl Key<CURRENT_VERSION> for Blob {}
impl traits::TreeSync<CURRENT_VERSION> for Blob {}
impl traits::GroupContext<CURRENT_VERSION> for Blob {}
impl traits::SignaturePublicKey<CURRENT_VERSION> for Blob {}
impl traits::SignatureKeyPair<CURRENT_VERSION> for Blob {}
impl traits::HashReference<CURRENT_VERSION> for Blob {}
impl traits::KeyPackage<CURRENT_VERSION> for Blob {}
impl traits::EpochKey<CURRENT_VERSION> for Blob {}
impl traits::HpkeKeyPair<CURRENT_VERSION> for Blob {}

fn pk(i: u8) -> PublicKey { let mut sk = [0u8; 32]; sk[31] = i; sk[0] = 1; Keys::new(nostr::SecretKey::from_slice(&sk).unwrap()).public_key() }
fn b32(tag: &str) -> [u8; 32] { let mut b = [b'#'; 32]; let t = tag.as_bytes(); b[..t.len().min(32)].copy_from_slice(&t[..t.len().min(32)]); b }
fn group(i: u64, name: &str) -> Group {
    Group { mls_group_id: GroupId::from_slice(format!("CANARY-MLS-GID-{i:04}").as_bytes()), nostr_group_id: b32(&format!("CANARY-NOSTR-GID-{i:04}")),
        name: name.to_string(), description: format!("CANARY-DESCR-{i:04}"), admin_pubkeys: BTreeSet::from([pk(1), pk(2)]),
        image_hash: Some(b32(&format!("CANARY-IMG-HASH-{i:04}"))), image_key: Some(Secret::new(b32(&format!("CANARY-IMG-KEY-{i:04}")))), image_nonce: Some(Secret::new(*b"CANARY-NONCE")),
        last_message_id: None, last_message_at: None, last_message_processed_at: None, epoch: i, state: GroupState::Active, self_update_state: SelfUpdateState::Required }
}
fn message(g: &Group, i: u64, content: String) -> Message {
    let tags = Tags::from_list(vec![Tag::parse(["t".to_string(), format!("CANARY-TAG-{i:04}")]).unwrap()]);
    let id = EventId::from_byte_array(b32(&format!("CANARY-EVENT-ID-{i:04}")));
    // the stored event JSON is limited to 100 kB; it carries at most a 60 kB prefix of the content
    let ev_content: String = content.chars().take(60_000).collect();
    let mut ev = UnsignedEvent::new(pk(3), Timestamp::from(1000 + i), Kind::from(9u16), tags.clone(), ev_content);
    ev.id = Some(id);
    Message { id, mls_group_id: g.mls_group_id.clone(), pubkey: pk(3), kind: Kind::from(9u16), created_at: Timestamp::from(1000 + i), processed_at: Timestamp::from(2000 + i),
        content, tags, event: ev, wrapper_event_id: EventId::from_byte_array(b32(&format!("CANARY-WRAPPER-{i:04}"))), epoch: Some(g.epoch), state: MessageState::Processed }
}

/// The canaries a history of size `n` (with a big value of `big` bytes) leaves in the database.
fn canaries(n: u64) -> Vec<(String, Vec<u8>)> {
    let mut v: Vec<(String, Vec<u8>)> = vec![];
    for i in 0..n.min(3) {
        for t in ["CANARY-GROUP-NAME", "CANARY-DESCR", "CANARY-MLS-GID", "CANARY-NOSTR-GID", "CANARY-IMG-KEY", "CANARY-MSG-CONTENT", "CANARY-EVENT-ID", "CANARY-EXPORTER", "CANARY-WELCOME-NAME", "CANARY-MLS-SIGKEY"] {
            v.push((format!("{t}-{i:04}"), format!("{t}-{i:04}").into_bytes()));
        }
    }
    v.push(("CANARY-BIG".into(), b"CANARY-BIG-VALUE".to_vec()));
    v.push(("CANARY-GROUP-RENAMED".into(), b"CANARY-GROUP-RENAMED".to_vec()));
    v
}

/// The history of oracle (a)/(d): every family of the storage traits, a large value, snapshot + rollback.
fn history(s: &MdkSqliteStorage, n: u64, big: usize) -> Result<(), String> {
    let e = |x: String| x;
    for i in 0..n {
        let g = group(i, &format!("CANARY-GROUP-NAME-{i:04}"));
        s.save_group(g.clone()).map_err(|x| e(format!("save_group: {x}")))?;
        s.replace_group_relays(&g.mls_group_id, BTreeSet::from([RelayUrl::parse(&format!("wss://canary-relay-{i}.example.com")).unwrap()])).map_err(|x| format!("relays: {x}"))?;
        s.save_group_exporter_secret(GroupExporterSecret { mls_group_id: g.mls_group_id.clone(), epoch: g.epoch, secret: Secret::new(b32(&format!("CANARY-EXPORTER-{i:04}"))) }).map_err(|x| format!("secret: {x}"))?;
        s.save_message(message(&g, i, format!("CANARY-MSG-CONTENT-{i:04}"))).map_err(|x| format!("save_message: {x}"))?;
        s.save_processed_message(ProcessedMessage { wrapper_event_id: EventId::from_byte_array(b32(&format!("CANARY-WRAPPER-{i:04}"))), message_event_id: Some(EventId::from_byte_array(b32(&format!("CANARY-EVENT-ID-{i:04}")))),
            processed_at: Timestamp::from(5), epoch: Some(i), mls_group_id: Some(g.mls_group_id.clone()), state: ProcessedMessageState::Processed, failure_reason: None }).map_err(|x| format!("pmsg: {x}"))?;
        let ev = UnsignedEvent::new(pk(1), Timestamp::from(1), Kind::MlsWelcome, Tags::new(), format!("CANARY-WELCOME-PAYLOAD-{i:04}"));
        s.save_welcome(Welcome { id: EventId::from_byte_array(b32(&format!("CANARY-WELCOME-ID-{i:04}"))), event: ev, mls_group_id: g.mls_group_id.clone(), nostr_group_id: g.nostr_group_id,
            group_name: format!("CANARY-WELCOME-NAME-{i:04}"), group_description: "d".into(), group_image_hash: None, group_image_key: None, group_image_nonce: None,
            group_admin_pubkeys: BTreeSet::from([pk(1)]), group_relays: BTreeSet::from([RelayUrl::parse("wss://r.example.com").unwrap()]), welcomer: pk(2), member_count: 2,
            state: WelcomeState::Pending, wrapper_event_id: EventId::from_byte_array(b32(&format!("CANARY-WWRAP-{i:04}"))) }).map_err(|x| format!("welcome: {x}"))?;
        s.write_signature_key_pair(&Blob(format!("CANARY-MLS-SIGPUB-{i:04}")), &Blob(format!("CANARY-MLS-SIGKEY-{i:04}"))).map_err(|x| format!("sigkey: {x}"))?;
        s.write_tree(g.mls_group_id.inner(), &Blob(format!("CANARY-MLS-TREE-{i:04}"))).map_err(|x| format!("tree: {x}"))?;
    }
    // a large value: spills to overflow pages
    let g0 = group(0, "CANARY-GROUP-NAME-0000");
    let bigc: String = "CANARY-BIG-VALUE".chars().cycle().take(big).collect();
    s.save_message(message(&g0, 9000, bigc)).map_err(|x| format!("big message: {x}"))?;
    // snapshot, rename, large value inside, rollback (the rolled-back data must not be left readable either)
    s.create_group_snapshot(&g0.mls_group_id, "CANARY-SNAPSHOT").map_err(|x| format!("snapshot: {x}"))?;
    s.save_group(group(0, "CANARY-GROUP-RENAMED")).map_err(|x| format!("rename: {x}"))?;
    s.save_group_exporter_secret(GroupExporterSecret { mls_group_id: g0.mls_group_id.clone(), epoch: 77, secret: Secret::new(b32("CANARY-EXPORTER-ROLLEDBACK")) }).map_err(|x| format!("secret2: {x}"))?;
    s.rollback_group_to_snapshot(&g0.mls_group_id, "CANARY-SNAPSHOT").map_err(|x| format!("rollback: {x}"))?;
    // overwrite + delete traffic so that pages are freed and rewritten
    for i in 0..n { s.save_message(message(&group(i, ""), i, format!("CANARY-MSG-CONTENT-{i:04}-EDITED"))).map_err(|x| format!("edit: {x}"))?; }
    Ok(())
}

/// What the storage traits return for the history's keys (oracle (d) and "reads each other's writes").
fn api_dump(s: &MdkSqliteStorage, n: u64) -> String {
    let mut out = vec![];
    let mut gs: Vec<String> = s.all_groups().map(|v| v.iter().map(|g| format!("{}|{}|{}|{:?}", hex::encode(g.mls_group_id.as_slice()), g.name, g.epoch, g.image_key.as_ref().map(|k| hex::encode(**k)))).collect()).unwrap_or(vec!["ERR".into()]);
    gs.sort(); out.push(format!("groups={}", gs.join(";")));
    for i in 0..n {
        let g = group(i, "");
        out.push(format!("secret{i}={:?}", s.get_group_exporter_secret(&g.mls_group_id, i).map(|x| x.map(|x| hex::encode(*x.secret))).map_err(|e| e.to_string())));
        out.push(format!("msgs{i}={:?}", s.messages(&g.mls_group_id, None).map(|v| v.iter().map(|m| format!("{}:{}:{}", m.id.to_hex(), m.content.len(), &m.content[..m.content.len().min(40)])).collect::<Vec<_>>()).map_err(|e| e.to_string())));
        out.push(format!("sig{i}={:?}", s.signature_key_pair::<Blob, Blob>(&Blob(format!("CANARY-MLS-SIGPUB-{i:04}"))).map_err(|e| e.to_string())));
        out.push(format!("tree{i}={:?}", s.tree::<_, Blob>(g.mls_group_id.inner()).map_err(|e| e.to_string())));
    }
    out.push(format!("welcomes={:?}", s.pending_welcomes(None).map(|v| v.iter().map(|w| w.group_name.clone()).collect::<BTreeSet<_>>()).map_err(|e| e.to_string())));
    out.join("\n")
}

// ---------------------------------------------------------------- independent probing of a database file
fn find(hay: &[u8], needle: &[u8]) -> bool {
    if needle.is_empty() || hay.len() < needle.len() { return false; }
    let first = needle[0];
    let mut i = 0;
    while let Some(p) = hay[i..hay.len() - needle.len() + 1].iter().position(|&b| b == first) {
        let s = i + p;
        if &hay[s..s + needle.len()] == needle { return true; }
        i = s + 1;
        if i + needle.len() > hay.len() { break; }
    }
    false
}
/// raw, lower-case hex and upper-case hex text
fn encodings(b: &[u8]) -> Vec<Vec<u8>> { vec![b.to_vec(), hex::encode(b).into_bytes(), hex::encode_upper(b).into_bytes()] }

fn raw_open(path: &Path, key: Option<&[u8]>) -> Result<rusqlite::Connection, String> {
    let c = rusqlite::Connection::open_with_flags(path, rusqlite::OpenFlags::SQLITE_OPEN_READ_ONLY).map_err(|e| e.to_string())?;
    if let Some(k) = key { c.execute_batch(&format!("PRAGMA key = \"x'{}'\"; PRAGMA cipher_compatibility = 4;", hex::encode(k))).map_err(|e| e.to_string())?; }
    c.query_row("SELECT count(*) FROM sqlite_master", [], |r| r.get::<_, i64>(0)).map_err(|e| e.to_string())?;
    Ok(c)
}
/// Every row of every table, through a connection that is independent of the library (on a COPY of the files).
fn raw_dump(path: &Path, key: Option<&[u8]>) -> Result<String, String> {
    let d = tempfile::Builder::new().prefix("probe").tempdir_in(SCRATCH).map_err(|e| e.to_string())?;
    let cp = copy_db(path, d.path())?;
    let c = raw_open(&cp, key)?;
    let mut tables: Vec<String> = { let mut st = c.prepare("SELECT name FROM sqlite_master WHERE type='table' ORDER BY name").map_err(|e| e.to_string())?;
        let r = st.query_map([], |r| r.get::<_, String>(0)).map_err(|e| e.to_string())?; r.filter_map(|x| x.ok()).collect() };
    tables.sort();
    let mut out = String::new();
    for t in tables {
        let mut st = c.prepare(&format!("SELECT * FROM \"{t}\" ORDER BY rowid")).or_else(|_| c.prepare(&format!("SELECT * FROM \"{t}\""))).map_err(|e| e.to_string())?;
        let n = st.column_count();
        let mut rows = st.query([]).map_err(|e| e.to_string())?;
        let mut lines = vec![];
        while let Some(r) = rows.next().map_err(|e| e.to_string())? {
            let mut cols = vec![];
            for i in 0..n { let v: rusqlite::types::Value = r.get(i).map_err(|e| e.to_string())?;
                cols.push(match v { rusqlite::types::Value::Blob(b) => format!("x{}", hex::encode(&b[..b.len().min(64)])), rusqlite::types::Value::Text(s) => format!("t{}:{}", s.len(), &s[..s.len().min(64)]), o => format!("{o:?}") }); }
            lines.push(cols.join(","));
        }
        lines.sort();
        out.push_str(&format!("[{t}] {}\n", lines.join(" | ")));
    }
    Ok(out)
}
fn copy_db(path: &Path, to: &Path) -> Result<PathBuf, String> {
    let name = path.file_name().unwrap().to_string_lossy().to_string();
    for suf in ["", "-journal", "-wal", "-shm"] {
        let src = path.with_file_name(format!("{name}{suf}"));
        if src.exists() { std::fs::copy(&src, to.join(format!("{name}{suf}"))).map_err(|e| e.to_string())?; }
    }
    Ok(to.join(name))
}
/// The model's file_state of a path; `cands` = (name, key) candidates for an encrypted file.
fn classify(path: &Path, cands: &[(String, Vec<u8>)]) -> String {
    if !path.exists() { return "missing".into(); }
    let bytes = std::fs::read(path).unwrap_or_default();
    if bytes.is_empty() { return "empty".into(); }
    if bytes.len() < 16 { return "short".into(); }
    if &bytes[..16] == b"SQLite format 3\0" { return "plain".into(); }
    let d = match tempfile::Builder::new().prefix("probe").tempdir_in(SCRATCH) { Ok(d) => d, Err(_) => return "enc:?".into() };
    let cp = match copy_db(path, d.path()) { Ok(p) => p, Err(_) => return "enc:?".into() };
    for (n, k) in cands { if raw_open(&cp, Some(k)).is_ok() { return format!("enc:{n}"); } }
    "enc:?".into()
}
fn mode_of(p: &Path) -> String { match std::fs::metadata(p) { Ok(m) => format!("{:o}", m.permissions().mode() & 0o7777), Err(_) => "-".into() } }

fn has_notadb(e: &(dyn std::error::Error + 'static)) -> bool {
    let mut cur: Option<&(dyn std::error::Error + 'static)> = Some(e);
    while let Some(x) = cur {
        if let Some(rusqlite::Error::SqliteFailure(f, _)) = x.downcast_ref::<rusqlite::Error>() { if f.code == rusqlite::ffi::ErrorCode::NotADatabase { return true; } }
        cur = x.source();
    }
    false
}
fn has_busy(e: &(dyn std::error::Error + 'static)) -> bool {
    let mut cur: Option<&(dyn std::error::Error + 'static)> = Some(e);
    while let Some(x) = cur {
        if let Some(rusqlite::Error::SqliteFailure(f, _)) = x.downcast_ref::<rusqlite::Error>() { if matches!(f.code, rusqlite::ffi::ErrorCode::DatabaseBusy | rusqlite::ffi::ErrorCode::DatabaseLocked) { return true; } }
        cur = x.source();
    }
    false
}
/// Error variant -> the model's `err`
fn err_kind(e: &SqlErr) -> String {
    match e {
        SqlErr::UnencryptedDatabaseWithEncryption => "UnencryptedWithEncryption".into(),
        SqlErr::KeyringEntryMissingForExistingDatabase { .. } => "KeyringEntryMissing".into(),
        SqlErr::WrongEncryptionKey => "WrongKey".into(),
        other if has_notadb(other) || other.to_string().contains("not a database") => "NotADatabase".into(),
        other if has_busy(other) || other.to_string().contains("database is locked") => "Busy".into(),
        SqlErr::Rusqlite(_) => "Other(Rusqlite)".into(), SqlErr::Refinery(_) => "Other(Refinery)".into(), SqlErr::Database(_) => "Other(Database)".into(),
        SqlErr::Keyring(_) => "Other(Keyring)".into(), SqlErr::KeyringNotInitialized(_) => "Other(KeyringNotInitialized)".into(), SqlErr::FilePermission(_) => "Other(FilePermission)".into(),
        SqlErr::InvalidKeyLength(_) => "Other(InvalidKeyLength)".into(), SqlErr::KeyGeneration(_) => "Other(KeyGeneration)".into(),
        _ => "Other".into(),
    }
}

// ---------------------------------------------------------------- templates for the prepared file states
struct Templates { _dir: tempfile::TempDir, plain: PathBuf, k1: PathBuf, k2: PathBuf, dumps: BTreeMap<String, String> }
fn templates() -> Templates {
    let d = tempfile::Builder::new().prefix("tpl").tempdir_in(SCRATCH).unwrap();
    let (plain, k1, k2) = (d.path().join("plain.db"), d.path().join("k1.db"), d.path().join("k2.db"));
    { let s = MdkSqliteStorage::new_unencrypted(&plain).unwrap(); history(&s, 2, 40_000).unwrap(); }
    { let s = MdkSqliteStorage::new_with_key(&k1, EncryptionConfig::new(*K1)).unwrap(); history(&s, 2, 40_000).unwrap(); }
    { let s = MdkSqliteStorage::new_with_key(&k2, EncryptionConfig::new(*K2)).unwrap(); history(&s, 2, 40_000).unwrap(); }
    let mut dumps = BTreeMap::new();
    dumps.insert("plain".to_string(), raw_dump(&plain, None).unwrap());
    dumps.insert("enc:k1".to_string(), raw_dump(&k1, Some(K1)).unwrap());
    dumps.insert("enc:k2".to_string(), raw_dump(&k2, Some(K2)).unwrap());
    Templates { _dir: d, plain, k1, k2, dumps }
}

// ---------------------------------------------------------------- one matrix case
static CASE_NO: AtomicU64 = AtomicU64::new(0);

/// Runs `ENC <ctor> <keyring> <filestate> <parent> def=<octal>`; returns (impl result line, property-oracle failures).
fn enc_case(line: &str, tpl: &Templates) -> (String, Vec<(String, String)>) {
    let t: Vec<&str> = line.split(' ').collect();
    if t.len() < 5 { return ("UNKNOWN-CASE".into(), vec![]); }
    let (ctor, kr0, fs0, parent) = (t[1], t[2], t[3], t[4]);
    let mut fails: Vec<(String, String)> = vec![];
    let no = CASE_NO.fetch_add(1, Ordering::SeqCst);
    let svc = format!("verif.enc.{}.{no}", std::process::id()); let id = "db.key";
    let d = tempfile::Builder::new().prefix("enc").tempdir_in(SCRATCH).unwrap();
    std::fs::set_permissions(d.path(), std::fs::Permissions::from_mode(0o755)).unwrap();
    // parent directory of the database: existing (0755), or 1 / 2 missing levels (only meaningful for a missing file)
    let (dbdir, created_dirs): (PathBuf, Vec<PathBuf>) = match parent {
        "nodir" => (d.path().join("sub"), vec![d.path().join("sub")]),
        "nodir2" => (d.path().join("outer").join("sub"), vec![d.path().join("outer"), d.path().join("outer").join("sub")]),
        p if p.starts_with("nodir") => {
            // nodir<k>: k missing levels l0/l1/../l<k-1>
            let k: usize = p[5..].parse().unwrap();
            let mut cur = d.path().to_path_buf(); let mut all = vec![];
            for i in 0..k { cur = cur.join(format!("l{i}")); all.push(cur.clone()); }
            (cur, all)
        }
        _ => (d.path().to_path_buf(), vec![]),
    };
    let db = dbdir.join("db.sqlite");
    match fs0 {
        "missing" => {}
        "empty" => { std::fs::write(&db, b"").unwrap(); }
        "plain" => { std::fs::copy(&tpl.plain, &db).unwrap(); }
        "enc:k1" => { std::fs::copy(&tpl.k1, &db).unwrap(); }
        "enc:k2" => { std::fs::copy(&tpl.k2, &db).unwrap(); }
        _ => return ("UNKNOWN-CASE".into(), vec![]),
    }
    if fs0 != "missing" { std::fs::set_permissions(&db, std::fs::Permissions::from_mode(0o644)).unwrap(); }
    if let Some(k) = key_of(kr0) { kr_put(&svc, id, &k); }
    let sets_before = kr_sets(&svc, id).len();

    let res = catch_unwind(AssertUnwindSafe(|| match ctor {
        "keyring" => MdkSqliteStorage::new(&db, &svc, id),
        "withkey:k1" => MdkSqliteStorage::new_with_key(&db, EncryptionConfig::new(*K1)),
        "withkey:k2" => MdkSqliteStorage::new_with_key(&db, EncryptionConfig::new(*K2)),
        _ => MdkSqliteStorage::new_unencrypted(&db),
    }));
    let (verdict, handle) = match res {
        Err(_) => ("PANIC".to_string(), None),
        Ok(Ok(s)) => ("ok".to_string(), Some(s)),
        Ok(Err(e)) => (format!("err:{}", err_kind(&e)), None),
    };
    // a successful handle must be usable, and what it writes must be readable after reopening the same way
    if let Some(s) = &handle {
        if let Err(e) = s.save_group(group(500, "CANARY-GROUP-NAME-0500")) { fails.push(("".into(), format!("{line}: constructor succeeded but save_group fails: {e}"))); }
    }
    let mode = mode_of(&db);
    drop(handle);
    let kr_after = kr_get(&svc, id);
    let nsets = kr_sets(&svc, id).len() - sets_before;
    let mut cands: Vec<(String, Vec<u8>)> = vec![("k1".into(), K1.to_vec()), ("k2".into(), K2.to_vec())];
    if let Some(k) = &kr_after { if key_name(k) == "gen" { cands.push(("gen".into(), k.clone())); } }
    let file_after = classify(&db, &cands);
    let dirs: Vec<String> = created_dirs.iter().map(|p| mode_of(p)).collect();
    let line_out = format!("{verdict} gen={nsets} file={file_after} kr={} mode={mode} dirs={}", kr_after.as_ref().map(|k| key_name(k)).unwrap_or("none".into()),
        if dirs.is_empty() { "-".to_string() } else { dirs.join(",") });

    // ---- property oracles, evaluated on the implementation alone
    let right_key = match (fs0, ctor, kr0) { ("enc:k1", "withkey:k1", _) | ("enc:k2", "withkey:k2", _) | ("enc:k1", "keyring", "k1") | ("enc:k2", "keyring", "k2") => true, _ => false };
    if fs0.starts_with("enc:") && !right_key && verdict == "ok" { fails.push(("".into(), format!("{line}: a database encrypted with {} was opened by {ctor} (keyring {kr0})", &fs0[4..]))); }
    if fs0.starts_with("enc:") && right_key && verdict != "ok" { fails.push(("".into(), format!("{line}: the right key was refused: {verdict}"))); }
    if fs0 == "plain" && ctor != "unenc" && verdict == "ok" { fails.push(("".into(), format!("{line}: an encrypting constructor accepted a plaintext database"))); }
    if fs0 == "plain" || fs0.starts_with("enc:") {
        // the file keeps its state and key, and its previous contents are all still there (modulo the row written above)
        if file_after != fs0 { fails.push(("".into(), format!("{line}: existing database changed state: {fs0} -> {file_after}"))); }
        let key: Option<&[u8]> = match fs0 { "enc:k1" => Some(K1), "enc:k2" => Some(K2), _ => None };
        match raw_dump(&db, key) {
            Ok(dump) => {
                let strip = |s: &str| s.lines().map(|l| l.split(" | ").filter(|r| !r.contains("CANARY-GROUP-NAME-0500") && !r.contains(&hex::encode("CANARY-MLS-GID-0500"))).collect::<Vec<_>>().join(" | ")).collect::<Vec<_>>().join("\n");
                if strip(&dump) != strip(&tpl.dumps[fs0]) { fails.push(("".into(), format!("{line}: contents differ after the call (verdict {verdict})"))); }
            }
            Err(e) => fails.push(("".into(), format!("{line}: database no longer readable with its own key after the call: {e}"))),
        }
    }
    if fs0 != "missing" && nsets > 0 { fails.push(("".into(), format!("{line}: a key was written to the keyring for an existing file"))); }
    // a key that is in the keyring is created once and reused: no constructor call replaces or removes an existing entry
    if key_of(kr0).is_some() && kr_after != key_of(kr0).map(|k| k.to_vec()) { fails.push(("".into(), format!("{line}: the keyring entry that existed before the call was replaced or removed (a database encrypted with it can no longer be opened)"))); }
    if ctor != "keyring" && kr_after != key_of(kr0).map(|k| k.to_vec()) { fails.push(("".into(), format!("{line}: constructor without keyring changed the keyring entry"))); }
    if verdict == "ok" {
        if mode != "600" { fails.push(("".into(), format!("{line}: database file mode {mode} after a successful open"))); }
        for (p, m) in created_dirs.iter().zip(dirs.iter()) {
            if m != "700" { let inner = p == created_dirs.last().unwrap();
                fails.push((if inner { "".into() } else { "intermediate-directory-default-mode".into() }, format!("{line}: directory {} created by the library has mode {m}", p.strip_prefix(d.path()).unwrap().display()))); }
        }
    }
    if verdict == "PANIC" { fails.push(("".into(), format!("{line}: constructor panicked"))); }
    (line_out, fails)
}

fn matrix_lines(def: &str) -> Vec<String> {
    let mut v = vec![];
    for ctor in ["keyring", "withkey:k1", "withkey:k2", "unenc"] {
        for kr in ["none", "k1", "k2"] {
            for fs in ["missing", "empty", "plain", "enc:k1", "enc:k2"] {
                v.push(format!("ENC {ctor} {kr} {fs} dir def={def}"));
            }
            v.push(format!("ENC {ctor} {kr} missing nodir def={def}"));
            v.push(format!("ENC {ctor} {kr} missing nodir2 def={def}"));
            if kr == "none" { v.push(format!("ENC {ctor} {kr} missing nodir3 def={def}")); v.push(format!("ENC {ctor} {kr} missing nodir5 def={def}")); }
        }
    }
    v
}

// ---------------------------------------------------------------- oracle (a): canary scan
struct ScanStats { files_seen: BTreeSet<String>, hits: BTreeSet<String>, reads: u64 }
fn scan_dir(dir: &Path, needles: &[(String, Vec<Vec<u8>>)], st: &mut ScanStats) {
    let Ok(rd) = std::fs::read_dir(dir) else { return };
    for ent in rd.flatten() {
        let p = ent.path();
        if p.is_dir() { scan_dir(&p, needles, st); continue; }
        let Ok(bytes) = std::fs::read(&p) else { continue };
        st.reads += 1;
        let name = p.file_name().unwrap().to_string_lossy().to_string();
        // temp files have random names: keep the class only
        let shown = if name.starts_with("db.sqlite") { name.clone() } else { format!("other:{}", name.chars().take(8).collect::<String>()) };
        st.files_seen.insert(shown.clone());
        for (n, encs) in needles { if encs.iter().any(|e| find(&bytes, e)) { st.hits.insert(format!("{n}@{}", if name.starts_with("db.sqlite") { name.clone() } else { "other".into() })); } }
    }
}
/// mode ∈ {withkey, keyring, unenc}.  Returns the scan result.
fn canary_run(mode: &str, n: u64, big: usize) -> Result<(ScanStats, Vec<String>), String> {
    let d = tempfile::Builder::new().prefix("can").tempdir_in(SCRATCH).unwrap();
    let dbdir = d.path().join("dbdir");
    let db = dbdir.join("db.sqlite");
    let no = CASE_NO.fetch_add(1, Ordering::SeqCst);
    let svc = format!("verif.can.{}.{no}", std::process::id());
    // any temp file SQLite decides to create lands in the scanned directory
    unsafe { std::env::set_var("SQLITE_TMPDIR", &dbdir); }
    let s = match mode {
        "withkey" => MdkSqliteStorage::new_with_key(&db, EncryptionConfig::new(*K1)),
        "keyring" => MdkSqliteStorage::new(&db, &svc, "db.key"),
        _ => MdkSqliteStorage::new_unencrypted(&db),
    }.map_err(|e| format!("open: {e}"))?;
    let key: Option<Vec<u8>> = match mode { "withkey" => Some(K1.to_vec()), "keyring" => kr_get(&svc, "db.key"), _ => None };
    let mut needles: Vec<(String, Vec<Vec<u8>>)> = canaries(n).into_iter().map(|(n, b)| (n, encodings(&b))).collect();
    needles.push(("CANARY-EXPORTER-ROLLEDBACK".into(), encodings(&b32("CANARY-EXPORTER-ROLLEDBACK"))));
    if let Some(k) = &key { needles.push(("DATABASE-KEY".into(), encodings(k))); }
    let stop = Arc::new(AtomicBool::new(false));
    let scanner = { let (stop, dir, needles) = (stop.clone(), dbdir.clone(), needles.clone());
        std::thread::spawn(move || { let mut st = ScanStats { files_seen: BTreeSet::new(), hits: BTreeSet::new(), reads: 0 };
            while !stop.load(Ordering::Relaxed) { scan_dir(&dir, &needles, &mut st); }
            st }) };
    let h = catch_unwind(AssertUnwindSafe(|| history(&s, n, big)));
    stop.store(true, Ordering::Relaxed);
    let mut st = scanner.join().map_err(|_| "scanner panicked".to_string())?;
    match h { Ok(Ok(())) => {}, Ok(Err(e)) => return Err(format!("history failed: {e}")), Err(_) => return Err("history panicked".into()) }
    // final scan with the connection still open, then after closing it
    scan_dir(&dbdir, &needles, &mut st);
    let mut modes = vec![];
    for ent in std::fs::read_dir(&dbdir).map_err(|e| e.to_string())?.flatten() { modes.push(format!("{}={}", ent.file_name().to_string_lossy(), mode_of(&ent.path()))); }
    modes.push(format!("dbdir={}", mode_of(&dbdir)));
    drop(s);
    scan_dir(&dbdir, &needles, &mut st);
    Ok((st, modes))
}

// ---------------------------------------------------------------- oracle (c): concurrent first opens
/// Returns (failures, per-run classification)
fn conc_run(threads: usize, delay_us: u64, run_no: u64) -> Vec<(String, String)> {
    let mut fails = vec![];
    let d = tempfile::Builder::new().prefix("conc").tempdir_in(SCRATCH).unwrap();
    let db = d.path().join("fresh").join("db.sqlite");
    let svc = format!("verif.conc.{}.{run_no}.{}", std::process::id(), CASE_NO.fetch_add(1, Ordering::SeqCst)); let id = "db.key";
    keyring().delay_us.store(delay_us, Ordering::Relaxed);
    let bar = Arc::new(Barrier::new(threads));
    let hs: Vec<_> = (0..threads).map(|_| { let (bar, db, svc) = (bar.clone(), db.clone(), svc.clone());
        std::thread::spawn(move || { bar.wait(); catch_unwind(AssertUnwindSafe(|| MdkSqliteStorage::new(&db, &svc, id))) }) }).collect();
    let results: Vec<_> = hs.into_iter().map(|h| h.join()).collect();
    keyring().delay_us.store(0, Ordering::Relaxed);
    let replay = format!("CONC threads={threads} delay={delay_us}");
    let mut handles = vec![];
    let mut kinds: BTreeMap<String, usize> = BTreeMap::new();
    for r in results {
        match r {
            Ok(Ok(Ok(s))) => handles.push(s),
            Ok(Ok(Err(e))) => { if std::env::var("VERIF_DEBUG").is_ok() { eprintln!("CONC error: {e:?}"); } *kinds.entry(err_kind(&e)).or_insert(0) += 1; }
            _ => { *kinds.entry("PANIC".into()).or_insert(0) += 1; }
        }
    }
    for (k, n) in &kinds {
        let class = match k.as_str() { "UnencryptedWithEncryption" => "concurrent-first-open-refused-before-key-stored", "Busy" | "Other(Refinery)" => "concurrent-first-open-migration-race", _ => "" };
        fails.push((class.to_string(), format!("{replay}: {n} of {threads} concurrent first opens of a fresh path failed with {k}")));
    }
    let sets = kr_sets(&svc, id);
    if sets.len() != 1 { fails.push(("".into(), format!("{replay}: {} keys were written to the keyring for one database (expected exactly 1)", sets.len()))); }
    match kr_get(&svc, id) {
        None => fails.push(("".into(), format!("{replay}: no key in the keyring after the opens"))),
        Some(k) => { if sets.first() != Some(&k) { fails.push(("".into(), format!("{replay}: the keyring entry is not the first key written"))); }
            let st = classify(&db, &[("gen".into(), k.clone())]);
            if st != "enc:gen" { fails.push(("".into(), format!("{replay}: the database is not encrypted with the keyring's key (state {st})"))); } }
    }
    // every handle sees every other handle's writes (sequential writes: no lock contention involved)
    for (i, s) in handles.iter().enumerate() { if let Err(e) = s.save_group(group(i as u64, &format!("CANARY-GROUP-NAME-{i:04}"))) { fails.push(("".into(), format!("{replay}: handle {i} cannot write: {e}"))); } }
    for (i, s) in handles.iter().enumerate() {
        match s.all_groups() { Ok(v) if v.len() == handles.len() => {}, Ok(v) => fails.push(("".into(), format!("{replay}: handle {i} sees {} of {} groups", v.len(), handles.len()))), Err(e) => fails.push(("".into(), format!("{replay}: handle {i} cannot read: {e}"))) }
    }
    fails
}

// ---------------------------------------------------------------- oracle (d): reopen
fn reopen_run(n: u64, big: usize) -> Vec<String> {
    let mut fails = vec![];
    let d = tempfile::Builder::new().prefix("reo").tempdir_in(SCRATCH).unwrap();
    let db = d.path().join("db.sqlite");
    let svc = format!("verif.reo.{}.{}", std::process::id(), CASE_NO.fetch_add(1, Ordering::SeqCst));
    let (api1, raw1, key) = {
        let s = match MdkSqliteStorage::new(&db, &svc, "db.key") { Ok(s) => s, Err(e) => return vec![format!("REOPEN: first open failed: {e}")] };
        if let Err(e) = history(&s, n, big) { return vec![format!("REOPEN: history failed: {e}")]; }
        let key = kr_get(&svc, "db.key").unwrap_or_default();
        (api_dump(&s, n), raw_dump(&db, Some(&key)), key)
    };
    // reopened through the keyring and through the caller-key constructor: same data through the API and in every table
    for how in ["keyring", "withkey"] {
        let s = if how == "keyring" { MdkSqliteStorage::new(&db, &svc, "db.key") } else { MdkSqliteStorage::new_with_key(&db, EncryptionConfig::from_slice(&key).unwrap()) };
        match s { Err(e) => fails.push(format!("REOPEN n={n} big={big}: reopening with the right key ({how}) failed: {e}")),
            Ok(s) => { if api_dump(&s, n) != api1 { fails.push(format!("REOPEN n={n} big={big}: data read after reopening ({how}) differs")); } } }
        if raw_dump(&db, Some(&key)) != raw1 { fails.push(format!("REOPEN n={n} big={big}: table contents changed by reopening ({how})")); }
    }
    if kr_sets(&svc, "db.key").len() != 1 { fails.push(format!("REOPEN n={n} big={big}: {} keys written to the keyring over create + 2 reopens", kr_sets(&svc, "db.key").len())); }
    // refused: other key, no key, unencrypted constructor, raw SQLite without key
    if MdkSqliteStorage::new_with_key(&db, EncryptionConfig::new(*K2)).is_ok() { fails.push(format!("REOPEN n={n} big={big}: opened with another key")); }
    if MdkSqliteStorage::new_unencrypted(&db).is_ok() { fails.push(format!("REOPEN n={n} big={big}: opened by the unencrypted constructor")); }
    if MdkSqliteStorage::new(&db, &format!("{svc}.other"), "db.key").is_ok() { fails.push(format!("REOPEN n={n} big={big}: opened through a keyring entry that does not exist")); }
    if kr_get(&format!("{svc}.other"), "db.key").is_some() { fails.push(format!("REOPEN n={n} big={big}: a key was generated for an existing database")); }
    if raw_dump(&db, None).is_ok() { fails.push(format!("REOPEN n={n} big={big}: readable by plain SQLite without a key")); }
    if raw_dump(&db, Some(&key)) != raw1 { fails.push(format!("REOPEN n={n} big={big}: table contents changed by refused opens")); }
    fails
}

fn main() {
    std::panic::set_hook(Box::new(|_| {}));
    let out = arg("--out").unwrap_or("/verif/.cache/run/enc".into());
    let mut run = Run::new(&out, "full matrix: 4 constructors (keyring, caller key k1, caller key k2, unencrypted) x keyring entry {none,k1,k2} x file state {missing (parent existing / 1 / 2 missing levels), 0-byte, plaintext db with data, db encrypted with k1 / k2 with data}, every case on a fresh directory with files prepared at mode 0644; non-trivial = distinct case on an existing file or one that generates a key.  Oracles: canary scan (concurrent scanner + final scans) of every file in the db directory over a history with a large overflow value and a rollback, on caller-key, keyring and (sanity, must be visible) unencrypted databases; mode bits; concurrent first opens through an in-memory keyring that records every write; reopen dumps");
    std::fs::create_dir_all(SCRATCH).unwrap();
    let _ = keyring();
    let mut rng = Rng::from_env();
    let runs: u64 = arg("--runs").and_then(|s| s.parse().ok()).unwrap_or(20);
    let big: usize = arg("--big").and_then(|s| s.parse().ok()).unwrap_or(200_000);
    let hist_n: u64 = arg("--n").and_then(|s| s.parse().ok()).unwrap_or(3);
    // the mode an ordinarily created directory gets in this process (umask), for the model's created_dir_modes
    let def = { let d = tempfile::Builder::new().prefix("um").tempdir_in(SCRATCH).unwrap(); let p = d.path().join("x"); std::fs::create_dir(&p).unwrap(); mode_of(&p) };

    let tpl = templates();
    let mut oracle_lines: Vec<String> = vec![];
    let lines: Vec<String> = if let Some(f) = arg("--cases") {
        let all: Vec<String> = std::fs::read_to_string(f).unwrap().lines().filter(|l| !l.is_empty() && !l.starts_with('#')).map(|l| l.to_string()).collect();
        oracle_lines = all.iter().filter(|l| !l.starts_with("ENC ")).cloned().collect();
        all.into_iter().filter(|l| l.starts_with("ENC ")).collect()
    } else {
        let mut v = vec![];
        if let Ok(c) = std::fs::read_to_string("/verif/corpus/enc.txt") { for l in c.lines() { if l.starts_with("ENC ") { v.push(l.to_string()); } else if !l.is_empty() && !l.starts_with('#') { oracle_lines.push(l.to_string()); } } }
        let mut m = matrix_lines(&def); rng.shuffle(&mut m); v.extend(m);
        oracle_lines.push(format!("CANARY withkey n={hist_n} big={big}"));
        oracle_lines.push(format!("CANARY keyring n={hist_n} big={big}"));
        oracle_lines.push(format!("REOPEN n={hist_n} big={big}"));
        for r in 0..runs { let th = 8 + rng.below(9) as usize; let delay = *rng.pick(&[0u64, 0, 200, 1000]); let _ = r; oracle_lines.push(format!("CONC threads={th} delay={delay}")); }
        v
    };

    for line in &lines {
        let (res, fails) = match catch_unwind(AssertUnwindSafe(|| enc_case(line, &tpl))) { Ok(x) => x, Err(_) => ("PANIC".into(), vec![("".into(), format!("{line}: harness panicked"))]) };
        let t: Vec<&str> = line.split(' ').collect();
        let nontrivial = t.len() > 3 && (t[3] != "missing" || res.contains("gen=1"));
        run.case(&format!("{}/{}", t.get(1).unwrap_or(&"?"), t.get(3).unwrap_or(&"?")), nontrivial, line.clone(), res);
        for (class, d) in fails { run.oracle_fail("C13", &class, d, line.clone()); }
    }

    let kvn = |l: &str, k: &str| -> Option<u64> { l.split(' ').find_map(|t| t.strip_prefix(&format!("{k}=")).and_then(|v| v.parse().ok())) };
    let mut conc_no = 0u64;
    let mut sanity_done = false;
    for l in &oracle_lines {
        let t: Vec<&str> = l.split(' ').collect();
        match t[0] {
            "CANARY" => {
                let (n, b) = (kvn(l, "n").unwrap_or(3), kvn(l, "big").unwrap_or(200_000) as usize);
                run.count("oracle/canary");
                match canary_run(t[1], n, b) {
                    Err(e) => run.oracle_fail("C13", "", format!("{l}: {e}"), l.clone()),
                    Ok((st, modes)) => {
                        println!("enc_diff: {l}: {} file reads, files {:?}, hits {}", st.reads, st.files_seen, st.hits.len());
                        if !st.hits.is_empty() { run.oracle_fail("C13", "", format!("{l}: cleartext found in database files: {}", st.hits.iter().take(12).cloned().collect::<Vec<_>>().join(", ")), l.clone()); }
                        for m in &modes { let (name, md) = m.split_once('=').unwrap(); let want = if name == "dbdir" { "700" } else { "600" };
                            if md != want { run.oracle_fail("C13", "", format!("{l}: {name} has mode {md}, expected {want}"), l.clone()); } }
                        run.count("oracle/modes");
                    }
                }
                if !sanity_done {
                    sanity_done = true;
                    // sanity: the same history on an unencrypted database MUST show the canaries (the scan can see them)
                    match canary_run("unenc", n, b) {
                        Err(e) => run.oracle_fail("C13", "", format!("CANARY unenc: {e}"), l.clone()),
                        Ok((st, _)) => {
                            let want: Vec<String> = canaries(n).into_iter().map(|(n, _)| n).filter(|n| n != "CANARY-GROUP-RENAMED").collect();
                            let missing: Vec<&String> = want.iter().filter(|w| !st.hits.iter().any(|h| h.starts_with(&format!("{w}@")))).collect();
                            println!("enc_diff: CANARY unenc (sanity): {} hits, files {:?}, canaries not seen: {:?}", st.hits.len(), st.files_seen, missing);
                            if !missing.is_empty() { run.oracle_fail("C13", "", format!("canary scan is blind: on an UNENCRYPTED database it does not see {missing:?}"), format!("CANARY unenc n={n} big={b}")); }
                        }
                    }
                }
            }
            "REOPEN" => { run.count("oracle/reopen"); for f in reopen_run(kvn(l, "n").unwrap_or(3), kvn(l, "big").unwrap_or(200_000) as usize) { run.oracle_fail("C13", "", f, l.clone()); } }
            "CONC" => {
                run.count("oracle/concurrent-open"); conc_no += 1;
                let fails = catch_unwind(AssertUnwindSafe(|| conc_run(kvn(l, "threads").unwrap_or(12) as usize, kvn(l, "delay").unwrap_or(0), conc_no))).unwrap_or(vec![("".into(), format!("{l}: harness panicked"))]);
                for (class, d) in fails { run.oracle_fail("C13", &class, d, l.clone()); }
            }
            _ => {}
        }
    }
    run.finish();
    println!("enc_diff: {} matrix cases, {} oracle runs, {} oracle failures", run.cases.len(), oracle_lines.len(), run.oracle.len());
}
