//! log_diff - dynamic side of property C14 (oracle only, no model part).
//!
//! Installs the capturing subscriber (harness/src/logcap.rs), drives end-to-end scenarios through the public API of
//! mdk-core on BOTH backends (memory, SQLCipher-encrypted SQLite incl. a restart so that snapshot hydration runs),
//! feeds hostile events, and then
//!   (1) scans every captured log record (TRACE and up), the Display+Debug text of every `Err` and the Debug text of
//!       every `MessageProcessingResult` for the live sensitive values of the run (MLS group id, Nostr group id,
//!       every stored exporter secret, image key / nonce, the database key) in hex / HEX / byte-list / base64 form;
//!   (2) checks the COMPLETENESS of the translator: every captured record of an mdk crate must come from a
//!       (file, line) that is a log sink in sites.json (written by tools/translate/sites.py next to Sites.v).
//! Failures go to `run.oracle_fail("C14", class, ..)`; the class of a leak at a known site is
//! "site:<file>:<format string up to its first placeholder>", the same text the static finding uses.
//!
//! Args: --out <dir> [--rounds N] [--sites <sites.json>] [--tmp <scratch dir>] [--cases <file>] (a replay re-runs the scenarios; the case
//! lines only document what was found).
use std::collections::{BTreeMap, BTreeSet};
use std::fmt::{Debug, Display};
use std::panic::{AssertUnwindSafe, catch_unwind};

use mdk_core::MDK;
use mdk_core::groups::NostrGroupConfigData;
use mdk_core::messages::MessageProcessingResult;
use mdk_memory_storage::MdkMemoryStorage;
use mdk_sqlite_storage::MdkSqliteStorage;
use mdk_sqlite_storage::encryption::EncryptionConfig;
use mdk_storage_traits::{GroupId, MdkStorageProvider};
use mdk_verif_harness::logcap;
use mdk_verif_harness::out::{Run, arg};
use mdk_verif_harness::rng::Rng;
use nostr::{Event, EventBuilder, EventId, Keys, Kind, RelayUrl, Tag, TagKind, UnsignedEvent};
use openmls_traits::OpenMlsProvider;

struct Col {
    /// (where, text) of every Err / processing result observed
    texts: Vec<(String, String)>,
    sensitive: Vec<(String, Vec<u8>)>,
    calls: u64,
    errs: u64,
    panics: u64,
}

impl Col {
    fn sens(&mut self, label: &str, v: &[u8]) {
        if !self.sensitive.iter().any(|(_, x)| x == v) { self.sensitive.push((label.to_string(), v.to_vec())); }
    }
    /// run one API call; record the text of an error; None on error or panic
    fn call<T, E: Display + Debug>(&mut self, what: &str, f: impl FnOnce() -> Result<T, E>) -> Option<T> {
        self.calls += 1;
        match catch_unwind(AssertUnwindSafe(f)) {
            Ok(Ok(v)) => Some(v),
            Ok(Err(e)) => {
                self.errs += 1;
                self.texts.push((format!("err:{what}"), format!("{e} || {e:?}")));
                None
            }
            Err(_) => { self.panics += 1; None }
        }
    }
    fn process<S: MdkStorageProvider>(&mut self, what: &str, m: &MDK<S>, ev: &Event) -> Option<MessageProcessingResult> {
        let r = self.call(what, || m.process_message(ev));
        if let Some(r) = &r { self.texts.push((format!("result:{what}"), format!("{r:?}"))); }
        r
    }
}

fn kp<S: MdkStorageProvider>(col: &mut Col, mdk: &MDK<S>, keys: &Keys) -> Option<Event> {
    let relays = vec![RelayUrl::parse("wss://test.relay").unwrap()];
    let (c, tags, _) = col.call("create_key_package", || mdk.create_key_package_for_event(&keys.public_key(), relays))?;
    EventBuilder::new(Kind::MlsKeyPackage, c).tags(tags).sign_with_keys(keys).ok()
}

fn rumor(k: &Keys, s: &str) -> UnsignedEvent { EventBuilder::new(Kind::TextNote, s).build(k.public_key()) }

fn hx(b: &[u8]) -> String { hex::encode(b) }

fn collect_secrets<S: MdkStorageProvider>(col: &mut Col, who: &str, m: &MDK<S>, g: &GroupId) {
    let epoch = col.call("get_group", || m.get_group(g)).flatten().map(|x| x.epoch).unwrap_or(0);
    for e in 0..=epoch + 1 {
        if let Ok(Some(s)) = m.provider.storage().get_group_exporter_secret(g, e) {
            let bytes: &[u8; 32] = s.secret.as_ref();
            col.sens(&format!("exporter-secret({who},epoch {e})"), bytes);
        }
    }
}

/// One history on one backend.  `mk(name)` opens (or re-opens) the client called `name`.
fn scenario<S: MdkStorageProvider>(col: &mut Col, rng: &mut Rng, backend: &str, mk: &dyn Fn(&str) -> MDK<S>) {
    let (a, b, mut c) = (mk("a"), mk("b"), mk("c"));
    let (ak, bk, ck) = (Keys::generate(), Keys::generate(), Keys::generate());
    let image_key: [u8; 32] = rng.bytes(32).try_into().unwrap();
    let image_nonce: [u8; 12] = rng.bytes(12).try_into().unwrap();
    let image_hash: [u8; 32] = rng.bytes(32).try_into().unwrap();
    col.sens("image-key", &image_key);
    col.sens("image-nonce", &image_nonce);
    let cfg = NostrGroupConfigData::new(
        "g".into(), "d".into(), Some(image_hash), Some(image_key), Some(image_nonce),
        vec![RelayUrl::parse("wss://test.relay").unwrap()], vec![ak.public_key(), bk.public_key()],
    );
    let (Some(kb), Some(kc)) = (kp(col, &b, &bk), kp(col, &c, &ck)) else { return };
    let Some(r) = col.call("create_group", || a.create_group(&ak.public_key(), vec![kb, kc.clone()], cfg)) else { return };
    let g = r.group.mls_group_id.clone();
    let ngid = r.group.nostr_group_id;
    col.sens("mls-group-id", g.as_slice());
    col.sens("nostr-group-id", &ngid);
    let _ = col.call("merge_pending_commit", || a.merge_pending_commit(&g));
    for (who, m, i) in [("b", &b, 0usize), ("c", &c, 1usize)] {
        if let Some(w) = col.call("process_welcome", || m.process_welcome(&EventId::all_zeros(), &r.welcome_rumors[i])) {
            let _ = col.call("accept_welcome", || m.accept_welcome(&w));
            // replays: same wrapper, new wrapper, accept twice
            let _ = col.call("process_welcome(replay)", || m.process_welcome(&EventId::all_zeros(), &r.welcome_rumors[i]));
            if let Some(w2) = col.call("process_welcome(new wrapper)", || m.process_welcome(&EventId::from_slice(&[7u8; 32]).unwrap(), &r.welcome_rumors[i])) {
                let _ = col.call("accept_welcome(again)", || m.accept_welcome(&w2));
            }
        }
        let _ = who;
    }
    // a welcome that is not for this client, a garbage welcome, a wrong-kind welcome
    let _ = col.call("process_welcome(foreign)", || a.process_welcome(&EventId::from_slice(&[9u8; 32]).unwrap(), &r.welcome_rumors[0]));
    let junk = EventBuilder::new(Kind::MlsWelcome, hx(&rng.bytes(90))).tags([Tag::custom(TagKind::custom("encoding"), ["hex"])]).build(ak.public_key());
    let _ = col.call("process_welcome(garbage)", || b.process_welcome(&EventId::from_slice(&[3u8; 32]).unwrap(), &junk));
    let _ = col.call("process_welcome(garbage again)", || b.process_welcome(&EventId::from_slice(&[3u8; 32]).unwrap(), &junk));
    let junk2 = EventBuilder::new(Kind::TextNote, "hi").build(ak.public_key());
    let _ = col.call("process_welcome(wrong kind)", || b.process_welcome(&EventId::from_slice(&[4u8; 32]).unwrap(), &junk2));

    // application messages in all directions, duplicates, own messages
    let mut old_events: Vec<Event> = vec![];
    for round in 0..3 {
        if round == 1 {
            // persistent backend: restart client c (still in step with the group) and let it process a commit so that
            // snapshot hydration runs; one stored snapshot has a name in the library's own scheme that does not
            // parse (as a name written by another version would)
            if c.provider.storage().backend().is_persistent() {
                let odd = format!("snap_{}_legacy", hx(g.as_slice()));
                let _ = col.call("create_group_snapshot", || c.provider.storage().create_group_snapshot(&g, &odd));
                c = mk("c");
            }
            if let Some(u) = col.call("self_update(for restarted client)", || a.self_update(&g)) {
                let _ = col.call("merge_pending_commit", || a.merge_pending_commit(&g));
                col.process("commit after restart", &c, &u.evolution_event);
                col.process("commit after restart", &b, &u.evolution_event);
            }
            if let Some(ev) = col.call("create_message", || a.create_message(&g, rumor(&ak, "after restart"))) {
                col.process("message after restart", &c, &ev);
                col.process("message after restart", &b, &ev);
            }
        }
        for (who, m, k) in [("a", &a, &ak), ("b", &b, &bk), ("c", &c, &ck)] {
            if let Some(ev) = col.call("create_message", || m.create_message(&g, rumor(k, &format!("{who} says {round}")))) {
                col.process("own message", m, &ev);
                for (_, other, _) in [("a", &a, &ak), ("b", &b, &bk), ("c", &c, &ck)] {
                    col.process("message", other, &ev);
                }
                if round == 1 { col.process("message(replay)", &a, &ev); }
                old_events.push(ev);
            }
        }
        // commits: a self-updates and merges, the others follow
        if let Some(u) = col.call("self_update", || a.self_update(&g)) {
            let _ = col.call("merge_pending_commit", || a.merge_pending_commit(&g));
            col.process("commit", &b, &u.evolution_event);
            col.process("commit", &c, &u.evolution_event);
            col.process("commit(replay)", &c, &u.evolution_event);
            col.process("own commit", &a, &u.evolution_event);
            old_events.push(u.evolution_event);
        }
        // competing commits from the two admins for the same epoch; c sees both orders over the rounds
        let ua = col.call("self_update", || a.self_update(&g));
        let ub = col.call("self_update", || b.self_update(&g));
        if let (Some(ua), Some(ub)) = (ua, ub) {
            let (first, second) = if round % 2 == 0 { (&ua, &ub) } else { (&ub, &ua) };
            col.process("competing commit 1", &c, &first.evolution_event);
            col.process("competing commit 2", &c, &second.evolution_event);
            col.process("competing commit at committer", &a, &ub.evolution_event);
            col.process("competing commit at committer", &b, &ua.evolution_event);
            let _ = col.call("merge_pending_commit(after competitor)", || a.merge_pending_commit(&g));
            let _ = col.call("merge_pending_commit(after competitor)", || b.merge_pending_commit(&g));
            col.process("competing commit late", &a, &ua.evolution_event);
            col.process("competing commit late", &b, &ub.evolution_event);
        }
        collect_secrets(col, "a", &a, &g);
        collect_secrets(col, "b", &b, &g);
        collect_secrets(col, "c", &c, &g);
    }
    // stale events from earlier epochs
    for ev in old_events.iter().take(6) {
        col.process("stale event", &c, ev);
        col.process("stale event", &b, ev);
    }
    // non-admin tries admin operations; operations on unknown groups
    let dk = Keys::generate();
    let d = mk("d");
    if let Some(kd) = kp(col, &d, &dk) {
        let _ = col.call("add_members(non-admin)", || c.add_members(&g, &[kd.clone()]));
        if let Some(u) = col.call("add_members", || a.add_members(&g, &[kd])) {
            // a does not merge: pending commit; members see a commit adding d
            col.process("add commit", &b, &u.evolution_event);
            let _ = col.call("self_update(pending commit exists)", || a.self_update(&g));
            let _ = col.call("clear/merge", || a.merge_pending_commit(&g));
        }
    }
    let _ = col.call("remove_members(non-admin)", || c.remove_members(&g, &[bk.public_key()]));
    let _ = col.call("remove_members(unknown member)", || a.remove_members(&g, &[Keys::generate().public_key()]));
    let unknown = GroupId::from_slice(&rng.bytes(32));
    let _ = col.call("create_message(unknown group)", || a.create_message(&unknown, rumor(&ak, "x")));
    let _ = col.call("self_update(unknown group)", || a.self_update(&unknown));
    let _ = col.call("merge_pending_commit(unknown group)", || a.merge_pending_commit(&unknown));
    let _ = col.call("get_messages(unknown group)", || a.get_messages(&unknown, None));
    let _ = col.call("leave_group(unknown group)", || a.leave_group(&unknown));
    let _ = col.call("add_members(bad key package)", || a.add_members(&g, &[kc]));

    // hostile wrapper events
    let eph = Keys::generate();
    let h = |v: &str| Tag::custom(TagKind::h(), [v.to_string()]);
    let mut hostile: Vec<(&str, Event)> = vec![];
    let mut push = |name: &'static str, b: EventBuilder| { if let Ok(e) = b.sign_with_keys(&eph) { hostile.push((name, e)); } };
    push("wrong kind", EventBuilder::new(Kind::TextNote, "hello").tags([h(&hx(&ngid))]));
    push("no h tag", EventBuilder::new(Kind::MlsGroupMessage, "AAAA"));
    push("bad h tag (not hex)", EventBuilder::new(Kind::MlsGroupMessage, "AAAA").tags([h("zz-not-hex")]));
    push("bad h tag (short)", EventBuilder::new(Kind::MlsGroupMessage, "AAAA").tags([h(&hx(&ngid[..16]))]));
    push("two h tags", EventBuilder::new(Kind::MlsGroupMessage, "AAAA").tags([h(&hx(&ngid)), h(&hx(&ngid))]));
    push("unknown group", EventBuilder::new(Kind::MlsGroupMessage, "AAAA").tags([h(&hx(&rng.bytes(32)))]));
    push("garbage content (text)", EventBuilder::new(Kind::MlsGroupMessage, "this is not base64 !!").tags([h(&hx(&ngid))]));
    push("garbage content (short)", EventBuilder::new(Kind::MlsGroupMessage, "AAAA").tags([h(&hx(&ngid))]));
    push("garbage content (hex)", EventBuilder::new(Kind::MlsGroupMessage, hx(&rng.bytes(120))).tags([h(&hx(&ngid))]));
    push("empty content", EventBuilder::new(Kind::MlsGroupMessage, "").tags([h(&hx(&ngid))]));
    if let Some(real) = old_events.last() {
        // a real ciphertext under a foreign signer / with a flipped character
        push("re-signed real content", EventBuilder::new(Kind::MlsGroupMessage, real.content.clone()).tags([h(&hx(&ngid))]));
        let mut s = real.content.clone().into_bytes();
        if s.len() > 40 { s[40] = if s[40] == b'A' { b'B' } else { b'A' }; }
        push("bit-flipped real content", EventBuilder::new(Kind::MlsGroupMessage, String::from_utf8_lossy(&s).to_string()).tags([h(&hx(&ngid))]));
    }
    for (name, ev) in &hostile {
        col.process(name, &b, ev);
        col.process(name, &b, ev);            // replayed
        col.process(name, &c, ev);
    }

    race_scenario(col, mk);
    let _ = col.call("leave_group", || b.leave_group(&g));
    collect_secrets(col, "a", &a, &g);
    collect_secrets(col, "b", &b, &g);
    collect_secrets(col, "c", &c, &g);
    let _ = backend;
}

/// A commit race with a retry on a fresh, fully synchronised group: c applies the losing commit (a's, later timestamp),
/// cannot read a message of the winning branch (failure recorded), then receives the winning commit (b's, earlier
/// timestamp), rolls back, and is offered the message again - the Retryable path of the dedup step runs here.
fn race_scenario<S: MdkStorageProvider>(col: &mut Col, mk: &dyn Fn(&str) -> MDK<S>) {
    let (a, b, c) = (mk("ra"), mk("rb"), mk("rc"));
    let (ak, bk, ck) = (Keys::generate(), Keys::generate(), Keys::generate());
    let cfg = NostrGroupConfigData::new("r".into(), "d".into(), None, None, None, vec![RelayUrl::parse("wss://test.relay").unwrap()], vec![ak.public_key(), bk.public_key()]);
    let (Some(kb), Some(kc)) = (kp(col, &b, &bk), kp(col, &c, &ck)) else { return };
    let Some(r) = col.call("race: create_group", || a.create_group(&ak.public_key(), vec![kb, kc], cfg)) else { return };
    let g = r.group.mls_group_id.clone();
    col.sens("mls-group-id(race)", g.as_slice());
    col.sens("nostr-group-id(race)", &r.group.nostr_group_id);
    let _ = col.call("race: merge", || a.merge_pending_commit(&g));
    for (m, i) in [(&b, 0usize), (&c, 1usize)] {
        if let Some(w) = col.call("race: process_welcome", || m.process_welcome(&EventId::all_zeros(), &r.welcome_rumors[i])) { let _ = col.call("race: accept", || m.accept_welcome(&w)); }
    }
    let now = nostr::Timestamp::now().as_secs();
    mdk_core::verif_hooks::set_wrapper_created_at(Some(now - 900));
    let ra = col.call("race: self_update(a)", || a.self_update(&g));
    mdk_core::verif_hooks::set_wrapper_created_at(Some(now - 1000));
    let rb = col.call("race: self_update(b)", || b.self_update(&g));
    mdk_core::verif_hooks::set_wrapper_created_at(None);
    if let (Some(ra), Some(rb)) = (ra, rb) {
        col.process("race: c applies the loser", &c, &ra.evolution_event);
        let _ = col.call("race: b merges its own", || b.merge_pending_commit(&g));
        if let Some(mb) = col.call("race: create_message(b)", || b.create_message(&g, rumor(&bk, "on the winning branch"))) {
            col.process("race: c cannot read the winning branch yet", &c, &mb);
            col.process("race: c receives the winner and rolls back", &c, &rb.evolution_event);
            col.process("race: c is offered the message again (retry)", &c, &mb);
            col.process("race: a receives the winner", &a, &rb.evolution_event);
            col.process("race: a reads the message", &a, &mb);
        }
        collect_secrets(col, "c(after race)", &c, &g);
        collect_secrets(col, "a(after race)", &a, &g);
    }
    // a member leaves; an admin receives the proposal and auto-commits it (the `Proposal` processing result), a plain member
    // keeps it pending, and the proposal is offered again
    if let Some(lv) = col.call("race: leave_group(c)", || c.leave_group(&g)) {
        col.process("race: admin a receives the leave proposal", &a, &lv.evolution_event);
        col.process("race: admin a receives it again", &a, &lv.evolution_event);
        col.process("race: admin b receives the leave proposal", &b, &lv.evolution_event);
        let _ = col.call("race: a merges the auto-commit", || a.merge_pending_commit(&g));
    }
}

fn norm_file(f: &str) -> String {
    match f.find("crates/") { Some(i) => f[i..].to_string(), None => f.to_string() }
}

/// "site:<file>:<format string up to its first placeholder, without trailing separators>"
fn site_class(file: &str, fmt: &str) -> String {
    let head = fmt.split('{').next().unwrap_or("");
    format!("site:{}:{}", file, head.trim_end_matches(|c: char| c == ' ' || c == ':' || c == '(' || c == '='))
}

fn main() {
    std::panic::set_hook(Box::new(|_| {}));
    let out = arg("--out").unwrap_or_else(|| "/verif/.cache/run/log_diff".into());
    let rounds: u64 = arg("--rounds").and_then(|x| x.parse().ok()).unwrap_or(1);
    let sites_path = arg("--sites").unwrap_or_else(|| "/verif/.cache/gen/sites.json".into());
    let mut run = Run::new(&out, "C14 oracle: no captured log record / Err text / processing-result Debug contains a live sensitive value (hex, HEX, byte list, base64); every captured record comes from a site of sites.json");
    let mut rng = Rng::from_env();
    let mut rounds = rounds;
    let mut seed_text = std::env::var("VERIF_SEED").unwrap_or_else(|_| "1".into());
    if let Some(cf) = arg("--cases") {
        // replay: the first SCENARIO line fixes seed and rounds
        if let Some(line) = std::fs::read_to_string(&cf).ok().and_then(|t| t.lines().find(|l| l.starts_with("SCENARIO")).map(|l| l.to_string())) {
            for tok in line.split(' ') {
                if let Some(v) = tok.strip_prefix("seed=") { if let Ok(n) = v.parse::<u64>() { rng = Rng::new(n); seed_text = v.to_string(); } }
                if let Some(v) = tok.strip_prefix("rounds=") { if let Ok(n) = v.parse::<u64>() { rounds = n; } }
            }
        }
    }
    logcap::install();

    // the translator's table
    let mut log_sites: BTreeMap<(String, u32), String> = BTreeMap::new();
    match std::fs::read_to_string(&sites_path).ok().and_then(|s| serde_json::from_str::<serde_json::Value>(&s).ok()) {
        Some(v) => {
            for s in v["sites"].as_array().cloned().unwrap_or_default() {
                if s["kind"] == "log" {
                    log_sites.insert((s["file"].as_str().unwrap_or("").to_string(), s["line"].as_u64().unwrap_or(0) as u32), s["fmt"].as_str().unwrap_or("").to_string());
                }
            }
        }
        None => run.oracle_fail("C14", "", format!("sites table {sites_path} missing or unreadable (run tools/translate/sites.py)"), "SITES".into()),
    }

    let mut col = Col { texts: vec![], sensitive: vec![], calls: 0, errs: 0, panics: 0 };
    let tmp_root = arg("--tmp").unwrap_or_else(|| "/verif/.cache/tmp".into());
    std::fs::create_dir_all(&tmp_root).ok();
    for round in 0..rounds {
        // memory backend
        scenario(&mut col, &mut rng, "memory", &|_n: &str| MDK::new(MdkMemoryStorage::default()));
        run.count("scenario:memory");
        // SQLite with SQLCipher and an explicit key; `mk` re-opens the same file on a second call
        let dir = tempfile::Builder::new().prefix("c14-").tempdir_in(&tmp_root).unwrap();
        let key: [u8; 32] = rng.bytes(32).try_into().unwrap();
        col.sens("db-key", &key);
        let path = dir.path().to_path_buf();
        let r = catch_unwind(AssertUnwindSafe(|| {
            scenario(&mut col, &mut rng, "sqlite", &|n: &str| {
                MDK::new(MdkSqliteStorage::new_with_key(path.join(format!("{n}.db")), EncryptionConfig::new(key)).expect("open encrypted db"))
            });
        }));
        if r.is_err() { col.panics += 1; }
        // wrong key / unencrypted open of an encrypted file: error texts of the storage layer
        let mut wrong = key; wrong[0] ^= 1;
        col.sens("db-key(wrong attempt)", &wrong);
        let _ = col.call("open with wrong key", || MdkSqliteStorage::new_with_key(path.join("a.db"), EncryptionConfig::new(wrong)));
        let _ = col.call("open encrypted db unencrypted", || MdkSqliteStorage::new_unencrypted(path.join("a.db")));
        let _ = col.call("EncryptionConfig::from_slice(short)", || EncryptionConfig::from_slice(&key[..31]));
        col.texts.push(("debug:EncryptionConfig".into(), format!("{:?}", EncryptionConfig::new(key))));
        run.count("scenario:sqlite");
        let _ = round;
    }

    let records = logcap::drain();
    // everything that was scanned, for inspection (<out>/records.txt, <out>/texts.txt)
    std::fs::write(std::path::Path::new(&out).join("records.txt"), records.iter().map(|r| format!("{}:{} {}\n", norm_file(&r.file), r.line, r.text())).collect::<String>()).ok();
    std::fs::write(std::path::Path::new(&out).join("texts.txt"), col.texts.iter().map(|(w, t)| format!("{w}\t{t}\n")).collect::<String>()).ok();
    let replay_of = |what: &str| format!("SCENARIO seed={} rounds={} {}", seed_text, rounds, what);

    // (1) leaks in log records
    let mut reported: BTreeSet<(String, String)> = BTreeSet::new();
    for l in logcap::scan(&records, &col.sensitive) {
        let file = norm_file(&l.file);
        let class = match log_sites.get(&(file.clone(), l.line)) { Some(fmt) => site_class(&file, fmt), None => String::new() };
        if reported.insert((class.clone(), format!("{}:{}:{}", file, l.line, l.label.split('(').next().unwrap_or("")))) {
            run.oracle_fail("C14", &class, format!("log record at {}:{} contains {} ({}): {}", file, l.line, l.label, l.encoding, l.text.chars().take(300).collect::<String>()),
                            replay_of(&format!("LOG {}:{}", file, l.line)));
        }
    }
    // (1b) leaks in Err / result texts
    for (wh, text) in &col.texts {
        for (label, enc) in logcap::scan_text(text, &col.sensitive) {
            if reported.insert((String::new(), format!("{wh}:{}", label.split('(').next().unwrap_or("")))) {
                run.oracle_fail("C14", "", format!("{wh} contains {label} ({enc}): {}", text.chars().take(300).collect::<String>()), replay_of(&format!("TEXT {wh}")));
            }
        }
    }
    // (2) completeness of the translator
    let mut seen_sites: BTreeSet<(String, u32)> = BTreeSet::new();
    for r in &records {
        let is_mdk = r.target.starts_with("mdk_") || r.file.contains("crates/mdk-");
        if !is_mdk { continue; }
        let key = (norm_file(&r.file), r.line);
        if seen_sites.insert(key.clone()) && !log_sites.is_empty() && !log_sites.contains_key(&key) {
            run.oracle_fail("C14", "", format!("log site not in Sites table: {}:{} [{} {}] {}", key.0, key.1, r.level, r.target, r.message.chars().take(160).collect::<String>()),
                            replay_of(&format!("SITE {}:{}", key.0, key.1)));
        }
    }
    // what was evaluated: one case per distinct log site reached and per API result / error text scanned
    for (f, l) in &seen_sites { run.case("log-site-scanned", true, format!("SITE {f}:{l}"), "scanned".into()); }
    for (i, (wh, _)) in col.texts.iter().enumerate() { run.case("text-scanned", wh.starts_with("err:"), format!("TEXT {i} {wh}"), "scanned".into()); }
    let by_level = |lv: &str| records.iter().filter(|r| r.level == lv).count() as u64;
    for lv in ["TRACE", "DEBUG", "INFO", "WARN", "ERROR"] { *run.dist.entry(format!("records:{lv}")).or_insert(0) += by_level(lv); }
    *run.dist.entry("api_calls".into()).or_insert(0) += col.calls;
    *run.dist.entry("api_errors".into()).or_insert(0) += col.errs;
    *run.dist.entry("api_panics".into()).or_insert(0) += col.panics;
    *run.dist.entry("texts_scanned".into()).or_insert(0) += col.texts.len() as u64 + records.len() as u64;
    *run.dist.entry("sensitive_values".into()).or_insert(0) += col.sensitive.len() as u64;
    *run.dist.entry("distinct_log_sites_hit".into()).or_insert(0) += seen_sites.len() as u64;
    *run.dist.entry("log_sites_in_table".into()).or_insert(0) += log_sites.len() as u64;
    run.samples = records.iter().take(3).map(|r| format!("{}:{} {}", norm_file(&r.file), r.line, r.text())).collect();
    run.samples.extend(col.texts.iter().filter(|(w, _)| w.starts_with("err:")).take(3).map(|(w, t)| format!("{w} => {}", t.chars().take(160).collect::<String>())));
    run.finish();
    println!("log_diff: {} records from {} distinct sites ({} in table), {} api calls ({} errors, {} panics), {} sensitive values, {} oracle failures",
             records.len(), seen_sites.len(), log_sites.len(), col.calls, col.errs, col.panics, col.sensitive.len(), run.oracle.len());
}
