//! crash_diff – C12: process death at every storage operation of every API-call kind (SQLite backend, real files).
//!
//! For each call kind the scenario is built up to just before the call, the call is run once with the
//! `verif-hooks` tick trace switched on (K ticks, each labelled with the storage function that is about to run), and then
//! for every crash index k < K the same pre-state is re-established, death is armed at tick k (a panic raised BEFORE the
//! k-th storage operation executes), the call is made inside `catch_unwind`, the MDK and its connection are dropped
//! without any further call, the file is reopened and the oracles are evaluated:
//!   (1) the database opens; (2) every group loads; (3) RECOVERY: the interrupted call is made again, all later events
//!   are processed, and the final public-API fingerprints of ALL clients equal those of the uninterrupted run;
//!   (4) for create_group_snapshot / rollback_group_to_snapshot / replace_group_relays: the raw table dump after reopen
//!   equals the dump before the call or the dump after the uninterrupted call (all-or-nothing).
//!
//! RECOVERY RULE (what "processing the interrupted event again" means per call kind; decided through the public API only):
//!   process_message(ev)            -> process_message(ev) again
//!   process_welcome(id, rumor)     -> process_welcome(id, rumor) again
//!   accept_welcome(w)              -> if `get_pending_welcomes` still lists it: accept_welcome again, else nothing
//!   create_message(rumor)          -> always again with the same rumor (the wrapper event was never returned to the caller)
//!   self_update/update_group_data  -> the commit event was never returned: if a pending commit is present
//!                                     `clear_pending_commit` first; then the call again
//!   merge_pending_commit           -> if a pending commit is still present: again, else nothing
//!   create_group                   -> always again (the result was never returned; a new group id is drawn)
//!   create_group_snapshot, replace_group_relays -> again;  rollback_group_to_snapshot -> again if the snapshot is still listed
//!
//! Correspondence part: one case line per call kind, `CR <kind> <write-unit labels>`; the implementation result is the
//! recorded tick trace projected to storage-function names (reads dropped, the ticks inside one transaction / savepoint
//! bracket collapsed to one unit `tx:<fn>`), the model result is `Crash/StmtProg.v`'s program for that kind.
use std::collections::{BTreeMap, BTreeSet};
use std::panic::{AssertUnwindSafe, catch_unwind};
use std::path::{Path, PathBuf};
use std::sync::Arc;

use mdk_core::groups::NostrGroupConfigData;
use mdk_core::{GroupId, MDK, MdkConfig};
use mdk_sqlite_storage::MdkSqliteStorage;
use mdk_sqlite_storage::verif_hooks as vh;
use mdk_storage_traits::MdkStorageProvider;
use mdk_storage_traits::groups::{GroupStorage, Pagination};
use mdk_storage_traits::welcomes::types::Welcome;
use mdk_verif_harness::out::{Run, arg};
use mdk_verif_harness::rng::Rng;
use mdk_verif_harness::world::{Cb, Client, World};
use nostr::{Event, EventBuilder, EventId, Keys, Kind, RelayUrl, UnsignedEvent};
use openmls_traits::OpenMlsProvider;

type W = World<MdkSqliteStorage>;

#[derive(Clone, Debug)]
enum Step {
    Line(String),
    Snap(usize, String),
    Rollback(usize, String),
    Relays(usize, Vec<String>),
    CreateGroup,
    ProcessWelcome(usize),
    AcceptWelcome(usize),
}

struct Scenario {
    kind: &'static str,
    n: usize,
    admin_mask: u64,
    victim: usize,
    prefix: Vec<Step>,
    call: Step,
    suffix: Vec<Step>,
    /// the scenario depends on in-memory state of the victim's MDK built during the prefix (epoch-snapshot timestamps):
    /// re-establish the pre-state by re-running the prefix from scratch instead of restoring the files
    rebuild: bool,
    /// evaluate oracle (4) (all-or-nothing on the raw dump)
    atomic: bool,
}

/// Everything outside the World that the manual steps need.
struct St {
    dir: PathBuf,
    n: usize,
    admin_mask: u64,
    keys: Vec<Keys>,
    kps: Vec<Event>,
    rumors: Vec<UnsignedEvent>,
    welcomes: BTreeMap<usize, Welcome>,
    groups_created: usize,
}

fn db(dir: &Path, i: usize) -> PathBuf { dir.join(format!("c{i}.db")) }
const SUFFIXES: [&str; 4] = ["", "-wal", "-shm", "-journal"];

fn try_open(dir: &Path, i: usize, keys: &Keys) -> Result<Client<MdkSqliteStorage>, String> {
    let r = catch_unwind(AssertUnwindSafe(|| MdkSqliteStorage::new_unencrypted(db(dir, i))));
    match r {
        Ok(Ok(s)) => {
            let cb = Arc::new(Cb::default());
            let cfg = MdkConfig { epoch_snapshot_retention: 5, ..Default::default() };
            let mdk = MDK::builder(s).with_config(cfg).with_callback(cb.clone()).build();
            Ok(Client { mdk, keys: keys.clone(), cb })
        }
        Ok(Err(e)) => Err(format!("{e}")),
        Err(_) => Err("panic while opening".into()),
    }
}
fn open_all(w: &mut W, st: &St) { for i in 0..st.n { w.clients.push(try_open(&st.dir, i, &st.keys[i]).expect("open")); } }
fn save_files(st: &St) {
    let snap = st.dir.join("snap"); let _ = std::fs::remove_dir_all(&snap); std::fs::create_dir_all(&snap).unwrap();
    for i in 0..st.n { for sfx in SUFFIXES {
        let p = PathBuf::from(format!("{}{sfx}", db(&st.dir, i).display()));
        if p.exists() { std::fs::copy(&p, snap.join(p.file_name().unwrap())).unwrap(); }
    } }
}
fn restore_files(st: &St) {
    let snap = st.dir.join("snap");
    for i in 0..st.n { for sfx in SUFFIXES {
        let p = PathBuf::from(format!("{}{sfx}", db(&st.dir, i).display()));
        let s = snap.join(p.file_name().unwrap());
        if s.exists() { std::fs::copy(&s, &p).unwrap(); } else { let _ = std::fs::remove_file(&p); }
    } }
}

fn relay(s: &str) -> RelayUrl { RelayUrl::parse(s).unwrap() }

fn new_world(dir: &Path, n: usize, admin_mask: u64) -> (W, St) {
    let _ = std::fs::remove_dir_all(dir); std::fs::create_dir_all(dir).unwrap();
    let keys: Vec<Keys> = (0..n).map(|_| Keys::generate()).collect();
    let mut st = St { dir: dir.into(), n, admin_mask, keys, kps: vec![], rumors: vec![], welcomes: BTreeMap::new(), groups_created: 0 };
    let mut w: W = World { clients: vec![], gid: GroupId::from_slice(&[0u8; 32]), events: BTreeMap::new(), sigma: BTreeMap::new(), msg_ids: BTreeMap::new(),
        admin_mask: admin_mask | 1, base_ts: nostr::Timestamp::now().as_secs() - 5000, leave_ev: BTreeMap::new(), retention: 5, reopen: None, joined: vec![true; 8], welcomes: BTreeMap::new(), ret_of: BTreeMap::new(), rm_prop_ev: BTreeMap::new() };
    open_all(&mut w, &st);
    for i in 1..n {
        let (c, tags, _) = w.clients[i].mdk.create_key_package_for_event(&st.keys[i].public_key(), vec![relay("wss://test.relay")]).unwrap();
        st.kps.push(EventBuilder::new(Kind::MlsKeyPackage, c).tags(tags).sign_with_keys(&st.keys[i]).unwrap());
    }
    (w, st)
}

/// Execute one step; returns a short result ("ok", "Err:<..>", "PANIC", or the PR fingerprint's `res=` token).
fn exec(w: &mut W, st: &mut St, s: &Step) -> String {
    // the outer guard covers the harness's own bookkeeping reads, which also tick
    catch_unwind(AssertUnwindSafe(|| exec_inner(w, st, s))).unwrap_or_else(|_| "PANIC".into())
}
fn exec_inner(w: &mut W, st: &mut St, s: &Step) -> String {
    match s {
        // World::exec wraps the MDK call in catch_unwind; its own bookkeeping reads (fingerprint) run outside, hence the outer guard
        Step::Line(l) => match catch_unwind(AssertUnwindSafe(|| w.exec(l))) { Ok((_, fp)) => fp.split(' ').next().unwrap_or("").to_string(), Err(_) => "PANIC".into() },
        Step::Snap(c, name) => {
            let gid = w.gid.clone();
            match catch_unwind(AssertUnwindSafe(|| w.clients[*c].mdk.provider.storage().create_group_snapshot(&gid, name))) { Ok(Ok(())) => "ok".into(), Ok(Err(e)) => format!("Err:{e}"), Err(_) => "PANIC".into() }
        }
        Step::Rollback(c, name) => {
            let gid = w.gid.clone();
            match catch_unwind(AssertUnwindSafe(|| w.clients[*c].mdk.provider.storage().rollback_group_to_snapshot(&gid, name))) { Ok(Ok(())) => "ok".into(), Ok(Err(e)) => format!("Err:{e}"), Err(_) => "PANIC".into() }
        }
        Step::Relays(c, urls) => {
            let gid = w.gid.clone();
            let set: BTreeSet<RelayUrl> = urls.iter().map(|u| relay(u)).collect();
            match catch_unwind(AssertUnwindSafe(|| w.clients[*c].mdk.provider.storage().replace_group_relays(&gid, set))) { Ok(Ok(())) => "ok".into(), Ok(Err(e)) => format!("Err:{e}"), Err(_) => "PANIC".into() }
        }
        Step::CreateGroup => {
            let mut admins = vec![st.keys[0].public_key()];
            for i in 1..st.n { if st.admin_mask & (1 << i) != 0 { admins.push(st.keys[i].public_key()); } }
            let cfg = NostrGroupConfigData::new("g0".into(), "d".into(), None, None, None, vec![relay("wss://test.relay")], admins);
            let kps = st.kps.clone(); let pk = st.keys[0].public_key();
            match catch_unwind(AssertUnwindSafe(|| w.clients[0].mdk.create_group(&pk, kps, cfg))) {
                Ok(Ok(r)) => {
                    w.gid = r.group.mls_group_id.clone(); st.rumors = r.welcome_rumors; st.groups_created += 1;
                    let a = w.auth(0); w.sigma.insert(a, 0);
                    "ok".into()
                }
                Ok(Err(e)) => format!("Err:{e}"), Err(_) => "PANIC".into(),
            }
        }
        Step::ProcessWelcome(c) => {
            let rumor = st.rumors[*c - 1].clone();
            match catch_unwind(AssertUnwindSafe(|| w.clients[*c].mdk.process_welcome(&EventId::all_zeros(), &rumor))) {
                Ok(Ok(wl)) => { st.welcomes.insert(*c, wl); "ok".into() } Ok(Err(e)) => format!("Err:{e}"), Err(_) => "PANIC".into(),
            }
        }
        Step::AcceptWelcome(c) => {
            let Some(wl) = st.welcomes.get(c).cloned() else { return "Err:no-welcome".into() };
            match catch_unwind(AssertUnwindSafe(|| w.clients[*c].mdk.accept_welcome(&wl))) { Ok(Ok(())) => "ok".into(), Ok(Err(e)) => format!("Err:{e}"), Err(_) => "PANIC".into() }
        }
    }
}

fn strip(fp: &str) -> String {
    fp.split(' ').filter(|t| !(t.starts_with("res=") || t.starts_with("dd=") || t.starts_with("rb="))).collect::<Vec<_>>().join(" ")
}

/// Public-API observation of client c: World fingerprint (without res/dd/rb) + members + relays + number of groups.
fn fingerprint(w: &mut W, st: &St, c: usize) -> String {
    let base = strip(&w.fingerprint(c, "-", None, None));
    let cl = &w.clients[c];
    let idx = |pk: &nostr::PublicKey| st.keys.iter().position(|k| k.public_key() == *pk).map(|i| i.to_string()).unwrap_or("?".into());
    let members = match cl.mdk.get_members(&w.gid) { Ok(m) => { let mut v: Vec<String> = m.iter().map(|p| idx(p)).collect(); v.sort(); v.join(",") } Err(_) => "Err".into() };
    let relays = match cl.mdk.get_relays(&w.gid) { Ok(r) => r.iter().map(|u| u.to_string()).collect::<Vec<_>>().join(","), Err(_) => "Err".into() };
    let ngroups = cl.mdk.get_groups().map(|g| g.len().to_string()).unwrap_or("Err".into());
    let pw = cl.mdk.get_pending_welcomes(None).map(|g| g.len().to_string()).unwrap_or("Err".into());
    format!("{base} members={members} relays={relays} groups={ngroups} pendingwelcomes={pw}")
}

/// Oracle (2): every group loads through the public API.
fn groups_load(c: &Client<MdkSqliteStorage>) -> Result<(), String> {
    let r = catch_unwind(AssertUnwindSafe(|| -> Result<(), String> {
        let groups = c.mdk.get_groups().map_err(|e| format!("get_groups: {e}"))?;
        for g in groups {
            let id = &g.mls_group_id;
            match c.mdk.get_group(id) { Ok(Some(_)) => {} Ok(None) => return Err("get_group: listed group not found".into()), Err(e) => return Err(format!("get_group: {e}")) }
            c.mdk.get_messages(id, Some(Pagination::new(Some(1000), Some(0)))).map_err(|e| format!("get_messages: {e}"))?;
            c.mdk.get_relays(id).map_err(|e| format!("get_relays: {e}"))?;
            // a group whose welcome has not been accepted yet (state Pending) has no MLS group in storage by design (the
            // uninterrupted run shows the same); every other listed group must load completely
            let pending = matches!(g.state, mdk_storage_traits::groups::types::GroupState::Pending);
            match c.mdk.load_mls_group(id) {
                Ok(Some(_)) => { c.mdk.get_members(id).map_err(|e| format!("get_members: {e}"))?; }
                Ok(None) => if !pending { return Err("load_mls_group: an active group record exists but no MLS group is stored".into()) },
                Err(e) => return Err(format!("load_mls_group: {e}")),
            }
        }
        c.mdk.get_pending_welcomes(None).map_err(|e| format!("get_pending_welcomes: {e}"))?;
        Ok(())
    }));
    match r { Ok(x) => x, Err(_) => Err("panic while loading groups".into()) }
}

/// Raw dump of every table (independent rusqlite connection), wall-clock columns masked.
fn dump(path: &Path) -> Result<String, String> {
    let conn = rusqlite::Connection::open_with_flags(path, rusqlite::OpenFlags::SQLITE_OPEN_READ_ONLY).map_err(|e| e.to_string())?;
    let mut names: Vec<String> = { let mut s = conn.prepare("SELECT name FROM sqlite_master WHERE type='table' AND name NOT LIKE 'sqlite_%' AND name NOT LIKE '%refinery%'").map_err(|e| e.to_string())?;
        let r = s.query_map([], |r| r.get::<_, String>(0)).map_err(|e| e.to_string())?; r.filter_map(|x| x.ok()).collect() };
    names.sort();
    let mut out = String::new();
    for t in names {
        let mut s = conn.prepare(&format!("SELECT * FROM {t}")).map_err(|e| e.to_string())?;
        let cols: Vec<String> = s.column_names().iter().map(|c| c.to_string()).collect();
        let mut rows: Vec<String> = vec![];
        let mut q = s.query([]).map_err(|e| e.to_string())?;
        while let Some(r) = q.next().map_err(|e| e.to_string())? {
            let mut cells = vec![];
            for (i, c) in cols.iter().enumerate() {
                if t == "group_state_snapshots" && c == "created_at" { cells.push("T".to_string()); continue; }
                let v: rusqlite::types::Value = r.get(i).map_err(|e| e.to_string())?;
                cells.push(match v { rusqlite::types::Value::Null => "null".into(), rusqlite::types::Value::Integer(i) => i.to_string(), rusqlite::types::Value::Real(f) => f.to_string(),
                    rusqlite::types::Value::Text(s) => s, rusqlite::types::Value::Blob(b) => hex::encode(b) });
            }
            rows.push(cells.join("|"));
        }
        rows.sort();
        out.push_str(&format!("[{t}:{}]\n", rows.len()));
        for r in rows { out.push_str(&r); out.push('\n'); }
    }
    Ok(out)
}

// ------------------------------------------------------------------ labels
struct Labels { src: BTreeMap<String, Vec<String>> }
impl Labels {
    /// (file, line) -> "<file stem>:<enclosing fn>" ; in-transaction ticks carry their label in the file component
    fn label(&mut self, file: &str, line: u32) -> String {
        if file.starts_with(vh::IN_TX_PREFIX) { return file.to_string(); }
        let lines = self.src.entry(file.to_string()).or_insert_with(|| {
            let txt = std::fs::read_to_string(file).or_else(|_| std::fs::read_to_string(format!("/repo/{file}"))).unwrap_or_default();
            txt.lines().map(|l| l.to_string()).collect()
        });
        let stem = Path::new(file).file_stem().map(|s| s.to_string_lossy().to_string()).unwrap_or_default();
        let mut i = (line as usize).min(lines.len());
        while i > 0 {
            let l = lines[i - 1].trim_start();
            let l = l.strip_prefix("pub(crate) ").or_else(|| l.strip_prefix("pub ")).unwrap_or(l);
            if let Some(rest) = l.strip_prefix("fn ") {
                let name: String = rest.chars().take_while(|c| c.is_alphanumeric() || *c == '_').collect();
                return format!("{stem}:{name}");
            }
            i -= 1;
        }
        format!("{stem}:?{line}")
    }
}
fn fn_of(label: &str) -> &str { label.split(':').nth(1).unwrap_or(label) }
/// Decidable read/write classification of a storage function by its name (reads are dropped from the CR projection).
fn is_write(label: &str) -> bool {
    if label.starts_with(vh::IN_TX_PREFIX) { return true; }
    let f = fn_of(label);
    ["write_", "delete_", "append_", "queue_", "remove_", "clear_", "save_", "replace_", "update_", "mark_", "invalidate_", "prune_", "snapshot_", "restore_", "create_", "rollback_", "release_", "process_welcome"]
        .iter().any(|p| f.starts_with(p))
}
/// Projection used by the correspondence: write units only; a bracket (entry tick of the bracketing function followed by
/// its in-transaction ticks) is ONE unit `tx:<fn>`.
fn project(labels: &[String]) -> Vec<String> {
    let mut out: Vec<String> = vec![];
    for l in labels {
        if !is_write(l) { continue; }
        if l.starts_with(vh::IN_TX_PREFIX) {
            let f = &l[vh::IN_TX_PREFIX.len()..];
            if let Some(last) = out.last() { if last == l { continue; } if fn_of(last) == f && !last.starts_with(vh::IN_TX_PREFIX) { out.pop(); } }
            out.push(l.clone());
        } else { out.push(fn_of(l).to_string()); }
    }
    out
}

/// Known-finding class of a crash point: a decidable predicate on (call kind, storage functions already executed by the
/// call, label of the armed tick) - never on the outcome.
fn classify(kind: &str, labels: &[String], k: usize) -> &'static str {
    let done: Vec<&str> = labels[..k].iter().filter(|l| is_write(l)).map(|l| if l.starts_with(vh::IN_TX_PREFIX) { l.as_str() } else { fn_of(l) }).collect();
    let has = |f: &str| done.iter().any(|d| *d == f);
    let cur = labels[k].as_str();
    // the restore bracket of a rollback has committed iff its in-transaction ticks are behind us
    let restore_done = has("tx:restore_group_from_snapshot") && cur != "tx:restore_group_from_snapshot";
    // receiving side: the decryption ratchet (openmls message secrets) is persisted before the message's effect
    let decrypted = has("write_message_secrets");
    match kind {
        "process_application" if decrypted && !has("save_message") => "message-processing-not-atomic",
        "process_commit" if decrypted && !has("write_encryption_epoch_key_pairs") => "commit-application-not-atomic",
        "process_commit_rollback" if !restore_done => "better-commit-not-adopted-after-restart",
        "process_commit_rollback" if !has("invalidate_messages_after_epoch") => "rollback-invalidation-not-atomic",
        "process_commit_rollback" if decrypted && !has("write_encryption_epoch_key_pairs") => "commit-application-not-atomic",
        "own_commit_echo" if has("write_group_state") && !has("write_message_secrets") => "commit-application-not-atomic",
        "merge_pending_commit" if has("write_group_state") && !has("save_group") => "commit-application-not-atomic",
        "process_proposal_admin" | "process_proposal_member" if decrypted && !has("queue_proposal") => "proposal-processing-not-atomic",
        "process_proposal_admin" if has("queue_proposal") => "auto-commit-result-lost",
        "create_group" if has("save_group") => "create-group-not-atomic",
        "process_welcome" if has("save_processed_welcome") && !has("save_welcome") => "welcome-processing-not-atomic",
        _ => "",
    }
}

// ------------------------------------------------------------------ scenarios
fn line(s: String) -> Step { Step::Line(s) }
fn join_steps(n: usize, upto: usize) -> Vec<Step> {
    let mut v = vec![Step::CreateGroup];
    for i in 1..n.min(upto + 1) { v.push(Step::ProcessWelcome(i)); v.push(Step::AcceptWelcome(i)); }
    v
}

fn scenarios(r: &mut Rng) -> Vec<Scenario> {
    let m0 = 1 + r.below(5);                 // first message number
    let t = 100 + r.below(50);               // base wrapper timestamp offset
    let l = |s: String| line(s);
    let full = |n| join_steps(n, n);
    let mut v = vec![];
    // --- receiving side
    v.push(Scenario { kind: "process_application", n: 3, admin_mask: 0b011, victim: 1, rebuild: false, atomic: false,
        prefix: [full(3), vec![l(format!("PR SEND 0 0 {t} {m0}"))]].concat(),
        call: l("PR DELIVER 1 0".into()),
        suffix: vec![l(format!("PR SEND 2 1 {} {}", t + 1, m0 + 1)), l("PR DELIVER 1 1".into()), l(format!("PR COMMIT 0 su 2 {}", t + 2)), l("PR MERGE 0 2".into()), l("PR DELIVER 1 2".into()), l("PR DELIVER 2 2".into()),
                     l(format!("PR SEND 0 3 {} {}", t + 3, m0 + 2)), l("PR DELIVER 1 3".into()), l("PR DELIVER 2 0".into())] });
    v.push(Scenario { kind: "process_commit", n: 3, admin_mask: 0b011, victim: 1, rebuild: false, atomic: false,
        prefix: [full(3), vec![l(format!("PR SEND 2 9 {t} {m0}")), l("PR DELIVER 1 9".into()), l(format!("PR COMMIT 0 su 0 {t}")), l("PR MERGE 0 0".into())]].concat(),
        call: l("PR DELIVER 1 0".into()),
        suffix: vec![l("PR DELIVER 2 0".into()), l(format!("PR SEND 0 1 {} {}", t + 1, m0 + 1)), l("PR DELIVER 1 1".into()), l(format!("PR COMMIT 2 su 2 {}", t + 2)), l("PR MERGE 2 2".into()), l("PR DELIVER 1 2".into()),
                     l(format!("PR SEND 2 3 {} {}", t + 3, m0 + 2)), l("PR DELIVER 1 3".into())] });
    v.push(Scenario { kind: "process_commit_rollback", n: 3, admin_mask: 0b011, victim: 1, rebuild: true, atomic: false,
        prefix: [full(3), vec![l(format!("PR COMMIT 0 su 0 {}", t + 5)), l(format!("PR COMMIT 2 su 1 {t}")), l("PR DELIVER 1 0".into()), l("PR MERGE 0 0".into()),
                               l(format!("PR SEND 0 2 {} {m0}", t + 6)), l("PR DELIVER 1 2".into())]].concat(),
        call: l("PR DELIVER 1 1".into()),
        suffix: vec![l("PR MERGE 2 1".into()), l(format!("PR SEND 2 3 {} {}", t + 7, m0 + 1)), l("PR DELIVER 1 3".into()), l(format!("PR COMMIT 2 su 4 {}", t + 8)), l("PR MERGE 2 4".into()), l("PR DELIVER 1 4".into()),
                     l(format!("PR SEND 2 5 {} {}", t + 9, m0 + 2)), l("PR DELIVER 1 5".into())] });
    v.push(Scenario { kind: "process_proposal_admin", n: 3, admin_mask: 0b001, victim: 0, rebuild: false, atomic: false,
        prefix: [full(3), vec![l(format!("PR LEAVE 2 0 {t}"))]].concat(),
        call: l("PR DELIVER 0 0".into()),
        suffix: vec![l("PR MERGE 0 1000".into()), l("PR DELIVER 1 0".into()), l("PR DELIVER 1 1000".into()), l(format!("PR SEND 1 1 {} {m0}", t + 1)), l("PR DELIVER 0 1".into())] });
    v.push(Scenario { kind: "process_proposal_member", n: 3, admin_mask: 0b001, victim: 1, rebuild: false, atomic: false,
        prefix: [full(3), vec![l(format!("PR LEAVE 2 0 {t}"))]].concat(),
        call: l("PR DELIVER 1 0".into()),
        suffix: vec![l("PR DELIVER 0 0".into()), l("PR MERGE 0 1000".into()), l("PR DELIVER 1 1000".into()), l(format!("PR SEND 0 1 {} {m0}", t + 1)), l("PR DELIVER 1 1".into())] });
    let tail = |t: u64, m0: u64| vec![l("PR DELIVER 0 0".into()), l("PR DELIVER 2 0".into()), l(format!("PR SEND 0 1 {} {}", t + 1, m0)), l("PR DELIVER 1 1".into()), l(format!("PR SEND 1 2 {} {}", t + 2, m0 + 1)), l("PR DELIVER 0 2".into())];
    v.push(Scenario { kind: "own_commit_echo", n: 3, admin_mask: 0b011, victim: 1, rebuild: false, atomic: false,
        prefix: [full(3), vec![l(format!("PR COMMIT 1 su 0 {t}"))]].concat(), call: l("PR DELIVER 1 0".into()), suffix: tail(t, m0) });
    // --- local operations
    v.push(Scenario { kind: "merge_pending_commit", n: 3, admin_mask: 0b011, victim: 1, rebuild: false, atomic: false,
        prefix: [full(3), vec![l(format!("PR COMMIT 1 su 0 {t}"))]].concat(), call: l("PR MERGE 1 0".into()), suffix: tail(t, m0) });
    v.push(Scenario { kind: "self_update", n: 3, admin_mask: 0b011, victim: 1, rebuild: false, atomic: false,
        prefix: full(3), call: l(format!("PR COMMIT 1 su 0 {t}")), suffix: [vec![l("PR MERGE 1 0".into())], tail(t, m0)].concat() });
    v.push(Scenario { kind: "update_group_data", n: 3, admin_mask: 0b011, victim: 1, rebuild: false, atomic: false,
        prefix: full(3), call: l(format!("PR COMMIT 1 rn 0 {t}")), suffix: [vec![l("PR MERGE 1 0".into())], tail(t, m0)].concat() });
    v.push(Scenario { kind: "create_message", n: 3, admin_mask: 0b011, victim: 1, rebuild: false, atomic: false,
        prefix: full(3), call: l(format!("PR SEND 1 0 {t} {m0}")),
        suffix: vec![l("PR DELIVER 0 0".into()), l("PR DELIVER 2 0".into()), l(format!("PR SEND 0 1 {} {}", t + 1, m0 + 1)), l("PR DELIVER 1 1".into()), l(format!("PR SEND 1 2 {} {}", t + 2, m0 + 2)), l("PR DELIVER 0 2".into())] });
    // --- group creation and joining
    let after_join = |t: u64, m0: u64| vec![l(format!("PR SEND 0 0 {t} {m0}")), l("PR DELIVER 1 0".into()), l("PR DELIVER 2 0".into()), l(format!("PR COMMIT 1 su 1 {}", t + 1)), l("PR MERGE 1 1".into()), l("PR DELIVER 0 1".into()), l("PR DELIVER 2 1".into()),
                                           l(format!("PR SEND 1 2 {} {}", t + 2, m0 + 1)), l("PR DELIVER 0 2".into())];
    v.push(Scenario { kind: "create_group", n: 3, admin_mask: 0b011, victim: 0, rebuild: false, atomic: false,
        prefix: vec![], call: Step::CreateGroup,
        suffix: [vec![Step::ProcessWelcome(1), Step::AcceptWelcome(1), Step::ProcessWelcome(2), Step::AcceptWelcome(2)], after_join(t, m0)].concat() });
    v.push(Scenario { kind: "process_welcome", n: 3, admin_mask: 0b011, victim: 1, rebuild: false, atomic: false,
        prefix: vec![Step::CreateGroup, Step::ProcessWelcome(2), Step::AcceptWelcome(2)], call: Step::ProcessWelcome(1),
        suffix: [vec![Step::AcceptWelcome(1)], after_join(t, m0)].concat() });
    v.push(Scenario { kind: "accept_welcome", n: 3, admin_mask: 0b011, victim: 1, rebuild: false, atomic: false,
        prefix: vec![Step::CreateGroup, Step::ProcessWelcome(2), Step::AcceptWelcome(2), Step::ProcessWelcome(1)], call: Step::AcceptWelcome(1),
        suffix: after_join(t, m0) });
    // --- direct storage calls (all-or-nothing)
    let hist = |t: u64, m0: u64| vec![l(format!("PR SEND 0 0 {t} {m0}")), l("PR DELIVER 1 0".into()), l(format!("PR COMMIT 0 su 1 {}", t + 1)), l("PR MERGE 0 1".into()), l("PR DELIVER 1 1".into()), l("PR DELIVER 2 1".into())];
    let more = |t: u64, m0: u64| vec![l(format!("PR SEND 2 5 {} {}", t + 4, m0 + 3)), l("PR DELIVER 1 5".into()), l(format!("PR COMMIT 2 su 6 {}", t + 5)), l("PR MERGE 2 6".into()), l("PR DELIVER 1 6".into())];
    v.push(Scenario { kind: "create_group_snapshot", n: 3, admin_mask: 0b011, victim: 1, rebuild: false, atomic: true,
        prefix: [full(3), hist(t, m0), vec![Step::Snap(1, "older".into())]].concat(), call: Step::Snap(1, "manual".into()), suffix: more(t, m0) });
    v.push(Scenario { kind: "rollback_group_to_snapshot", n: 3, admin_mask: 0b011, victim: 1, rebuild: false, atomic: true,
        prefix: [full(3), vec![l(format!("PR SEND 0 0 {t} {m0}")), l("PR DELIVER 1 0".into()), Step::Snap(1, "other".into()), Step::Snap(1, "manual".into()),
                               l(format!("PR COMMIT 0 su 1 {}", t + 1)), l("PR MERGE 0 1".into()), l("PR DELIVER 1 1".into()), l("PR DELIVER 2 1".into()), Step::Relays(1, vec!["wss://x.y".into()])]].concat(),
        call: Step::Rollback(1, "manual".into()), suffix: vec![] });
    v.push(Scenario { kind: "replace_group_relays", n: 3, admin_mask: 0b011, victim: 1, rebuild: false, atomic: true,
        prefix: [full(3), hist(t, m0)].concat(), call: Step::Relays(1, vec!["wss://a.b".into(), "wss://c.d".into(), format!("wss://r{}.e", r.below(9))]), suffix: more(t, m0) });
    // a purely additive replacement (every stored relay kept, several added): still one all-or-nothing step
    v.push(Scenario { kind: "replace_group_relays", n: 3, admin_mask: 0b011, victim: 1, rebuild: false, atomic: true,
        prefix: [full(3), hist(t, m0)].concat(), call: Step::Relays(1, vec!["wss://test.relay".into(), "wss://a.b".into(), "wss://c.d".into(), format!("wss://r{}.e", r.below(9))]), suffix: more(t, m0) });
    v
}

fn pending_commit_present(w: &W, c: usize) -> bool { w.clients[c].mdk.load_mls_group(&w.gid).ok().flatten().map(|g| g.pending_commit().is_some()).unwrap_or(false) }

/// The recovery rule (see module doc).  Returns a trace of what was done.
fn recover(w: &mut W, st: &mut St, sc: &Scenario) -> String {
    let v = sc.victim;
    match &sc.call {
        Step::Line(l) => {
            let t: Vec<&str> = l.split(' ').collect();
            match t[1] {
                "COMMIT" => {
                    let mut note = String::new();
                    if pending_commit_present(w, v) { let r = exec(w, st, &Step::Line(format!("PR CLEAR {v}"))); note = format!("clear:{r} "); }
                    format!("{note}redo:{}", exec(w, st, &sc.call))
                }
                "MERGE" => if pending_commit_present(w, v) { format!("redo:{}", exec(w, st, &sc.call)) } else { "effect-present".into() },
                _ => format!("redo:{}", exec(w, st, &sc.call)),
            }
        }
        Step::AcceptWelcome(c) => {
            // "processing the interrupted event again": the welcome event is processed again (process_welcome returns the stored
            // welcome, whatever its state) and accepted again
            let r0 = exec(w, st, &Step::ProcessWelcome(*c));
            format!("reprocess:{r0} redo:{}", exec(w, st, &sc.call))
        }
        Step::Rollback(c, name) => {
            let listed = w.clients[*c].mdk.provider.storage().list_group_snapshots(&w.gid).map(|v| v.iter().any(|(n, _)| n == name)).unwrap_or(false);
            if listed { format!("redo:{}", exec(w, st, &sc.call)) } else { "effect-present".into() }
        }
        _ => format!("redo:{}", exec(w, st, &sc.call)),
    }
}

/// Crash indices.  Reads do not change the store, so the distinct crash states are "before each write tick" and "after the
/// last one"; inside a bracket every tick is equivalent to the bracket's entry.  quick: those boundaries (first and last tick
/// of every bracket), the tick after every write, first and last tick; thorough: every tick.
fn ks(lab: &[String], thorough: bool) -> Vec<usize> {
    let big_k = lab.len();
    if thorough || big_k <= 20 { return (0..big_k).collect(); }
    let mut s = BTreeSet::new();
    s.insert(0); s.insert(big_k - 1);
    for (i, l) in lab.iter().enumerate() {
        if !is_write(l) { continue; }
        let intx = l.starts_with(vh::IN_TX_PREFIX);
        let inner = intx && i > 0 && i + 1 < big_k && lab[i - 1] == *l && lab[i + 1] == *l;
        if inner { continue; }
        s.insert(i); if i + 1 < big_k { s.insert(i + 1); }
    }
    s.into_iter().collect()
}

fn run_scenario(run: &mut Run, sc: &Scenario, dir: &Path, seed: u64, thorough: bool, only_k: Option<usize>, labels: &mut Labels, verbose: bool) {
    let v = sc.victim;
    // ---------- uninterrupted reference
    let (mut w, mut st) = new_world(dir, sc.n, sc.admin_mask);
    for s in &sc.prefix { let r = exec(&mut w, &mut st, s); if verbose { eprintln!("  prefix {s:?} -> {r}"); } }
    if !sc.rebuild { w.clients.clear(); save_files(&st); open_all(&mut w, &st); }
    let before_dump = if sc.atomic { dump(&db(dir, v)).unwrap_or_default() } else { String::new() };
    let pre = (w.gid.clone(), st.rumors.clone(), st.welcomes.clone(), st.groups_created);
    if let Err(e) = groups_load(&w.clients[v]) { run.oracle_fail("C12", "", format!("[{}] oracle baseline: in the UNINTERRUPTED run, before the call: {e}", sc.kind), format!("CRASH seed={seed} kind={} k=-", sc.kind)); }
    vh::start_trace();
    let rcall = exec(&mut w, &mut st, &sc.call);
    let trace = vh::take_trace();
    let lab: Vec<String> = trace.iter().map(|(_, f, l)| labels.label(f, *l)).collect();
    // ticks after the call's last write belong to reads (of the call itself or of the harness's bookkeeping): keep ONE of them
    // (= death after the call's last write, before it returns) and drop the rest
    let last_write = lab.iter().rposition(|l| is_write(l));
    let big_k = match last_write { Some(i) => (i + 2).min(lab.len()), None => lab.len().min(1) };
    let lab: Vec<String> = lab[..big_k].to_vec();
    if let Err(e) = groups_load(&w.clients[v]) { run.oracle_fail("C12", "", format!("[{}] oracle baseline: in the UNINTERRUPTED run, after the call: {e}", sc.kind), format!("CRASH seed={seed} kind={} k=-", sc.kind)); }
    let after_dump = if sc.atomic { dump(&db(dir, v)).unwrap_or_default() } else { String::new() };
    for s in &sc.suffix { let r = exec(&mut w, &mut st, s); if verbose { eprintln!("  suffix {s:?} -> {r}"); } }
    let reference: Vec<String> = (0..sc.n).map(|c| fingerprint(&mut w, &st, c)).collect();
    let proj = project(&lab);
    if verbose {
        let wr: Vec<String> = lab.iter().enumerate().filter(|(_, l)| is_write(l)).map(|(i, l)| format!("{i}:{}", fn_of(l))).collect();
        eprintln!("[{}] call -> {rcall}; K={big_k}\n  writes: {}\n  ref[v]: {}", sc.kind, wr.join(" "), reference[v]);
        if std::env::var("VERIF_LABELS").is_ok() { eprintln!("  labels: {}", lab.join(" ")); }
    }
    let projs = if proj.is_empty() { "-".to_string() } else { proj.join(",") };
    run.case(sc.kind, true, format!("CR {} {projs}", sc.kind), projs.clone());
    run.count(&format!("ticks:{}={big_k}", sc.kind));
    if rcall.starts_with("Err") || rcall == "PANIC" || rcall == "res=Err" { run.oracle_fail("C12", "", format!("[{}] the uninterrupted call itself failed: {rcall}", sc.kind), format!("CRASH seed={seed} kind={} k=-", sc.kind)); return; }
    // the in-memory side of the pre-call point (the files are in <dir>/snap)
    let pre_events = w.events.clone();
    // ---------- crash at every k
    let list = match only_k { Some(k) => vec![k], None => ks(&lab, thorough) };
    let mut fails: BTreeMap<String, Vec<usize>> = BTreeMap::new();
    let mut cur = (w, st);
    for k in list {
        if k >= big_k { continue; }
        let replay = format!("CRASH seed={seed} kind={} k={k}", sc.kind);
        cur.0.clients.clear();
        if sc.rebuild {
            cur = new_world(dir, sc.n, sc.admin_mask);
            for s in &sc.prefix { exec(&mut cur.0, &mut cur.1, s); }
        } else {
            restore_files(&cur.1);
            open_all(&mut cur.0, &cur.1);
            cur.0.gid = pre.0.clone(); cur.1.rumors = pre.1.clone(); cur.1.welcomes = pre.2.clone(); cur.1.groups_created = pre.3;
            cur.0.events = pre_events.clone();
        }
        let (w, st) = (&mut cur.0, &mut cur.1);
        let class = classify(sc.kind, &lab, k);
        let mut fail = |run: &mut Run, oracle: &str, what: String| {
            fails.entry(format!("{oracle}/{class}")).or_default().push(k);
            run.oracle_fail("C12", class, format!("[{} k={k}/{big_k} at {}] oracle {oracle}: {what}", sc.kind, lab[k]), replay.clone());
        };
        vh::arm(Some(k as u64));
        let r = exec(w, st, &sc.call);
        let reached = vh::ticks();
        vh::arm(None);
        if r != "PANIC" { fail(run, "0-trace-stable", format!("armed tick {k} was not reached as a crash (result {r}, {reached} ticks): the call's storage trace is not deterministic")); continue; }
        // process death: drop the victim's MDK and connection without any further call, reopen the file
        let keys = st.keys[v].clone();
        drop(w.clients.remove(v));
        match try_open(dir, v, &keys) {
            Ok(c) => w.clients.insert(v, c),
            Err(e) => { fail(run, "1-opens", format!("database does not open after the crash: {e}")); continue; }
        }
        if let Err(e) = groups_load(&w.clients[v]) { fail(run, "2-groups-load", e); }
        if sc.atomic {
            let d = dump(&db(dir, v)).unwrap_or_else(|e| format!("dump failed: {e}"));
            if d != before_dump && d != after_dump { fail(run, "4-all-or-nothing", "raw table dump after reopen equals neither the state before the call nor the state after the uninterrupted call".into()); }
        }
        let note = recover(w, st, sc);
        let mut sfx = vec![];
        for s in &sc.suffix { sfx.push(exec(w, st, s)); }
        let got: Vec<String> = (0..sc.n).map(|c| fingerprint(w, st, c)).collect();
        if got != reference {
            let who: Vec<String> = (0..sc.n).filter(|&c| got[c] != reference[c]).map(|c| format!("client {c}{}: got [{}] expected [{}]", if c == v { " (victim)" } else { "" }, got[c], reference[c])).collect();
            fail(run, "3-recovery", format!("after reopen + `{note}` + later events [{}] the final state differs from the uninterrupted run: {}", sfx.join(","), who.join("; ")));
        }
        run.count(&format!("crash:{}", sc.kind));
        if verbose && std::env::var("VERIF_PERK").is_ok() { eprintln!("    k={k} {} {} -> {note} [{}] {}", lab[k], class, sfx.join(","), if got == reference { "same" } else { "DIFFERENT" }); }
    }
    if verbose { for (o, k) in &fails { eprintln!("  FAIL {o}: k={k:?}"); } }
    for (o, k) in fails { run.count(&format!("fail:{}:{o}:k={}", sc.kind, k.iter().map(|x| x.to_string()).collect::<Vec<_>>().join(","))); }
}

fn main() {
    if std::env::var("VERIF_SHOW_PANIC").is_err() { std::panic::set_hook(Box::new(|_| {})); }
    let out = arg("--out").unwrap_or("/verif/.cache/run/crash".into());
    let mut run = Run::new(&out, "for each API-call kind (process_message of an application message / commit / better competing commit with rollback / leave proposal at an admin and at a member / own-commit echo, merge_pending_commit, self_update, update_group_data, create_message, create_group, process_welcome, accept_welcome, create_group_snapshot, rollback_group_to_snapshot, replace_group_relays) on real SQLite files: the labelled storage-operation trace of the call is recorded (correspondence: its projection to write units equals the Coq program of the kind), then process death is simulated at every tick index k (quick: all k if K <= 20, else every write-unit boundary - the tick of each write and the tick after it, first and last tick of each bracket, first and last tick; thorough: every tick), the file is reopened and the oracles opens / every group loads / recovery reaches the uninterrupted final fingerprints of all clients / all-or-nothing for the bracketed calls are evaluated");
    std::fs::create_dir_all("/verif/.cache/tmp").unwrap();
    let tmp = tempfile::Builder::new().prefix("crash").tempdir_in("/verif/.cache/tmp").unwrap();
    let thorough = arg("--tier").map(|t| t == "thorough").unwrap_or(false);
    let verbose = std::env::var("VERIF_VERBOSE").is_ok();
    let only = arg("--kind");
    let mut labels = Labels { src: BTreeMap::new() };
    let seed = std::env::var("VERIF_SEED").ok().and_then(|s| s.parse::<u64>().ok()).unwrap_or(1);
    let thorough = thorough || std::env::var("VERIF_TIER").map(|t| t == "thorough").unwrap_or(false);
    // replay: case lines `CRASH seed=<s> kind=<kind> k=<k>`
    if let Some(f) = arg("--cases") {
        for l in std::fs::read_to_string(f).unwrap_or_default().lines() {
            let m: BTreeMap<&str, &str> = l.split(' ').filter_map(|t| t.split_once('=')).collect();
            let (Some(sd), Some(kind)) = (m.get("seed").and_then(|x| x.parse::<u64>().ok()), m.get("kind")) else { continue };
            let kk = m.get("k").and_then(|x| x.parse::<usize>().ok());
            let mut r = Rng::new(sd);
            for sc in scenarios(&mut r) { if sc.kind == *kind { run_scenario(&mut run, &sc, &tmp.path().join(sc.kind), sd, thorough, kk, &mut labels, verbose); } }
        }
        run.finish();
        println!("crash_diff: replay, {} oracle failures", run.oracle.len());
        return;
    }
    // thorough: every tick of every kind, for `--variants` differently seeded instances of each scenario
    let variants: u64 = arg("--variants").and_then(|s| s.parse().ok()).unwrap_or(1);
    let only_k = arg("--k").and_then(|s| s.parse::<usize>().ok());
    for vi in 0..variants {
        let sd = seed.wrapping_add(vi.wrapping_mul(7919));
        let mut r = Rng::new(sd);
        for sc in scenarios(&mut r) {
            if let Some(o) = &only { if o != sc.kind { continue; } }
            let t0 = std::time::Instant::now();
            run_scenario(&mut run, &sc, &tmp.path().join(sc.kind), sd, thorough, only_k, &mut labels, verbose);
            if verbose { eprintln!("[{}] {:.1}s", sc.kind, t0.elapsed().as_secs_f64()); }
        }
    }
    run.finish();
    println!("crash_diff: {} call kinds, {} oracle failures", run.cases.len(), run.oracle.len());
}
