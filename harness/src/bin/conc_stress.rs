//! conc_stress – several threads on ONE storage instance (C19, oracle-only harness).
//!
//! Per run: thread count 2..16 from the seed; on a fresh store of each backend (memory; SQLite unencrypted file
//! under /verif/.cache/tmp) 3 shared groups and one private group per thread are pre-populated; every thread
//! issues 30-60 random operations on small key pools with `yield_now` at random points.  Every storage call is
//! logged with a start/end stamp from one global counter.  After joining (watchdog 20 s) the oracles are checked:
//!   panic / poisoned lock; deadlock (watchdog); unexpected errors; torn reads (all fields of a record from one
//!   write; a relay listing is exactly ONE thread's set); every value read or left at the end was written by
//!   some write to that key that had started before the read ended (or is the initial value); listings without
//!   duplicates and only of saved messages; private groups (touched only by their owner, incl. snapshot ->
//!   marker -> rollback cycles) behave exactly sequentially although other threads work on other groups;
//!   concurrent first-open of one database path by 8 threads.
//! Case lines (`CS run=.. threads=.. backend=.. rs=..`) only carry the replay information; the model answers "ok".
use std::collections::{BTreeMap, BTreeSet, HashMap, HashSet};
use std::panic::{AssertUnwindSafe, catch_unwind};
use std::sync::atomic::{AtomicU64, Ordering};
use std::sync::{Arc, Barrier};
use std::time::{Duration, Instant};

use mdk_memory_storage::MdkMemoryStorage;
use mdk_sqlite_storage::MdkSqliteStorage;
use mdk_storage_traits::groups::types::{Group, GroupExporterSecret, GroupState, SelfUpdateState};
use mdk_storage_traits::groups::{GroupStorage, Pagination};
use mdk_storage_traits::messages::types::{Message, MessageState};
use mdk_storage_traits::{GroupId, MdkStorageProvider, Secret};
use mdk_verif_harness::out::{Run, arg};
use mdk_verif_harness::rng::Rng;
use nostr::{EventId, Keys, Kind, PublicKey, RelayUrl, Tag, Tags, Timestamp, UnsignedEvent};

static SEQ: AtomicU64 = AtomicU64::new(1);
const SHARED: u64 = 3;          // shared groups 1..=3
const MSG_POOL: u64 = 6;        // message ids per group
const INIT_RELAYS: [u64; 3] = [900, 901, 902];
const FIRST_OPEN_CLASS: &str = "sqlite-first-open-migration-race";

fn gid(n: u64) -> GroupId { GroupId::from_slice(&[b'g', (n >> 8) as u8, n as u8]) }
fn gid_n(g: &GroupId) -> u64 { let b = g.as_slice(); ((b[1] as u64) << 8) | b[2] as u64 }
fn b32(n: u64) -> [u8; 32] { let mut b = [0u8; 32]; b[24..].copy_from_slice(&n.to_be_bytes()); b }
fn b32_n(b: &[u8]) -> u64 { u64::from_be_bytes(b[24..32].try_into().unwrap()) }
fn eid(n: u64) -> EventId { EventId::from_byte_array(b32(n)) }
fn relay(n: u64) -> RelayUrl { RelayUrl::parse(&format!("wss://r{n}.example.com")).unwrap() }
fn relay_n(r: &RelayUrl) -> u64 { r.to_string().trim_start_matches("wss://r").split('.').next().unwrap().parse().unwrap_or(u64::MAX) }
fn pk() -> PublicKey { let mut sk = [0u8; 32]; sk[31] = 7; sk[0] = 1; Keys::new(nostr::SecretKey::from_slice(&sk).unwrap()).public_key() }
fn thread_relays(t: usize) -> Vec<u64> { let b = 10 * (t as u64 + 1); vec![b, b + 1, b + 2] }

/// every field that can carry a number carries the SAME per-write code: a mix of two writes is visible
fn mk_group(g: u64, code: u64) -> Group {
    Group { mls_group_id: gid(g), nostr_group_id: b32(g), name: format!("n{code}"), description: format!("n{code}"),
        admin_pubkeys: BTreeSet::new(), image_hash: None, image_key: None, image_nonce: None,
        last_message_id: Some(eid(code)), last_message_at: Some(Timestamp::from(code)), last_message_processed_at: Some(Timestamp::from(code)),
        epoch: code, state: GroupState::Active, self_update_state: SelfUpdateState::CompletedAt(Timestamp::from(code)) }
}
fn group_code(g: &Group) -> Result<u64, String> {
    let c = g.epoch;
    let ok = g.name == format!("n{c}") && g.description == format!("n{c}") && g.last_message_id == Some(eid(c))
        && g.last_message_at == Some(Timestamp::from(c)) && g.last_message_processed_at == Some(Timestamp::from(c))
        && (g.self_update_state == SelfUpdateState::CompletedAt(Timestamp::from(c)) || (c == 0 && g.self_update_state == SelfUpdateState::Required));
    if ok { Ok(c) } else { Err(format!("group record mixes writes: name={} descr={} epoch={} last_at={:?}", g.name, g.description, g.epoch, g.last_message_at.map(|t| t.as_secs()))) }
}
fn mk_msg(g: u64, id: u64, code: u64) -> Message {
    let tags = Tags::from_list(vec![Tag::parse(["t".to_string(), format!("v{code}")]).unwrap()]);
    let mut ev = UnsignedEvent::new(pk(), Timestamp::from(1000 + code % 5), Kind::from(9u16), tags.clone(), format!("n{code}"));
    ev.id = Some(eid(g * 1000 + id));
    Message { id: eid(g * 1000 + id), mls_group_id: gid(g), pubkey: pk(), kind: Kind::from(9u16), created_at: Timestamp::from(1000 + code % 5),
        processed_at: Timestamp::from(2000 + code % 3), content: format!("n{code}"), tags, event: ev, wrapper_event_id: eid(code), epoch: Some(code), state: MessageState::Created }
}
fn msg_code(m: &Message) -> Result<(u64, u64, u64), String> {
    let c = m.epoch.unwrap_or(u64::MAX);
    let tag = m.tags.iter().next().and_then(|t| t.content().map(|s| s.to_string())).unwrap_or_default();
    let ok = m.content == format!("n{c}") && tag == format!("v{c}") && m.wrapper_event_id == eid(c) && m.created_at == Timestamp::from(1000 + c % 5)
        && m.event.content == m.content && m.event.id == Some(m.id);
    let raw = b32_n(m.id.as_bytes());
    if ok { Ok((gid_n(&m.mls_group_id), raw % 1000, c)) } else { Err(format!("message mixes writes: content={} tag={} epoch={:?}", m.content, tag, m.epoch)) }
}

#[derive(Clone, Debug)]
enum Obs { None, Val(Option<u64>), List(Vec<(u64, u64)>), Names(Vec<String>), Torn(String), Err(String), Panic }
#[derive(Clone, Debug)]
struct Rec { thread: usize, kind: &'static str, key: String, wrote: Option<u64>, obs: Obs, start: u64, end: u64 }
impl Rec { fn show(&self) -> String { format!("t{} {} {} wrote={:?} -> {:?} [{},{}]", self.thread, self.kind, self.key, self.wrote, self.obs, self.start, self.end) } }

struct Ctx<'a, S> { s: &'a S, t: usize, log: Vec<Rec>, r: Rng, counter: u64, priv_fail: Vec<String> }
impl<'a, S: MdkStorageProvider> Ctx<'a, S> {
    fn code(&mut self) -> u64 { self.counter += 1; (self.t as u64 + 1) * 100_000 + self.counter }
    fn maybe_yield(&mut self) { if self.r.chance(1, 3) { std::thread::yield_now(); } }
    fn call<F: FnOnce(&S) -> Obs>(&mut self, kind: &'static str, key: String, wrote: Option<u64>, f: F) -> Obs {
        self.maybe_yield();
        let start = SEQ.fetch_add(1, Ordering::SeqCst);
        let obs = catch_unwind(AssertUnwindSafe(|| f(self.s))).unwrap_or(Obs::Panic);
        let end = SEQ.fetch_add(1, Ordering::SeqCst);
        self.log.push(Rec { thread: self.t, kind, key, wrote, obs: obs.clone(), start, end });
        self.maybe_yield();
        obs
    }
    // ---- the storage calls
    fn save_group(&mut self, g: u64) -> u64 { let c = self.code(); self.call("save_group", format!("G{g}"), Some(c), |s| unit(s.save_group(mk_group(g, c)))); c }
    fn find_group(&mut self, g: u64) -> Obs {
        self.call("find_group", format!("G{g}"), None, |s| match s.find_group_by_mls_group_id(&gid(g)) {
            Ok(Some(x)) => match group_code(&x) { Ok(c) => Obs::Val(Some(c)), Err(e) => Obs::Torn(e) }, Ok(None) => Obs::Val(None), Err(e) => Obs::Err(e.to_string()) })
    }
    fn save_message(&mut self, g: u64, id: u64) -> u64 { let c = self.code(); self.call("save_message", format!("M{g}:{id}"), Some(c), |s| unit(s.save_message(mk_msg(g, id, c)))); c }
    fn find_message(&mut self, g: u64, id: u64) -> Obs {
        self.call("find_message", format!("M{g}:{id}"), None, |s| match s.find_message_by_event_id(&gid(g), &eid(g * 1000 + id)) {
            Ok(Some(m)) => match msg_code(&m) { Ok((gg, ii, c)) if gg == g && ii == id => Obs::Val(Some(c)), Ok(x) => Obs::Torn(format!("wrong message returned {x:?}")), Err(e) => Obs::Torn(e) },
            Ok(None) => Obs::Val(None), Err(e) => Obs::Err(e.to_string()) })
    }
    fn messages(&mut self, g: u64) -> Obs {
        self.call("messages", format!("L{g}"), None, |s| match s.messages(&gid(g), Some(Pagination::new(Some(1000), Some(0)))) {
            Ok(v) => { let mut l = vec![]; for m in &v { match msg_code(m) { Ok((gg, id, c)) if gg == g => l.push((id, c)), Ok(x) => return Obs::Torn(format!("message of another group listed {x:?}")), Err(e) => return Obs::Torn(e) } } Obs::List(l) }
            Err(e) => Obs::Err(e.to_string()) })
    }
    fn replace_relays(&mut self, g: u64) { let t = self.t; self.call("replace_group_relays", format!("R{g}"), Some(t as u64), |s| unit(s.replace_group_relays(&gid(g), thread_relays(t).into_iter().map(relay).collect()))); }
    fn group_relays(&mut self, g: u64) -> Obs {
        self.call("group_relays", format!("R{g}"), None, |s| match s.group_relays(&gid(g)) {
            Ok(set) => { let mut v: Vec<u64> = set.iter().map(|r| relay_n(&r.relay_url)).collect(); v.sort(); Obs::List(v.into_iter().map(|x| (x, 0)).collect()) }
            Err(e) => Obs::Err(e.to_string()) })
    }
    fn save_secret(&mut self, g: u64, e: u64) -> u64 { let c = self.code(); self.call("save_group_exporter_secret", format!("S{g}:{e}"), Some(c), |s| unit(s.save_group_exporter_secret(GroupExporterSecret { mls_group_id: gid(g), epoch: e, secret: Secret::new(b32(c)) }))); c }
    fn get_secret(&mut self, g: u64, e: u64) -> Obs {
        self.call("get_group_exporter_secret", format!("S{g}:{e}"), None, |s| match s.get_group_exporter_secret(&gid(g), e) {
            Ok(Some(x)) => if x.epoch == e && gid_n(&x.mls_group_id) == g { Obs::Val(Some(b32_n(&*x.secret))) } else { Obs::Torn(format!("secret of ({},{}) returned for ({g},{e})", gid_n(&x.mls_group_id), x.epoch)) },
            Ok(None) => Obs::Val(None), Err(e) => Obs::Err(e.to_string()) })
    }
    fn snap(&mut self, g: u64, name: &str) -> Obs { let n = name.to_string(); self.call("create_group_snapshot", format!("P{g}:{name}"), None, move |s| unit(s.create_group_snapshot(&gid(g), &n))) }
    fn rollback(&mut self, g: u64, name: &str) -> Obs { let n = name.to_string(); self.call("rollback_group_to_snapshot", format!("P{g}:{name}"), None, move |s| unit(s.rollback_group_to_snapshot(&gid(g), &n))) }
    fn release(&mut self, g: u64, name: &str) -> Obs { let n = name.to_string(); self.call("release_group_snapshot", format!("P{g}:{name}"), None, move |s| unit(s.release_group_snapshot(&gid(g), &n))) }
    fn list_snaps(&mut self, g: u64) -> Obs {
        self.call("list_group_snapshots", format!("P{g}"), None, |s| match s.list_group_snapshots(&gid(g)) { Ok(v) => Obs::Names(v.into_iter().map(|(n, _)| n).collect()), Err(e) => Obs::Err(e.to_string()) })
    }
    fn expect(&mut self, what: &str, got: &Obs, want: String) { let g = format!("{got:?}"); if g != want { self.priv_fail.push(format!("thread {} private group: {what}: expected {want}, got {g}", self.t)); } }
}
fn unit<E: std::fmt::Display>(r: Result<(), E>) -> Obs { match r { Ok(()) => Obs::None, Err(e) => Obs::Err(e.to_string()) } }

/// expected (sequential) state of a thread's private group
#[derive(Clone, Default)]
struct Priv { group: u64, relays: Vec<u64>, secrets: BTreeMap<u64, u64>, msgs: BTreeMap<u64, u64>, snaps: BTreeMap<String, (u64, Vec<u64>, BTreeMap<u64, u64>)> }

fn thread_body<S: MdkStorageProvider>(s: &S, t: usize, seed: u64, nops: u64, nthreads: usize) -> (Vec<Rec>, Vec<String>) {
    let mut c = Ctx { s, t, log: vec![], r: Rng::new(seed), counter: 0, priv_fail: vec![] };
    let pg = 100 + t as u64;
    let mut p = Priv { group: 0, relays: INIT_RELAYS.to_vec(), ..Default::default() };
    let mut snap_no = 0u64;
    let _ = nthreads;
    for _ in 0..nops {
        let g = 1 + c.r.below(SHARED);
        match c.r.below(100) {
            0..=9 => { c.save_group(g); }
            10..=17 => { c.find_group(g); }
            18..=27 => { let id = c.r.below(MSG_POOL); c.save_message(g, id); }
            28..=33 => { let id = c.r.below(MSG_POOL); c.find_message(g, id); }
            34..=41 => { c.messages(g); }
            42..=49 => { c.replace_relays(g); }
            50..=57 => { c.group_relays(g); }
            58..=62 => { let e = c.r.below(3); c.save_secret(g, e); }
            63..=67 => { let e = c.r.below(3); c.get_secret(g, e); }
            68..=73 => {
                // snapshots of a SHARED group under thread-private names: create, list, then rollback or release
                let name = format!("t{t}s{snap_no}"); snap_no += 1;
                c.snap(g, &name);
                if let Obs::Names(l) = c.list_snaps(g) { if !l.contains(&name) { c.priv_fail.push(format!("thread {t}: own snapshot {name} of shared group {g} not listed right after creating it: {l:?}")); } }
                if c.r.chance(1, 2) { c.rollback(g, &name); } else { c.release(g, &name); }
                if let Obs::Names(l) = c.list_snaps(g) { if l.contains(&name) { c.priv_fail.push(format!("thread {t}: snapshot {name} of shared group {g} still listed after rollback/release: {l:?}")); } }
            }
            // ---- private group: owner-only, must behave exactly sequentially
            74..=79 => { p.group = c.save_group(pg); }
            80..=83 => { let o = c.find_group(pg); c.expect("find_group", &o, format!("{:?}", Obs::Val(Some(p.group)))); }
            84..=86 => { c.replace_relays(pg); p.relays = thread_relays(t); let o = c.group_relays(pg); c.expect("group_relays", &o, format!("{:?}", Obs::List(p.relays.iter().map(|x| (*x, 0)).collect()))); }
            87..=89 => { let id = c.r.below(4); let code = c.save_message(pg, id); p.msgs.insert(id, code);
                         if let Obs::List(mut l) = c.messages(pg) { l.sort(); let want: Vec<(u64, u64)> = p.msgs.iter().map(|(a, b)| (*a, *b)).collect(); if l != want { c.priv_fail.push(format!("thread {t} private group: messages: expected {want:?}, got {l:?}")); } } }
            90..=91 => { let e = c.r.below(2); let code = c.save_secret(pg, e); p.secrets.insert(e, code); let o = c.get_secret(pg, e); c.expect("get_group_exporter_secret", &o, format!("{:?}", Obs::Val(Some(code)))); }
            _ => {
                // snapshot -> marker writes -> rollback: the pre-snapshot values must be back
                let name = format!("p{t}s{snap_no}"); snap_no += 1;
                c.snap(pg, &name);
                p.snaps.insert(name.clone(), (p.group, p.relays.clone(), p.secrets.clone()));
                let before = p.clone();
                p.group = c.save_group(pg);
                if c.r.chance(1, 2) { c.replace_relays(pg); p.relays = thread_relays(t); }
                if c.r.chance(1, 2) { let code = c.save_secret(pg, 0); p.secrets.insert(0, code); }
                if let Obs::Names(mut l) = c.list_snaps(pg) { l.sort(); let want: Vec<String> = p.snaps.keys().cloned().collect(); let mut w = want.clone(); w.sort(); if l != w { c.priv_fail.push(format!("thread {t} private group: snapshots listed {l:?}, expected {w:?}")); } }
                if c.r.chance(3, 4) {
                    let o = c.rollback(pg, &name); c.expect("rollback", &o, format!("{:?}", Obs::None));
                    p.snaps.remove(&name);
                    p.group = before.group; p.relays = before.relays.clone(); p.secrets = before.secrets.clone();
                    let o = c.find_group(pg); c.expect("find_group after rollback", &o, format!("{:?}", Obs::Val(Some(p.group))));
                    let o = c.group_relays(pg); c.expect("group_relays after rollback", &o, format!("{:?}", Obs::List(p.relays.iter().map(|x| (*x, 0)).collect())));
                    let o = c.get_secret(pg, 0); c.expect("secret after rollback", &o, format!("{:?}", Obs::Val(p.secrets.get(&0).copied())));
                } else { c.release(pg, &name); p.snaps.remove(&name); }
            }
        }
    }
    // final look at the private group
    let o = c.find_group(pg); c.expect("final find_group", &o, format!("{:?}", Obs::Val(Some(p.group))));
    (c.log, c.priv_fail)
}

fn populate<S: MdkStorageProvider>(s: &S, nthreads: usize) {
    let groups: Vec<u64> = (1..=SHARED).chain((0..nthreads as u64).map(|t| 100 + t)).collect();
    for g in groups {
        s.save_group(mk_group(g, 0)).unwrap();
        s.replace_group_relays(&gid(g), INIT_RELAYS.iter().map(|n| relay(*n)).collect()).unwrap();
    }
}

struct Outcome { logs: Vec<Rec>, fails: Vec<(String, String)>, ops: u64 }

fn run_backend<S: MdkStorageProvider + Send + Sync + 'static>(store: Arc<S>, backend: &str, nthreads: usize, rs: u64) -> Outcome {
    let mut fails: Vec<(String, String)> = vec![];
    populate(&*store, nthreads);
    let barrier = Arc::new(Barrier::new(nthreads));
    let mut seeds = Rng::new(rs);
    let mut handles = vec![];
    for t in 0..nthreads {
        let (st, b, seed) = (store.clone(), barrier.clone(), seeds.next());
        let nops = (30 + seeds.below(31)) / if backend == "sqlite" { 2 } else { 1 };   // SQLite: every write is an fsync'ed transaction
        handles.push(std::thread::spawn(move || { b.wait(); thread_body(&*st, t, seed, nops, nthreads) }));
    }
    let t0 = Instant::now();
    while handles.iter().any(|h| !h.is_finished()) {
        if t0.elapsed() > Duration::from_secs(20) {
            let stuck: Vec<usize> = handles.iter().enumerate().filter(|(_, h)| !h.is_finished()).map(|(i, _)| i).collect();
            fails.push(("deadlock".into(), format!("[{backend}] threads {stuck:?} of {nthreads} did not finish within 20 s")));
            return Outcome { logs: vec![], fails, ops: 0 };   // the stuck threads are abandoned
        }
        std::thread::sleep(Duration::from_millis(2));
    }
    let mut logs: Vec<Rec> = vec![];
    for (t, h) in handles.into_iter().enumerate() {
        match h.join() { Ok((l, pf)) => { logs.extend(l); for f in pf { fails.push(("isolation".into(), format!("[{backend}] {f}"))); } }
                         Err(_) => fails.push(("panic".into(), format!("[{backend}] thread {t} panicked outside a storage call"))) }
    }
    // ---- oracles over the joined logs
    let mut written: HashMap<String, Vec<(u64, u64)>> = HashMap::new();   // key -> (value, start stamp of the write)
    for r in &logs { if let Some(v) = r.wrote { written.entry(r.key.clone()).or_default().push((v, r.start)); } }
    let was_written = |key: &str, v: u64, before: u64| written.get(key).map(|w| w.iter().any(|(x, st)| *x == v && *st < before)).unwrap_or(false);
    let relay_set_ok = |key: &str, l: &Vec<(u64, u64)>, before: u64| -> bool {
        let v: Vec<u64> = l.iter().map(|x| x.0).collect();
        v == INIT_RELAYS.to_vec() || (0..nthreads).any(|t| v == thread_relays(t) && was_written(key, t as u64, before))
    };
    for r in &logs {
        match &r.obs {
            Obs::Panic => fails.push(("panic".into(), format!("[{backend}] storage call panicked: {}", r.show()))),
            Obs::Err(e) => fails.push(("error".into(), format!("[{backend}] storage call failed although its group exists: {} ({e})", r.show()))),
            Obs::Torn(e) => fails.push(("torn".into(), format!("[{backend}] {e}: {}", r.show()))),
            Obs::Val(Some(v)) => { if *v != 0 && !was_written(&r.key, *v, r.end) { fails.push(("phantom".into(), format!("[{backend}] value {v} was never written to {} before the read ended: {}", r.key, r.show()))); } }
            Obs::Val(None) => { if r.kind == "find_group" { fails.push(("lost".into(), format!("[{backend}] group disappeared: {}", r.show()))); } }
            Obs::List(l) if r.kind == "group_relays" => { if !relay_set_ok(&r.key, l, r.end) { fails.push(("torn".into(), format!("[{backend}] relay listing is not one writer's set: {}", r.show()))); } }
            Obs::List(l) if r.kind == "messages" => {
                let g = &r.key[1..];
                let ids: HashSet<u64> = l.iter().map(|x| x.0).collect();
                if ids.len() != l.len() { fails.push(("duplicate".into(), format!("[{backend}] message listing has duplicates: {}", r.show()))); }
                for (id, c) in l { if !was_written(&format!("M{g}:{id}"), *c, r.end) { fails.push(("phantom".into(), format!("[{backend}] listed message {id} (version {c}) of group {g} was never saved: {}", r.show()))); break; } }
            }
            _ => {}
        }
    }
    // final state: every key holds a value some write put there (or the initial one)
    let mut c = Ctx { s: &*store, t: 999, log: vec![], r: Rng::new(1), counter: 0, priv_fail: vec![] };
    for g in 1..=SHARED {
        match c.find_group(g) { Obs::Val(Some(v)) => if v != 0 && !was_written(&format!("G{g}"), v, u64::MAX) { fails.push(("phantom".into(), format!("[{backend}] final record of group {g} has version {v} nobody wrote"))); },
                                o => fails.push(("lost".into(), format!("[{backend}] final read of group {g}: {o:?}"))) }
        if let Obs::List(l) = c.group_relays(g) { if !relay_set_ok(&format!("R{g}"), &l, u64::MAX) { fails.push(("torn".into(), format!("[{backend}] final relay set of group {g} is not one writer's set: {l:?}"))); } }
        for id in 0..MSG_POOL {
            match c.find_message(g, id) {
                Obs::Val(Some(v)) => if !was_written(&format!("M{g}:{id}"), v, u64::MAX) { fails.push(("phantom".into(), format!("[{backend}] final message {id} of group {g} has version {v} nobody wrote"))); },
                Obs::Val(None) => if written.contains_key(&format!("M{g}:{id}")) { fails.push(("lost".into(), format!("[{backend}] message {id} of group {g} was saved but is absent at the end"))); },
                _ => {}
            }
        }
        for e in 0..3 { if let Obs::Val(Some(v)) = c.get_secret(g, e) { if !was_written(&format!("S{g}:{e}"), v, u64::MAX) { fails.push(("phantom".into(), format!("[{backend}] final secret ({g},{e}) = {v} nobody wrote"))); } } }
        if let Obs::Names(l) = c.list_snaps(g) { if !l.is_empty() { fails.push(("leak".into(), format!("[{backend}] snapshots of group {g} left behind although each was rolled back or released: {l:?}"))); } }
    }
    for r in &c.log { if matches!(r.obs, Obs::Panic | Obs::Err(_) | Obs::Torn(_)) { fails.push(("final".into(), format!("[{backend}] final read failed: {}", r.show()))); } }
    let ops = logs.len() as u64;
    Outcome { logs, fails, ops }
}

/// pairs of call kinds (of different threads) whose [start,end] stamp intervals overlapped
fn overlaps(logs: &[Rec], m: &mut BTreeMap<(String, String), u64>) {
    let mut v: Vec<&Rec> = logs.iter().collect();
    v.sort_by_key(|r| r.start);
    for i in 0..v.len() {
        for j in i + 1..v.len() {
            if v[j].start > v[i].end { break; }
            if v[i].thread != v[j].thread { *m.entry((v[i].kind.to_string(), v[j].kind.to_string())).or_insert(0) += 1; }
        }
    }
}

/// 8 threads open the same fresh database path at the same moment
fn first_open(dir: &std::path::Path, fails: &mut Vec<(String, String)>) {
    let path = dir.join("shared.db");
    let barrier = Arc::new(Barrier::new(8));
    let hs: Vec<_> = (0..8u64).map(|i| { let (p, b) = (path.clone(), barrier.clone()); std::thread::spawn(move || {
        b.wait();
        let r = catch_unwind(AssertUnwindSafe(|| MdkSqliteStorage::new_unencrypted(&p).map_err(|e| e.to_string())));
        match r { Ok(Ok(s)) => { let w = catch_unwind(AssertUnwindSafe(|| s.save_group(mk_group(200 + i, 1)).map_err(|e| e.to_string()))); (Some(s), match w { Ok(Ok(())) => None, Ok(Err(e)) => Some(format!("save_group after open: {e}")), Err(_) => Some("save_group after open panicked".into()) }) }
                  Ok(Err(e)) => (None, Some(format!("open failed: {e}"))), Err(_) => (None, Some("open panicked".into())) } }) }).collect();
    let mut stores = vec![];
    for (i, h) in hs.into_iter().enumerate() {
        match h.join() { Ok((s, e)) => { if let Some(e) = e { fails.push(("first-open".into(), format!("[sqlite] concurrent first open of one path, thread {i}: {e}"))); } if let Some(s) = s { stores.push(s); } }
                         Err(_) => fails.push(("first-open".into(), format!("[sqlite] first-open thread {i} panicked"))) }
    }
    if fails.iter().any(|f| f.0 == "first-open") { return; }
    for (i, s) in stores.iter().enumerate() {
        for k in 0..8u64 { match catch_unwind(AssertUnwindSafe(|| s.find_group_by_mls_group_id(&gid(200 + k)).map_err(|e| e.to_string()))) {
            Ok(Ok(Some(_))) => {}, other => { fails.push(("first-open".into(), format!("[sqlite] instance {i} does not see the group written through instance {k}: {:?}", other.map(|x| x.map(|y| y.is_some()))))); return; } } }
    }
}

fn main() {
    std::panic::set_hook(Box::new(|_| {}));
    let out = arg("--out").unwrap_or("/verif/.cache/run/conc_stress".into());
    let mut run = Run::new(&out, "2..16 threads on ONE storage instance per backend (memory; SQLite file), 30-60 random calls each over 3 shared groups (6 message ids, 3 secret epochs, thread-specific relay sets, thread-private snapshot names incl. rollback of shared groups) and one private group per thread (snapshot -> marker -> rollback cycles), yield_now at random points, barrier start; oracles: panic, deadlock watchdog 20 s, unexpected error, torn record / relay set, value never written, duplicate or unsaved listed message, private-group sequential expectations, leftover snapshots, 8-thread first-open of one path; non-trivial = distinct (call kind, call kind) pairs of different threads observed overlapping in time");
    std::fs::create_dir_all("/verif/.cache/tmp").unwrap();
    // (run index, threads, backends, per-run seed)
    let mut plan: Vec<(u64, usize, Vec<String>, u64)> = vec![];
    let corpus = if arg("--cases").is_none() { Some("/verif/corpus/conc.txt".to_string()).filter(|p| std::path::Path::new(p).exists()) } else { None };
    if let Some(f) = arg("--cases").or(corpus) {
        for l in std::fs::read_to_string(f).unwrap().lines().filter(|l| l.starts_with("CS ")) {
            let kv: HashMap<&str, &str> = l.split(' ').filter_map(|t| t.split_once('=')).collect();
            if let Some(n) = kv.get("firstopen") { plan.push((0, n.parse().unwrap(), vec!["firstopen".into()], 0)); continue; }
            plan.push((kv["run"].parse().unwrap(), kv["threads"].parse().unwrap(), vec![kv["backend"].to_string()], kv["rs"].parse().unwrap()));
        }
    }
    if arg("--cases").is_none() {
        let runs: u64 = arg("--runs").and_then(|s| s.parse().ok()).unwrap_or(40);
        let mut master = Rng::from_env();
        for i in 0..runs { let rs = master.next(); let threads = 2 + (Rng::new(rs).below(15)) as usize; plan.push((i, threads, vec!["memory".into(), "sqlite".into()], rs)); }
    }
    let mut matrix: BTreeMap<(String, String), u64> = BTreeMap::new();
    let mut total_ops = 0u64;
    let t_all = Instant::now();
    for (i, threads, backends, rs) in plan {
        for b in backends {
            let dir = tempfile::Builder::new().prefix("cs").tempdir_in("/verif/.cache/tmp").unwrap();
            if b == "firstopen" {
                // replay form of the first-open oracle: up to `threads` attempts, each on a fresh directory
                let case = format!("CS firstopen={threads}");
                let mut fails = vec![];
                for _ in 0..threads { let d = tempfile::Builder::new().prefix("cs").tempdir_in("/verif/.cache/tmp").unwrap(); first_open(d.path(), &mut fails); run.count("first-open x8"); if !fails.is_empty() { break; } }
                if let Some((_, d)) = fails.first() { run.oracle_fail("C19", FIRST_OPEN_CLASS, format!("first-open: {d}"), case.clone()); }
                run.case("firstopen", true, case, "ok".into());
                continue;
            }
            let case = format!("CS run={i} threads={threads} backend={b} rs={rs}");
            let mut o = if b == "memory" { run_backend(Arc::new(MdkMemoryStorage::new()), "memory", threads, rs) }
                        else { run_backend(Arc::new(MdkSqliteStorage::new_unencrypted(dir.path().join("s.db")).unwrap()), "sqlite", threads, rs) };
            if b == "sqlite" && i % 2 == 0 { first_open(dir.path(), &mut o.fails); run.count("first-open x8"); }
            let deadlocked = o.fails.iter().any(|f| f.0 == "deadlock");
            overlaps(&o.logs, &mut matrix);
            total_ops += o.ops;
            for r in &o.logs { run.count(&format!("{b}:{}", r.kind)); }
            if run.samples.len() < 6 { if let Some(r) = o.logs.iter().find(|r| r.wrote.is_none() && r.thread == 1) { run.samples.push(format!("{case} :: {}", r.show())); } }
            let mut seen = HashSet::new();
            for (kind, d) in o.fails.iter().take(40) {
                if !(seen.insert(kind.clone()) || seen.len() < 8) { continue; }
                // class predicate: the first-open oracle failed with a migration error (two connections both apply the pending migrations)
                if kind == "first-open" && d.contains("Migration error") { run.oracle_fail("C19", FIRST_OPEN_CLASS, format!("{kind}: {d}"), "CS firstopen=40".into()); }
                else { run.oracle_fail("C19", "", format!("{kind}: {d}"), case.clone()); }
            }
            run.case(&format!("threads={threads}"), true, case, "ok".into());
            if deadlocked { run.finish(); eprintln!("conc_stress: deadlock watchdog fired; abandoning stuck threads"); std::process::exit(0); }
        }
    }
    for ((a, b), n) in &matrix { run.dist.insert(format!("overlap {a} || {b}"), *n); }
    run.nontrivial = matrix.keys().map(|(a, b)| format!("{a}||{b}")).collect();
    run.finish();
    // evaluations = storage calls executed (the case lines only carry the replay information)
    let p = std::path::Path::new(&out).join("stats.json");
    let mut st: serde_json::Value = serde_json::from_str(&std::fs::read_to_string(&p).unwrap()).unwrap();
    st["evaluations"] = serde_json::json!(total_ops);
    st["runs"] = serde_json::json!(run.cases.len());
    std::fs::write(&p, serde_json::to_string_pretty(&st).unwrap()).unwrap();
    println!("conc_stress: {} backend-runs, {} storage calls, {} overlapping kind pairs, {} oracle failures, {:.1}s", run.cases.len(), total_ops, matrix.len(), run.oracle.len(), t_all.elapsed().as_secs_f64());
}
