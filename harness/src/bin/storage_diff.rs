//! storage_diff – operation sequences over the storage traits, run on one backend (`--backend mem|sqlite`)
//! and printed in the canonical text the extracted Coq contract model (Store/Contract.v) prints.
//!
//! Case lines: `ST RESET` starts a fresh store; every other `ST <Op> <args>` line is one trait call.
//! The abstract numbers in a case are mapped to real ids / keys / payloads in an order-preserving way.
use std::collections::{BTreeMap, BTreeSet};
use std::panic::{AssertUnwindSafe, catch_unwind};

use mdk_memory_storage::MdkMemoryStorage;
use mdk_sqlite_storage::MdkSqliteStorage;
use mdk_storage_traits::groups::types::{Group, GroupExporterSecret, GroupState, SelfUpdateState};
use mdk_storage_traits::groups::{MessageSortOrder, Pagination};
use mdk_storage_traits::messages::types::{Message, MessageState, ProcessedMessage, ProcessedMessageState};
use mdk_storage_traits::welcomes::types::{ProcessedWelcome, ProcessedWelcomeState, Welcome, WelcomeState};
use mdk_storage_traits::welcomes::Pagination as WPagination;
use mdk_storage_traits::{GroupId, MdkStorageProvider, Secret};
use mdk_storage_traits::groups::GroupStorage as _;
use mdk_storage_traits::messages::MessageStorage as _;
use mdk_verif_harness::out::{Run, arg};
use mdk_verif_harness::rng::Rng;
use nostr::{EventId, Keys, Kind, PublicKey, RelayUrl, Tag, Tags, Timestamp, UnsignedEvent};
use openmls_traits::storage::{CURRENT_VERSION, Entity, Key, traits};
use serde::{Deserialize, Serialize};

// ---------------------------------------------------------------- dummy OpenMLS entities
#[derive(Debug, Clone, PartialEq, Eq, Serialize, Deserialize)]
struct Blob(u64);
impl Entity<CURRENT_VERSION> for Blob {}
impl Key<CURRENT_VERSION> for Blob {}
impl traits::TreeSync<CURRENT_VERSION> for Blob {}
impl traits::GroupContext<CURRENT_VERSION> for Blob {}
impl traits::InterimTranscriptHash<CURRENT_VERSION> for Blob {}
impl traits::ConfirmationTag<CURRENT_VERSION> for Blob {}
impl traits::QueuedProposal<CURRENT_VERSION> for Blob {}
impl traits::ProposalRef<CURRENT_VERSION> for Blob {}
impl traits::LeafNode<CURRENT_VERSION> for Blob {}
impl traits::EpochKey<CURRENT_VERSION> for Blob {}
impl traits::HpkeKeyPair<CURRENT_VERSION> for Blob {}
impl traits::HashReference<CURRENT_VERSION> for Blob {}
impl traits::KeyPackage<CURRENT_VERSION> for Blob {}
impl traits::PskId<CURRENT_VERSION> for Blob {}
impl traits::PskBundle<CURRENT_VERSION> for Blob {}
impl traits::SignaturePublicKey<CURRENT_VERSION> for Blob {}
impl traits::SignatureKeyPair<CURRENT_VERSION> for Blob {}
impl traits::EncryptionKey<CURRENT_VERSION> for Blob {}

// ---------------------------------------------------------------- number <-> value maps
struct Maps { keys: Vec<PublicKey> }
impl Maps {
    fn new() -> Self {
        // deterministic key pool (valid x-only keys), sorted so that index order = byte order
        let mut keys: Vec<PublicKey> = (1u8..=12).map(|i| {
            let mut sk = [0u8; 32]; sk[31] = i; sk[0] = 1;
            Keys::new(nostr::SecretKey::from_slice(&sk).unwrap()).public_key()
        }).collect();
        keys.sort();
        Maps { keys }
    }
    fn gid(&self, n: u64) -> GroupId { GroupId::from_slice(&[b'g', (n >> 8) as u8, n as u8]) }
    fn gid_n(&self, g: &GroupId) -> u64 { let b = g.as_slice(); ((b[1] as u64) << 8) | b[2] as u64 }
    fn b32(&self, n: u64) -> [u8; 32] { let mut b = [0u8; 32]; b[24..].copy_from_slice(&n.to_be_bytes()); b }
    fn b32_n(&self, b: &[u8]) -> u64 { u64::from_be_bytes(b[24..32].try_into().unwrap()) }
    fn eid(&self, n: u64) -> EventId { EventId::from_byte_array(self.b32(n)) }
    fn eid_n(&self, e: &EventId) -> u64 { self.b32_n(e.as_bytes()) }
    fn pk(&self, n: u64) -> PublicKey { self.keys[(n as usize) % self.keys.len()] }
    fn pk_n(&self, p: &PublicKey) -> u64 { self.keys.iter().position(|k| k == p).unwrap() as u64 }
    fn relay(&self, n: u64) -> RelayUrl { RelayUrl::parse(&format!("wss://r{n}.example.com")).unwrap() }
    fn relay_n(&self, r: &RelayUrl) -> u64 { r.to_string().trim_start_matches("wss://r").split('.').next().unwrap().parse().unwrap() }
    fn name(&self, n: u64) -> String { format!("n{n}") }
    fn name_n(&self, s: &str) -> u64 { s[1..].parse().unwrap() }
}

fn opt(s: &str) -> Option<u64> { if s == "-" { None } else { Some(s.parse().unwrap()) } }
fn show_opt(o: Option<u64>) -> String { o.map(|x| x.to_string()).unwrap_or("-".into()) }
fn list(s: &str) -> Vec<u64> { if s == "-" { vec![] } else { s.split(',').map(|x| x.parse().unwrap()).collect() } }
fn show_list(l: &[u64]) -> String { if l.is_empty() { "-".into() } else { l.iter().map(|x| x.to_string()).collect::<Vec<_>>().join(",") } }

fn gstate(n: u64) -> GroupState { match n { 0 => GroupState::Active, 1 => GroupState::Inactive, _ => GroupState::Pending } }
fn gstate_n(s: GroupState) -> u64 { match s { GroupState::Active => 0, GroupState::Inactive => 1, GroupState::Pending => 2 } }
fn mstate(n: u64) -> MessageState { match n { 0 => MessageState::Created, 1 => MessageState::Processed, 2 => MessageState::Deleted, _ => MessageState::EpochInvalidated } }
fn mstate_n(s: MessageState) -> u64 { match s { MessageState::Created => 0, MessageState::Processed => 1, MessageState::Deleted => 2, MessageState::EpochInvalidated => 3 } }
fn pstate(n: u64) -> ProcessedMessageState { use ProcessedMessageState::*; match n { 0 => Created, 1 => Processed, 2 => ProcessedCommit, 3 => Failed, 4 => EpochInvalidated, _ => Retryable } }
fn pstate_n(s: ProcessedMessageState) -> u64 { use ProcessedMessageState::*; match s { Created => 0, Processed => 1, ProcessedCommit => 2, Failed => 3, EpochInvalidated => 4, Retryable => 5 } }
fn wstate(n: u64) -> WelcomeState { match n { 0 => WelcomeState::Pending, 1 => WelcomeState::Accepted, 2 => WelcomeState::Declined, _ => WelcomeState::Ignored } }
fn wstate_n(s: WelcomeState) -> u64 { match s { WelcomeState::Pending => 0, WelcomeState::Accepted => 1, WelcomeState::Declined => 2, WelcomeState::Ignored => 3 } }

fn show_group(m: &Maps, g: &Group) -> String {
    let mut adm: Vec<u64> = g.admin_pubkeys.iter().map(|p| m.pk_n(p)).collect(); adm.sort();
    let img = match (&g.image_hash, &g.image_key, &g.image_nonce) { (Some(h), Some(_), Some(_)) => m.b32_n(h), _ => 0 };
    format!("g({},{},{},{},{},{},{},{},{},{},{},{})", m.gid_n(&g.mls_group_id), m.b32_n(&g.nostr_group_id), m.name_n(&g.name), m.name_n(&g.description),
        show_list(&adm), img, show_opt(g.last_message_id.map(|e| m.eid_n(&e))), show_opt(g.last_message_at.map(|t| t.as_secs())),
        show_opt(g.last_message_processed_at.map(|t| t.as_secs())), g.epoch, gstate_n(g.state),
        match g.self_update_state { SelfUpdateState::Required => 0, SelfUpdateState::CompletedAt(t) => t.as_secs() })
}
fn show_msg(m: &Maps, x: &Message) -> String {
    let tags = x.tags.iter().next().and_then(|t| t.content().map(|c| c[1..].parse::<u64>().unwrap())).unwrap_or(0);
    // the stored `event` must agree with the columns
    let ev_ok = x.event.id == Some(x.id) && x.event.pubkey == x.pubkey && x.event.created_at == x.created_at && x.event.content == x.content;
    format!("m({},{},{},{},{},{},{},{},{},{},{}){}", m.eid_n(&x.id), m.gid_n(&x.mls_group_id), m.pk_n(&x.pubkey), x.kind.as_u16(), x.created_at.as_secs(),
        x.processed_at.as_secs(), m.name_n(&x.content), tags, m.eid_n(&x.wrapper_event_id), show_opt(x.epoch), mstate_n(x.state), if ev_ok { "" } else { "!event" })
}
fn show_pmsg(m: &Maps, p: &ProcessedMessage) -> String {
    format!("p({},{},{},{},{},{},{})", m.eid_n(&p.wrapper_event_id), show_opt(p.message_event_id.map(|e| m.eid_n(&e))), p.processed_at.as_secs(),
        show_opt(p.epoch), show_opt(p.mls_group_id.as_ref().map(|g| m.gid_n(g))), pstate_n(p.state), show_opt(p.failure_reason.as_ref().map(|s| m.name_n(s))))
}
fn show_welcome(m: &Maps, w: &Welcome) -> String {
    format!("w({},{},{},{},{},{})", m.eid_n(&w.id), m.gid_n(&w.mls_group_id), m.b32_n(&w.nostr_group_id), m.name_n(&w.group_name), wstate_n(w.state), m.eid_n(&w.wrapper_event_id))
}
fn show_pw(m: &Maps, p: &ProcessedWelcome) -> String {
    format!("pw({},{},{},{},{})", m.eid_n(&p.wrapper_event_id), show_opt(p.welcome_event_id.map(|e| m.eid_n(&e))), p.processed_at.as_secs(),
        match p.state { ProcessedWelcomeState::Processed => 0, ProcessedWelcomeState::Failed => 1 }, show_opt(p.failure_reason.as_ref().map(|s| m.name_n(s))))
}
fn join(mut v: Vec<String>, sort: bool) -> String { if sort { v.sort(); } if v.is_empty() { "-".into() } else { v.join(";") } }

fn mk_group(m: &Maps, a: &[&str]) -> Group {
    let img = a[5].parse::<u64>().unwrap();
    Group {
        mls_group_id: m.gid(a[0].parse().unwrap()), nostr_group_id: m.b32(a[1].parse().unwrap()),
        name: m.name(a[2].parse().unwrap()), description: m.name(a[3].parse().unwrap()),
        admin_pubkeys: list(a[4]).into_iter().map(|n| m.pk(n)).collect(),
        image_hash: if img == 0 { None } else { Some(m.b32(img)) },
        image_key: if img == 0 { None } else { Some(Secret::new(m.b32(img + 1))) },
        image_nonce: if img == 0 { None } else { Some(Secret::new([img as u8; 12])) },
        last_message_id: opt(a[6]).map(|n| m.eid(n)), last_message_at: opt(a[7]).map(Timestamp::from),
        last_message_processed_at: opt(a[8]).map(Timestamp::from),
        epoch: a[9].parse().unwrap(), state: gstate(a[10].parse().unwrap()),
        self_update_state: match a[11].parse::<u64>().unwrap() { 0 => SelfUpdateState::Required, t => SelfUpdateState::CompletedAt(Timestamp::from(t)) },
    }
}
fn mk_msg(m: &Maps, a: &[&str]) -> Message {
    let n = |i: usize| a[i].parse::<u64>().unwrap();
    let tags = Tags::from_list(vec![Tag::parse(["t".to_string(), format!("v{}", n(7))]).unwrap()]);
    let mut ev = UnsignedEvent::new(m.pk(n(2)), Timestamp::from(n(4)), Kind::from(n(3) as u16), tags.clone(), m.name(n(6)));
    ev.id = Some(m.eid(n(0)));
    Message { id: m.eid(n(0)), mls_group_id: m.gid(n(1)), pubkey: m.pk(n(2)), kind: Kind::from(n(3) as u16), created_at: Timestamp::from(n(4)),
        processed_at: Timestamp::from(n(5)), content: m.name(n(6)), tags, event: ev, wrapper_event_id: m.eid(n(8)), epoch: opt(a[9]), state: mstate(n(10)) }
}

/// Execute one case line on a backend; returns the canonical result text.
fn exec<S: MdkStorageProvider>(s: &S, m: &Maps, line: &str) -> String {
    let t: Vec<&str> = line.split(' ').collect();
    let a = &t[2..];
    let n = |i: usize| a[i].parse::<u64>().unwrap();
    let ok = |r: Result<(), String>| match r { Ok(()) => "ok".to_string(), Err(_) => "err".to_string() };
    let sort = |i: usize| if n(i) == 0 { MessageSortOrder::CreatedAtFirst } else { MessageSortOrder::ProcessedAtFirst };
    let og = |g: u64| m.gid(g);
    match t[1] {
        "UpdPtr" => {
            // pure: Group::update_last_message_if_newer on a group whose cached pointer is (at, processed_at, id) and a message
            // (created_at, processed_at, id):  ST UpdPtr <at|-> <pat|-> <id|-> <mat> <mpat> <mid>
            let ga = format!("0 0 0 0 - 0 {} {} {} 1 0 0", a[2], a[0], a[1]);
            let mut g = mk_group(m, &ga.split(' ').collect::<Vec<_>>());
            let ma = format!("{} 0 1 9 {} {} 0 0 0 - 1", a[5], a[3], a[4]);
            let msg = mk_msg(m, &ma.split(' ').collect::<Vec<_>>());
            let moved = g.update_last_message_if_newer(&msg);
            format!("ptr:{},{},{} moved={}", show_opt(g.last_message_at.map(|t| t.as_secs())), show_opt(g.last_message_processed_at.map(|t| t.as_secs())), show_opt(g.last_message_id.map(|e| m.eid_n(&e))), moved as u8)
        }
        "SaveGroup" => ok(s.save_group(mk_group(m, a)).map_err(|e| e.to_string())),
        "FindGroup" => match s.find_group_by_mls_group_id(&m.gid(n(0))) { Ok(g) => format!("group:{}", g.map(|g| show_group(m, &g)).unwrap_or("-".into())), Err(_) => "err".into() },
        "FindByNostr" => match s.find_group_by_nostr_group_id(&m.b32(n(0))) { Ok(g) => format!("group:{}", g.map(|g| show_group(m, &g)).unwrap_or("-".into())), Err(_) => "err".into() },
        "AllGroups" => match s.all_groups() { Ok(v) => format!("groups:{}", join(v.iter().map(|g| show_group(m, g)).collect(), true)), Err(_) => "err".into() },
        "Admins" => match s.admins(&m.gid(n(0))) { Ok(v) => { let mut l: Vec<u64> = v.iter().map(|p| m.pk_n(p)).collect(); l.sort(); format!("ids:{}", show_list(&l)) } Err(_) => "err".into() },
        "Relays" => match s.group_relays(&m.gid(n(0))) { Ok(v) => { let mut l: Vec<u64> = v.iter().map(|r| m.relay_n(&r.relay_url)).collect(); l.sort(); format!("ids:{}", show_list(&l)) } Err(_) => "err".into() },
        "ReplaceRelays" => ok(s.replace_group_relays(&m.gid(n(0)), list(a[1]).into_iter().map(|x| m.relay(x)).collect()).map_err(|e| e.to_string())),
        "GetSecret" => match s.get_group_exporter_secret(&m.gid(n(0)), n(1)) { Ok(v) => format!("val:{}", show_opt(v.map(|x| m.b32_n(&*x.secret)))), Err(_) => "err".into() },
        "SaveSecret" => ok(s.save_group_exporter_secret(GroupExporterSecret { mls_group_id: m.gid(n(0)), epoch: n(1), secret: Secret::new(m.b32(n(2))) }).map_err(|e| e.to_string())),
        "SaveMsg" => ok(s.save_message(mk_msg(m, a)).map_err(|e| e.to_string())),
        "FindMsg" => match s.find_message_by_event_id(&m.gid(n(0)), &m.eid(n(1))) { Ok(x) => format!("msg:{}", x.map(|x| show_msg(m, &x)).unwrap_or("-".into())), Err(_) => "err".into() },
        "Messages" => {
            let off: usize = if a[2] == "max" { usize::MAX } else if a[2] == "i64max1" { (i64::MAX as usize) + 1 } else { n(2) as usize };
            match s.messages(&m.gid(n(0)), Some(Pagination::with_sort_order(Some(n(1) as usize), Some(off), sort(3)))) {
                Ok(v) => format!("msgs:{}", join(v.iter().map(|x| show_msg(m, x)).collect(), false)), Err(_) => "err".into() }
        }
        "LastMessage" => match s.last_message(&m.gid(n(0)), sort(1)) { Ok(x) => format!("msg:{}", x.map(|x| show_msg(m, &x)).unwrap_or("-".into())), Err(_) => "err".into() },
        "SavePmsg" => ok(s.save_processed_message(ProcessedMessage { wrapper_event_id: m.eid(n(0)), message_event_id: opt(a[1]).map(|x| m.eid(x)), processed_at: Timestamp::from(n(2)),
            epoch: opt(a[3]), mls_group_id: opt(a[4]).map(og), state: pstate(n(5)), failure_reason: opt(a[6]).map(|x| m.name(x)) }).map_err(|e| e.to_string())),
        "FindPmsg" => match s.find_processed_message_by_event_id(&m.eid(n(0))) { Ok(x) => format!("pmsg:{}", x.map(|x| show_pmsg(m, &x)).unwrap_or("-".into())), Err(_) => "err".into() },
        "InvalidateMsgs" => match s.invalidate_messages_after_epoch(&m.gid(n(0)), n(1)) { Ok(v) => { let mut l: Vec<u64> = v.iter().map(|e| m.eid_n(e)).collect(); l.sort(); format!("ids:{}", show_list(&l)) } Err(_) => "err".into() },
        "InvalidatePmsgs" => match s.invalidate_processed_messages_after_epoch(&m.gid(n(0)), n(1)) { Ok(v) => { let mut l: Vec<u64> = v.iter().map(|e| m.eid_n(e)).collect(); l.sort(); format!("ids:{}", show_list(&l)) } Err(_) => "err".into() },
        "FindFailedRetry" => match s.find_failed_messages_for_retry(&m.gid(n(0))) { Ok(v) => { let mut l: Vec<u64> = v.iter().map(|e| m.eid_n(e)).collect(); l.sort(); format!("ids:{}", show_list(&l)) } Err(_) => "err".into() },
        "FindInvalidatedMsgs" => match s.find_invalidated_messages(&m.gid(n(0))) { Ok(v) => format!("msgs:{}", join(v.iter().map(|x| show_msg(m, x)).collect(), true)), Err(_) => "err".into() },
        "FindInvalidatedPmsgs" => match s.find_invalidated_processed_messages(&m.gid(n(0))) { Ok(v) => format!("pmsgs:{}", join(v.iter().map(|x| show_pmsg(m, x)).collect(), true)), Err(_) => "err".into() },
        "MarkRetryable" => match s.mark_processed_message_retryable(&m.eid(n(0))) { Ok(()) => "ok".into(), Err(mdk_storage_traits::messages::error::MessageError::NotFound) => "notfound".into(), Err(_) => "err".into() },
        "SaveWelcome" => {
            let ev = UnsignedEvent::new(m.pk(1), Timestamp::from(1), Kind::MlsWelcome, Tags::new(), "w".to_string());
            ok(s.save_welcome(Welcome { id: m.eid(n(0)), event: ev, mls_group_id: m.gid(n(1)), nostr_group_id: m.b32(n(2)), group_name: m.name(n(3)), group_description: "d".into(),
                group_image_hash: None, group_image_key: None, group_image_nonce: None, group_admin_pubkeys: BTreeSet::from([m.pk(1)]), group_relays: BTreeSet::from([m.relay(1)]),
                welcomer: m.pk(2), member_count: 2, state: wstate(n(4)), wrapper_event_id: m.eid(n(5)) }).map_err(|e| e.to_string()))
        }
        "FindWelcome" => match s.find_welcome_by_event_id(&m.eid(n(0))) { Ok(x) => format!("welcome:{}", x.map(|x| show_welcome(m, &x)).unwrap_or("-".into())), Err(_) => "err".into() },
        "PendingWelcomes" => match s.pending_welcomes(Some(WPagination::new(Some(n(0) as usize), Some(n(1) as usize)))) { Ok(v) => format!("welcomes:{}", join(v.iter().map(|x| show_welcome(m, x)).collect(), false)), Err(_) => "err".into() },
        "SavePwelcome" => ok(s.save_processed_welcome(ProcessedWelcome { wrapper_event_id: m.eid(n(0)), welcome_event_id: opt(a[1]).map(|x| m.eid(x)), processed_at: Timestamp::from(n(2)),
            state: if n(3) == 0 { ProcessedWelcomeState::Processed } else { ProcessedWelcomeState::Failed }, failure_reason: opt(a[4]).map(|x| m.name(x)) }).map_err(|e| e.to_string())),
        "FindPwelcome" => match s.find_processed_welcome_by_event_id(&m.eid(n(0))) { Ok(x) => format!("pwelcome:{}", x.map(|x| show_pw(m, &x)).unwrap_or("-".into())), Err(_) => "err".into() },
        "MlsWrite" => {
            let g = m.gid(n(0)); let g = g.inner(); let v = Blob(n(3));
            ok(match n(1) {
                0 => s.write_tree(g, &v), 1 => s.write_context(g, &v), 2 => s.write_interim_transcript_hash(g, &v), 3 => s.write_confirmation_tag(g, &v),
                4 => s.queue_proposal(g, &Blob(n(2)), &v),
                5 => s.write_encryption_epoch_key_pairs(g, &Blob(n(2) / 16), (n(2) % 16) as u32, &[v]),
                _ => s.append_own_leaf_node(g, &v),
            }.map_err(|e| e.to_string()))
        }
        "MlsRead" => {
            let g = m.gid(n(0)); let g = g.inner();
            let r: Result<Option<u64>, String> = match n(1) {
                0 => s.tree::<_, Blob>(g).map(|x| x.map(|b| b.0)).map_err(|e| e.to_string()),
                1 => s.group_context::<_, Blob>(g).map(|x| x.map(|b| b.0)).map_err(|e| e.to_string()),
                2 => s.interim_transcript_hash::<_, Blob>(g).map(|x| x.map(|b| b.0)).map_err(|e| e.to_string()),
                3 => s.confirmation_tag::<_, Blob>(g).map(|x| x.map(|b| b.0)).map_err(|e| e.to_string()),
                4 => s.queued_proposals::<_, Blob, Blob>(g).map(|v| v.into_iter().find(|(r, _)| r.0 == n(2)).map(|(_, p)| p.0)).map_err(|e| e.to_string()),
                5 => s.encryption_epoch_key_pairs::<_, Blob, Blob>(g, &Blob(n(2) / 16), (n(2) % 16) as u32).map(|v| v.first().map(|b| b.0)).map_err(|e| e.to_string()),
                _ => s.own_leaf_nodes::<_, Blob>(g).map(|v| v.get(n(2) as usize).map(|b| b.0)).map_err(|e| e.to_string()),
            };
            match r { Ok(v) => format!("val:{}", show_opt(v)), Err(_) => "err".into() }
        }
        "MlsDelete" => {
            let g = m.gid(n(0)); let g = g.inner();
            ok(match n(1) {
                0 => s.delete_tree(g), 1 => s.delete_context(g), 2 => s.delete_interim_transcript_hash(g), 3 => s.delete_confirmation_tag(g),
                4 => s.remove_proposal(g, &Blob(n(2))),
                _ => s.delete_encryption_epoch_key_pairs(g, &Blob(n(2) / 16), (n(2) % 16) as u32),
            }.map_err(|e| e.to_string()))
        }
        "GlobalWrite" => ok(match n(0) {
            0 => s.write_key_package(&Blob(n(1)), &Blob(n(2))), 1 => s.write_psk(&Blob(n(1)), &Blob(n(2))),
            2 => s.write_signature_key_pair(&Blob(n(1)), &Blob(n(2))), _ => s.write_encryption_key_pair(&Blob(n(1)), &Blob(n(2))),
        }.map_err(|e| e.to_string())),
        "GlobalRead" => {
            let r: Result<Option<u64>, String> = match n(0) {
                0 => s.key_package::<Blob, Blob>(&Blob(n(1))).map(|x| x.map(|b| b.0)).map_err(|e| e.to_string()),
                1 => s.psk::<Blob, Blob>(&Blob(n(1))).map(|x| x.map(|b| b.0)).map_err(|e| e.to_string()),
                2 => s.signature_key_pair::<Blob, Blob>(&Blob(n(1))).map(|x| x.map(|b| b.0)).map_err(|e| e.to_string()),
                _ => s.encryption_key_pair::<Blob, Blob>(&Blob(n(1))).map(|x| x.map(|b| b.0)).map_err(|e| e.to_string()),
            };
            match r { Ok(v) => format!("val:{}", show_opt(v)), Err(_) => "err".into() }
        }
        "GlobalDelete" => ok(match n(0) {
            0 => s.delete_key_package(&Blob(n(1))), 1 => s.delete_psk(&Blob(n(1))),
            2 => s.delete_signature_key_pair(&Blob(n(1))), _ => s.delete_encryption_key_pair(&Blob(n(1))),
        }.map_err(|e| e.to_string())),
        "Snapshot" => ok(s.create_group_snapshot(&m.gid(n(0)), &m.name(n(1))).map_err(|e| e.to_string())),
        "Rollback" => ok(s.rollback_group_to_snapshot(&m.gid(n(0)), &m.name(n(1))).map_err(|e| e.to_string())),
        "Release" => ok(s.release_group_snapshot(&m.gid(n(0)), &m.name(n(1))).map_err(|e| e.to_string())),
        "ListSnaps" => match s.list_group_snapshots(&m.gid(n(0))) { Ok(v) => { let mut l: Vec<u64> = v.iter().map(|(nm, _)| m.name_n(nm)).collect(); l.sort(); format!("snaps:{}", show_list(&l)) } Err(_) => "err".into() },
        // prune everything (min_ts = far future) or nothing (0): snapshot creation time is the wall clock
        "Prune" => match s.prune_expired_snapshots(if n(0) == 0 { 0 } else { u64::MAX / 4 }) { Ok(c) => format!("count:{c}"), Err(_) => "err".into() },
        _ => "UNKNOWN-CASE".into(),
    }
}


/// Full observable copy of the store through the public API over the key pools the generator uses.
/// Keys are tagged with the group whose restorable view they belong to ("V<g>:" = view of g, "S<g>:" = snapshot
/// listing of g, "O:" = everything else).
fn observe<S: MdkStorageProvider>(s: &S, m: &Maps) -> BTreeMap<String, String> {
    let mut d = BTreeMap::new();
    for g in 0..5u64 {
        d.insert(format!("V{g}:group"), exec(s, m, &format!("ST FindGroup {g}")));
        d.insert(format!("V{g}:relays"), exec(s, m, &format!("ST Relays {g}")));
        for e in 0..4u64 { d.insert(format!("V{g}:secret{e}"), exec(s, m, &format!("ST GetSecret {g} {e}"))); }
        for t in 0..4u64 { d.insert(format!("V{g}:mls{t}"), exec(s, m, &format!("ST MlsRead {g} {t} 0"))); }
        for k in 0..3u64 { d.insert(format!("V{g}:prop{k}"), exec(s, m, &format!("ST MlsRead {g} 4 {k}"))); }
        for e in 0..3u64 { for l in 0..2u64 { d.insert(format!("V{g}:ekp{e}_{l}"), exec(s, m, &format!("ST MlsRead {g} 5 {}", e * 16 + l))); } }
        for k in 0..4u64 { d.insert(format!("V{g}:leaf{k}"), exec(s, m, &format!("ST MlsRead {g} 6 {k}"))); }
        d.insert(format!("S{g}:snaps"), exec(s, m, &format!("ST ListSnaps {g}")));
        for i in 0..12u64 { d.insert(format!("O:msg{g}_{i}"), exec(s, m, &format!("ST FindMsg {g} {i}"))); }
    }
    for n in 0..17u64 { d.insert(format!("N:nostr{n}"), exec(s, m, &format!("ST FindByNostr {n}"))); }
    for w in 0..10u64 { d.insert(format!("O:pmsg{w}"), exec(s, m, &format!("ST FindPmsg {w}"))); }
    for w in 0..6u64 { d.insert(format!("O:welcome{w}"), exec(s, m, &format!("ST FindWelcome {w}"))); }
    for w in 0..5u64 { d.insert(format!("O:pwelcome{w}"), exec(s, m, &format!("ST FindPwelcome {w}"))); }
    for t in 0..4u64 { for k in 0..3u64 { d.insert(format!("O:global{t}_{k}"), exec(s, m, &format!("ST GlobalRead {t} {k}"))); } }
    d
}

/// C18 at the storage layer: the page returned is the exact slice of the full listing, the full listing is
/// strictly descending in the documented key, and last_message is its head.
fn check_listing<S: MdkStorageProvider>(s: &S, m: &Maps, line: &str, res: &str) -> Option<String> {
    let t: Vec<&str> = line.split(' ').collect();
    if !res.starts_with("msgs:") { return None; }
    let (g, limit, sort) = (t[2], t[3].parse::<usize>().unwrap(), t[5]);
    let full = exec(s, m, &format!("ST Messages {g} 10000 0 {sort}"));
    let parse = |r: &str| -> Vec<String> { let b = &r[5..]; if b == "-" { vec![] } else { b.split(';').map(|x| x.to_string()).collect() } };
    let fl = parse(&full);
    let key = |x: &str| -> (u64, u64, u64) { let f: Vec<&str> = x[2..x.len() - 1].split(',').collect(); let (c, p, i) = (f[4].parse().unwrap(), f[5].parse().unwrap(), f[0].parse().unwrap()); if sort == "0" { (c, p, i) } else { (p, c, i) } };
    for w in fl.windows(2) { if key(&w[0]) <= key(&w[1]) { return Some(format!("full listing not strictly descending: {} then {}", w[0], w[1])); } }
    let off: usize = match t[4] { "max" => usize::MAX, "i64max1" => (i64::MAX as usize) + 1, x => x.parse().unwrap() };
    let start = off.min(fl.len()); let end = off.saturating_add(limit).min(fl.len());
    if parse(res) != fl[start..end].to_vec() { return Some(format!("page (limit {limit}, offset {}) is not the slice of the full listing: got {res}, full {full}", t[4])); }
    let last = exec(s, m, &format!("ST LastMessage {g} {sort}"));
    let head = fl.first().map(|x| format!("msg:{x}")).unwrap_or("msg:-".into());
    if last != head { return Some(format!("last_message {last} is not the head of the listing {head}")); }
    // every message findable by id is listed exactly once
    let mut found = 0; for i in 0..12 { if exec(s, m, &format!("ST FindMsg {g} {i}")) != "msg:-" { found += 1; } }
    if found != fl.len() { return Some(format!("listing has {} messages but {} are findable by id", fl.len(), found)); }
    None
}

// ---------------------------------------------------------------- generation
struct Gen { r: Rng, nostr: BTreeMap<u64, u64>, groups: BTreeSet<u64>, msg_ids: BTreeMap<u64, BTreeSet<u64>>, snaps: BTreeSet<(u64, u64)>, leafs: BTreeMap<u64, u64>, max_msgs: usize }
impl Gen {
    fn o(&mut self) -> String { if self.r.chance(1, 3) { "-".into() } else { self.r.below(4).to_string() } }
    fn group_line(&mut self, g: u64) -> String {
        // each group draws nostr ids from its own pool {g*4 .. g*4+1}; collisions with another group are a separate op
        let nostr = g * 4 + self.r.below(2); self.nostr.insert(g, nostr);
        let adm: Vec<u64> = { let k = self.r.below(4); let mut s = BTreeSet::new(); for _ in 0..k { s.insert(self.r.below(6)); } s.into_iter().collect() };
        let last = if self.r.chance(1, 2) { ("-".to_string(), "-".to_string(), "-".to_string()) } else { (self.r.below(8).to_string(), self.r.below(5).to_string(), self.o()) };
        format!("ST SaveGroup {g} {nostr} {} {} {} {} {} {} {} {} {} {}", self.r.below(5), self.r.below(5), show_list(&adm), self.r.below(3) * 10, last.0, last.1, last.2,
            self.r.below(6), self.r.below(3), self.r.below(3) * 100)
    }
    fn any_group(&mut self) -> u64 { if self.r.chance(1, 8) || self.groups.is_empty() { self.r.below(5) } else { let v: Vec<u64> = self.groups.iter().cloned().collect(); *self.r.pick(&v) } }
    fn next(&mut self) -> (String, &'static str) {
        let g = self.any_group();
        let k = self.r.below(100);
        match k {
            0..=7 => { let g = self.r.below(4); self.groups.insert(g); (self.group_line(g), "SaveGroup") }
            8 => { // nostr id currently held by another existing group: must be refused, nothing changes
                let holders: Vec<(u64, u64)> = self.nostr.iter().map(|(a, b)| (*a, *b)).collect();
                if holders.is_empty() { return (format!("ST FindGroup {g}"), "FindGroup"); }
                let (other, id) = *self.r.pick(&holders); let g = (other + 1 + self.r.below(3)) % 4;
                (format!("ST SaveGroup {g} {id} 1 1 - 0 - - - 0 0 0"), "SaveGroup-collide") }
            9..=10 => (format!("ST FindGroup {g}"), "FindGroup"),
            11 => ("ST Reopen".into(), "Reopen"),
            12..=13 => (format!("ST FindByNostr {}", self.r.below(17)), "FindByNostr"),
            14 => ("ST AllGroups".into(), "AllGroups"),
            15 => (format!("ST Admins {g}"), "Admins"),
            16..=17 => (format!("ST Relays {g}"), "Relays"),
            18..=20 => { let k = self.r.below(4); let mut s = BTreeSet::new(); for _ in 0..k { s.insert(self.r.below(5)); } (format!("ST ReplaceRelays {g} {}", show_list(&s.into_iter().collect::<Vec<_>>())), "ReplaceRelays") }
            21..=22 => (format!("ST GetSecret {g} {}", self.r.below(4)), "GetSecret"),
            23..=26 => (format!("ST SaveSecret {g} {} {}", self.r.below(4), self.r.below(50)), "SaveSecret"),
            27..=42 => {
                let id = self.r.below(self.max_msgs as u64);
                if self.groups.contains(&g) { self.msg_ids.entry(g).or_default().insert(id); }
                (format!("ST SaveMsg {id} {g} {} {} {} {} {} {} {} {} {}", self.r.below(4), self.r.below(3) + 9, self.r.below(4), self.r.below(4), self.r.below(9), self.r.below(9), self.r.below(12), self.o(), self.r.below(4)), "SaveMsg")
            }
            43..=44 => (format!("ST FindMsg {g} {}", self.r.below(self.max_msgs as u64)), "FindMsg"),
            45..=52 => {
                let limit = match self.r.below(10) { 0 => 0, 1 => 10000, 2 => 10001, 3 => 1000, _ => self.r.range(1, 5) };
                let off = match self.r.below(12) { 0 => "max".to_string(), 1 => "i64max1".to_string(), _ => self.r.below(6).to_string() };
                (format!("ST Messages {g} {limit} {off} {}", self.r.below(2)), "Messages")
            }
            53 => (format!("ST LastMessage {g} {}", self.r.below(2)), "LastMessage"),
            54 => {
                let o = |r: &mut Rng, lo: u64, n: u64| if r.chance(1, 6) { "-".to_string() } else { (lo + r.below(n)).to_string() };
                (format!("ST UpdPtr {} {} {} {} {} {}", o(&mut self.r, 9, 3), o(&mut self.r, 0, 3), o(&mut self.r, 0, 6), 9 + self.r.below(3), self.r.below(3), self.r.below(6)), "UpdPtr")
            }
            55..=60 => (format!("ST SavePmsg {} {} {} {} {} {} {}", self.r.below(10), self.o(), self.r.below(5), self.o(), if self.r.chance(1, 5) { "-".into() } else { self.r.below(4).to_string() }, self.r.below(6), self.o()), "SavePmsg"),
            61 => (format!("ST FindPmsg {}", self.r.below(10)), "FindPmsg"),
            62..=63 => (format!("ST InvalidateMsgs {g} {}", self.r.below(4)), "InvalidateMsgs"),
            64..=65 => (format!("ST InvalidatePmsgs {g} {}", self.r.below(4)), "InvalidatePmsgs"),
            66 => (format!("ST FindFailedRetry {g}"), "FindFailedRetry"),
            67 => (format!("ST FindInvalidatedMsgs {g}"), "FindInvalidatedMsgs"),
            68 => (format!("ST FindInvalidatedPmsgs {g}"), "FindInvalidatedPmsgs"),
            69..=70 => (format!("ST MarkRetryable {}", self.r.below(10)), "MarkRetryable"),
            71..=72 => (format!("ST SaveWelcome {} {g} {} {} {} {}", self.r.below(6), self.r.below(8), self.r.below(4), self.r.below(4), self.r.below(6)), "SaveWelcome"),
            73 => (format!("ST FindWelcome {}", self.r.below(6)), "FindWelcome"),
            74 => { let limit = match self.r.below(6) { 0 => 0, 1 => 10001, _ => self.r.range(1, 4) }; (format!("ST PendingWelcomes {limit} {}", self.r.below(4)), "PendingWelcomes") }
            75 => (format!("ST SavePwelcome {} {} {} {} {}", self.r.below(5), self.o(), self.r.below(5), self.r.below(2), self.o()), "SavePwelcome"),
            76 => (format!("ST FindPwelcome {}", self.r.below(5)), "FindPwelcome"),
            77..=82 => {
                let t = self.r.below(7);
                let key = match t { 0..=3 => 0, 4 => self.r.below(3), 5 => self.r.below(3) * 16 + self.r.below(2), _ => { let c = self.leafs.entry(g).or_insert(0); let k = *c; *c += 1; k } };
                (format!("ST MlsWrite {g} {t} {key} {}", self.r.below(90) + 1), "MlsWrite")
            }
            83..=84 => { let t = self.r.below(7); let key = match t { 0..=3 => 0, 4 => self.r.below(3), 5 => self.r.below(3) * 16 + self.r.below(2), _ => self.r.below(3) }; (format!("ST MlsRead {g} {t} {key}"), "MlsRead") }
            85 => { let t = self.r.below(6); let key = match t { 0..=3 => 0, 4 => self.r.below(3), _ => self.r.below(3) * 16 + self.r.below(2) }; (format!("ST MlsDelete {g} {t} {key}"), "MlsDelete") }
            86 => (format!("ST GlobalWrite {} {} {}", self.r.below(4), self.r.below(3), self.r.below(50)), "GlobalWrite"),
            87 => (format!("ST GlobalRead {} {}", self.r.below(4), self.r.below(3)), "GlobalRead"),
            88 => (format!("ST GlobalDelete {} {}", self.r.below(4), self.r.below(3)), "GlobalDelete"),
            89..=92 => {
                // snapshots are taken of existing groups only (MDK never snapshots a group it does not hold)
                if !self.groups.contains(&g) { return (format!("ST FindGroup {g}"), "FindGroup"); }
                let name = self.r.below(3); self.snaps.insert((g, name));
                (format!("ST Snapshot {g} {name} 0"), "Snapshot")
            }
            93..=95 => {
                let name = self.r.below(3);
                if self.snaps.remove(&(g, name)) { self.leafs.remove(&g); }
                (format!("ST Rollback {g} {name}"), "Rollback")
            }
            96 => { let name = self.r.below(3); self.snaps.remove(&(g, name)); (format!("ST Release {g} {name}"), "Release") }
            97..=98 => (format!("ST ListSnaps {g}"), "ListSnaps"),
            _ => { let all = self.r.chance(1, 2); if all { self.snaps.clear(); } (format!("ST Prune {}", if all { 1 } else { 0 }), "Prune") }
        }
    }
}

struct Both { mem: MdkMemoryStorage, sql: MdkSqliteStorage, dir: tempfile::TempDir }
fn fresh() -> Both {
    let d = tempfile::Builder::new().prefix("st").tempdir_in("/verif/.cache/tmp").unwrap();
    Both { mem: MdkMemoryStorage::new(), sql: MdkSqliteStorage::new_unencrypted(d.path().join("s.db")).unwrap(), dir: d }
}
/// Everything `observe` sees plus the listings (all groups, each group's messages in both orders, pending welcomes).
fn observe_all<S: MdkStorageProvider>(s: &S, m: &Maps) -> BTreeMap<String, String> {
    let mut d = observe(s, m);
    d.insert("L:groups".into(), exec(s, m, "ST AllGroups"));
    d.insert("L:pending".into(), exec(s, m, "ST PendingWelcomes 1000 0"));
    for g in 0..5u64 {
        for so in 0..2u64 { d.insert(format!("L:msgs{g}_{so}"), exec(s, m, &format!("ST Messages {g} 10000 0 {so}"))); d.insert(format!("L:last{g}_{so}"), exec(s, m, &format!("ST LastMessage {g} {so}"))); }
        d.insert(format!("L:admins{g}"), exec(s, m, &format!("ST Admins {g}")));
        d.insert(format!("L:retry{g}"), exec(s, m, &format!("ST FindFailedRetry {g}")));
        d.insert(format!("L:invm{g}"), exec(s, m, &format!("ST FindInvalidatedMsgs {g}")));
        d.insert(format!("L:invp{g}"), exec(s, m, &format!("ST FindInvalidatedPmsgs {g}")));
    }
    d
}
/// C11 at the storage layer: close the SQLite store (clean shutdown) and open the same file again; nothing observable
/// through the storage API may differ.  The memory backend is not persistent and is left alone.
fn reopen(st: &mut Both, m: &Maps, fails: &mut Vec<(&'static str, String)>) -> String {
    let before = guarded_map(|| observe_all(&st.sql, m));
    let path = st.dir.path().join("s.db");
    let tmp = match MdkSqliteStorage::new_unencrypted(st.dir.path().join("idle.db")) { Ok(t) => t, Err(_) => return "err".into() };
    drop(std::mem::replace(&mut st.sql, tmp));
    match catch_unwind(AssertUnwindSafe(|| MdkSqliteStorage::new_unencrypted(&path))) {
        Ok(Ok(s)) => st.sql = s,
        Ok(Err(e)) => { fails.push(("C11", format!("[sqlite] the database cannot be opened again after a clean close: {e}"))); return "err".into(); }
        Err(_) => { fails.push(("C11", "[sqlite] opening the database again panicked".into())); return "PANIC".into(); }
    }
    let after = guarded_map(|| observe_all(&st.sql, m));
    for (k, v) in &before { if after.get(k) != Some(v) { fails.push(("C11", format!("[sqlite] closing and reopening the database changed {k}: {v} -> {}", after.get(k).cloned().unwrap_or("?".into())))); break; } }
    "ok".into()
}
fn guarded_map<F: FnOnce() -> BTreeMap<String, String>>(f: F) -> BTreeMap<String, String> { catch_unwind(AssertUnwindSafe(f)).unwrap_or_else(|_| BTreeMap::from([("PANIC".to_string(), "PANIC".to_string())])) }
fn guarded<F: FnOnce() -> String>(f: F) -> String { catch_unwind(AssertUnwindSafe(f)).unwrap_or("PANIC".into()) }

/// Oracles evaluated around one call on one backend (C09 frame / exactness, C18 listing).
fn run_with_oracles<S: MdkStorageProvider>(s: &S, m: &Maps, backend: &str, line: &str, copies: &mut BTreeMap<(u64, u64), BTreeMap<String, String>>,
                                           fails: &mut Vec<(&'static str, String)>) -> String {
    let t: Vec<&str> = line.split(' ').collect();
    let snapshot_family = matches!(t[1], "Snapshot" | "Rollback" | "Release" | "ListSnaps" | "Prune");
    let before = if snapshot_family { Some(observe(s, m)) } else { None };
    let res = guarded(|| exec(s, m, line));
    if let Some(before) = before {
        let after = observe(s, m);
        let g: u64 = if t.len() > 2 && t[1] != "Prune" { t[2].parse().unwrap() } else { 99 };
        let vp = format!("V{g}:"); let sp = format!("S{g}:");
        match t[1] {
            "Snapshot" if res == "ok" => { copies.insert((g, t[3].parse().unwrap()), before.iter().filter(|(k, _)| k.starts_with(&vp)).map(|(k, v)| (k.clone(), v.clone())).collect()); }
            _ => {}
        }
        if t[1] == "Rollback" && res == "ok" {
            if let Some(copy) = copies.remove(&(g, t[3].parse().unwrap())) {
                for (k, v) in &copy { if after.get(k) != Some(v) { fails.push(("C09", format!("[{backend}] rollback did not restore {k}: snapshot-time {v}, after rollback {}", after[k]))); break; } }
            }
            for (k, v) in &before {
                if k.starts_with(&vp) || k.starts_with(&sp) || k.starts_with("N:") { continue; }
                if after.get(k) != Some(v) { fails.push(("C09", format!("[{backend}] rollback of group {g} changed {k}: {v} -> {}", after[k]))); break; }
            }
            // the nostr-id index agrees with the group records after the rollback: each id leads to the group that carries it
            // now (the restored record of g included), and an id no group carries any more leads nowhere
            for n in 0..17u64 {
                let holder = (0..5u64).map(|h| after[&format!("V{h}:group")].clone()).find(|rec| rec.strip_prefix("group:g(").and_then(|x| x.split(',').nth(1)).and_then(|x| x.parse::<u64>().ok()) == Some(n));
                let want = holder.unwrap_or("group:-".into());
                let got = &after[&format!("N:nostr{n}")];
                if *got != want { fails.push(("C09", format!("[{backend}] after the rollback of group {g} the lookup by nostr id {n} gives {got}, the group records say {want}"))); break; }
            }
        } else {
            // taking, releasing, listing or pruning snapshots changes no live state (and a failed rollback nothing)
            for (k, v) in &before {
                if k.starts_with('S') { continue; }
                if after.get(k) != Some(v) { fails.push(("C09", format!("[{backend}] {} changed live state {k}: {v} -> {}", t[1], after[k]))); break; }
            }
        }
        if t[1] == "Release" { copies.remove(&(g, t[3].parse().unwrap())); }
        if t[1] == "Prune" && t[2] != "0" { copies.clear(); }
    }
    if t[1] == "UpdPtr" && t[2] != "-" && t[3] != "-" && t[4] != "-" && t[4] != t[7] && res.starts_with("ptr:") {
        // C18: the cached pointer names the head of the listing: put the pointed-at message and the new one into a scratch
        // store, list them in display order, and compare the head with the pointer after the update
        let scratch = MdkMemoryStorage::new();
        let ga = "0 0 0 0 - 0 - - - 1 0 0".split(' ').collect::<Vec<_>>();
        let _ = scratch.save_group(mk_group(m, &ga));
        let old = format!("{} 0 1 9 {} {} 0 0 0 - 1", t[4], t[2], t[3]);
        let new = format!("{} 0 1 9 {} {} 0 0 1 - 1", t[7], t[5], t[6]);
        let _ = scratch.save_message(mk_msg(m, &old.split(' ').collect::<Vec<_>>()));
        let _ = scratch.save_message(mk_msg(m, &new.split(' ').collect::<Vec<_>>()));
        if let Ok(list) = scratch.messages(&m.gid(0), None) { if let Some(head) = list.first() {
            let want = format!("ptr:{},{},{}", head.created_at.as_secs(), head.processed_at.as_secs(), m.eid_n(&head.id));
            if !res.starts_with(&want) { fails.push(("C18", format!("[{backend}] last-message pointer ({},{},{}) offered message ({},{},{}) becomes {res}, but the listing of those two messages is headed by {want}", t[2], t[3], t[4], t[5], t[6], t[7]))); }
        } }
    }
    if t[1] == "Messages" && res != "PANIC" {
        if let Some(e) = guarded(|| check_listing(s, m, line, &res).unwrap_or_default()).into() { let e: String = e; if !e.is_empty() { fails.push(("C18", format!("[{backend}] {e}"))); } }
    }
    res
}

fn main() {
    std::panic::set_hook(Box::new(|_| {}));
    let backend = arg("--backend").unwrap_or("mem".into());
    let out = arg("--out").unwrap_or(format!("/verif/.cache/run/storage-{backend}"));
    let mut run = Run::new(&out, "random operation sequences over all storage-trait methods with small key pools (4 groups, 12 message ids, 10 wrapper ids, 3 snapshot names; overwrites, timestamp ties on both keys, id reuse across groups, missing groups, boundary limits 0/10000/10001 and offsets up to usize::MAX), each sequence from a fresh store, executed on BOTH backends; non-trivial = distinct op line executed after at least one snapshot exists in its sequence, or a paginated listing over >=2 messages");
    std::fs::create_dir_all("/verif/.cache/tmp").unwrap();
    let m = Maps::new();
    let replay = arg("--cases");
    let lines: Vec<(String, &'static str)> = if let Some(f) = replay {
        std::fs::read_to_string(f).unwrap().lines().filter(|l| !l.is_empty() && !l.starts_with('#')).map(|l| (l.to_string(), "replay")).collect()
    } else {
        let nseq: u64 = arg("--seqs").and_then(|s| s.parse().ok()).unwrap_or(60);
        let len: u64 = arg("--len").and_then(|s| s.parse().ok()).unwrap_or(60);
        let mut r = Rng::from_env();
        let mut v = vec![];
        if let Ok(c) = std::fs::read_to_string("/verif/corpus/storage.txt") {
            for l in c.lines() { if !l.is_empty() && !l.starts_with('#') { v.push((l.to_string(), "corpus")); } }
        }
        for _ in 0..nseq {
            v.push(("ST RESET".to_string(), "RESET"));
            let mut g = Gen { r: r.fork(), nostr: BTreeMap::new(), groups: BTreeSet::new(), msg_ids: BTreeMap::new(), snaps: BTreeSet::new(), leafs: BTreeMap::new(), max_msgs: 12 };
            let n = len / 2 + g.r.below(len);
            for _ in 0..n {
                let (l, c) = g.next();
                // after a rollback, look the group up under both nostr ids of its pool (the restored one and the abandoned one)
                let follow: Vec<String> = if c == "SaveWelcome" {
                    // pending-welcome pages right after a welcome changed state: small windows over a mix of pending and non-pending welcomes
                    vec![format!("ST PendingWelcomes {} {}", 1 + g.r.below(3), g.r.below(4))]
                } else if c == "Rollback" { let gi: u64 = l.split(' ').nth(2).unwrap().parse().unwrap(); vec![format!("ST FindByNostr {}", gi * 4), format!("ST FindByNostr {}", gi * 4 + 1)] } else { vec![] };
                v.push((l, c));
                for f in follow { v.push((f, "FindByNostr")); }
            }
            // epilogue: read everything listable back, so that a difference left behind by any earlier operation is observed
            // (by the other backend and by the model) even if the random tail of the sequence never looks at it
            v.push(("ST AllGroups".into(), "epilogue")); v.push(("ST PendingWelcomes 1000 0".into(), "epilogue"));
            for gi in 0..4u64 {
                for l in [format!("ST ListSnaps {gi}"), format!("ST Messages {gi} 10000 0 0"), format!("ST Messages {gi} 10000 0 1"), format!("ST Relays {gi}"), format!("ST Admins {gi}"),
                          format!("ST FindInvalidatedMsgs {gi}"), format!("ST FindInvalidatedPmsgs {gi}"), format!("ST FindFailedRetry {gi}")] { v.push((l, "epilogue")); }
            }
        }
        v
    };
    let mut st = fresh();
    let (mut copies_mem, mut copies_sql) = (BTreeMap::new(), BTreeMap::new());
    let mut have_snap = false;
    let mut seq_start = 0usize;
    for (i, (line, class)) in lines.iter().enumerate() {
        if line == "ST RESET" { st = fresh(); copies_mem.clear(); copies_sql.clear(); have_snap = false; seq_start = i; run.case("RESET", false, line.clone(), "RESET".into()); continue; }
        let mut fails: Vec<(&'static str, String)> = vec![];
        if line == "ST Reopen" {
            let r = reopen(&mut st, &m, &mut fails);
            let seq = lines[seq_start..=i].iter().map(|(l, _)| l.clone()).collect::<Vec<_>>().join(" || ");
            for (p, d) in fails { run.oracle_fail(p, "", d, seq.clone()); }
            run.case(class, have_snap, line.clone(), r); continue;
        }
        let rm = run_with_oracles(&st.mem, &m, "memory", line, &mut copies_mem, &mut fails);
        let rs = run_with_oracles(&st.sql, &m, "sqlite", line, &mut copies_sql, &mut fails);
        let seq = || lines[seq_start..=i].iter().map(|(l, _)| l.clone()).collect::<Vec<_>>().join(" || ");
        if rm != rs { fails.push(("C10", format!("backends disagree on `{line}`: memory {rm} / sqlite {rs}"))); }
        if matches!(line.split(' ').nth(1), Some("Snapshot" | "Rollback" | "Release" | "Prune")) {
            // the snapshot family moves whole groups of rows at once: compare everything observable on the two backends right
            // after it, not only what the rest of the sequence happens to read
            let (om, os) = (guarded_map(|| observe(&st.mem, &m)), guarded_map(|| observe(&st.sql, &m)));
            if let Some((k, v)) = om.iter().find(|(k, v)| os.get(*k) != Some(*v)) {
                fails.push(("C10", format!("after `{line}` the backends differ on {k}: memory {v} / sqlite {}", os.get(k).cloned().unwrap_or("?".into()))));
            }
        }
        for (b, r) in [("memory", &rm), ("sqlite", &rs)] { if r == "PANIC" { fails.push(("C06", format!("storage call panicked on backend {b}: {line}"))); } }
        for (p, d) in fails { run.oracle_fail(p, "", d, seq()); }
        let res = if backend == "mem" { rm } else { rs };
        if line.starts_with("ST Snapshot") && res == "ok" { have_snap = true; }
        let nontriv = have_snap || (line.starts_with("ST Messages") && res.matches("m(").count() >= 2);
        run.case(class, nontriv, line.clone(), res);
    }
    run.finish();
    println!("storage_diff[{backend}]: {} lines, {} oracle failures", run.cases.len(), run.oracle.len());
}
