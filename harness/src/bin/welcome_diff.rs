//! welcome_diff – invitation handling (process / accept / decline welcome, replays under new wrapper ids, malformed
//! rumors, invitations for other people's key packages) on a real recipient, compared with the extracted Coq model
//! (Mdk/Welcome.v), plus the C16 oracles evaluated directly on the implementation.
//!
//! Case lines: `WL RESET` ; `WL PROCESS <inv> <wrapper> | facts` ; `WL ACCEPT <inv>` ; `WL DECLINE <inv>` ; `WL MSG <group> <n>`
use std::panic::{AssertUnwindSafe, catch_unwind};

use mdk_core::groups::NostrGroupConfigData;
use mdk_core::{GroupId, MDK};
use mdk_memory_storage::MdkMemoryStorage;
use mdk_sqlite_storage::MdkSqliteStorage;
use mdk_storage_traits::MdkStorageProvider;
use mdk_storage_traits::groups::types::GroupState;
use mdk_storage_traits::welcomes::types::WelcomeState;
use mdk_verif_harness::out::{Run, arg};
use mdk_verif_harness::rng::Rng;
use nostr::{Event, EventBuilder, EventId, Keys, Kind, RelayUrl, Tag, UnsignedEvent};

fn kp<S: MdkStorageProvider>(mdk: &MDK<S>, keys: &Keys) -> Event {
    let relays = vec![RelayUrl::parse("wss://test.relay").unwrap()];
    let (c, tags, _) = mdk.create_key_package_for_event(&keys.public_key(), relays).unwrap();
    EventBuilder::new(Kind::MlsKeyPackage, c).tags(tags).sign_with_keys(keys).unwrap()
}

struct Inv { rumor: UnsignedEvent, shape: bool, dec: bool, kp: u64, gid: u64, id: Option<u64>, nostr: Option<[u8; 32]>, mls: Option<GroupId> }

struct Scene<S: MdkStorageProvider> {
    b: MDK<S>, _bk: Keys,
    inviters: Vec<(MDK<MdkMemoryStorage>, Keys, GroupId)>,
    invs: Vec<Inv>,
    kick: Option<Event>,      // the commit by which the inviter of group 2 removed B (built together with invitation 7)
}

impl<S: MdkStorageProvider> Scene<S> {
    fn new(storage: S) -> Self {
        let b = MDK::new(storage);
        let bk = Keys::generate();
        let ck = Keys::generate();
        let c = MDK::new(MdkMemoryStorage::new());
        let mut inviters = vec![];
        let mut invs = vec![];
        for g in 1..=2u64 {
            let a = MDK::new(MdkMemoryStorage::new());
            let ak = Keys::generate();
            let kpb = kp(&b, &bk);
            let kpc = kp(&c, &ck);
            let cfg = NostrGroupConfigData::new(format!("g{g}"), "d".into(), None, None, None, vec![RelayUrl::parse("wss://test.relay").unwrap()], vec![ak.public_key()]);
            let r = a.create_group(&ak.public_key(), vec![kpb, kpc], cfg).unwrap();
            a.merge_pending_commit(&r.group.mls_group_id).unwrap();
            let gid = r.group.mls_group_id.clone();
            let wb = r.welcome_rumors[0].clone();
            let wc = r.welcome_rumors[1].clone();
            // 0/1: the valid invitation for B to group g
            invs.push(Inv { rumor: wb.clone(), shape: true, dec: true, kp: g, gid: g, id: Some(g * 10), nostr: None, mls: None });
            if g == 1 {
                // 2: wrong kind ; 3: encoding tag dropped ; 4: content is base64 but not an MLS message ; 5: invitation for C's key package ; 6: rumor without id
                let mut x = wb.clone(); x.kind = Kind::TextNote; x.id = None; x.ensure_id();
                invs.push(Inv { rumor: x, shape: false, dec: true, kp: g, gid: g, id: Some(12), nostr: None, mls: None });
                let mut x = wb.clone(); x.tags = nostr::Tags::from_list(x.tags.iter().filter(|t| t.kind().to_string() != "encoding").cloned().collect::<Vec<Tag>>()); x.id = None; x.ensure_id();
                invs.push(Inv { rumor: x, shape: false, dec: false, kp: g, gid: g, id: Some(13), nostr: None, mls: None });
                let mut x = wb.clone(); x.content = "AAECAwQFBgcICQ==".into(); x.id = None; x.ensure_id();
                invs.push(Inv { rumor: x, shape: true, dec: false, kp: g, gid: g, id: Some(14), nostr: None, mls: None });
                // an invitation to a group B was never invited to (only C holds a matching key package)
                let a3 = MDK::new(MdkMemoryStorage::new()); let a3k = Keys::generate();
                let cfg3 = NostrGroupConfigData::new("g3".into(), "d".into(), None, None, None, vec![RelayUrl::parse("wss://test.relay").unwrap()], vec![a3k.public_key()]);
                let r3 = a3.create_group(&a3k.public_key(), vec![kp(&c, &ck)], cfg3).unwrap();
                let _ = wc;
                invs.push(Inv { rumor: r3.welcome_rumors[0].clone(), shape: true, dec: true, kp: 99, gid: 3, id: Some(15), nostr: None, mls: None });
                let mut x = wb.clone(); x.id = None;
                invs.push(Inv { rumor: x, shape: true, dec: true, kp: g, gid: g, id: None, nostr: None, mls: None });
            }
            inviters.push((a, ak, gid));
        }
        // order: index 0 = group1 valid, 1..=5 = malformed variants of group 1, 6 = group2 valid
        for inv in invs.iter_mut() {
            if inv.gid == 1 || inv.gid == 2 {
                let (a, _, gid) = &inviters[(inv.gid - 1) as usize];
                inv.nostr = a.get_group(gid).ok().flatten().map(|g| g.nostr_group_id); inv.mls = Some(gid.clone());
            }
        }
        Scene { b, _bk: bk, inviters, invs, kick: None }
    }
    fn gid(&self, g: u64) -> GroupId { self.inviters[(g - 1) as usize].2.clone() }
    /// invitation 8 (built on first use, after 7): a hostile outsider creates its own group with B, rotates that group's Nostr
    /// group id onto the id of group 1 (public: it is the h tag of every group event) and invites B again.  Storing it would
    /// re-point the routing of group 1's events.
    fn build_hostile(&mut self) {
        self.build_reinvite();
        if self.invs.len() != 8 { return; }
        let n1 = match self.invs[0].nostr { Some(n) => n, None => return };
        let (kp1, kp2) = (kp(&self.b, &self._bk), kp(&self.b, &self._bk));
        let m = MDK::new(MdkMemoryStorage::new()); let mk = Keys::generate();
        let mut first: Option<(UnsignedEvent, [u8; 32])> = None;
        let built = (|| -> Option<(UnsignedEvent, GroupId)> {
            let cfg = NostrGroupConfigData::new("gx".into(), "d".into(), None, None, None, vec![RelayUrl::parse("wss://test.relay").unwrap()], vec![mk.public_key()]);
            let r = m.create_group(&mk.public_key(), vec![kp1], cfg).ok()?; let gx = r.group.mls_group_id.clone();
            first = Some((r.welcome_rumors.first().cloned()?, r.group.nostr_group_id));
            m.merge_pending_commit(&gx).ok()?;
            m.remove_members(&gx, &[self._bk.public_key()]).ok()?; m.merge_pending_commit(&gx).ok()?;
            m.update_group_data(&gx, mdk_core::groups::NostrGroupDataUpdate::new().nostr_group_id(n1)).ok()?; m.merge_pending_commit(&gx).ok()?;
            let r2 = m.add_members(&gx, &[kp2]).ok()?; m.merge_pending_commit(&gx).ok()?;
            Some((r2.welcome_rumors?.first().cloned()?, gx))
        })();
        if let (Some((rumor, gx)), Some((r1, nx))) = (built, first) {
            self.invs.push(Inv { rumor, shape: true, dec: true, kp: 4, gid: 4, id: Some(28), nostr: Some(n1), mls: Some(gx.clone()) });
            // invitation 9: the hostile inviter's FIRST welcome to the same group (its own Nostr id): harmless by itself, but once it is
            // stored the group is a stored group whose record a later welcome rewrites
            self.invs.push(Inv { rumor: r1, shape: true, dec: true, kp: 5, gid: 4, id: Some(29), nostr: Some(nx), mls: Some(gx) });
        }
    }
    /// invitation 7 (built on first use): the inviter of group 2 removes B, renames the group and re-adds B with a fresh key
    /// package: an invitation to the same group at a LATER epoch.  The removal commit is kept as `kick`.
    fn build_reinvite(&mut self) {
        if self.invs.len() != 7 { return; }
        let fresh_kp = kp(&self.b, &self._bk);
        let (a, _ak, gid) = &self.inviters[1];
        let bpk = self._bk.public_key();
        let mut kick = None;
        let built = (|| -> Option<UnsignedEvent> {
            let rm = a.remove_members(gid, &[bpk]).ok()?; a.merge_pending_commit(gid).ok()?;
            kick = Some(rm.evolution_event);
            a.update_group_data(gid, mdk_core::groups::NostrGroupDataUpdate::new().name("g2-renamed".to_string())).ok()?; a.merge_pending_commit(gid).ok()?;
            let r = a.add_members(gid, &[fresh_kp]).ok()?; a.merge_pending_commit(gid).ok()?;
            r.welcome_rumors?.first().cloned()
        })();
        self.kick = kick;
        if let Some(rumor) = built { self.invs.push(Inv { rumor, shape: true, dec: true, kp: 3, gid: 2, id: Some(27), nostr: None, mls: None }); }
    }
    fn fingerprint(&self, res: &str) -> String {
        let mut parts = vec![format!("res={res}")];
        for g in 1..=2u64 {
            let rec = self.b.get_group(&self.gid(g)).ok().flatten();
            let joined = self.b.load_mls_group(&self.gid(g)).ok().flatten().is_some();
            parts.push(match rec {
                Some(r) => format!("g{g}={}/{}/{}/{}", match r.state { GroupState::Active => 0, GroupState::Inactive => 1, GroupState::Pending => 2 }, r.last_message_id.is_some() as u8,
                    matches!(r.self_update_state, mdk_storage_traits::groups::types::SelfUpdateState::Required) as u8, joined as u8),
                None => format!("g{g}=-/{}", joined as u8),
            });
        }
        let mut ws = vec![];
        for (i, inv) in self.invs.iter().enumerate() {
            if let Some(id) = inv.rumor.id { if let Ok(Some(w)) = self.b.get_welcome(&id) { ws.push(format!("{i}:{}", match w.state { WelcomeState::Pending => 0, WelcomeState::Accepted => 1, WelcomeState::Declined => 2, WelcomeState::Ignored => 3 })); } }
        }
        parts.push(format!("welcomes={}", if ws.is_empty() { "-".into() } else { ws.join(",") }));
        parts.push(format!("pending={}", self.b.get_pending_welcomes(None).map(|v| v.len()).unwrap_or(99)));
        parts.join(" ")
    }
    fn exec(&mut self, line: &str) -> (String, String) {
        let t: Vec<&str> = line.split(" | ").next().unwrap().split(' ').collect();
        let n = |i: usize| t[i].parse::<u64>().unwrap();
        match t[1] {
            "PROCESS" => {
                let (i, wr) = (n(2) as usize, n(3));
                if i == 7 && self.invs.len() == 7 { self.build_reinvite(); }
                if false {
                    // invitation 7 (built on first use): the inviter of group 2 removes B and re-adds it with a fresh key package;
                    // B never sees the removal, so this is an invitation to a group B may be active in, at a LATER epoch
                    let fresh_kp = kp(&self.b, &self._bk);
                    let (a, _ak, gid) = &self.inviters[1];
                    let bpk = self._bk.public_key();
                    let built = (|| -> Option<UnsignedEvent> {
                        a.remove_members(gid, &[bpk]).ok()?; a.merge_pending_commit(gid).ok()?;
                        let r = a.add_members(gid, &[fresh_kp]).ok()?; a.merge_pending_commit(gid).ok()?;
                        r.welcome_rumors?.first().cloned()
                    })();
                    match built { Some(rumor) => self.invs.push(Inv { rumor, shape: true, dec: true, kp: 3, gid: 2, id: Some(27), nostr: None, mls: None }), None => return (format!("{} | unbuilt=1", t.join(" ")), "UNKNOWN-CASE".into()) }
                }
                if (i == 8 || i == 9) && self.invs.len() <= i { self.build_hostile(); if self.invs.len() <= i { return (format!("{} | unbuilt=1", t.join(" ")), "UNKNOWN-CASE".into()); } }
                let inv = &self.invs[i];
                // ground truth (from B's stored state, not from the outcome): the invitation's Nostr group id is already held by a
                // different stored group - such an invitation cannot be stored (the id routes incoming events)
                let collides = match (&inv.nostr, &inv.mls) { (Some(n), Some(g)) => self.b.get_groups().map(|gs| gs.iter().any(|x| x.nostr_group_id == *n && x.mls_group_id != *g)).unwrap_or(false), _ => false };
                let wid = EventId::from_byte_array([wr as u8 + 1; 32]);
                let r = catch_unwind(AssertUnwindSafe(|| self.b.process_welcome(&wid, &inv.rumor)));
                let facts = format!("shape={} dec={} col={} kp={} gid={} id={}", inv.shape as u8, inv.dec as u8, collides as u8, inv.kp, inv.gid, inv.id.map(|x| x.to_string()).unwrap_or("-".into()));
                let res = match r { Ok(Ok(_)) => "ok", Ok(Err(_)) => "err", Err(_) => "PANIC" };
                (format!("{} | {facts}", t.join(" ")), self.fingerprint(res))
            }
            "ACCEPT" | "DECLINE" => {
                let i = n(2) as usize;
                let w = self.invs.get(i).and_then(|x| x.rumor.id).and_then(|id| self.b.get_welcome(&id).ok().flatten());
                let res = match w {
                    None => "err",
                    Some(w) => match catch_unwind(AssertUnwindSafe(|| if t[1] == "ACCEPT" { self.b.accept_welcome(&w) } else { self.b.decline_welcome(&w) })) { Ok(Ok(())) => "ok", Ok(Err(_)) => "err", Err(_) => "PANIC" },
                };
                (t.join(" "), self.fingerprint(res))
            }
            "SELFUPDATE" => {
                // B rotates its key in group g (self_update + merge of the pending commit): the post-join obligation is discharged
                let gid = self.gid(n(2));
                let done = catch_unwind(AssertUnwindSafe(|| self.b.self_update(&gid).is_ok() && self.b.merge_pending_commit(&gid).is_ok())).unwrap_or(false);
                (format!("{} | done={}", t.join(" "), done as u8), self.fingerprint(if done { "ok" } else { "err" }))
            }
            "KICK" => {
                // B is offered the commit that removed it from group 2
                self.build_reinvite();
                let Some(ev) = self.kick.clone() else { return (format!("{} | applied=0", t.join(" ")), self.fingerprint("err")) };
                let r = catch_unwind(AssertUnwindSafe(|| self.b.process_message(&ev)));
                let applied = matches!(r, Ok(Ok(mdk_core::messages::MessageProcessingResult::Commit { .. })));
                (format!("{} | applied={}", t.join(" "), applied as u8), self.fingerprint(if applied { "ok" } else { "err" }))
            }
            "MSG" => {
                let (g, m) = (n(2), n(3));
                let (a, ak, gid) = &self.inviters[(g - 1) as usize];
                let rumor = EventBuilder::new(Kind::Custom(9), format!("m{m}")).build(ak.public_key());
                let ev = a.create_message(gid, rumor).unwrap();
                let r = catch_unwind(AssertUnwindSafe(|| self.b.process_message(&ev)));
                let ok = matches!(r, Ok(Ok(mdk_core::messages::MessageProcessingResult::ApplicationMessage(_))));
                (format!("{} | stored={}", t.join(" "), ok as u8), self.fingerprint(if ok { "ok" } else { "err" }))
            }
            _ => (t.join(" "), "UNKNOWN-CASE".into()),
        }
    }
}

fn strip(fp: &str) -> String { fp.split(' ').filter(|t| !t.starts_with("res=") && !t.starts_with("welcomes=") && !t.starts_with("pending=")).collect::<Vec<_>>().join(" ") }

fn run_all<S: MdkStorageProvider, F: Fn() -> S>(run: &mut Run, mk: F, backend: &str, fixed: Option<Vec<String>>, r: &mut Rng, nseq: u64, len: u64) {
    let mut seqs: Vec<Vec<String>> = vec![];
    if let Some(lines) = fixed {
        let mut cur = vec![];
        for l in lines { if l == "WL RESET" { if !cur.is_empty() { seqs.push(cur); } cur = vec![]; } else { cur.push(l); } }
        if !cur.is_empty() { seqs.push(cur); }
    } else {
        if let Ok(c) = std::fs::read_to_string("/verif/corpus/welcome.txt") {
            let mut cur = vec![];
            for l in c.lines().filter(|l| !l.is_empty() && !l.starts_with('#')) { if l == "WL RESET" { if !cur.is_empty() { seqs.push(cur); } cur = vec![]; } else { cur.push(l.to_string()); } }
            if !cur.is_empty() { seqs.push(cur); }
        }
        for _ in 0..nseq {
            let mut g = r.fork();
            let mut cur = vec![];
            for _ in 0..(len / 2 + g.below(len)) {
                let k = g.below(100);
                let inv = *g.pick(&[0u64, 0, 0, 6, 6, 1, 2, 3, 4, 5, 7, 7, 8, 8, 9, 9]);
                cur.push(if k < 50 { format!("WL PROCESS {inv} {}", g.below(3) + if inv == 6 { 3 } else if inv == 7 { 6 } else if inv == 8 { 9 } else if inv == 9 { 12 } else { 0 }) }
                    else if k < 68 { format!("WL ACCEPT {}", *g.pick(&[0u64, 0, 6, 4, 6])) }
                    else if k < 82 { format!("WL DECLINE {}", *g.pick(&[0u64, 6, 0, 5, 7])) }
                    else if k < 86 { "WL KICK".to_string() }
                    else if k < 91 { format!("WL SELFUPDATE {}", g.below(2) + 1) }
                    else { format!("WL MSG {} {}", g.below(2) + 1, g.below(50)) });
            }
            seqs.push(cur);
        }
    }
    for seq in seqs {
        let mut sc = Scene::new(mk());
        run.case("RESET", false, "WL RESET".into(), "RESET".into());
        let mut hist = vec!["WL RESET".to_string()];
        for l in seq {
            let before = sc.fingerprint("-");
            let (line, fp) = sc.exec(&l);
            hist.push(line.clone());
            // ---- C16 oracles on the implementation
            let t: Vec<&str> = l.split(' ').collect();
            for g in 1..=2u64 {
                let key = format!("g{g}=");
                let b = before.split(' ').find(|x| x.starts_with(&key)).unwrap().to_string();
                let a = fp.split(' ').find(|x| x.starts_with(&key)).unwrap().to_string();
                let was_active = b.starts_with(&format!("g{g}=0/"));
                // no invitation (processing or declining one) modifies or disables a group the user is active in
                if was_active && (t[1] == "PROCESS" || t[1] == "DECLINE") && a != b {
                    run.oracle_fail("C16", "", format!("[{backend}] `{l}` changed active group {g}: {b} -> {a}"), hist.join(" || "));
                }
                // only accepting yields an active group
                if !was_active && a.starts_with(&format!("g{g}=0/")) && t[1] != "ACCEPT" {
                    run.oracle_fail("C16", "", format!("[{backend}] `{l}` made group {g} active without acceptance: {b} -> {a}"), hist.join(" || "));
                }
                // accepting joins and leaves the key-rotation obligation pending
                let accepted_group = if t[1] == "ACCEPT" { sc.invs.get(t[2].parse::<usize>().unwrap()).map(|i| i.gid) } else { None };
                if t[1] == "ACCEPT" && fp.starts_with("res=ok") && a.starts_with(&format!("g{g}=0/")) && (!was_active || accepted_group == Some(g)) && !a.ends_with("/1/1") {
                    run.oracle_fail("C16", "", format!("[{backend}] accepted invitation but group {g} is not (joined, self-update required): {a}"), hist.join(" || "));
                }
            }
            // C16: events of a group the user is active in still route to that group (no invitation re-points its Nostr group id)
            for g in 1..=2u64 {
                let gid = sc.gid(g);
                if let Ok(Some(rec)) = sc.b.get_group(&gid) { if rec.state == GroupState::Active {
                    use mdk_storage_traits::groups::GroupStorage as _; use openmls_traits::OpenMlsProvider as _;
                    let routed = sc.b.provider.storage().find_group_by_nostr_group_id(&rec.nostr_group_id).ok().flatten().map(|x| x.mls_group_id);
                    if routed.as_ref() != Some(&gid) { run.oracle_fail("C16", "", format!("[{backend}] after `{l}` the Nostr group id of active group {g} routes to another stored group"), hist.join(" || ")); }
                } }
            }
            // C08: after a successful accept the stored record of the joined group mirrors the MLS state joined (epoch, name)
            if t[1] == "ACCEPT" && fp.starts_with("res=ok") {
                for g in 1..=2u64 {
                    let gid = sc.gid(g);
                    if let (Ok(Some(rec)), Ok(Some(mls))) = (sc.b.get_group(&gid), sc.b.load_mls_group(&gid)) {
                        if rec.state == GroupState::Active && mls.is_active() {
                            let name = mdk_core::extension::NostrGroupDataExtension::from_group(&mls).map(|x| x.name).unwrap_or_default();
                            if rec.epoch != mls.epoch().as_u64() || rec.name != name {
                                run.oracle_fail("C08", "", format!("[{backend}] after `{l}` the record of group {g} says epoch {} name {:?} while the joined MLS state is epoch {} name {:?}", rec.epoch, rec.name, mls.epoch().as_u64(), name), hist.join(" || "));
                            }
                        }
                    }
                }
            }
            // processing the same invitation again returns the same stored welcome and creates nothing new
            if t[1] == "PROCESS" && fp.starts_with("res=ok") {
                let (_, fp2) = sc.exec(&l);
                if strip(&fp2) != strip(&fp) || !fp2.starts_with("res=ok") { run.oracle_fail("C16", "", format!("[{backend}] processing `{l}` a second time changed state or failed: {fp} -> {fp2}"), hist.join(" || ")); }
            }
            if fp.starts_with("res=PANIC") { run.oracle_fail("C06", "", format!("[{backend}] panic in `{l}`"), hist.join(" || ")); }
            run.case(t[1], true, line, fp);
        }
    }
}

fn main() {
    if std::env::var("VERIF_SHOW_PANIC").is_err() { std::panic::set_hook(Box::new(|_| {})); }
    let backend = arg("--backend").unwrap_or("mem".into());
    let out = arg("--out").unwrap_or(format!("/verif/.cache/run/welcome-{backend}"));
    let mut run = Run::new(&out, "random sequences of process / accept / decline over two real invitations (two inviters, two groups) and five malformed or foreign variants, three wrapper ids each (replays under new wrapper ids before and after acceptance), interleaved with application messages that set the last-message pointer; non-trivial = every executed step (each runs real OpenMLS welcome processing)");
    std::fs::create_dir_all("/verif/.cache/tmp").unwrap();
    let mut r = Rng::from_env();
    let fixed = arg("--cases").map(|f| std::fs::read_to_string(f).unwrap().lines().filter(|l| !l.is_empty() && !l.starts_with('#')).map(|l| l.split(" | ").next().unwrap().to_string()).collect::<Vec<_>>());
    let nseq: u64 = arg("--seqs").and_then(|s| s.parse().ok()).unwrap_or(25);
    let len: u64 = arg("--len").and_then(|s| s.parse().ok()).unwrap_or(14);
    if backend == "mem" { run_all(&mut run, MdkMemoryStorage::new, "memory", fixed, &mut r, nseq, len); }
    else {
        let dir = tempfile::Builder::new().prefix("wl").tempdir_in("/verif/.cache/tmp").unwrap();
        let cnt = std::cell::Cell::new(0u64);
        run_all(&mut run, || { cnt.set(cnt.get() + 1); MdkSqliteStorage::new_unencrypted(dir.path().join(format!("b{}.db", cnt.get()))).unwrap() }, "sqlite", fixed, &mut r, nseq, len);
    }
    run.finish();
    println!("welcome_diff[{backend}]: {} lines, {} oracle failures", run.cases.len(), run.oracle.len());
}
